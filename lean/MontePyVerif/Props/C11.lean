import MontePyVerif.Lemmas.Flatten
import MontePyVerif.Lemmas.Layout
import MontePyVerif.Lemmas.LayoutModel
/-!
# C11 — the problem read does not depend on the file's physical layout

What is proved here is the **reader half** of C11 (lines → inputs): `_clean_line` and line splitting (LF / CRLF),
tab expansion, and the refinement of the model of `read_data` to the Spec reader.  The **lexer / LALR half**
(letter case, `=` versus blank, padding anywhere) lives in SLY, which is not modelled: it is tied by validation on
the real parser only (tools/props/c11.py), and is *not* claimed as a theorem.
-/
namespace MontePyVerif.C11
open MontePyVerif MontePyVerif.Reader MontePyVerif.Refine MontePyVerif.Flatten MontePyVerif.LineFacts

/-- **C11_tables**: the constants of `constants.py` the reader model and the Spec rest on, as the translator finds
    them now (`Gen/Constants.lean`): a tab is 8 columns (the Spec's tab stops), continuation needs 5 blanks (the
    Spec's columns 1-5), the ASCII ceiling is 127, and the column limit is 128 from 6.2 on and 80 before. -/
theorem C11_tables :
    Gen.tabSize = 8 ∧ Gen.blankSpaceContinue = 5 ∧ Gen.asciiCeiling = 127 ∧
    maxLineLength (6, 2, 0) = some 128 ∧ maxLineLength (6, 3, 0) = some 128 ∧
    maxLineLength (6, 1, 0) = some 80 ∧ maxLineLength (5, 1, 60) = some 80 ∧ maxLineLength (5, 0, 0) = none := by decide

/-! ## `_clean_line` and the line ends -/

/-- an ASCII line body: no byte ≥ 127, no CR, no LF -/
def PlainBytes (bs : List Nat) : Prop := ∀ b ∈ bs, b < Gen.asciiCeiling ∧ b ≠ 13 ∧ b ≠ 10

theorem cleanByte_plain (b : Nat) (h : b < Gen.asciiCeiling) : cleanByte b = Char.ofNat b := by
  unfold cleanByte; simp [h]

/-- bytes at or above `ASCII_CEILING` become blanks -/
theorem C11_clean_high (b : Nat) (h : b ≥ Gen.asciiCeiling) : cleanByte b = ' ' := by
  unfold cleanByte; simp; omega

theorem ofNat_ne_cr (b : Nat) (h1 : b < Gen.asciiCeiling) (h2 : b ≠ 13) : Char.ofNat b ≠ '\r' := by
  intro e
  have hb : b < 127 := h1
  have hv : b.isValidChar := by unfold Nat.isValidChar; omega
  have : (Char.ofNat b).val.toNat = b := by
    simp [Char.ofNat, hv, Char.ofNatAux]
  rw [e] at this
  exact h2 (by simpa using this.symm)

theorem fixNewlines_cons (c : Char) (t : List Char) (h : c ≠ '\r') : fixNewlines (c :: t) = c :: fixNewlines t :=
  fixNewlines.eq_4 c t (fun _ e _ => h e) (fun e => h e)

theorem fixNewlines_noCR (s : List Char) (h : ∀ c ∈ s, c ≠ '\r') : fixNewlines s = s := by
  induction s with
  | nil => rfl
  | cons c t ih =>
    rw [fixNewlines_cons c t (h c (by simp)), ih (fun d hd => h d (List.mem_cons_of_mem _ hd))]

/-- **C11_clean** (nothing else changes): a line of plain ASCII bytes is decoded byte by byte -/
theorem C11_clean_plain (bs : List Nat) (h : PlainBytes bs) : cleanLine bs = bs.map Char.ofNat := by
  unfold cleanLine
  have hm : bs.map cleanByte = bs.map Char.ofNat :=
    List.map_congr_left (fun b hb => cleanByte_plain b (h b hb).1)
  rw [hm]
  apply fixNewlines_noCR
  intro c hc
  obtain ⟨b, hb, rfl⟩ := List.mem_map.mp hc
  exact ofNat_ne_cr b (h b hb).1 (h b hb).2.1

theorem fixNewlines_append_noCR (s t : List Char) (h : ∀ c ∈ s, c ≠ '\r') :
    fixNewlines (s ++ t) = s ++ fixNewlines t := by
  induction s with
  | nil => rfl
  | cons c s ih =>
    rw [List.cons_append, fixNewlines_cons c _ (h c (by simp)), ih (fun d hd => h d (List.mem_cons_of_mem _ hd))]
    rfl

/-- **C11_clean** (line ends): LF, CRLF and a lone CR at the end of a plain line all become one LF -/
theorem C11_clean (bs : List Nat) (h : PlainBytes bs) :
    cleanLine (bs ++ [10]) = bs.map Char.ofNat ++ ['\n'] ∧
    cleanLine (bs ++ [13, 10]) = bs.map Char.ofNat ++ ['\n'] ∧
    cleanLine (bs ++ [13]) = bs.map Char.ofNat ++ ['\n'] := by
  have hm : bs.map cleanByte = bs.map Char.ofNat :=
    List.map_congr_left (fun b hb => cleanByte_plain b (h b hb).1)
  have hn : ∀ c ∈ bs.map Char.ofNat, c ≠ '\r' := by
    intro c hc
    obtain ⟨b, hb, rfl⟩ := List.mem_map.mp hc
    exact ofNat_ne_cr b (h b hb).1 (h b hb).2.1
  unfold cleanLine
  simp only [List.map_append, hm]
  refine ⟨?_, ?_, ?_⟩ <;> rw [fixNewlines_append_noCR _ _ hn] <;> rfl

/-! ## lines of a file: LF and CRLF files are read alike -/

theorem splitLinesAux_line (l rest cur : List Nat) (h : ∀ b ∈ l, b ≠ 10) :
    splitLinesAux (l ++ 10 :: rest) cur = (cur.reverse ++ l ++ [10]) :: splitLinesAux rest [] := by
  induction l generalizing cur with
  | nil => simp [splitLinesAux]
  | cons b l ih =>
    have hb : b ≠ 10 := h b (by simp)
    simp only [List.cons_append, splitLinesAux]
    have : (b == 10) = false := by simpa using hb
    simp only [this, Bool.false_eq_true, ↓reduceIte]
    rw [ih _ (fun x hx => h x (List.mem_cons_of_mem _ hx))]
    simp

/-- the bytes of a file whose lines `ls` all end in `eol` -/
def encode (eol : List Nat) (ls : List (List Nat)) : List Nat := ls.flatMap (· ++ eol)

theorem splitLines_encode (pre : List Nat) (hpre : ∀ b ∈ pre, b ≠ 10) (ls : List (List Nat))
    (h : ∀ l ∈ ls, ∀ b ∈ l, b ≠ 10) :
    splitLines (encode (pre ++ [10]) ls) = ls.map (· ++ pre ++ [10]) := by
  unfold splitLines encode
  induction ls with
  | nil => rfl
  | cons l ls ih =>
    simp only [List.flatMap_cons, List.map_cons]
    have : l ++ (pre ++ [10]) ++ List.flatMap (fun x => x ++ (pre ++ [10])) ls =
        (l ++ pre) ++ 10 :: List.flatMap (fun x => x ++ (pre ++ [10])) ls := by simp
    rw [this, splitLinesAux_line (l ++ pre) _ []]
    · rw [ih (fun l' hl' => h l' (List.mem_cons_of_mem _ hl'))]; simp
    · intro b hb
      rcases List.mem_append.mp hb with hb | hb
      · exact h l (by simp) b hb
      · exact hpre b hb

/-- **C11_crlf**: a file written with CRLF line ends gives the reader the very lines of the same file written
    with LF line ends: each line body decoded byte by byte, followed by one `"\n"` -/
theorem C11_crlf (ls : List (List Nat)) (h : ∀ l ∈ ls, PlainBytes l) :
    fileLines (encode [13, 10] ls) = ls.map (fun l => l.map Char.ofNat ++ ['\n']) ∧
    fileLines (encode [10] ls) = ls.map (fun l => l.map Char.ofNat ++ ['\n']) := by
  have h10 : ∀ l ∈ ls, ∀ b ∈ l, b ≠ 10 := fun l hl b hb => (h l hl b hb).2.2
  constructor
  · unfold fileLines
    have := splitLines_encode [13] (by simp) ls h10
    simp only [List.cons_append, List.nil_append] at this
    rw [this, List.map_map]
    apply List.map_congr_left
    intro l hl
    simp only [Function.comp, List.append_assoc, List.cons_append, List.nil_append]
    exact (C11_clean l (h l hl)).2.1
  · unfold fileLines
    have := splitLines_encode [] (by simp) ls h10
    simp only [List.nil_append, List.append_nil] at this
    rw [this, List.map_map]
    apply List.map_congr_left
    intro l hl
    exact (C11_clean l (h l hl)).1

/-! ## tabs -/

/-- **C11_tabs**: the model's `expandtabs(8)` of a line (with its terminator) is the Spec's tab expansion of the
    line body: a tab is as many blanks as reach the next multiple of eight -/
theorem C11_tabs (l t : List Char) (hl : ∀ c ∈ l, c ≠ '\n' ∧ c ≠ '\r') (ht : IsTerm t) (col : Nat) :
    expandtabsAux Gen.tabSize col (l ++ t) = Spec.expandTabsFrom col l ++ t := by
  have e8 : Gen.tabSize = 8 := rfl
  rw [e8]
  induction l generalizing col with
  | nil =>
    rcases ht with rfl | rfl
    · rfl
    · simp [expandtabsAux, Spec.expandTabsFrom]
  | cons c l ih =>
    have hc := hl c (by simp)
    have ih' := fun col => ih (fun d hd => hl d (List.mem_cons_of_mem _ hd)) col
    simp only [List.cons_append, expandtabsAux, Spec.expandTabsFrom]
    by_cases htab : c = '\t'
    · subst htab
      simp only [beq_self_eq_true, ↓reduceIte]
      rw [ih', List.append_assoc]
    · have h1 : (c == '\t') = false := by simpa using htab
      have h2 : (c == '\n' || c == '\r') = false := by simp [hc.1, hc.2]
      simp only [h1, Bool.false_eq_true, ↓reduceIte, htab, h2, ih', List.cons_append]

/-! ## the reader refines the Spec -/

/-- **C11_reader_refines_spec**: on a file whose lines are `GoodLine`s (the named exclusions: white space other
    than the blank, a line of exactly the limit, a line that begins with `#` in columns 1-5, `&` directly before `$`,
    a line holding only `$…` or `&`, a `$` glued to the first word) the inputs the model of `read_data` yields — block
    and words, read cards and errors included — are the Spec reader's, for every starting block (a file pulled in by a
    read card starts in the block of the card).  Nothing is assumed about what follows the blank line that ends the
    data block: since fixes c74af97 / fec410e the code stops reading there, as the Spec does (was: finding C11-F1). -/
theorem C11_reader_refines_spec (limit : Nat) (cfg : Cfg) (hl : cfg.lineLength = limit)
    (mlines : List Str) (slines : List Spec.Line) (h : FileOK limit mlines slines) :
    proj (readData cfg mlines) =
      Spec.cutS (Spec.fileStream limit (joinPath cfg.topDir) cfg.chain cfg.firstBlock.value slines) :=
  fileStream_ok cfg hl mlines slines h

theorem inputsOf_map_notRead (resolve : Spec.Word → List Char) (chain : List (List Char)) (is : List Spec.Inp)
    (h : ∀ i ∈ is, Spec.cardOf i.words = .notRead) :
    Spec.cutS (is.map (Spec.outOf resolve chain)) = is.map .inp := by
  induction is with
  | nil => rfl
  | cons i is ih =>
    have hi := h i (by simp)
    simp only [List.map_cons, Spec.outOf, hi, Spec.cutS]
    rw [ih (fun j hj => h j (List.mem_cons_of_mem _ hj))]

/-- … in particular, in a file without read cards (the domain of C11: the core grammar excludes them) the model
    yields exactly the Spec's inputs, in order, each in its block, with its words -/
theorem C11_reader_inputs (limit : Nat) (cfg : Cfg) (hl : cfg.lineLength = limit)
    (mlines : List Str) (slines : List Spec.Line) (h : FileOK limit mlines slines)
    (hnr : ∀ i ∈ Spec.inputsFrom limit cfg.firstBlock.value slines, Spec.cardOf i.words = .notRead) :
    proj (readData cfg mlines) = (Spec.inputsFrom limit cfg.firstBlock.value slines).map .inp := by
  rw [C11_reader_refines_spec limit cfg hl mlines slines h]
  unfold Spec.fileStream
  exact inputsOf_map_notRead _ _ _ hnr

/-! ### behind the blank line that ends the data block nothing is read -/

/-- the loop of `read_data` ends within `ls`: by the `break` at the blank line that ends the data block, or by a raise -/
def stopsWithin (cfg : Cfg) : LState → List Str → Bool
  | _, [] => false
  | st, l :: ls =>
    if hasRaise (stepLine cfg st l).1 then true
    else if stopsAfter cfg l (stepLine cfg st l).2 then true
    else stopsWithin cfg (stepLine cfg st l).2 ls

/-- **C11_after_terminator** (repaired finding C11-F1): once the blank line that ends the data block has been read —
    counted from the block the file starts in — the model of `read_data` yields the same events whatever follows:
    **any** lines at all (not only well-formed ones) behind it are never looked at. -/
theorem C11_after_terminator (cfg : Cfg) (ls junk : List Str) :
    ∀ st, stopsWithin cfg st ls = true → goLines cfg st (ls ++ junk) = goLines cfg st ls := by
  induction ls with
  | nil => intro st h; simp [stopsWithin] at h
  | cons l ls ih =>
    intro st h
    simp only [List.cons_append, goLines]
    unfold stopsWithin at h
    split
    · rfl
    · rename_i hr
      simp only [hr, Bool.false_eq_true, ↓reduceIte] at h
      split
      · rfl
      · rename_i hs
        simp only [hs, Bool.false_eq_true, ↓reduceIte] at h
        rw [ih _ h]

theorem C11_after_terminator_readData (cfg : Cfg) (ls junk : List Str) (h : stopsWithin cfg (initState cfg) ls = true) :
    readData cfg (ls ++ junk) = readData cfg ls := C11_after_terminator cfg ls junk _ h

/-- **C11_reader_layout** (reader half of C11): two files — however differently laid out — in which the Spec reader
    finds the same inputs give the same inputs in the model of `read_data`, word for word -/
theorem C11_reader_layout (limit : Nat) (cfg : Cfg) (hl : cfg.lineLength = limit)
    (m1 m2 : List Str) (s1 s2 : List Spec.Line)
    (h1 : FileOK limit m1 s1) (h2 : FileOK limit m2 s2)
    (hsame : Spec.inputsFrom limit cfg.firstBlock.value s1 = Spec.inputsFrom limit cfg.firstBlock.value s2) :
    proj (readData cfg m1) = proj (readData cfg m2) := by
  rw [C11_reader_refines_spec limit cfg hl m1 s1 h1, C11_reader_refines_spec limit cfg hl m2 s2 h2]
  unfold Spec.fileStream
  rw [hsame]

/-! ## the Spec reader inverts every valid layout -/

open MontePyVerif.Layout in
/-- a layout of a sequence of inputs is **valid** for the column limit: every input has a word and begins in
    columns 1-5; every laid-out data line consists of proper words (`WordOK`: not empty, no blank, `$`, tab; not the
    lone `&`), fits the limit, and — when it begins in columns 1-5 — does not begin with a lone `c`/`C` (it would be a
    comment line); every C comment line is indented by less than five, has no tab in its text and fits -/
def ValidLayout (limit : Nat) (items : List (Spec.InputLayout × List Spec.Word)) : Prop :=
  (∀ it ∈ items, it.1.lead < 5 ∧ it.2 ≠ []) ∧
  ∀ pl ∈ layInputs items, match pl with
    | .data d => DLineOK limit d
    | .comment c => CommentOK limit c

open MontePyVerif.Layout in
theorem kinds_of_valid (limit : Nat) (pls : List Spec.PLine)
    (h : ∀ pl ∈ pls, match pl with | .data d => DLineOK limit d | .comment c => CommentOK limit c) :
    (pls.map Spec.PLine.str).map (Spec.classify limit) = pls.map kindOf := by
  rw [List.map_map]
  apply List.map_congr_left
  intro pl hpl
  have := h pl hpl
  cases pl with
  | data d => exact classify_data d this
  | comment c => exact classify_comment c this

open MontePyVerif.Layout in
/-- **C11_spec_layout**: for every sequence of inputs (lists of words), every layout of them that is valid for the
    column limit — any number of blanks between words, line breaks with five or more blanks, `&` with trailing blanks
    and the next line anywhere, `$` comments, C comment lines between any two words and in front of any input, leading
    blanks, trailing blanks — and every starting block, the Spec reader finds exactly these inputs, in that block, in
    order, word for word. -/
theorem C11_spec_layout (limit start : Nat) (hs : start < 3) (items : List (Spec.InputLayout × List Spec.Word))
    (hv : ValidLayout limit items) :
    Spec.inputsFrom limit start (Spec.renderInputs items) = items.map (fun it => ⟨start, it.2⟩) := by
  unfold Spec.inputsFrom
  rw [renderInputs_eq, kinds_of_valid limit _ hv.2]
  have := run_inputs items ⟨start, none, false⟩ [] hs rfl hv.1
  rw [List.append_nil] at this
  rw [this]
  cases hl : items.getLast? with
  | none =>
    have : items = [] := by cases items <;> simp_all
    subst this; rfl
  | some last =>
    simp only [emit, List.nil_append, Spec.run, Spec.close, hs, ↓reduceIte]
    have hne : items ≠ [] := by intro e; subst e; simp at hl
    have hlast : items.getLast hne = last := by
      rw [List.getLast?_eq_some_getLast hne] at hl; exact Option.some.inj hl
    have hd := List.dropLast_concat_getLast hne
    rw [hlast] at hd
    conv => rhs; rw [← hd]
    simp

/-! ## the reader does not see the layout -/

open MontePyVerif.Layout MontePyVerif.LayoutModel in
/-- a layout that is valid for MCNP (`ValidLayout`) and on which the code has no reason to differ (`DLineM`,
    `CommentM`: no character Python counts as white space inside words, only blanks as white space in comment texts,
    lines shorter than the limit, no `#` in columns 1-5) -/
def ValidLayoutM (limit : Nat) (items : List (Spec.InputLayout × List Spec.Word)) : Prop :=
  (∀ it ∈ items, it.1.lead < 5 ∧ it.2 ≠ []) ∧ ∀ pl ∈ layInputs items, PLineOK limit pl

open MontePyVerif.Layout MontePyVerif.LayoutModel in
theorem ValidLayoutM.valid {limit : Nat} {items : List (Spec.InputLayout × List Spec.Word)}
    (h : ValidLayoutM limit items) : ValidLayout limit items := by
  refine ⟨h.1, fun pl hpl => ?_⟩
  have := h.2 pl hpl
  cases pl with
  | data d => exact this.1
  | comment c => exact this.1

theorem block_lt (b : BlockType) : b.value < 3 := by cases b <;> decide

open MontePyVerif.Layout MontePyVerif.LayoutModel in
/-- **C11_reader_render**: the model of `read_data`, given the lines of *any* valid layout of a sequence of inputs,
    yields exactly those inputs — block and words — (and treats read cards among them as the Spec does) -/
theorem C11_reader_render (limit : Nat) (cfg : Cfg) (hl : cfg.lineLength = limit)
    (items : List (Spec.InputLayout × List Spec.Word)) (hv : ValidLayoutM limit items) :
    proj (readData cfg ((Spec.renderInputs items).map (· ++ ['\n']))) =
      Spec.cutS ((items.map (fun it => (⟨cfg.firstBlock.value, it.2⟩ : Spec.Inp))).map
        (Spec.outOf (joinPath cfg.topDir) cfg.chain)) := by
  have hf := fileOK_render limit (layInputs items) hv.2
  have hm : (Spec.renderInputs items).map (· ++ ['\n']) = (layInputs items).map (fun pl => pl.str ++ ['\n']) := by
    rw [renderInputs_eq, List.map_map]; rfl
  rw [hm, C11_reader_refines_spec limit cfg hl _ _ hf, ← renderInputs_eq]
  unfold Spec.fileStream
  rw [C11_spec_layout limit _ (block_lt _) items hv.valid]

/-- **C11_reader_layout_render** (the reader half of C11 at full strength): two valid layouts of the same inputs —
    however they differ in blanks, line breaks, `&`, `$` comments, C comment lines, leading and trailing blanks —
    give the same inputs in the model of `read_data`, word for word, in every block -/
theorem C11_reader_layout_render (limit : Nat) (cfg : Cfg) (hl : cfg.lineLength = limit)
    (items1 items2 : List (Spec.InputLayout × List Spec.Word))
    (h1 : ValidLayoutM limit items1) (h2 : ValidLayoutM limit items2)
    (hsame : items1.map (·.2) = items2.map (·.2)) :
    proj (readData cfg ((Spec.renderInputs items1).map (· ++ ['\n']))) =
      proj (readData cfg ((Spec.renderInputs items2).map (· ++ ['\n']))) := by
  rw [C11_reader_render limit cfg hl items1 h1, C11_reader_render limit cfg hl items2 h2]
  have : ∀ items : List (Spec.InputLayout × List Spec.Word),
      items.map (fun it => (⟨cfg.firstBlock.value, it.2⟩ : Spec.Inp)) =
        (items.map (·.2)).map (fun ws => (⟨cfg.firstBlock.value, ws⟩ : Spec.Inp)) := by
    intro items; rw [List.map_map]; rfl
  rw [this items1, this items2, hsame]

/-! ### non-vacuity: one cell card in two layouts (`&` with trailing blanks and the next line in column 1; five-blank
    continuation) -/

/-- `"1 0 -1 &  \n2 imp:n=1\n"` -/
def exLayoutA : List Nat := [49, 32, 48, 32, 45, 49, 32, 38, 32, 32, 10, 50, 32, 105, 109, 112, 58, 110, 61, 49, 10]
/-- `"1 0 -1\r\n     2 imp:n=1\r\n"` (CRLF) -/
def exLayoutB : List Nat :=
  [49, 32, 48, 32, 45, 49, 13, 10, 32, 32, 32, 32, 32, 50, 32, 105, 109, 112, 58, 110, 61, 49, 13, 10]
def exCfg : Cfg := ⟨128, .cell, ['x'], [['x']]⟩

example : FileOK 128 (fileLines exLayoutA) ["1 0 -1 &  ".toList, "2 imp:n=1".toList] :=
  exFileOK _ exLayoutA (by decide) (by decide)
example : FileOK 128 (fileLines exLayoutB) ["1 0 -1".toList, "     2 imp:n=1".toList] :=
  exFileOK _ exLayoutB (by decide) (by decide)
example : Spec.inputsFrom 128 0 ["1 0 -1 &  ".toList, "2 imp:n=1".toList] =
    Spec.inputsFrom 128 0 ["1 0 -1".toList, "     2 imp:n=1".toList] := by decide
example : proj (readData exCfg (fileLines exLayoutA)) =
    [.inp ⟨0, ["1".toList, "0".toList, "-1".toList, "2".toList, "imp:n=1".toList]⟩] := by decide
example : PlainBytes [49, 32, 48] := by unfold PlainBytes; decide
example : cleanLine [49, 200, 13, 10] = ['1', ' ', '\n'] := by decide

/-! ### non-vacuity of `ValidLayout`: the cell card `1 0 -1 imp:n=1` with an `&` gap (two trailing blanks, next line in
    column 2), a five-blank continuation, a C comment in front and a `$` comment at the end -/

def exItems : List (Spec.InputLayout × List Spec.Word) :=
  [(⟨[(0, "a comment".toList)], 2, [.blanks 2, .amp 0 2 [] 1, .newline 0], 1, some "x &".toList⟩,
    ["1".toList, "0".toList, "-1".toList, "imp:n=1".toList]),
   (⟨[], 0, [], 0, none⟩, ["2".toList, "0".toList, "1".toList])]

example : Spec.renderInputs exItems =
    ["c a comment".toList, "  1   0 &  ".toList, " -1".toList, "     imp:n=1  $x &".toList, "2 0 1".toList] := by decide

open MontePyVerif.Layout MontePyVerif.LayoutModel MontePyVerif.LineFacts in
example : ValidLayoutM 128 exItems := by
  refine ⟨by decide, ?_⟩
  intro pl hpl
  have hmem : pl ∈ [Spec.PLine.comment (0, "a comment".toList),
      .data ⟨2, "1".toList, [(2, "0".toList)], .amp 0 2⟩, .data ⟨1, "-1".toList, [], .plain 0 none⟩,
      .data ⟨5, "imp:n=1".toList, [], .plain 1 (some "x &".toList)⟩,
      .data ⟨0, "2".toList, [(0, "0".toList), (0, "1".toList)], .plain 0 none⟩] := by
    have : layInputs exItems = [Spec.PLine.comment (0, "a comment".toList),
      .data ⟨2, "1".toList, [(2, "0".toList)], .amp 0 2⟩, .data ⟨1, "-1".toList, [], .plain 0 none⟩,
      .data ⟨5, "imp:n=1".toList, [], .plain 1 (some "x &".toList)⟩,
      .data ⟨0, "2".toList, [(0, "0".toList), (0, "1".toList)], .plain 0 none⟩] := by decide
    rw [this] at hpl; exact hpl
  simp only [List.mem_cons, List.not_mem_nil, or_false] at hmem
  rcases hmem with rfl | rfl | rfl | rfl | rfl
  · exact ⟨⟨by decide, by unfold NoTab; decide, by decide⟩, ⟨by unfold OnlyBlanks; decide, by decide⟩⟩
  all_goals
    refine ⟨⟨?_, ?_, ?_, ?_, ?_⟩, ⟨?_, ?_, ?_, ?_, ?_⟩⟩
    · unfold WordOK; decide
    · unfold WordOK; decide
    · unfold notC; decide
    · decide
    · first | trivial | (unfold NoTab; decide)
    · decide
    · decide
    · first | trivial | (unfold OnlyBlanks; decide)
    · decide
    · decide

/-! ### a C comment line between an `&` line and a continuation that begins in column 1

    `mode n &` / `c particles` / `p`.  Neither `ValidLayout` nor `GoodLine` / `FileOK` excludes this: the `amp` gap
    carries comment lines, the Spec ignores comment lines wherever they stand (`step` leaves `amp` alone on
    `.comment`), and the model keeps `continue_input` on a comment line (`stepData`, fix 0e3e134).  So the theorems
    above cover it; here is the concrete instance. -/

def exAmpComment : List (Spec.InputLayout × List Spec.Word) :=
  [(⟨[], 0, [.blanks 0, .amp 0 0 [(0, "particles".toList)] 0], 0, none⟩,
    ["mode".toList, "n".toList, "p".toList])]

example : Spec.renderInputs exAmpComment = ["mode n &".toList, "c particles".toList, "p".toList] := by decide

open MontePyVerif.Layout MontePyVerif.LayoutModel MontePyVerif.LineFacts in
example : ValidLayoutM 128 exAmpComment := by
  refine ⟨by decide, ?_⟩
  intro pl hpl
  have hmem : pl ∈ [Spec.PLine.data ⟨0, "mode".toList, [(0, "n".toList)], .amp 0 0⟩,
      .comment (0, "particles".toList), .data ⟨0, "p".toList, [], .plain 0 none⟩] := by
    have : layInputs exAmpComment = [Spec.PLine.data ⟨0, "mode".toList, [(0, "n".toList)], .amp 0 0⟩,
      .comment (0, "particles".toList), .data ⟨0, "p".toList, [], .plain 0 none⟩] := by decide
    rw [this] at hpl; exact hpl
  simp only [List.mem_cons, List.not_mem_nil, or_false] at hmem
  rcases hmem with rfl | rfl | rfl
  rotate_left
  · exact ⟨⟨by decide, by unfold NoTab; decide, by decide⟩, ⟨by unfold OnlyBlanks; decide, by decide⟩⟩
  all_goals
    refine ⟨⟨?_, ?_, ?_, ?_, ?_⟩, ⟨?_, ?_, ?_, ?_, ?_⟩⟩
    · unfold WordOK; decide
    · unfold WordOK; decide
    · unfold notC; decide
    · decide
    · first | trivial | (unfold NoTab; decide)
    · decide
    · decide
    · first | trivial | (unfold OnlyBlanks; decide)
    · decide
    · decide

/-- the Spec and the model both read one input `mode n p` in the data block -/
example : Spec.inputsFrom 128 2 (Spec.renderInputs exAmpComment) = [⟨2, ["mode".toList, "n".toList, "p".toList]⟩] := by decide
example : proj (readData ⟨128, .data, ['x'], [['x']]⟩ ((Spec.renderInputs exAmpComment).map (· ++ ['\n']))) =
    [.inp ⟨2, ["mode".toList, "n".toList, "p".toList]⟩] := by decide

/-- the same two inputs laid out plainly: by `C11_reader_layout_render` the model reads both alike -/
def exItemsPlain : List (Spec.InputLayout × List Spec.Word) :=
  exItems.map (fun it => (⟨[], 0, [], 0, none⟩, it.2))

example : exItems.map (·.2) = exItemsPlain.map (·.2) := by decide
example : proj (readData exCfg ((Spec.renderInputs exItems).map (· ++ ['\n']))) =
    proj (readData exCfg ((Spec.renderInputs exItemsPlain).map (· ++ ['\n']))) := by decide

/-! ### non-vacuity of `C11_after_terminator`: the replay of the repaired finding C11-F1 (`corpus/C11/trailing_content.json`):
    `1 0 -1⏎⏎1 so 5⏎⏎mode n⏎⏎` followed by `c MCNP ignores …⏎nps 77⏎` -/

/-- `"1 0 -1\n\n1 so 5\n\nmode n\n\n"` -/
def exThreeBlocks : List Nat :=
  [49, 32, 48, 32, 45, 49, 10, 10, 49, 32, 115, 111, 32, 53, 10, 10, 109, 111, 100, 101, 32, 110, 10, 10]
/-- `"c x\nnps 77\n"` -/
def exJunk : List Nat := [99, 32, 120, 10, 110, 112, 115, 32, 55, 55, 10]

example : stopsWithin exCfg (initState exCfg) (fileLines exThreeBlocks) = true := by decide
example : fileLines (exThreeBlocks ++ exJunk) = fileLines exThreeBlocks ++ fileLines exJunk := by decide
example : proj (readData exCfg (fileLines (exThreeBlocks ++ exJunk))) =
    [.inp ⟨0, ["1".toList, "0".toList, "-1".toList]⟩, .inp ⟨1, ["1".toList, "so".toList, "5".toList]⟩,
     .inp ⟨2, ["mode".toList, "n".toList]⟩] := by decide
/-- … and the Spec ignores the same text -/
example : Spec.inputsFrom 128 0 ["1 0 -1".toList, [], "1 so 5".toList, [], "mode n".toList, [], "c x".toList, "nps 77".toList] =
    [⟨0, ["1".toList, "0".toList, "-1".toList]⟩, ⟨1, ["1".toList, "so".toList, "5".toList]⟩,
     ⟨2, ["mode".toList, "n".toList]⟩] := by decide
/-- inside a file pulled in by a read card of the data block the first blank line already is that terminator -/
example : proj (readData ⟨128, .data, ['d'], [['m'], ['d']]⟩ (fileLines [99, 116, 109, 101, 32, 53, 10, 10, 112, 114, 105, 110, 116, 10])) =
    [.inp ⟨2, ["ctme".toList, "5".toList]⟩] := by decide
/-- a `#` that does not start the line is plain data (fix 453a5e4): `2 0 #1` -/
example : proj (readData exCfg (fileLines [50, 32, 48, 32, 35, 49, 10])) = [.inp ⟨0, ["2".toList, "0".toList, "#1".toList]⟩] := by decide
example : firstRaise (readData exCfg (fileLines [32, 35, 32, 49, 10])) = some .unsupported := by decide

end MontePyVerif.C11
