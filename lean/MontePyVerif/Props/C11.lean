import MontePyVerif.Lemmas.Flatten
/-!
# C11 — the problem read does not depend on the file's physical layout

What is proved here is the **reader half** of C11 (lines → inputs): `_clean_line` and line splitting (LF / CRLF),
tab expansion, and the refinement of the model of `read_data` to the Spec reader.  The **lexer / LALR half**
(letter case, `=` versus blank, padding anywhere) lives in SLY, which is not modelled: it is tied by validation on
the real parser only (tools/props/c11.py), and is *not* claimed as a theorem.
-/
namespace MontePyVerif.C11
open MontePyVerif MontePyVerif.Reader MontePyVerif.Refine MontePyVerif.Flatten MontePyVerif.LineFacts

/-! ## `_clean_line` and the line ends -/

/-- an ASCII line body: no byte ≥ 127, no CR, no LF -/
def PlainBytes (bs : List Nat) : Prop := ∀ b ∈ bs, b < Gen.asciiCeiling ∧ b ≠ 13 ∧ b ≠ 10

theorem cleanByte_plain (b : Nat) (h : b < Gen.asciiCeiling) : cleanByte b = Char.ofNat b := by
  unfold cleanByte; simp [h]

/-- bytes at or above `ASCII_CEILING` become blanks -/
theorem C11_clean_high (b : Nat) (h : b ≥ Gen.asciiCeiling) : cleanByte b = ' ' := by
  unfold cleanByte; simp; omega

theorem ofNat_ne_cr (b : Nat) (h1 : b < Gen.asciiCeiling) (h2 : b ≠ 13) : Char.ofNat b ≠ '\r' := by
  intro e
  have hb : b < 127 := h1
  have hv : b.isValidChar := by unfold Nat.isValidChar; omega
  have : (Char.ofNat b).val.toNat = b := by
    simp [Char.ofNat, hv, Char.ofNatAux]
  rw [e] at this
  exact h2 (by simpa using this.symm)

theorem fixNewlines_cons (c : Char) (t : List Char) (h : c ≠ '\r') : fixNewlines (c :: t) = c :: fixNewlines t :=
  fixNewlines.eq_4 c t (fun _ e _ => h e) (fun e => h e)

theorem fixNewlines_noCR (s : List Char) (h : ∀ c ∈ s, c ≠ '\r') : fixNewlines s = s := by
  induction s with
  | nil => rfl
  | cons c t ih =>
    rw [fixNewlines_cons c t (h c (by simp)), ih (fun d hd => h d (List.mem_cons_of_mem _ hd))]

/-- **C11_clean** (nothing else changes): a line of plain ASCII bytes is decoded byte by byte -/
theorem C11_clean_plain (bs : List Nat) (h : PlainBytes bs) : cleanLine bs = bs.map Char.ofNat := by
  unfold cleanLine
  have hm : bs.map cleanByte = bs.map Char.ofNat :=
    List.map_congr_left (fun b hb => cleanByte_plain b (h b hb).1)
  rw [hm]
  apply fixNewlines_noCR
  intro c hc
  obtain ⟨b, hb, rfl⟩ := List.mem_map.mp hc
  exact ofNat_ne_cr b (h b hb).1 (h b hb).2.1

theorem fixNewlines_append_noCR (s t : List Char) (h : ∀ c ∈ s, c ≠ '\r') :
    fixNewlines (s ++ t) = s ++ fixNewlines t := by
  induction s with
  | nil => rfl
  | cons c s ih =>
    rw [List.cons_append, fixNewlines_cons c _ (h c (by simp)), ih (fun d hd => h d (List.mem_cons_of_mem _ hd))]
    rfl

/-- **C11_clean** (line ends): LF, CRLF and a lone CR at the end of a plain line all become one LF -/
theorem C11_clean (bs : List Nat) (h : PlainBytes bs) :
    cleanLine (bs ++ [10]) = bs.map Char.ofNat ++ ['\n'] ∧
    cleanLine (bs ++ [13, 10]) = bs.map Char.ofNat ++ ['\n'] ∧
    cleanLine (bs ++ [13]) = bs.map Char.ofNat ++ ['\n'] := by
  have hm : bs.map cleanByte = bs.map Char.ofNat :=
    List.map_congr_left (fun b hb => cleanByte_plain b (h b hb).1)
  have hn : ∀ c ∈ bs.map Char.ofNat, c ≠ '\r' := by
    intro c hc
    obtain ⟨b, hb, rfl⟩ := List.mem_map.mp hc
    exact ofNat_ne_cr b (h b hb).1 (h b hb).2.1
  unfold cleanLine
  simp only [List.map_append, hm]
  refine ⟨?_, ?_, ?_⟩ <;> rw [fixNewlines_append_noCR _ _ hn] <;> rfl

/-! ## lines of a file: LF and CRLF files are read alike -/

theorem splitLinesAux_line (l rest cur : List Nat) (h : ∀ b ∈ l, b ≠ 10) :
    splitLinesAux (l ++ 10 :: rest) cur = (cur.reverse ++ l ++ [10]) :: splitLinesAux rest [] := by
  induction l generalizing cur with
  | nil => simp [splitLinesAux]
  | cons b l ih =>
    have hb : b ≠ 10 := h b (by simp)
    simp only [List.cons_append, splitLinesAux]
    have : (b == 10) = false := by simpa using hb
    simp only [this, Bool.false_eq_true, ↓reduceIte]
    rw [ih _ (fun x hx => h x (List.mem_cons_of_mem _ hx))]
    simp

/-- the bytes of a file whose lines `ls` all end in `eol` -/
def encode (eol : List Nat) (ls : List (List Nat)) : List Nat := ls.flatMap (· ++ eol)

theorem splitLines_encode (pre : List Nat) (hpre : ∀ b ∈ pre, b ≠ 10) (ls : List (List Nat))
    (h : ∀ l ∈ ls, ∀ b ∈ l, b ≠ 10) :
    splitLines (encode (pre ++ [10]) ls) = ls.map (· ++ pre ++ [10]) := by
  unfold splitLines encode
  induction ls with
  | nil => rfl
  | cons l ls ih =>
    simp only [List.flatMap_cons, List.map_cons]
    have : l ++ (pre ++ [10]) ++ List.flatMap (fun x => x ++ (pre ++ [10])) ls =
        (l ++ pre) ++ 10 :: List.flatMap (fun x => x ++ (pre ++ [10])) ls := by simp
    rw [this, splitLinesAux_line (l ++ pre) _ []]
    · rw [ih (fun l' hl' => h l' (List.mem_cons_of_mem _ hl'))]; simp
    · intro b hb
      rcases List.mem_append.mp hb with hb | hb
      · exact h l (by simp) b hb
      · exact hpre b hb

/-- **C11_crlf**: a file written with CRLF line ends gives the reader the very lines of the same file written
    with LF line ends: each line body decoded byte by byte, followed by one `"\n"` -/
theorem C11_crlf (ls : List (List Nat)) (h : ∀ l ∈ ls, PlainBytes l) :
    fileLines (encode [13, 10] ls) = ls.map (fun l => l.map Char.ofNat ++ ['\n']) ∧
    fileLines (encode [10] ls) = ls.map (fun l => l.map Char.ofNat ++ ['\n']) := by
  have h10 : ∀ l ∈ ls, ∀ b ∈ l, b ≠ 10 := fun l hl b hb => (h l hl b hb).2.2
  constructor
  · unfold fileLines
    have := splitLines_encode [13] (by simp) ls h10
    simp only [List.cons_append, List.nil_append] at this
    rw [this, List.map_map]
    apply List.map_congr_left
    intro l hl
    simp only [Function.comp, List.append_assoc, List.cons_append, List.nil_append]
    exact (C11_clean l (h l hl)).2.1
  · unfold fileLines
    have := splitLines_encode [] (by simp) ls h10
    simp only [List.nil_append, List.append_nil] at this
    rw [this, List.map_map]
    apply List.map_congr_left
    intro l hl
    exact (C11_clean l (h l hl)).1

/-! ## tabs -/

/-- **C11_tabs**: the model's `expandtabs(8)` of a line (with its terminator) is the Spec's tab expansion of the
    line body: a tab is as many blanks as reach the next multiple of eight -/
theorem C11_tabs (l t : List Char) (hl : ∀ c ∈ l, c ≠ '\n' ∧ c ≠ '\r') (ht : IsTerm t) (col : Nat) :
    expandtabsAux Gen.tabSize col (l ++ t) = Spec.expandTabsFrom col l ++ t := by
  have e8 : Gen.tabSize = 8 := rfl
  rw [e8]
  induction l generalizing col with
  | nil =>
    rcases ht with rfl | rfl
    · rfl
    · simp [expandtabsAux, Spec.expandTabsFrom]
  | cons c l ih =>
    have hc := hl c (by simp)
    have ih' := fun col => ih (fun d hd => hl d (List.mem_cons_of_mem _ hd)) col
    simp only [List.cons_append, expandtabsAux, Spec.expandTabsFrom]
    by_cases htab : c = '\t'
    · subst htab
      simp only [beq_self_eq_true, ↓reduceIte]
      rw [ih', List.append_assoc]
    · have h1 : (c == '\t') = false := by simpa using htab
      have h2 : (c == '\n' || c == '\r') = false := by simp [hc.1, hc.2]
      simp only [h1, Bool.false_eq_true, ↓reduceIte, htab, h2, ih', List.cons_append]

/-! ## the reader refines the Spec -/

/-- **C11_reader_refines_spec**: on a file whose lines are `GoodLine`s (the named exclusions: white space other
    than the blank, a line of exactly the limit, `#` in columns 1-5, `&` directly before `$`, a line holding only
    `$…` or `&`, a `$` glued to a word) and that is well terminated (no data behind the blank line that ends the
    data block: known finding C11-F1), the inputs the model of `read_data` yields — block and words, read cards and
    errors included — are the Spec reader's, for every starting block (a file pulled in by a read card starts in the
    block of the card). -/
theorem C11_reader_refines_spec (limit : Nat) (cfg : Cfg) (hl : cfg.lineLength = limit)
    (mlines : List Str) (slines : List Spec.Line) (h : FileOK limit cfg.firstBlock.value mlines slines) :
    proj (readData cfg mlines) =
      Spec.cutS (Spec.fileStream limit (joinPath cfg.topDir) cfg.chain cfg.firstBlock.value slines) :=
  fileStream_ok cfg hl mlines slines h

theorem inputsOf_map_notRead (resolve : Spec.Word → List Char) (chain : List (List Char)) (is : List Spec.Inp)
    (h : ∀ i ∈ is, Spec.cardOf i.words = .notRead) :
    Spec.cutS (is.map (Spec.outOf resolve chain)) = is.map .inp := by
  induction is with
  | nil => rfl
  | cons i is ih =>
    have hi := h i (by simp)
    simp only [List.map_cons, Spec.outOf, hi, Spec.cutS]
    rw [ih (fun j hj => h j (List.mem_cons_of_mem _ hj))]

/-- … in particular, in a file without read cards (the domain of C11: the core grammar excludes them) the model
    yields exactly the Spec's inputs, in order, each in its block, with its words -/
theorem C11_reader_inputs (limit : Nat) (cfg : Cfg) (hl : cfg.lineLength = limit)
    (mlines : List Str) (slines : List Spec.Line) (h : FileOK limit cfg.firstBlock.value mlines slines)
    (hnr : ∀ i ∈ Spec.inputsFrom limit cfg.firstBlock.value slines, Spec.cardOf i.words = .notRead) :
    proj (readData cfg mlines) = (Spec.inputsFrom limit cfg.firstBlock.value slines).map .inp := by
  rw [C11_reader_refines_spec limit cfg hl mlines slines h]
  unfold Spec.fileStream
  exact inputsOf_map_notRead _ _ _ hnr

/-- **C11_reader_layout** (reader half of C11): two files — however differently laid out — in which the Spec reader
    finds the same inputs give the same inputs in the model of `read_data`, word for word -/
theorem C11_reader_layout (limit : Nat) (cfg : Cfg) (hl : cfg.lineLength = limit)
    (m1 m2 : List Str) (s1 s2 : List Spec.Line)
    (h1 : FileOK limit cfg.firstBlock.value m1 s1) (h2 : FileOK limit cfg.firstBlock.value m2 s2)
    (hsame : Spec.inputsFrom limit cfg.firstBlock.value s1 = Spec.inputsFrom limit cfg.firstBlock.value s2) :
    proj (readData cfg m1) = proj (readData cfg m2) := by
  rw [C11_reader_refines_spec limit cfg hl m1 s1 h1, C11_reader_refines_spec limit cfg hl m2 s2 h2]
  unfold Spec.fileStream
  rw [hsame]

/-! ### non-vacuity: one cell card in two layouts (`&` with trailing blanks and the next line in column 1; five-blank
    continuation) -/

/-- `"1 0 -1 &  \n2 imp:n=1\n"` -/
def exLayoutA : List Nat := [49, 32, 48, 32, 45, 49, 32, 38, 32, 32, 10, 50, 32, 105, 109, 112, 58, 110, 61, 49, 10]
/-- `"1 0 -1\r\n     2 imp:n=1\r\n"` (CRLF) -/
def exLayoutB : List Nat :=
  [49, 32, 48, 32, 45, 49, 13, 10, 32, 32, 32, 32, 32, 50, 32, 105, 109, 112, 58, 110, 61, 49, 13, 10]
def exCfg : Cfg := ⟨128, .cell, ['x'], [['x']]⟩

example : FileOK 128 0 (fileLines exLayoutA) ["1 0 -1 &  ".toList, "2 imp:n=1".toList] :=
  exFileOK 0 (by decide) _ exLayoutA (by decide) (by decide)
example : FileOK 128 0 (fileLines exLayoutB) ["1 0 -1".toList, "     2 imp:n=1".toList] :=
  exFileOK 0 (by decide) _ exLayoutB (by decide) (by decide)
example : Spec.inputsFrom 128 0 ["1 0 -1 &  ".toList, "2 imp:n=1".toList] =
    Spec.inputsFrom 128 0 ["1 0 -1".toList, "     2 imp:n=1".toList] := by decide
example : proj (readData exCfg (fileLines exLayoutA)) =
    [.inp ⟨0, ["1".toList, "0".toList, "-1".toList, "2".toList, "imp:n=1".toList]⟩] := by decide
example : PlainBytes [49, 32, 48] := by unfold PlainBytes; decide
example : cleanLine [49, 200, 13, 10] = ['1', ' ', '\n'] := by decide

end MontePyVerif.C11
