import MontePyVerif.Model.Reader
import MontePyVerif.Spec.Text
/-! # C11 — the problem read does not depend on the file's physical layout -/
namespace MontePyVerif.C11
open MontePyVerif.Reader

theorem C11_stub : cleanLine [13, 10] = ['\n'] := rfl

end MontePyVerif.C11
