import MontePyVerif.Spec.Card
import MontePyVerif.Gen.Tokens
import MontePyVerif.Gen.Grammar
import MontePyVerif.Gen.Registry
import MontePyVerif.Model.Dispatch
import MontePyVerif.Lemmas.Cfg
/-! # C12 — every input in the documented core grammar is accepted

What is PROVED here (for all sentences of the families, no bound on their size):

* `C12_pinned`      every pinned terminal of G is in the table the code uses now (complete finite tables, `decide`);
* `C12_cfg`         (full strength) for ANY grammar containing the pinned required productions, every well-formed cell card,
                    cell geometry, number/shortcut sequence, surface card, number-list/MODE data card, material
                    card and thermal card of G — with any legal layout of gaps — is derivable from the start
                    symbol; `C12_cfg_montepy` instantiates it with the productions extracted from the SLY classes;
* `C12_dispatch`    the table look-ups that route a cell parameter / a data card / a surface to a class;
* `C12_arity`       the constant-count tests accept exactly G's arities;
* `C12_lexclass…`   the keyword / particle / mnemonic re-classification of the three lexers.

What is NOT proved and cannot be in this family (DESIGN section 9): context-free derivability is not LALR
acceptance — SLY resolves the shift/reduce and reduce/reduce conflicts counted in `Gen.Grammar` silently — and
nothing here talks about the regular expressions of `tokens.py`.  Those two are validated on the real parser by
`tools/props/c12.py` (acceptance oracle + comparison of `Spec.Card.*.classes` with the real token stream).
-/
namespace MontePyVerif.C12
open MontePyVerif MontePyVerif.Spec.Card MontePyVerif.Cfg MontePyVerif.Dispatch
open MontePyVerif.Gen

/-! ## C12_pinned -/

def C12_pinned_statement : Prop :=
  pinnedKeywords ⊆ Tokens.cellLexerKeywords ∧ pinnedKeywords ⊆ Tokens.dataLexerKeywords ∧
  pinnedParticles ⊆ Tokens.cellLexerParticles ∧ pinnedParticles ⊆ Tokens.dataLexerParticles ∧
  pinnedSurfaceTypes ⊆ Tokens.surfaceLexerSurfaceTypes ∧
  pinnedCellKeywords ⊆ Registry.allowedCellKeywords ∧
  pinnedSurfaceTypes.map upper ⊆ Registry.surfaceTypeValues ∧
  pinnedParticles.map upper ⊆ Registry.particleValues ∧
  pinnedCellKeywords.map lower ⊆ pinnedKeywords ∧
  [1, 2] ⊆ Registry.latticeValues

theorem C12_pinned : C12_pinned_statement := by
  unfold C12_pinned_statement
  refine ⟨by decide, by decide, by decide, by decide, by decide, by decide, by decide, by decide, by decide, by decide⟩

/-- non-vacuity: the pinned sets are the full lists of 5.2 -/
example : pinnedSurfaceTypes.length = 40 ∧ pinnedCellKeywords.length = 18 ∧ pinnedParticles.length = 22 := by decide

/-! ## C12_cfg -/

/-- a grammar as the translator dumps it -/
structure Grammar where
  start : String
  productions : Prods

/-- the full statement: for ANY production list containing the required productions of a parser, every
    well-formed card of the family (any size, any legal gaps) derives from that parser's start symbol -/
def C12_cfg_statement : Prop :=
  (∀ P : Prods, reqCell ⊆ P → ∀ c : CellCard, c.WF = true → Der P "cell" c.classes) ∧
  (∀ P : Prods, reqGeometry ⊆ P → ∀ e : Geom, e.WF = true → ∀ pad : Gap, pad.ok = true →
      Der P "geometry_expr" (e.classes ++ pad.cls)) ∧
  (∀ P : Prods, reqNumbers ⊆ P → ∀ es : Entries, es ≠ [] → es.WF = true → Der P "number_sequence" es.classes) ∧
  (∀ P : Prods, reqSurface ⊆ P → ∀ s : SurfaceCard, s.WF = true → Der P "surface" s.classes) ∧
  (∀ P : Prods, reqData ⊆ P → ∀ d : DataCard, d.WF = true → DataCard.isPlain d = true → Der P "data_input" d.classes) ∧
  (∀ P : Prods, reqMaterial ⊆ P → ∀ lead c g0 fr ps, (DataCard.mk lead c g0 (.material fr ps)).WF = true →
      Der P "material" (DataCard.mk lead c g0 (.material fr ps)).classes) ∧
  (∀ P : Prods, reqThermal ⊆ P → ∀ lead c g0 laws, (DataCard.mk lead c g0 (.thermal laws)).WF = true →
      Der P "thermal_mat" (DataCard.mk lead c g0 (.thermal laws)).classes)

/-- Full strength.  (Until MontePy commit e8e6f87 the interpolate productions ended in `number_phrase`, a non-zero
    NUMBER, and this was only provable as `C12_cfg_partial` under the hypothesis that no interpolation ends on a
    zero; the productions now end in `numerical_phrase` and the hypothesis is gone.) -/
theorem C12_cfg : C12_cfg_statement :=
  ⟨fun _ h c hw => cell_der h c hw,
   fun _ h e hw pad hp => (geom_der h e hw).2.2.2.2 pad hp,
   fun _ h es hne hw => entries_der h es hne hw,
   fun _ h s hw => surface_der h s hw,
   fun _ h d hw hp => data_der h d hw hp,
   fun _ h lead c g0 fr ps hw => material_der h lead c g0 fr ps hw,
   fun _ h lead c g0 laws hw => thermal_der h lead c g0 laws hw⟩

/-- the geometry part on its own -/
theorem C12_cfg_geometry : ∀ P : Prods, reqGeometry ⊆ P → ∀ e : Geom, e.WF = true → ∀ pad : Gap, pad.ok = true →
    Der P "geometry_expr" (e.classes ++ pad.cls) := C12_cfg.2.1

/-- the per-run obligation: the required productions are among those the translator extracted from the SLY
    parser classes of the working tree (deleting or altering a production G needs fails here) -/
theorem C12_required_productions :
    reqCell ⊆ Grammar.cellParser.productions ∧ reqSurface ⊆ Grammar.surfaceParser.productions ∧
    reqData ⊆ Grammar.dataParser.productions ∧ reqMaterial ⊆ Grammar.materialParser.productions ∧
    reqThermal ⊆ Grammar.thermalParser.productions ∧
    Grammar.cellParser.start = "cell" ∧ Grammar.surfaceParser.start = "surface" ∧
    Grammar.dataParser.start = "data_input" ∧ Grammar.materialParser.start = "material" ∧
    Grammar.thermalParser.start = "thermal_mat" := by
  refine ⟨by decide, by decide, by decide, by decide, by decide, by decide, by decide, by decide, by decide, by decide⟩

/-- `C12_cfg` instantiated with MontePy's grammars as they are now -/
theorem C12_cfg_montepy :
    (∀ c : CellCard, c.WF = true → Der Grammar.cellParser.productions Grammar.cellParser.start c.classes) ∧
    (∀ s : SurfaceCard, s.WF = true → Der Grammar.surfaceParser.productions Grammar.surfaceParser.start s.classes) ∧
    (∀ d : DataCard, d.WF = true → DataCard.isPlain d = true →
      Der Grammar.dataParser.productions Grammar.dataParser.start d.classes) ∧
    (∀ lead c g0 fr ps, (DataCard.mk lead c g0 (.material fr ps)).WF = true →
      Der Grammar.materialParser.productions Grammar.materialParser.start
        (DataCard.mk lead c g0 (.material fr ps)).classes) ∧
    (∀ lead c g0 laws, (DataCard.mk lead c g0 (.thermal laws)).WF = true →
      Der Grammar.thermalParser.productions Grammar.thermalParser.start
        (DataCard.mk lead c g0 (.thermal laws)).classes) := by
  obtain ⟨h1, h2, h3, h4, h5, s1, s2, s3, s4, s5⟩ := C12_required_productions
  rw [s1, s2, s3, s4, s5]
  exact ⟨fun c hw => C12_cfg.1 _ h1 c hw,
    fun s hw => C12_cfg.2.2.2.1 _ h2 s hw,
    fun d hw hp => C12_cfg.2.2.2.2.1 _ h3 d hw hp,
    fun lead c g0 fr ps hw => C12_cfg.2.2.2.2.2.1 _ h4 lead c g0 fr ps hw,
    fun lead c g0 laws hw => C12_cfg.2.2.2.2.2.2 _ h5 lead c g0 laws hw⟩

/-! non-vacuity: concrete sentences of G that satisfy every hypothesis -/

/-- `1 0 (1:-2)(3) #4 imp:n,p=1 fill=0:1 0:0 0:0 5 6 $c` -/
def exampleCell : CellCard where
  lead := []
  number := "1"
  g0 := [.space]
  material := none
  g1 := [.space]
  geometry :=
    .inter (.inter (.paren [] (.union (.surf "1") [] [] (.surf "-2")) []) [] (.paren [] (.surf "3") []))
      [.space] (.compl (.surf "4"))
  g2 := [.space]
  params :=
    [{ key := { star := false, name := "imp", nameCls := "KEYWORD", number := none, particles := ["n", "p"] },
       sep := { before := [], eq := true, after := [] },
       val := .nums [(.real ⟨"1", false⟩, [.space])] },
     { key := { star := false, name := "fill", nameCls := "KEYWORD", number := none, particles := [] },
       sep := { before := [], eq := true, after := [] },
       val := .lattice ⟨"0", true⟩ ⟨"1", false⟩ [.space] ⟨"0", true⟩ ⟨"0", true⟩ [.space] ⟨"0", true⟩ ⟨"0", true⟩
         [.space] [(.real ⟨"5", false⟩, [.space]), (.real ⟨"6", false⟩, [.space, .dollar])] }]

example : exampleCell.WF = true := by decide
example : exampleCell.render =
    ["1", "0", "(", "1", ":", "-2", ")", "(", "3", ")", "#", "4", "imp:n,p", "1",
     "fill", "0", ":", "1", "0", ":", "0", "0", ":", "0", "5", "6"] := by decide
example : Der Grammar.cellParser.productions "cell" exampleCell.classes :=
  C12_cfg_montepy.1 exampleCell (by decide)

/-- `*7 -3 k/x 1 2r 4 0.5` -/
def exampleSurface : SurfaceCard where
  lead := []
  star := true
  number := "7"
  g0 := [.space]
  pointer := some ("-3", [.space])
  mnemonic := "k/x"
  g1 := [.space]
  constants := [(.rep ⟨"1", false⟩ [.space] "2r" true, [.space]), (.real ⟨"4", false⟩, [.space]),
    (.real ⟨"0.5", false⟩, [])]

example : exampleSurface.WF = true := by decide

/-- `e4 5 3i 0`: an interpolation that ends on zero is a sentence of G and is derivable now -/
def exampleInterpZero : DataCard where
  lead := []
  classifier := { star := false, name := "e", nameCls := "PARTICLE", number := some "4", particles := [] }
  g0 := [.space]
  body := .numbers none [(.interp ⟨"5", false⟩ [.space] "3i" true false [.space] ⟨"0", true⟩, [])]

example : exampleInterpZero.WF = true ∧ exampleInterpZero.interpEndNonzero = false := by decide
example : Der Grammar.dataParser.productions "data_input" exampleInterpZero.classes :=
  C12_cfg_montepy.2.2.1 exampleInterpZero (by decide) (by decide)

/-! ## C12_dispatch -/

/-- (class, prefix) pairs of PREFIX_MATCHES -/
def classPrefixes : List (String × String) := Registry.prefixMatches.map (fun c => (c.1, c.2.1))

/-- the order in which the Python set is scanned cannot matter: no two classes share a prefix or a name -/
theorem prefixes_nodup : (Registry.prefixMatches.map (·.2.1)).Nodup ∧ (Registry.prefixMatches.map (·.1)).Nodup := by
  decide

/-- GENERAL (all strings): a cell parameter is handed to a modifier class only if that class' prefix EQUALS the
    keyword — never to another class (the unrepaired `prefix in key` refuted this for `nonu`, `unc`) -/
theorem C12_dispatch_cell_exact : ∀ (k cls : String), cls ∈ routeCellKeyword k → (cls, k) ∈ classPrefixes := by
  intro k cls h
  unfold routeCellKeyword at h
  simp only [List.mem_map, List.mem_filter] at h
  obtain ⟨c, ⟨hc, hcond⟩, rfl⟩ := h
  simp only [Bool.and_eq_true, beq_iff_eq] at hcond
  unfold classPrefixes
  exact List.mem_map.mpr ⟨c, hc, by rw [← hcond.2]⟩

/-- GENERAL: `parse_data` returns the catch-all or the class whose prefix equals the card's prefix -/
theorem C12_dispatch_data_exact : ∀ (p : String), parseData p = "DataInput" ∨ (parseData p, p) ∈ classPrefixes := by
  intro p
  unfold parseData
  cases h : Registry.prefixMatches.find? (fun c => c.2.1 == p) with
  | none => exact .inl rfl
  | some c =>
    refine .inr ?_
    have hm := List.mem_of_find?_eq_some h
    have hp := List.find?_some h
    simp only [beq_iff_eq] at hp
    exact List.mem_map.mpr ⟨c, hm, by rw [← hp]⟩

/-- the shape of the classifier G gives to the data cards that have a class of their own -/
def pinnedDataShapes : List (String × Bool × Bool) :=
  [("m", true, false), ("mt", true, false), ("tr", true, false), ("mode", false, false), ("imp", false, true),
   ("vol", false, false), ("u", false, false), ("lat", false, false), ("fill", false, false)]

/-- the parser G's data cards need: parenthesised tally bins, segment lists, key=value only, … -/
def expectedParser (name : String) : String :=
  if name == "m" then "MaterialParser" else if name == "mt" then "ThermalParser"
  else if name == "f" || name == "fm" then "TallyParser" else if name == "fs" then "TallySegmentParser"
  else if name == "sdef" then "ParamOnlyDataParser" else "DataParser"

def C12_dispatch_statement : Prop :=
  -- every pinned cell keyword goes to its own class (when one exists) or to the generic path, never elsewhere
  (∀ k ∈ pinnedCellKeywords, ∀ cls ∈ routeCellKeyword (lower k), (cls, lower k) ∈ classPrefixes) ∧
  (∀ k ∈ pinnedCellKeywords, (routeCellKeyword (lower k)).length =
      if ["imp", "vol", "u", "lat", "fill"].contains (lower k) then 1 else 0) ∧
  -- every data name of G goes to the class whose prefix equals it, else to the catch-all
  (∀ n ∈ pinnedDataNames, ∀ c ∈ classPrefixes, c.2 = n → parseData n = c.1) ∧
  (∀ n ∈ pinnedDataNames, (∀ c ∈ classPrefixes, c.2 ≠ n) → parseData n = "DataInput") ∧
  (∀ s ∈ pinnedDataShapes, parseData s.1 ≠ "DataInput") ∧
  -- … whose name check accepts G's classifier, for every number
  (∀ s ∈ pinnedDataShapes, ∀ k : Int, k > 0 →
      enforceName (parseData s.1) s.1 (if s.2.1 then some k else none) s.2.2 = none) ∧
  -- … and is parsed by the parser that has G's productions for it
  (∀ n ∈ pinnedDataNames, dataParserOf n = expectedParser n)

theorem C12_dispatch : C12_dispatch_statement := by
  refine ⟨fun k _ cls h => C12_dispatch_cell_exact _ _ h, by decide, by decide, by decide, by decide, ?_, by decide⟩
  intro s hs k hk
  have hk' : decide (k > 0) = true := by simpa using hk
  simp only [pinnedDataShapes, List.mem_cons, List.mem_nil_iff, or_false] at hs
  rcases hs with rfl | rfl | rfl | rfl | rfl | rfl | rfl | rfl | rfl <;>
    simp [enforceName, parseData, Registry.prefixMatches, hk']

/-- non-vacuity / what the repair changed: `NONU` and `UNC` take the generic path -/
example : routeCellKeyword (lower "NONU") = [] ∧ routeCellKeyword (lower "UNC") = [] ∧
    routeCellKeyword (lower "U") = ["UniverseInput"] := by decide

/-- the in-place part of `_parse_keyword_modifiers` on a concrete cell: `u=2 nonu=1 imp:n=1 imp:p=0 tmp1=3` -/
example : parseKeywordModifiers [⟨"u", "", ""⟩, ⟨"nonu", "", ""⟩, ⟨"imp", ":n", ""⟩, ⟨"imp", ":p", ""⟩, ⟨"tmp", "", "1"⟩] =
    some { set := ["_universe", "_importance"], merged := ["_importance"], dropped := [], found := ["u", "imp"],
           keys := ["u", "nonu", "imp:n", "imp:p", "tmp1", "vol", "lat", "fill"] } := by decide

/-! ### ParametersNode.append keeps the classifier's number in the key -/

/-- two parameters of G with the same keyword and particles but different indices (`TMP1` / `TMP2`,
    `WWN1:n` / `WWN2:n`) never collide.  (Refuted until MontePy 280a407: the number was not part of the key.) -/
theorem C12_param_keys : ∀ (a b : Param), a.pfx = b.pfx → a.particles = b.particles → a.number ≠ b.number →
    a.keyChars ≠ b.keyChars := by
  intro a b hp hq hn h
  unfold Param.keyChars at h
  rw [hp, hq] at h
  have h1 := List.append_cancel_right h
  have h2 := List.append_cancel_left h1
  exact hn (String.toList_inj.mp h2)

example : (Param.mk "tmp" "" "1").key = "tmp1" ∧ (Param.mk "WWN" ":N" "2").key = "wwn2:n" := by decide
example : parseKeywordModifiers [⟨"tmp", "", "1"⟩, ⟨"tmp", "", "2"⟩] ≠ none := by decide
/-- the same parameter twice is still refused -/
example : parseKeywordModifiers [⟨"tmp", "", "1"⟩, ⟨"tmp", "", "1"⟩] = none := by decide

/-! ## C12_arity -/

/-- the mnemonics `surface_builder` sends to a class with a constant-count test -/
def countedMnemonics : List String := ["px", "py", "pz", "cx", "cy", "cz", "c/x", "c/y", "c/z", "p"]

def C12_arity_statement : Prop :=
  -- every arity of 5.2 is accepted …
  (∀ ma ∈ pinnedSurfaceArities, ∀ n ∈ ma.2, surfaceAccepts ma.1 n = true) ∧
  (∀ ma ∈ pinnedSurfaceArities, ∀ n ∈ ma.2, surfaceAccepts (upper ma.1) n = true) ∧
  -- … the specialised classes accept EXACTLY G's arities, for every n …
  (∀ m ∈ countedMnemonics, ∀ n : Nat, surfaceAccepts m n = arityAllowed m n) ∧
  -- … and every other mnemonic of G has no count test at all
  (∀ m ∈ pinnedSurfaceTypes, m ∉ countedMnemonics → ∀ n : Nat, surfaceAccepts m n = true)

theorem C12_arity : C12_arity_statement := by
  refine ⟨by decide, by decide, ?_, ?_⟩
  · intro m hm n
    have key : ∀ m ∈ countedMnemonics,
        (match convertToEnum m with
          | some v => decide (countsOf (surfaceClass v) = arities m) && !(arities m).isEmpty
          | none => false) = true := by decide
    have hk := key m hm
    unfold surfaceAccepts surfaceBuilder arityAllowed
    cases hc : convertToEnum m with
    | none => simp [hc] at hk
    | some v =>
      simp only [hc, Bool.and_eq_true, decide_eq_true_eq, Bool.not_eq_true'] at hk
      simp only [hk.1, hk.2, Bool.false_or]
      cases (arities m).contains n <;> rfl
  · intro m hm hnot n
    have key : ∀ m ∈ pinnedSurfaceTypes, m ∉ countedMnemonics →
        (match convertToEnum m with | some v => (countsOf (surfaceClass v)).isEmpty | none => false) = true := by
      decide
    have hk := key m hm hnot
    unfold surfaceAccepts surfaceBuilder
    cases hc : convertToEnum m with
    | none => simp [hc] at hk
    | some v => simp only [hc] at hk; simp [hk]

example : surfaceAccepts "px" 2 = false ∧ surfaceAccepts "p" 9 = true ∧ surfaceAccepts "arb" 30 = true := by decide

/-! ## C12_lexclass -/

/-- outside a particle position, keywords in any letter case become KEYWORD tokens in cell and data cards;
    mnemonics become SURFACE_TYPE -/
def C12_lexclass_statement : Prop :=
  (∀ w : String, lower w ∈ pinnedKeywords → particleLexerText false w = "KEYWORD") ∧
  (∀ w : String, lower w ∈ pinnedSurfaceTypes → surfaceLexerText w = "SURFACE_TYPE")

theorem C12_lexclass : C12_lexclass_statement := by
  constructor
  · intro w h
    have hsub : pinnedKeywords ⊆ Tokens.particleLexerKeywords := by decide
    have hmem : lower w ∈ Tokens.particleLexerKeywords := hsub h
    simp [particleLexerText, hmem]
  · intro w h
    have hsub : pinnedSurfaceTypes ⊆ Tokens.surfaceLexerSurfaceTypes := by decide
    have hmem : lower w ∈ Tokens.surfaceLexerSurfaceTypes := hsub h
    simp [surfaceLexerText, hmem]

example : lower "NoNu" ∈ pinnedKeywords ∧ lower "C/X" ∈ pinnedSurfaceTypes := by decide

/-- the full statement for particles: where only a particle can stand, every letter designator of table 2-2,
    in any letter case, becomes a PARTICLE token — also `u`, `x`, `y`, `z`, which are keywords too.
    (Refuted by `u` until MontePy 22ba69f: the keyword test came first everywhere.) -/
def C12_lexclass_particles_statement : Prop :=
  ∀ w : String, lower w ∈ pinnedParticles → particleLexerText true w = "PARTICLE"

theorem C12_lexclass_particles : C12_lexclass_particles_statement := by
  intro w h
  have hsub : pinnedParticles ⊆ Tokens.particleLexerParticles := by decide
  have hp : lower w ∈ Tokens.particleLexerParticles := hsub h
  simp [particleLexerText, hp]

/-- the positions G puts a particle in are recognised: after `:` and `,`, on a MODE card in any letter case,
    after `par` / `par=` (but not after a longer word that merely ends in par) -/
theorem C12_expects_particle :
    (∀ f k, expectsParticle (some ':') f k = true) ∧ (∀ f k, expectsParticle (some ',') f k = true) ∧
    (∀ p k, expectsParticle p (some "mode") k = true) ∧ (∀ p k, expectsParticle p (some "MODE") k = true) ∧
    (∀ p k, expectsParticle p (some "Mode") k = true) ∧
    expectsParticle (some '=') (some "sdef") "sdef erg=1 par" = true ∧
    expectsParticle (some ' ') (some "sdef") "sdef par" = true ∧
    expectsParticle (some '=') (some "sdef") "sdef spar" = false ∧
    expectsParticle (some ' ') (some "u") "u" = false ∧ expectsParticle none none "" = false := by
  refine ⟨fun f k => by simp [expectsParticle], fun f k => by simp [expectsParticle], ?_, ?_, ?_,
    by decide, by decide, by decide, by decide, by decide⟩
  · intro p k
    have : (lower "mode" == "mode") = true := by decide
    simp [expectsParticle, this]
  · intro p k
    have : (lower "MODE" == "mode") = true := by decide
    simp [expectsParticle, this]
  · intro p k
    have : (lower "Mode" == "mode") = true := by decide
    simp [expectsParticle, this]

/-- elsewhere the keyword test still comes first (`u=1`, `x=d1` are keywords), and a particle letter that is no
    keyword is a PARTICLE anyway -/
def isKeywordLetter (w : String) : Bool := Tokens.particleLexerKeywords.contains (lower w)

theorem C12_lexclass_particles_elsewhere :
    ∀ w : String, lower w ∈ pinnedParticles → isKeywordLetter w = false → particleLexerText false w = "PARTICLE" := by
  intro w h hk
  have hsub : pinnedParticles ⊆ Tokens.particleLexerParticles := by decide
  have hp : lower w ∈ Tokens.particleLexerParticles := hsub h
  have hk' : lower w ∉ Tokens.particleLexerKeywords := by
    intro hmem
    simp [isKeywordLetter, hmem] at hk
  simp [particleLexerText, hk', hp]

example : pinnedParticles.filter isKeywordLetter = ["u", "x", "y", "z"] := by decide
example : particleLexerText false "u" = "KEYWORD" ∧ particleLexerText true "U" = "PARTICLE" := by decide

end MontePyVerif.C12
