import MontePyVerif.Spec.Card
import MontePyVerif.Gen.Tokens
import MontePyVerif.Gen.Grammar
import MontePyVerif.Gen.Registry
import MontePyVerif.Model.Dispatch
import MontePyVerif.Lemmas.Cfg
import MontePyVerif.Lemmas.LexNum
/-! # C12 — every input in the documented core grammar is accepted

What is PROVED here (for all sentences of the families, no bound on their size):

* `C12_pinned`      every pinned terminal of G is in the table the code uses now (complete finite tables, `decide`);
* `C12_cfg`         (full strength) for ANY grammar containing the pinned required productions, every well-formed cell card,
                    cell geometry, number/shortcut sequence, surface card, number-list/MODE data card, material
                    card and thermal card of G — with any legal layout of gaps — is derivable from the start
                    symbol; `C12_cfg_montepy` instantiates it with the productions extracted from the SLY classes;
* `C12_dispatch`    the table look-ups that route a cell parameter / a data card / a surface to a class;
* `C12_arity`       the constant-count tests accept exactly G's arities;
* `C12_lexclass…`   the keyword / particle / mnemonic re-classification of the three lexers.

What is NOT proved and cannot be in this family (DESIGN section 9): context-free derivability is not LALR
acceptance — SLY resolves the shift/reduce and reduce/reduce conflicts counted in `Gen.Grammar` silently — and
nothing here talks about the regular expressions of `tokens.py`.  Those two are validated on the real parser by
`tools/props/c12.py` (acceptance oracle + comparison of `Spec.Card.*.classes` with the real token stream).
-/
namespace MontePyVerif.C12
open MontePyVerif MontePyVerif.Spec.Card MontePyVerif.Cfg MontePyVerif.Dispatch
open MontePyVerif.Gen

/-! ## C12_pinned -/

def C12_pinned_statement : Prop :=
  pinnedKeywords ⊆ Tokens.cellLexerKeywords ∧ pinnedKeywords ⊆ Tokens.dataLexerKeywords ∧
  pinnedParticles ⊆ Tokens.cellLexerParticles ∧ pinnedParticles ⊆ Tokens.dataLexerParticles ∧
  pinnedSurfaceTypes ⊆ Tokens.surfaceLexerSurfaceTypes ∧
  pinnedCellKeywords ⊆ Registry.allowedCellKeywords ∧
  pinnedSurfaceTypes.map upper ⊆ Registry.surfaceTypeValues ∧
  pinnedParticles.map upper ⊆ Registry.particleValues ∧
  pinnedCellKeywords.map lower ⊆ pinnedKeywords ∧
  [1, 2] ⊆ Registry.latticeValues

theorem C12_pinned : C12_pinned_statement := by
  unfold C12_pinned_statement
  refine ⟨by decide, by decide, by decide, by decide, by decide, by decide, by decide, by decide, by decide, by decide⟩

/-- non-vacuity: the pinned sets are the full lists of 5.2 -/
example : pinnedSurfaceTypes.length = 40 ∧ pinnedCellKeywords.length = 18 ∧ pinnedParticles.length = 22 := by decide

/-! ## C12_cfg -/

/-- a grammar as the translator dumps it -/
structure Grammar where
  start : String
  productions : Prods

/-- the full statement: for ANY production list containing the required productions of a parser, every
    well-formed card of the family (any size, any legal gaps) derives from that parser's start symbol -/
def C12_cfg_statement : Prop :=
  (∀ P : Prods, reqCell ⊆ P → ∀ c : CellCard, c.WF = true → Der P "cell" c.classes) ∧
  (∀ P : Prods, reqGeometry ⊆ P → ∀ e : Geom, e.WF = true → ∀ pad : Gap, pad.ok = true →
      Der P "geometry_expr" (e.classes ++ pad.cls)) ∧
  (∀ P : Prods, reqNumbers ⊆ P → ∀ es : Entries, es ≠ [] → es.WF = true → Der P "number_sequence" es.classes) ∧
  (∀ P : Prods, reqSurface ⊆ P → ∀ s : SurfaceCard, s.WF = true → Der P "surface" s.classes) ∧
  (∀ P : Prods, reqData ⊆ P → ∀ d : DataCard, d.WF = true → DataCard.isPlain d = true → Der P "data_input" d.classes) ∧
  (∀ P : Prods, reqMaterial ⊆ P → ∀ lead c g0 fr ps, (DataCard.mk lead c g0 (.material fr ps)).WF = true →
      Der P "material" (DataCard.mk lead c g0 (.material fr ps)).classes) ∧
  (∀ P : Prods, reqThermal ⊆ P → ∀ lead c g0 laws, (DataCard.mk lead c g0 (.thermal laws)).WF = true →
      Der P "thermal_mat" (DataCard.mk lead c g0 (.thermal laws)).classes)

/-- Full strength.  (Until MontePy commit e8e6f87 the interpolate productions ended in `number_phrase`, a non-zero
    NUMBER, and this was only provable as `C12_cfg_partial` under the hypothesis that no interpolation ends on a
    zero; the productions now end in `numerical_phrase` and the hypothesis is gone.) -/
theorem C12_cfg : C12_cfg_statement :=
  ⟨fun _ h c hw => cell_der h c hw,
   fun _ h e hw pad hp => (geom_der h e hw).2.2.2.2 pad hp,
   fun _ h es hne hw => entries_der h es hne hw,
   fun _ h s hw => surface_der h s hw,
   fun _ h d hw hp => data_der h d hw hp,
   fun _ h lead c g0 fr ps hw => material_der h lead c g0 fr ps hw,
   fun _ h lead c g0 laws hw => thermal_der h lead c g0 laws hw⟩

/-- the geometry part on its own -/
theorem C12_cfg_geometry : ∀ P : Prods, reqGeometry ⊆ P → ∀ e : Geom, e.WF = true → ∀ pad : Gap, pad.ok = true →
    Der P "geometry_expr" (e.classes ++ pad.cls) := C12_cfg.2.1

/-- the per-run obligation: the required productions are among those the translator extracted from the SLY
    parser classes of the working tree (deleting or altering a production G needs fails here) -/
theorem C12_required_productions :
    reqCell ⊆ Grammar.cellParser.productions ∧ reqSurface ⊆ Grammar.surfaceParser.productions ∧
    reqData ⊆ Grammar.dataParser.productions ∧ reqMaterial ⊆ Grammar.materialParser.productions ∧
    reqThermal ⊆ Grammar.thermalParser.productions ∧
    Grammar.cellParser.start = "cell" ∧ Grammar.surfaceParser.start = "surface" ∧
    Grammar.dataParser.start = "data_input" ∧ Grammar.materialParser.start = "material" ∧
    Grammar.thermalParser.start = "thermal_mat" := by
  refine ⟨by decide, by decide, by decide, by decide, by decide, by decide, by decide, by decide, by decide, by decide⟩

/-- `C12_cfg` instantiated with MontePy's grammars as they are now -/
theorem C12_cfg_montepy :
    (∀ c : CellCard, c.WF = true → Der Grammar.cellParser.productions Grammar.cellParser.start c.classes) ∧
    (∀ s : SurfaceCard, s.WF = true → Der Grammar.surfaceParser.productions Grammar.surfaceParser.start s.classes) ∧
    (∀ d : DataCard, d.WF = true → DataCard.isPlain d = true →
      Der Grammar.dataParser.productions Grammar.dataParser.start d.classes) ∧
    (∀ lead c g0 fr ps, (DataCard.mk lead c g0 (.material fr ps)).WF = true →
      Der Grammar.materialParser.productions Grammar.materialParser.start
        (DataCard.mk lead c g0 (.material fr ps)).classes) ∧
    (∀ lead c g0 laws, (DataCard.mk lead c g0 (.thermal laws)).WF = true →
      Der Grammar.thermalParser.productions Grammar.thermalParser.start
        (DataCard.mk lead c g0 (.thermal laws)).classes) := by
  obtain ⟨h1, h2, h3, h4, h5, s1, s2, s3, s4, s5⟩ := C12_required_productions
  rw [s1, s2, s3, s4, s5]
  exact ⟨fun c hw => C12_cfg.1 _ h1 c hw,
    fun s hw => C12_cfg.2.2.2.1 _ h2 s hw,
    fun d hw hp => C12_cfg.2.2.2.2.1 _ h3 d hw hp,
    fun lead c g0 fr ps hw => C12_cfg.2.2.2.2.2.1 _ h4 lead c g0 fr ps hw,
    fun lead c g0 laws hw => C12_cfg.2.2.2.2.2.2 _ h5 lead c g0 laws hw⟩

/-! non-vacuity: concrete sentences of G that satisfy every hypothesis -/

/-- `1 0 (1:-2)(3) #4 imp:n,p=1 fill=0:1 0:0 0:0 5 6 $c` -/
def exampleCell : CellCard where
  lead := []
  number := "1"
  g0 := [.space]
  material := none
  g1 := [.space]
  geometry :=
    .inter (.inter (.paren [] (.union (.surf "1") [] [] (.surf "-2")) []) [] (.paren [] (.surf "3") []))
      [.space] (.compl (.surf "4"))
  g2 := [.space]
  params :=
    [{ key := { star := false, name := "imp", nameCls := "KEYWORD", number := none, particles := ["n", "p"] },
       sep := { before := [], eq := true, after := [] },
       val := .nums [(.real ⟨"1", false⟩, [.space])] },
     { key := { star := false, name := "fill", nameCls := "KEYWORD", number := none, particles := [] },
       sep := { before := [], eq := true, after := [] },
       val := .lattice ⟨"0", true⟩ ⟨"1", false⟩ [.space] ⟨"0", true⟩ ⟨"0", true⟩ [.space] ⟨"0", true⟩ ⟨"0", true⟩
         [.space] [(.real ⟨"5", false⟩, [.space]), (.real ⟨"6", false⟩, [.space, .dollar])] }]

example : exampleCell.WF = true := by decide
example : exampleCell.render =
    ["1", "0", "(", "1", ":", "-2", ")", "(", "3", ")", "#", "4", "imp:n,p", "1",
     "fill", "0", ":", "1", "0", ":", "0", "0", ":", "0", "5", "6"] := by decide
example : Der Grammar.cellParser.productions "cell" exampleCell.classes :=
  C12_cfg_montepy.1 exampleCell (by decide)

/-- `*7 -3 k/x 1 2r 4 0.5` -/
def exampleSurface : SurfaceCard where
  lead := []
  star := true
  number := "7"
  g0 := [.space]
  pointer := some ("-3", [.space])
  mnemonic := "k/x"
  g1 := [.space]
  constants := [(.rep ⟨"1", false⟩ [.space] "2r" true, [.space]), (.real ⟨"4", false⟩, [.space]),
    (.real ⟨"0.5", false⟩, [])]

example : exampleSurface.WF = true := by decide

/-- `e4 5 3i 0`: an interpolation that ends on zero is a sentence of G and is derivable now -/
def exampleInterpZero : DataCard where
  lead := []
  classifier := { star := false, name := "e", nameCls := "PARTICLE", number := some "4", particles := [] }
  g0 := [.space]
  body := .numbers none [(.interp ⟨"5", false⟩ [.space] "3i" true false [.space] ⟨"0", true⟩, [])]

example : exampleInterpZero.WF = true ∧ exampleInterpZero.interpEndNonzero = false := by decide
example : Der Grammar.dataParser.productions "data_input" exampleInterpZero.classes :=
  C12_cfg_montepy.2.2.1 exampleInterpZero (by decide) (by decide)

/-! ### the families added in round 4: tally, FS, SDEF, SI/SP/SB/DS with an option letter -/

/-- for ANY production list containing the required productions: every well-formed F card (bins, groups with
    gaps, total), FS card, SDEF card (numbers, `dN`, particle values; possibly no parameter) and lettered
    SI/SP/SB/DS card derives from the start symbol of its parser -/
def C12_cfg_extended_statement : Prop :=
  (∀ P : Prods, reqTally ⊆ P → ∀ lead c g0 items total, (XCard.mk lead c g0 (.tally items total)).WF = true →
      Der P "tally" (XCard.mk lead c g0 (.tally items total)).classes) ∧
  (∀ P : Prods, reqTallySeg ⊆ P → ∀ lead c g0 es total, (XCard.mk lead c g0 (.segments es total)).WF = true →
      Der P "tally" (XCard.mk lead c g0 (.segments es total)).classes) ∧
  (∀ P : Prods, reqSdef ⊆ P → ∀ lead c g0 ps, (XCard.mk lead c g0 (.sdef ps)).WF = true →
      Der P "param_data_input" (XCard.mk lead c g0 (.sdef ps)).classes) ∧
  (∀ P : Prods, reqLettered ⊆ P → ∀ lead c g0 l g es, (XCard.mk lead c g0 (.lettered l g es)).WF = true →
      Der P "data_input" (XCard.mk lead c g0 (.lettered l g es)).classes)

theorem C12_cfg_extended : C12_cfg_extended_statement :=
  ⟨fun _ h lead c g0 items total hw => tally_der h lead c g0 items total hw,
   fun _ h lead c g0 es total hw => segments_der h lead c g0 es total hw,
   fun _ h lead c g0 ps hw => sdef_der h lead c g0 ps hw,
   fun _ h lead c g0 l g es hw => lettered_der h lead c g0 l g es hw⟩

theorem C12_required_productions_extended :
    reqTally ⊆ Grammar.tallyParser.productions ∧ reqTallySeg ⊆ Grammar.tallySegmentParser.productions ∧
    reqSdef ⊆ Grammar.paramOnlyDataParser.productions ∧ reqLettered ⊆ Grammar.dataParser.productions ∧
    Grammar.tallyParser.start = "tally" ∧ Grammar.tallySegmentParser.start = "tally" ∧
    Grammar.paramOnlyDataParser.start = "param_data_input" := by
  refine ⟨by decide, by decide, by decide, by decide, by decide, by decide, by decide⟩

/-- instantiated with the extracted grammars -/
theorem C12_cfg_extended_montepy :
    (∀ lead c g0 items total, (XCard.mk lead c g0 (.tally items total)).WF = true →
      Der Grammar.tallyParser.productions Grammar.tallyParser.start (XCard.mk lead c g0 (.tally items total)).classes) ∧
    (∀ lead c g0 es total, (XCard.mk lead c g0 (.segments es total)).WF = true →
      Der Grammar.tallySegmentParser.productions Grammar.tallySegmentParser.start
        (XCard.mk lead c g0 (.segments es total)).classes) ∧
    (∀ lead c g0 ps, (XCard.mk lead c g0 (.sdef ps)).WF = true →
      Der Grammar.paramOnlyDataParser.productions Grammar.paramOnlyDataParser.start
        (XCard.mk lead c g0 (.sdef ps)).classes) ∧
    (∀ lead c g0 l g es, (XCard.mk lead c g0 (.lettered l g es)).WF = true →
      Der Grammar.dataParser.productions Grammar.dataParser.start (XCard.mk lead c g0 (.lettered l g es)).classes) := by
  obtain ⟨h1, h2, h3, h4, s1, s2, s3⟩ := C12_required_productions_extended
  have s4 := C12_required_productions.2.2.2.2.2.2.2.1
  rw [s1, s2, s3, s4]
  exact ⟨fun lead c g0 items total hw => C12_cfg_extended.1 _ h1 lead c g0 items total hw,
    fun lead c g0 es total hw => C12_cfg_extended.2.1 _ h2 lead c g0 es total hw,
    fun lead c g0 ps hw => C12_cfg_extended.2.2.1 _ h3 lead c g0 ps hw,
    fun lead c g0 l g es hw => C12_cfg_extended.2.2.2 _ h4 lead c g0 l g es hw⟩

/-- `*f14:n,p 1 ( 2 3) (4) t` -/
def exampleTally : XCard where
  lead := []
  classifier := { star := true, starCls := "PARTICLE_SPECIAL", name := "f", nameCls := "PARTICLE", number := some "14",
                  particles := ["n", "p"] }
  g0 := [.space]
  body := .tally [.bins [(.real ⟨"1", false⟩, [.space])],
                  .group [.space] [(.real ⟨"2", false⟩, [.space]), (.real ⟨"3", false⟩, [])] [.space],
                  .group [] [(.real ⟨"4", false⟩, [])] [.space]] (some ("t", []))

example : exampleTally.WF = true := by decide
example : exampleTally.render = ["*f14:n,p", "1", "(", "2", "3", ")", "(", "4", ")", "t"] := by decide

/-- `sdef erg=d1 pos 0 0 0 par=n` and the bare `sdef` -/
def exampleSdef : XCard where
  lead := []
  classifier := { star := false, name := "sdef", nameCls := "TEXT", number := none, particles := [] }
  g0 := [.space]
  body := .sdef [⟨"erg", ⟨[], true, []⟩, .dist "d" "1" [.space]⟩,
                 ⟨"pos", ⟨[.space], false, []⟩, .nums [(.real ⟨"0", true⟩, [.space]), (.real ⟨"0", true⟩, [.space]),
                    (.real ⟨"0", true⟩, [.space])]⟩,
                 ⟨"par", ⟨[], true, []⟩, .particle "n" []⟩]
example : exampleSdef.WF = true := by decide
example : ({ exampleSdef with g0 := [], body := .sdef [] } : XCard).WF = true := by decide

/-! ## C12_dispatch -/

/-- (class, prefix) pairs of PREFIX_MATCHES -/
def classPrefixes : List (String × String) := Registry.prefixMatches.map (fun c => (c.1, c.2.1))

/-- the order in which the Python set is scanned cannot matter: no two classes share a prefix or a name -/
theorem prefixes_nodup : (Registry.prefixMatches.map (·.2.1)).Nodup ∧ (Registry.prefixMatches.map (·.1)).Nodup := by
  decide

/-- GENERAL (all strings): a cell parameter is handed to a modifier class only if that class' prefix EQUALS the
    keyword — never to another class (the unrepaired `prefix in key` refuted this for `nonu`, `unc`) -/
theorem C12_dispatch_cell_exact : ∀ (k cls : String), cls ∈ routeCellKeyword k → (cls, k) ∈ classPrefixes := by
  intro k cls h
  unfold routeCellKeyword at h
  simp only [List.mem_map, List.mem_filter] at h
  obtain ⟨c, ⟨hc, hcond⟩, rfl⟩ := h
  simp only [Bool.and_eq_true, beq_iff_eq] at hcond
  unfold classPrefixes
  exact List.mem_map.mpr ⟨c, hc, by rw [← hcond.2]⟩

/-- GENERAL: `parse_data` returns the catch-all or the class whose prefix equals the card's prefix -/
theorem C12_dispatch_data_exact : ∀ (p : String), parseData p = "DataInput" ∨ (parseData p, p) ∈ classPrefixes := by
  intro p
  unfold parseData
  cases h : Registry.prefixMatches.find? (fun c => c.2.1 == p) with
  | none => exact .inl rfl
  | some c =>
    refine .inr ?_
    have hm := List.mem_of_find?_eq_some h
    have hp := List.find?_some h
    simp only [beq_iff_eq] at hp
    exact List.mem_map.mpr ⟨c, hm, by rw [← hp]⟩

/-- the shape of the classifier G gives to the data cards that have a class of their own -/
def pinnedDataShapes : List (String × Bool × Bool) :=
  [("m", true, false), ("mt", true, false), ("tr", true, false), ("mode", false, false), ("imp", false, true),
   ("vol", false, false), ("u", false, false), ("lat", false, false), ("fill", false, false)]

/-- the parser G's data cards need: parenthesised tally bins, segment lists, key=value only, … -/
def expectedParser (name : String) : String :=
  if name == "m" then "MaterialParser" else if name == "mt" then "ThermalParser"
  else if name == "f" || name == "fm" then "TallyParser" else if name == "fs" then "TallySegmentParser"
  else if name == "sdef" then "ParamOnlyDataParser" else "DataParser"

def C12_dispatch_statement : Prop :=
  -- every pinned cell keyword goes to its own class (when one exists) or to the generic path, never elsewhere
  (∀ k ∈ pinnedCellKeywords, ∀ cls ∈ routeCellKeyword (lower k), (cls, lower k) ∈ classPrefixes) ∧
  (∀ k ∈ pinnedCellKeywords, (routeCellKeyword (lower k)).length =
      if ["imp", "vol", "u", "lat", "fill"].contains (lower k) then 1 else 0) ∧
  -- every data name of G goes to the class whose prefix equals it, else to the catch-all
  (∀ n ∈ pinnedDataNames, ∀ c ∈ classPrefixes, c.2 = n → parseData n = c.1) ∧
  (∀ n ∈ pinnedDataNames, (∀ c ∈ classPrefixes, c.2 ≠ n) → parseData n = "DataInput") ∧
  (∀ s ∈ pinnedDataShapes, parseData s.1 ≠ "DataInput") ∧
  -- … whose name check accepts G's classifier, for every number
  (∀ s ∈ pinnedDataShapes, ∀ k : Int, k > 0 →
      enforceName (parseData s.1) s.1 (if s.2.1 then some k else none) s.2.2 = none) ∧
  -- … and is parsed by the parser that has G's productions for it
  (∀ n ∈ pinnedDataNames, dataParserOf n = expectedParser n)

theorem C12_dispatch : C12_dispatch_statement := by
  refine ⟨fun k _ cls h => C12_dispatch_cell_exact _ _ h, by decide, by decide, by decide, by decide, ?_, by decide⟩
  intro s hs k hk
  have hk' : decide (k > 0) = true := by simpa using hk
  simp only [pinnedDataShapes, List.mem_cons, List.mem_nil_iff, or_false] at hs
  rcases hs with rfl | rfl | rfl | rfl | rfl | rfl | rfl | rfl | rfl <;>
    simp [enforceName, parseData, Registry.prefixMatches, hk']

/-- non-vacuity / what the repair changed: `NONU` and `UNC` take the generic path -/
example : routeCellKeyword (lower "NONU") = [] ∧ routeCellKeyword (lower "UNC") = [] ∧
    routeCellKeyword (lower "U") = ["UniverseInput"] := by decide

/-- the in-place part of `_parse_keyword_modifiers` on a concrete cell: `u=2 nonu=1 imp:n=1 imp:p=0 tmp1=3` -/
example : parseKeywordModifiers [⟨"u", "", ""⟩, ⟨"nonu", "", ""⟩, ⟨"imp", ":n", ""⟩, ⟨"imp", ":p", ""⟩, ⟨"tmp", "", "1"⟩] =
    some { set := ["_universe", "_importance"], merged := ["_importance"], dropped := [], found := ["u", "imp"],
           keys := ["u", "nonu", "imp:n", "imp:p", "tmp1", "vol", "lat", "fill"] } := by decide

/-! ### ParametersNode.append keeps the classifier's number in the key -/

/-- two parameters of G with the same keyword and particles but different indices (`TMP1` / `TMP2`,
    `WWN1:n` / `WWN2:n`) never collide.  (Refuted until MontePy 280a407: the number was not part of the key.) -/
theorem C12_param_keys : ∀ (a b : Param), a.pfx = b.pfx → a.particles = b.particles → a.number ≠ b.number →
    a.keyChars ≠ b.keyChars := by
  intro a b hp hq hn h
  unfold Param.keyChars at h
  rw [hp, hq] at h
  have h1 := List.append_cancel_right h
  have h2 := List.append_cancel_left h1
  exact hn (String.toList_inj.mp h2)

example : (Param.mk "tmp" "" "1").key = "tmp1" ∧ (Param.mk "WWN" ":N" "2").key = "wwn2:n" := by decide
example : parseKeywordModifiers [⟨"tmp", "", "1"⟩, ⟨"tmp", "", "2"⟩] ≠ none := by decide
/-- the same parameter twice is still refused -/
example : parseKeywordModifiers [⟨"tmp", "", "1"⟩, ⟨"tmp", "", "1"⟩] = none := by decide

/-! ## C12_arity -/

/-- the mnemonics `surface_builder` sends to a class with a constant-count test -/
def countedMnemonics : List String := ["px", "py", "pz", "cx", "cy", "cz", "c/x", "c/y", "c/z", "p"]

def C12_arity_statement : Prop :=
  -- every arity of 5.2 is accepted …
  (∀ ma ∈ pinnedSurfaceArities, ∀ n ∈ ma.2, surfaceAccepts ma.1 n = true) ∧
  (∀ ma ∈ pinnedSurfaceArities, ∀ n ∈ ma.2, surfaceAccepts (upper ma.1) n = true) ∧
  -- … the specialised classes accept EXACTLY G's arities, for every n …
  (∀ m ∈ countedMnemonics, ∀ n : Nat, surfaceAccepts m n = arityAllowed m n) ∧
  -- … and every other mnemonic of G has no count test at all
  (∀ m ∈ pinnedSurfaceTypes, m ∉ countedMnemonics → ∀ n : Nat, surfaceAccepts m n = true)

theorem C12_arity : C12_arity_statement := by
  refine ⟨by decide, by decide, ?_, ?_⟩
  · intro m hm n
    have key : ∀ m ∈ countedMnemonics,
        (match convertToEnum m with
          | some v => decide (countsOf (surfaceClass v) = arities m) && !(arities m).isEmpty
          | none => false) = true := by decide
    have hk := key m hm
    unfold surfaceAccepts surfaceBuilder arityAllowed
    cases hc : convertToEnum m with
    | none => simp [hc] at hk
    | some v =>
      simp only [hc, Bool.and_eq_true, decide_eq_true_eq, Bool.not_eq_true'] at hk
      simp only [hk.1, hk.2, Bool.false_or]
      cases (arities m).contains n <;> rfl
  · intro m hm hnot n
    have key : ∀ m ∈ pinnedSurfaceTypes, m ∉ countedMnemonics →
        (match convertToEnum m with | some v => (countsOf (surfaceClass v)).isEmpty | none => false) = true := by
      decide
    have hk := key m hm hnot
    unfold surfaceAccepts surfaceBuilder
    cases hc : convertToEnum m with
    | none => simp [hc] at hk
    | some v => simp only [hc] at hk; simp [hk]

example : surfaceAccepts "px" 2 = false ∧ surfaceAccepts "p" 9 = true ∧ surfaceAccepts "arb" 30 = true := by decide

/-! ## C12_lexclass -/

/-- outside a particle position, keywords in any letter case become KEYWORD tokens in cell and data cards;
    mnemonics become SURFACE_TYPE -/
def C12_lexclass_statement : Prop :=
  (∀ w : String, lower w ∈ pinnedKeywords → particleLexerText false w = "KEYWORD") ∧
  (∀ w : String, lower w ∈ pinnedSurfaceTypes → surfaceLexerText w = "SURFACE_TYPE")

theorem C12_lexclass : C12_lexclass_statement := by
  constructor
  · intro w h
    have hsub : pinnedKeywords ⊆ Tokens.particleLexerKeywords := by decide
    have hmem : lower w ∈ Tokens.particleLexerKeywords := hsub h
    simp [particleLexerText, hmem]
  · intro w h
    have hsub : pinnedSurfaceTypes ⊆ Tokens.surfaceLexerSurfaceTypes := by decide
    have hmem : lower w ∈ Tokens.surfaceLexerSurfaceTypes := hsub h
    simp [surfaceLexerText, hmem]

example : lower "NoNu" ∈ pinnedKeywords ∧ lower "C/X" ∈ pinnedSurfaceTypes := by decide

/-- the full statement for particles: where only a particle can stand, every letter designator of table 2-2,
    in any letter case, becomes a PARTICLE token — also `u`, `x`, `y`, `z`, which are keywords too.
    (Refuted by `u` until MontePy 22ba69f: the keyword test came first everywhere.) -/
def C12_lexclass_particles_statement : Prop :=
  ∀ w : String, lower w ∈ pinnedParticles → particleLexerText true w = "PARTICLE"

theorem C12_lexclass_particles : C12_lexclass_particles_statement := by
  intro w h
  have hsub : pinnedParticles ⊆ Tokens.particleLexerParticles := by decide
  have hp : lower w ∈ Tokens.particleLexerParticles := hsub h
  simp [particleLexerText, hp]

/-- the positions G puts a particle in are recognised: after `:` and `,`, on a MODE card in any letter case,
    after `par` / `par=` (but not after a longer word that merely ends in par) -/
theorem C12_expects_particle :
    (∀ f k, expectsParticle (some ':') f k = true) ∧ (∀ f k, expectsParticle (some ',') f k = true) ∧
    (∀ p k, expectsParticle p (some "mode") k = true) ∧ (∀ p k, expectsParticle p (some "MODE") k = true) ∧
    (∀ p k, expectsParticle p (some "Mode") k = true) ∧
    expectsParticle (some '=') (some "sdef") "sdef erg=1 par" = true ∧
    expectsParticle (some ' ') (some "sdef") "sdef par" = true ∧
    expectsParticle (some '=') (some "sdef") "sdef spar" = false ∧
    expectsParticle (some ' ') (some "u") "u" = false ∧ expectsParticle none none "" = false := by
  refine ⟨fun f k => by simp [expectsParticle], fun f k => by simp [expectsParticle], ?_, ?_, ?_,
    by decide, by decide, by decide, by decide, by decide⟩
  · intro p k
    have : (lower "mode" == "mode") = true := by decide
    simp [expectsParticle, this]
  · intro p k
    have : (lower "MODE" == "mode") = true := by decide
    simp [expectsParticle, this]
  · intro p k
    have : (lower "Mode" == "mode") = true := by decide
    simp [expectsParticle, this]

/-- elsewhere the keyword test still comes first (`u=1`, `x=d1` are keywords), and a particle letter that is no
    keyword is a PARTICLE anyway -/
def isKeywordLetter (w : String) : Bool := Tokens.particleLexerKeywords.contains (lower w)

theorem C12_lexclass_particles_elsewhere :
    ∀ w : String, lower w ∈ pinnedParticles → isKeywordLetter w = false → particleLexerText false w = "PARTICLE" := by
  intro w h hk
  have hsub : pinnedParticles ⊆ Tokens.particleLexerParticles := by decide
  have hp : lower w ∈ Tokens.particleLexerParticles := hsub h
  have hk' : lower w ∉ Tokens.particleLexerKeywords := by
    intro hmem
    simp [isKeywordLetter, hmem] at hk
  simp [particleLexerText, hk', hp]

example : pinnedParticles.filter isKeywordLetter = ["u", "x", "y", "z"] := by decide
example : particleLexerText false "u" = "KEYWORD" ∧ particleLexerText true "U" = "PARTICLE" := by decide

/-! ## C12_lexnum — the regular-expression decision on numeric words (Model/LexNum.lean)

The rules were modelled from these exact pattern strings; `C12_lexnum_patterns` pins them (and their order, the
rules in front of them, the flags and the shortcut expressions) against what the translator extracted from every
lexer class: a changed pattern makes this theorem false, the module stops building and the check searches. -/

open MontePyVerif.LexNum in
/-- the rules in front of the numeric ones: none can start at a sign, a digit or a point -/
def pinnedLeadingRules : List (String × String) :=
  [("COMPLEMENT", "\\#"), ("DOLLAR_COMMENT", "(\\$.*)"), ("COMMENT", "(C\\n)|(C\\s.*)"),
   ("SOURCE_COMMENT", "(SC\\d+.*)"), ("TALLY_COMMENT", "(FC\\d+.*)"), ("SPACE", "(\\s+)")]

/-- the rules that compete on a numeric word, in master-regex order (THERMAL_LAW starts with a letter) -/
def pinnedNumericRules : List (String × String) :=
  [("ZAID", "(\\d{4,6}\\.(\\d{2}(?!e[+\\-]?\\d)[a-z]|\\d{3}[a-z]{2}))"),
   ("THERMAL_LAW", "[a-z][a-z\\d/-]+\\.\\d+[a-z]"),
   ("NUMBER_WORD",
    "([+\\-]?\\d+(?!e[+\\-]?\\d)[a-z]+)|([+\\-]?(\\d+\\.?\\d*|\\.\\d+)(e[+\\-]?\\d+|[+\\-]\\d+)?m(?![a-z]))"),
   ("NUMBER", "([+\\-]?[0-9]+\\.?[0-9]*E?[+\\-]?[0-9]*)|([+\\-]?[0-9]*\\.?[0-9]+E?[+\\-]?[0-9]*)"),
   ("TEXT", "([+\\-]?[0-9]*\\.?[0-9]*E?[+\\-]?[0-9]*[ijrml]+[a-z\\./]*)|([a-z]+[a-z\\./]*)")]

/-- `_EXPRESSIONS`, from which `LexNum.parseShortcut` was written -/
def pinnedShortcutExpressions : List (String × String) :=
  [("INTERPOLATE", "^\\d*I$"), ("JUMP", "^\\d*J$"), ("LOG_INTERPOLATE", "^\\d*I?LOG$"),
   ("MULTIPLY", "^[+\\-]?([0-9]+\\.?[0-9]*|\\.[0-9]+)E?[+\\-]?[0-9]*M$"), ("REPEAT", "^\\d*R$")]

theorem C12_lexnum_patterns :
    (∀ rules ∈ [Tokens.mCNPLexerRules, Tokens.particleLexerRules, Tokens.cellLexerRules, Tokens.dataLexerRules,
        Tokens.surfaceLexerRules], rules.take 11 = pinnedLeadingRules ++ pinnedNumericRules) ∧
    (∀ fl ∈ [Tokens.mCNPLexerReflags, Tokens.particleLexerReflags, Tokens.cellLexerReflags,
        Tokens.dataLexerReflags, Tokens.surfaceLexerReflags], fl = 66) ∧   -- re.IGNORECASE | re.VERBOSE
    Tokens.shortcutExpressions = pinnedShortcutExpressions := by
  refine ⟨by decide, by decide, by decide⟩

namespace LexBridge
open MontePyVerif.LexNum

/-- a decimal digit character -/
def dchar (d : Fin 10) : Char := Char.ofNat (48 + d.val)

theorem kind_dchar : ∀ d : Fin 10, kind (dchar d) = K.dig (d.val == 0) := by decide

def dchars (ds : List (Fin 10)) : List Char := ds.map dchar
def zflags (ds : List (Fin 10)) : List Bool := ds.map (fun d => d.val == 0)

theorem kinds_dchars (ds : List (Fin 10)) : (dchars ds).map kind = digs (zflags ds) := by
  induction ds with
  | nil => rfl
  | cons d ds ih => simp [dchars, zflags, kind_dchar, digs] at ih ⊢

theorem zflags_cons (d : Fin 10) (ds : List (Fin 10)) : zflags (d :: ds) = (d.val == 0) :: zflags ds := rfl

/-- G's `Real` rule on CHARACTERS: sign, digits, point, exponent with `e` or `E` or without a letter -/
inductive MantC
  | int (d : Fin 10) (ip : List (Fin 10))
  | intDot (d : Fin 10) (ip fp : List (Fin 10))
  | dotFrac (d : Fin 10) (fp : List (Fin 10))
inductive ExpC
  | none
  | letter (upper : Bool) (sg : Option Bool) (d : Fin 10) (ds : List (Fin 10))
  | bare (minus : Bool) (d : Fin 10) (ds : List (Fin 10))
structure RealC where
  sign : Option Bool
  mant : MantC
  exp : ExpC

def signC : Option Bool → List Char
  | none => [] | some true => ['+'] | some false => ['-']
def MantC.chars : MantC → List Char
  | .int d ip => dchars (d :: ip)
  | .intDot d ip fp => dchars (d :: ip) ++ '.' :: dchars fp
  | .dotFrac d fp => '.' :: dchars (d :: fp)
def ExpC.chars : ExpC → List Char
  | .none => []
  | .letter up sg d ds => (if up then 'E' else 'e') :: (signC sg ++ dchars (d :: ds))
  | .bare mn d ds => (if mn then '-' else '+') :: dchars (d :: ds)
def RealC.chars (r : RealC) : List Char := signC r.sign ++ (r.mant.chars ++ r.exp.chars)

def MantC.sp : MantC → MantSp
  | .int d ip => .int (d.val == 0) (zflags ip)
  | .intDot d ip fp => .intDot (d.val == 0) (zflags ip) (zflags fp)
  | .dotFrac d fp => .dotFrac (d.val == 0) (zflags fp)
def ExpC.sp : ExpC → ExpSp
  | .none => .none
  | .letter _ sg d ds => .letter sg (d.val == 0) (zflags ds)
  | .bare mn d ds => .bare mn (d.val == 0) (zflags ds)
def RealC.sp (r : RealC) : RealSp := ⟨r.sign, r.mant.sp, r.exp.sp⟩

theorem kinds_signC (sg : Option Bool) : (signC sg).map kind = signK sg := by
  cases sg with
  | none => rfl
  | some b => cases b <;> decide

theorem kinds_real (r : RealC) : r.chars.map kind = r.sp.ks := by
  obtain ⟨sg, mant, ex⟩ := r
  have hdot : kind '.' = K.dot := by decide
  have he : kind 'e' = K.e ∧ kind 'E' = K.e ∧ kind '+' = K.plus ∧ kind '-' = K.minus := by decide
  have hm : mant.chars.map kind = mant.sp.ks := by
    cases mant <;>
      simp only [MantC.chars, MantC.sp, MantSp.ks, List.map_append, List.map_cons, kinds_dchars, hdot, zflags_cons]
  have hx : ex.chars.map kind = ex.sp.ks := by
    cases ex with
    | none => rfl
    | letter up sg' d ds =>
      cases up <;>
        simp only [ExpC.chars, ExpC.sp, ExpSp.ks, List.map_append, List.map_cons, kinds_signC, kinds_dchars, he,
          zflags_cons, digs_cons, if_true, if_false, Bool.false_eq_true]
    | bare mn d ds =>
      cases mn <;>
        simp only [ExpC.chars, ExpC.sp, ExpSp.ks, List.map_cons, kinds_dchars, he, zflags_cons, digs_cons,
          if_true, if_false, Bool.false_eq_true]
  simp [RealC.chars, RealC.sp, RealSp.ks, kinds_signC, hm, hx]

end LexBridge

open MontePyVerif.LexNum LexBridge in
/-- **C12_lexnum_real** — every character string that spells G's `Real` rule (any digits, any length, `e` or `E`
    or no letter, any signs) is ONE token of the numeric rules: NUMBER, or NULL when every significand digit is
    `0`, taking the whole word, in every context (the five lexer classes share the pinned rules). -/
theorem C12_lexnum_real (r : RealC) (nuc : Bool) :
    classify nuc (r.chars.map kind) =
      some (if r.sp.isZero then "NULL" else "NUMBER", r.chars.length) := by
  rw [kinds_real, real_classify]
  have : r.sp.ks.length = r.chars.length := by rw [← kinds_real]; simp
  rw [this]

open MontePyVerif.LexNum LexBridge in
/-- **C12_lexnum_counted** — `<n>r`, `<n>i`, `<n>j`, `<n>ilog` with any non-empty digit run n are one token of
    the type of that shortcut -/
theorem C12_lexnum_counted (z : Bool) (ns : List Bool) (c : Counted) (nuc : Bool) :
    classify nuc (digs (z :: ns) ++ c.ks) = some (c.type, (digs (z :: ns) ++ c.ks).length) :=
  counted_classify z ns c nuc

open MontePyVerif.LexNum LexBridge in
/-- **C12_lexnum_multiply** — `<x>m` with x any spelling of `Real` is one NUM_MULTIPLY token; the one exception
    is by design: `dddd.ddm` (4-6 digits, two decimals, no sign or exponent) on an input that lists nuclides is a
    ZAID -/
theorem C12_lexnum_multiply (r : RealC) (nuc : Bool) :
    classify nuc ((r.chars ++ ['m']).map kind) =
      some (if zaidShaped r.sp && nuc then "ZAID" else "NUM_MULTIPLY", (r.chars ++ ['m']).length) := by
  have hk : (r.chars ++ ['m']).map kind = r.sp.ks ++ [K.m] := by
    rw [List.map_append, kinds_real]; rfl
  rw [hk, mult_classify]
  have : (r.sp.ks ++ [K.m]).length = (r.chars ++ ['m']).length := by rw [← hk]; simp
  rw [this]

/-- the shortcut words without a count are classified by `MCNP_Lexer.TEXT` (already modelled in
    Model/Dispatch.lean), in any letter case -/
theorem C12_lexnum_countless :
    (∀ w kw, lower w = "r" → mcnpLexerText kw w = "REPEAT") ∧ (∀ w kw, lower w = "i" → mcnpLexerText kw w = "INTERPOLATE") ∧
    (∀ w kw, lower w = "j" → mcnpLexerText kw w = "JUMP") ∧
    (∀ w kw, lower w = "ilog" → mcnpLexerText kw w = "LOG_INTERPOLATE") := by
  refine ⟨?_, ?_, ?_, ?_⟩ <;> intro w kw h <;> simp [mcnpLexerText, parseShortcutWord, h]

/-- non-vacuity and the two repaired defects of main as instances: `58695.87E0` is a NUMBER (335c6eb),
    `4145.81m` a multiply shortcut off the nuclide inputs and a ZAID on them (0a90ce7) -/
example : LexNum.classifyString false "58695.87E0" = some ("NUMBER", 10) ∧
    LexNum.classifyString false "4145.81m" = some ("NUM_MULTIPLY", 8) ∧
    LexNum.classifyString true "4145.81m" = some ("ZAID", 8) ∧
    LexNum.classifyString true "1001.80c" = some ("ZAID", 8) ∧
    LexNum.classifyString false "-0.0e+00" = some ("NULL", 8) ∧
    LexNum.classifyString false "03e" = some ("NUMBER_WORD", 3) := by decide

end MontePyVerif.C12
