import MontePyVerif.Lemmas.LR
import MontePyVerif.Lemmas.Cfg
import MontePyVerif.Model.LRTables
import MontePyVerif.Gen.Grammar
/-! # C12 (LR part) — the LALR automaton SLY runs is inside the model

`Props/C12.lean` proves that every sentence of the core grammar G is *derivable* in the context-free grammar
extracted from MontePy's SLY parser classes.  SLY does not run that grammar: it runs an LALR automaton whose
shift/reduce and reduce/reduce conflicts were resolved silently by table construction order.  This file is about the
automaton: `Model/LR.lean` is `sly/yacc.py: Parser.parse` (up to the first syntax error) over the FINAL tables the
translator dumps from the live classes (`Gen/LrTables.lean`, regenerated on every run).

* `C12LR_sound`            for ANY tables that pass the decidable test `checkTables` and any token list: what the
                           machine accepts is derivable from the start symbol in the grammar whose productions are
                           the table's production list (no bound on the input, no fuel: stated on the relation `Run`);
* `C12LR_tables_ok`        the test holds for the extracted tables of all ten parser classes (kernel evaluation);
* `C12LR_grammar_agree`    the production list and start symbol inside `Gen/LrTables.lean` are those of
                           `Gen/Grammar.lean`, so the automaton and the `C12_cfg*` theorems talk about one grammar;
* `C12LR_montepy`          the instance: whatever a MontePy parser class accepts is a sentence (`Cfg.Der`) of its
                           extracted grammar — conflict resolution can only REMOVE sentences, never add any;
* `C12LR_rightmost`        the reduction sequence of an accepting run is a right-most derivation of the input from
                           the start symbol, read backwards (any tables that pass the test);
* `C12LR_complete_flat_geometry`  completeness on a regular fragment, ANY length: void cells whose geometry is a
                           parenthesis-free list of surfaces / `#n` joined by a blank or by `:` are accepted by the
                           extracted CellParser automaton (frame property + a kernel-evaluated closed set of stacks);
* `C12LR_deterministic`, `C12LR_fuel`   the machine is a function; fuel never changes an answer;
* `C12LR_defaulted`, `C12LR_error_hook` the dumped `defaulted_states` are what the model computes from the rows; no
                           grammar has an `error` production and the `error` hook is `MCNP_Parser.error` (so the
                           first syntax error is final: `MCNP_Parser.parse` returns `None` once the log is non-empty).

NOT proved: completeness on all of G (every G sentence is accepted by the automaton).  See `design_notes/LR.md`.
-/
namespace MontePyVerif.C12LR
open MontePyVerif MontePyVerif.LR MontePyVerif.Gen

/-! ## generic soundness -/

theorem C12LR_sound : ∀ (t : Tables), TablesOK t → ∀ toks ps : List Nat, 0 ∉ toks →
    Run t (init toks) (.accept ps) → Yield t.grammar [t.start] toks :=
  fun _ hok _ _ h0 hr => accepted_derivable hok h0 hr

theorem C12LR_deterministic : ∀ (t : Tables) (c : Config) (r r' : Res), Run t c r → Run t c r' → r = r' :=
  fun _ _ _ _ h h' => h.det h'

/-- the executable function and the relation: an answer with fuel left is a run; every run is found with enough
    fuel; two sufficient fuels agree -/
theorem C12LR_fuel : (∀ (t : Tables) (fuel : Nat) (c : Config) (r : Res), run t fuel c = r → r ≠ .outOfFuel → Run t c r) ∧
    (∀ (t : Tables) (c : Config) (r : Res), Run t c r → ∃ n, ∀ fuel, n ≤ fuel → run t fuel c = r) ∧
    (∀ (t : Tables) (f f' : Nat) (c : Config), run t f c ≠ .outOfFuel → run t f' c ≠ .outOfFuel → run t f c = run t f' c) :=
  ⟨run_sound, fun _ _ _ h => run_complete h, run_fuel_irrelevant⟩

/-! ## from ids to names: `Yield` over `Nat` symbols is `Cfg.Der` over the names -/

def nameProds (nm : Nat → String) (P : LR.Prods) : Cfg.Prods := P.map fun p => (nm p.1, p.2.map nm)

theorem yield_derL {P : LR.Prods} (nm : Nat → String) {γ w : List Nat} (h : Yield P γ w) :
    Cfg.DerL (nameProds nm P) (γ.map nm) (w.map nm) := by
  induction h with
  | nil => exact .nil
  | tok _ ih => exact .tok ih
  | @nt s rhs w ss ws hm _ _ ihr ihs =>
    have hmem : (nm s, rhs.map nm) ∈ nameProds nm P := List.mem_map.2 ⟨(s, rhs), hm, rfl⟩
    have := Cfg.DerL.nt (Cfg.Der.rule hmem ihr) ihs
    simpa [List.map_append] using this

def hintsOf (d : LrTables.LrDump) : Hints := ⟨d.hintAcc, d.hintPred⟩

/-- the grammar of a dumped class, by names -/
def grammarOf (d : LrTables.LrDump) : Cfg.Prods := nameProds (symName d) (ofDump d).grammar

/-- accepted by the dumped automaton ⇒ a sentence of the dumped grammar -/
theorem accepted_der (d : LrTables.LrDump) (hok : checkTables (ofDump d) (hintsOf d) = true)
    {toks ps : List Nat} (h0 : 0 ∉ toks) (hr : Run (ofDump d) (init toks) (.accept ps)) :
    Cfg.Der (grammarOf d) (symName d d.start) (toks.map (symName d)) := by
  obtain ⟨rhs, hm, hy⟩ := accepted_rule ⟨_, hok⟩ h0 hr
  have hmem : (symName d d.start, rhs.map (symName d)) ∈ grammarOf d :=
    List.mem_map.2 ⟨((ofDump d).start, rhs), hm, rfl⟩
  exact Cfg.Der.rule hmem (yield_derL _ hy)

/-! ## the extracted tables -/

/-- the dumped automaton of a class next to the dumped grammar of the same class -/
def classes : List (LrTables.LrDump × Grammar.ParserTable) :=
  [(LrTables.cellParser, Grammar.cellParser), (LrTables.surfaceParser, Grammar.surfaceParser),
   (LrTables.dataParser, Grammar.dataParser), (LrTables.classifierParser, Grammar.classifierParser),
   (LrTables.paramOnlyDataParser, Grammar.paramOnlyDataParser), (LrTables.materialParser, Grammar.materialParser),
   (LrTables.thermalParser, Grammar.thermalParser), (LrTables.tallyParser, Grammar.tallyParser),
   (LrTables.tallySegmentParser, Grammar.tallySegmentParser), (LrTables.readParser, Grammar.readParser)]

theorem classes_all : classes.map (·.1) = LrTables.all := rfl

theorem ok_cell : checkTables (ofDump LrTables.cellParser) (hintsOf LrTables.cellParser) = true := by decide +kernel
theorem ok_surface : checkTables (ofDump LrTables.surfaceParser) (hintsOf LrTables.surfaceParser) = true := by decide +kernel
theorem ok_data : checkTables (ofDump LrTables.dataParser) (hintsOf LrTables.dataParser) = true := by decide +kernel
theorem ok_classifier : checkTables (ofDump LrTables.classifierParser) (hintsOf LrTables.classifierParser) = true := by decide +kernel
theorem ok_paramOnly : checkTables (ofDump LrTables.paramOnlyDataParser) (hintsOf LrTables.paramOnlyDataParser) = true := by decide +kernel
theorem ok_material : checkTables (ofDump LrTables.materialParser) (hintsOf LrTables.materialParser) = true := by decide +kernel
theorem ok_thermal : checkTables (ofDump LrTables.thermalParser) (hintsOf LrTables.thermalParser) = true := by decide +kernel
theorem ok_tally : checkTables (ofDump LrTables.tallyParser) (hintsOf LrTables.tallyParser) = true := by decide +kernel
theorem ok_tallySeg : checkTables (ofDump LrTables.tallySegmentParser) (hintsOf LrTables.tallySegmentParser) = true := by decide +kernel
theorem ok_read : checkTables (ofDump LrTables.readParser) (hintsOf LrTables.readParser) = true := by decide +kernel

/-- the well-formedness test holds for the tables of every parser class (per-run obligation: the tables are
    regenerated from the working tree) -/
theorem C12LR_tables_ok : ∀ dg ∈ classes, checkTables (ofDump dg.1) (hintsOf dg.1) = true := by
  intro dg hdg
  simp only [classes, List.mem_cons, List.not_mem_nil, or_false] at hdg
  rcases hdg with rfl | rfl | rfl | rfl | rfl | rfl | rfl | rfl | rfl | rfl
  · exact ok_cell
  · exact ok_surface
  · exact ok_data
  · exact ok_classifier
  · exact ok_paramOnly
  · exact ok_material
  · exact ok_thermal
  · exact ok_tally
  · exact ok_tallySeg
  · exact ok_read

/-- one grammar: the productions (by name, production 0 dropped) and the start symbol of the automaton's dump are
    those of `Gen/Grammar.lean`, which `C12_cfg_montepy` and `C12_required_productions` consume -/
theorem C12LR_grammar_agree : ∀ dg ∈ classes, grammarOf dg.1 = dg.2.productions ∧ symName dg.1 dg.1.start = dg.2.start := by
  decide +kernel

/-- **What a MontePy parser class accepts is a sentence of its extracted grammar.** -/
theorem C12LR_montepy : ∀ dg ∈ classes, ∀ toks ps : List Nat, 0 ∉ toks →
    Run (ofDump dg.1) (init toks) (.accept ps) → Cfg.Der dg.2.productions dg.2.start (toks.map (symName dg.1)) := by
  intro dg hdg toks ps h0 hr
  obtain ⟨hg, hs⟩ := C12LR_grammar_agree dg hdg
  rw [← hg, ← hs]
  exact accepted_der dg.1 (C12LR_tables_ok dg hdg) h0 hr

/-! ## defaulted states, error hook -/

/-- `LRTable.defaulted_states` as the model computes it from the rows -/
def defaultedOf (t : Tables) : List (Nat × Nat) :=
  (List.range t.action.size).filterMap fun s => (defaulted t s).map fun a => (s, (-a).toNat)

theorem C12LR_defaulted : ∀ dg ∈ classes, defaultedOf (ofDump dg.1) = dg.1.defaulted := by decide +kernel

/-- no grammar mentions the `error` token (SLY's panic-mode recovery can never resynchronise) and every class
    inherits `MCNP_Parser.error`, which logs the error; `MCNP_Parser.parse` returns `None` when the log is non-empty -/
theorem C12LR_error_hook : ∀ dg ∈ classes, dg.1.errorProductions = 0 ∧
    dg.1.errorHook = "montepy.input_parser.parser_base.MCNP_Parser" := by decide

/-! ## non-vacuity: a real cell card through the extracted CellParser automaton

`5 1 -2.7 (1:-2) #3 imp:n,p=1 u=2 $ shell` as `CellLexer` tokenises it.  Everything is pinned BY NAME (token
types, left-hand sides of the reductions): state, token and production NUMBERS change whenever the grammar is
edited, names do not.  The reduction sequence is the one the real `CellParser` performed on this card (recorded by
`tools/vlib/lrlib.py`). -/

def tokIds (d : LrTables.LrDump) (names : List String) : List Nat := names.map fun n => (symId d n).getD 0

def exampleCellTokens : List Nat := tokIds LrTables.cellParser
  ["NUMBER", "SPACE", "NUMBER", "SPACE", "NUMBER", "SPACE", "(", "NUMBER", ":", "NUMBER", ")", "SPACE",
   "COMPLEMENT", "NUMBER", "SPACE", "KEYWORD", ":", "PARTICLE", ",", "PARTICLE", "=", "NUMBER", "SPACE",
   "KEYWORD", "=", "NUMBER", "SPACE", "DOLLAR_COMMENT"]

/-- the reductions of the model on the example card -/
def exampleCellReductions : List Nat :=
  match parse (ofDump LrTables.cellParser) 200 exampleCellTokens with
  | .accept ps => ps
  | _ => []

/-- left-hand side (by name) of a production of the dump -/
def lhsName (d : LrTables.LrDump) (p : Nat) : String := symName d ((d.prods.getD p []).headD 0)

theorem exampleCell_parse :
    parse (ofDump LrTables.cellParser) 200 exampleCellTokens = .accept exampleCellReductions ∧
    exampleCellReductions.map (lhsName LrTables.cellParser) =
      ["padding", "identifier_phrase", "padding", "identifier_phrase", "padding", "number_phrase", "material",
       "geometry_factory", "geometry_factor", "geometry_term", "geometry_expr", "union", "geometry_factory",
       "geometry_factor", "geometry_term", "geometry_expr", "geometry_factory", "geometry_factor", "geometry_term",
       "padding", "geometry_factory", "geometry_factor", "geometry_term", "padding", "geometry_term", "geometry_expr",
       "data_prefix", "classifier", "part", "particle_type", "part", "particle_type", "classifier", "equals_sign",
       "param_seperator", "padding", "number_phrase", "numerical_phrase", "number_sequence", "parameter",
       "parameters", "data_prefix", "classifier", "equals_sign", "param_seperator", "padding", "padding",
       "number_phrase", "numerical_phrase", "number_sequence", "parameter", "parameters", "cell"] ∧
    0 ∉ exampleCellTokens := by decide +kernel

/-- the hypotheses of `C12LR_sound` / `C12LR_montepy` are satisfiable by a real card, and the conclusion follows -/
example : Cfg.Der Grammar.cellParser.productions "cell" (exampleCellTokens.map (symName LrTables.cellParser)) :=
  C12LR_montepy (LrTables.cellParser, Grammar.cellParser) (by simp [classes]) exampleCellTokens exampleCellReductions
    exampleCell_parse.2.2 (run_sound _ 200 _ _ exampleCell_parse.1 (by simp))

/-- the machine rejects too: the same card without its geometry stops at the KEYWORD (13 tokens unread) -/
example : (match parse (ofDump LrTables.cellParser) 200 (exampleCellTokens.take 6 ++ exampleCellTokens.drop 15) with
    | .reject reds k => (reds.map (lhsName LrTables.cellParser), k)
    | _ => ([], 0)) =
    (["padding", "identifier_phrase", "padding", "identifier_phrase", "padding", "number_phrase"], 13) := by decide +kernel

/-! ## the reductions are a right-most derivation -/

theorem C12LR_rightmost : ∀ (t : Tables), TablesOK t → ∀ toks ps : List Nat, 0 ∉ toks →
    Run t (init toks) (.accept ps) → RmDeriv t ps [t.start] toks :=
  fun _ hok _ _ h0 hr => accepted_rightmost hok h0 hr

example : RmDeriv (ofDump LrTables.cellParser) exampleCellReductions [LrTables.cellParser.start] exampleCellTokens :=
  C12LR_rightmost _ ⟨_, ok_cell⟩ _ _ exampleCell_parse.2.2 (run_sound _ 200 _ _ exampleCell_parse.1 (by simp))

/-! ## completeness on a regular fragment: void cells with a parenthesis-free geometry

`NUMBER SPACE NULL SPACE atom (sep atom)*` with `atom ∈ {NUMBER, COMPLEMENT NUMBER}` (a signed surface number, or
`#n`) and `sep ∈ {SPACE, ':', SPACE ':', ':' SPACE, SPACE ':' SPACE}` (intersection by one blank, union with
optional single blanks) — ANY number of atoms — is accepted by the extracted CellParser automaton.

Method: the machine reads the first unread token only (`stepsN_frame`), so a block `sep atom` followed by the
lookahead `la'` takes a *settled* configuration (stack, lookahead) to another one whatever follows.  `geoStates` is a
finite set of settled configurations closed under all blocks (`geoClosed`, evaluated by the kernel over the extracted
tables); the theorem is an induction on the list of blocks. -/

def cellT : Tables := ofDump LrTables.cellParser

/-- token ids of the CellParser dump, looked up BY NAME -/
def tok (n : String) : Nat := (symId LrTables.cellParser n).getD 0
def tNUMBER : Nat := tok "NUMBER"
def tSPACE : Nat := tok "SPACE"
def tNULL : Nat := tok "NULL"
def tCOLON : Nat := tok ":"
def tCOMPLEMENT : Nat := tok "COMPLEMENT"

theorem geo_token_names : [tNUMBER, tSPACE, tNULL, tCOLON, tCOMPLEMENT].map (symName LrTables.cellParser) =
    ["NUMBER", "SPACE", "NULL", ":", "COMPLEMENT"] := by decide +kernel

def geoAtoms : List (List Nat) := [[tNUMBER], [tCOMPLEMENT, tNUMBER]]
def geoSeps : List (List Nat) := [[tSPACE], [tCOLON], [tSPACE, tCOLON], [tCOLON, tSPACE], [tSPACE, tCOLON, tSPACE]]
/-- a block: a separator and the atom after it -/
def geoBlocks : List (List Nat) := geoSeps.flatMap fun s => geoAtoms.map fun a => s ++ a
def geoLas : List Nat := [tSPACE, tCOLON]
def geoPrefix : List Nat := [tNUMBER, tSPACE, tNULL, tSPACE]

/-- number of steps until `w` is consumed and the machine is about to shift the token after it -/
def settleN (t : Tables) : Nat → Config → Nat → Option Nat
  | 0, _, _ => none
  | f + 1, c, n =>
    match step t c with
    | .shift c' => if c.input.length ≤ 1 then some n else settleN t f c' (n + 1)
    | .reduce _ c' => settleN t f c' (n + 1)
    | _ => none

/-- from stack `G`, the word `w` followed by lookahead `la'` leads to a settled configuration of `S` -/
def blockOK (t : Tables) (S : List (List Nat × Nat)) (G w : List Nat) (la' : Nat) : Bool :=
  match settleN t 80 ⟨G, w ++ [la']⟩ 0 with
  | none => false
  | some n =>
    match stepsN t n ⟨G, w ++ [la']⟩ with
    | some (c', _) => c'.input == [la'] && S.contains (c'.stack, la')
    | none => false

theorem blockOK_spec {t : Tables} {S : List (List Nat × Nat)} {G w : List Nat} {la' : Nat}
    (h : blockOK t S G w la' = true) :
    ∃ n G' reds, stepsN t n ⟨G, w ++ [la']⟩ = some (⟨G', [la']⟩, reds) ∧ (G', la') ∈ S := by
  unfold blockOK at h
  split at h
  · cases h
  · next n _ =>
    split at h
    · next c' reds hs =>
      simp only [Bool.and_eq_true, beq_iff_eq, List.contains_iff_mem] at h
      obtain ⟨stk, inp⟩ := c'
      simp only at h
      obtain ⟨rfl, hm⟩ := h
      exact ⟨n, stk, reds, hs, hm⟩
    · cases h

def accepts (t : Tables) (c : Config) : Bool := match run t 200 c with | .accept _ => true | _ => false

theorem accepts_run {t : Tables} {c : Config} (h : accepts t c = true) : ∃ ps, Run t c (.accept ps) := by
  unfold accepts at h
  split at h
  · next ps hr => exact ⟨ps, run_sound t 200 c _ hr (by simp)⟩
  · cases h

/-- the settled configuration `w` (followed by lookahead `la'`) leads to from stack `G` -/
def reachState (t : Tables) (G w : List Nat) (la' : Nat) : Option (List Nat × Nat) :=
  match settleN t 80 ⟨G, w ++ [la']⟩ 0 with
  | none => none
  | some n =>
    match stepsN t n ⟨G, w ++ [la']⟩ with
    | some (c', _) => if c'.input == [la'] then some (c'.stack, la') else none
    | none => none

/-- close a set of settled configurations under all blocks (a block must start with the settled lookahead) -/
def geoClosure : Nat → List (List Nat × Nat) → List (List Nat × Nat)
  | 0, S => S
  | f + 1, S =>
    let new := S.flatMap fun s => geoBlocks.flatMap fun b =>
      if b.head? == some s.2 then geoLas.filterMap (reachState cellT s.1 b) else []
    let S' := (S ++ new).eraseDups
    if S'.length == S.length then S else geoClosure f S'

/-- settled configurations (state stack, the lookahead it was settled for) after an atom: COMPUTED from the extracted
    tables (state numbers change with every edit of the grammar), starting from the card's first atom -/
def geoStates : List (List Nat × Nat) :=
  geoClosure 8 ((geoAtoms.flatMap fun a => geoLas.filterMap (reachState cellT [0] (geoPrefix ++ a))).eraseDups)

/-- the closure test: every block that starts with the lookahead a state was settled for leads into `geoStates`
    for both possible next lookaheads, and is accepted when nothing follows -/
def geoClosed : Bool :=
  geoStates.all fun s => geoBlocks.all fun b =>
    b.head? != some s.2 || (geoLas.all (fun la' => blockOK cellT geoStates s.1 b la') && accepts cellT ⟨s.1, b⟩)

theorem geoClosed_ok : geoClosed = true := by decide +kernel

/-- the card up to its first atom -/
def geoStart : Bool :=
  geoAtoms.all fun a => accepts cellT (init (geoPrefix ++ a)) &&
    geoLas.all fun la => blockOK cellT geoStates [0] (geoPrefix ++ a) la

theorem geoStart_ok : geoStart = true := by decide +kernel

theorem geoBlocks_shape : (geoBlocks.all fun b => match b with | la :: _ => geoLas.contains la | [] => false) = true ∧
    ((geoPrefix :: geoAtoms ++ geoBlocks).all fun w => !w.contains 0) = true ∧ geoStates.length = 3 := by decide +kernel

theorem geoBlock_head {b : List Nat} (hb : b ∈ geoBlocks) : ∃ la rest, b = la :: rest ∧ la ∈ geoLas := by
  have := (List.all_eq_true.1 geoBlocks_shape.1) b hb
  match b, this with
  | la :: rest, h => exact ⟨la, rest, rfl, by simpa using h⟩

theorem prepend_accept (reds ps : List Nat) : Res.prepend reds (.accept ps) = .accept (reds ++ ps) := by
  induction reds with
  | nil => rfl
  | cons p reds ih => simp only [Res.prepend, List.foldr_cons] at ih ⊢; rw [ih]; rfl

/-- a block followed by more input: the frame property applied to `blockOK` -/
theorem block_then {S : List (List Nat × Nat)} {G w : List Nat} {la' : Nat} (h : blockOK cellT S G w la' = true)
    (rest : List Nat) :
    ∃ G', (G', la') ∈ S ∧ ∀ ps, Run cellT ⟨G', la' :: rest⟩ (.accept ps) →
      ∃ ps', Run cellT ⟨G, w ++ la' :: rest⟩ (.accept ps') := by
  obtain ⟨n, G', reds, hs, hm⟩ := blockOK_spec h
  refine ⟨G', hm, fun ps hr => ?_⟩
  have hf := stepsN_frame n hs (by simp) rest
  have := run_of_stepsN n hf (by simpa using hr)
  rw [prepend_accept] at this
  exact ⟨_, by simpa [List.append_assoc] using this⟩

/-- from a settled configuration, any non-empty sequence of blocks whose first token is the settled lookahead is accepted -/
theorem geo_blocks_accepted : ∀ (bs : List (List Nat)), (∀ b ∈ bs, b ∈ geoBlocks) → bs ≠ [] → ∀ (G : List Nat) (la : Nat),
    (G, la) ∈ geoStates → bs.flatten.head? = some la → ∃ ps, Run cellT ⟨G, bs.flatten⟩ (.accept ps) := by
  intro bs
  induction bs with
  | nil => intro _ hne; exact absurd rfl hne
  | cons b bs ih =>
    intro hall _ G la hG hhead
    have hb : b ∈ geoBlocks := hall b List.mem_cons_self
    obtain ⟨la0, r0, rfl, _⟩ := geoBlock_head hb
    have hla : la0 = la := by simpa using hhead
    subst hla
    have hcl := geoClosed_ok
    simp only [geoClosed, List.all_eq_true] at hcl
    have hthis := hcl (G, la0) hG (la0 :: r0) hb
    simp only [List.head?_cons, bne_self_eq_false, Bool.false_or, Bool.and_eq_true, List.all_eq_true] at hthis
    obtain ⟨hblocks, hfinal⟩ := hthis
    cases bs with
    | nil =>
      obtain ⟨ps, hr⟩ := accepts_run hfinal
      exact ⟨ps, by simpa using hr⟩
    | cons b' bs' =>
      have hb' : b' ∈ geoBlocks := hall b' (List.mem_cons_of_mem _ List.mem_cons_self)
      obtain ⟨la', r', rfl, hla'⟩ := geoBlock_head hb'
      obtain ⟨G', hm, hcont⟩ := block_then (hblocks la' hla') (r' ++ bs'.flatten)
      obtain ⟨ps, hr⟩ := ih (fun x hx => hall x (List.mem_cons_of_mem _ hx)) (by simp) G' la' hm (by simp)
      obtain ⟨ps', hr'⟩ := hcont ps (by simpa using hr)
      exact ⟨ps', by simpa using hr'⟩

/-- **Completeness on the parenthesis-free geometry fragment** (any number of atoms): the extracted CellParser
    automaton accepts `NUMBER SPACE NULL SPACE atom (sep atom)*`. -/
theorem C12LR_complete_flat_geometry : ∀ (a : List Nat) (bs : List (List Nat)), a ∈ geoAtoms →
    (∀ b ∈ bs, b ∈ geoBlocks) → ∃ ps, Run cellT (init (geoPrefix ++ a ++ bs.flatten)) (.accept ps) := by
  intro a bs ha hall
  have hst := geoStart_ok
  simp only [geoStart, List.all_eq_true, Bool.and_eq_true] at hst
  obtain ⟨hacc, hblk⟩ := hst a ha
  cases bs with
  | nil =>
    obtain ⟨ps, hr⟩ := accepts_run hacc
    exact ⟨ps, by simpa using hr⟩
  | cons b' bs' =>
    have hb' : b' ∈ geoBlocks := hall b' List.mem_cons_self
    obtain ⟨la', r', rfl, hla'⟩ := geoBlock_head hb'
    obtain ⟨G', hm, hcont⟩ := block_then (hblk la' hla') (r' ++ bs'.flatten)
    obtain ⟨ps, hr⟩ := geo_blocks_accepted ((la' :: r') :: bs') hall (by simp) G' la' hm (by simp)
    obtain ⟨ps', hr'⟩ := hcont ps (by simpa using hr)
    exact ⟨ps', by simpa [init] using hr'⟩

/-- … and what is accepted is a sentence: these cards are derivable in the extracted grammar, through the automaton -/
theorem C12LR_flat_geometry_sentences : ∀ (a : List Nat) (bs : List (List Nat)), a ∈ geoAtoms →
    (∀ b ∈ bs, b ∈ geoBlocks) →
    Cfg.Der Grammar.cellParser.productions "cell" ((geoPrefix ++ a ++ bs.flatten).map (symName LrTables.cellParser)) := by
  intro a bs ha hall
  obtain ⟨ps, hr⟩ := C12LR_complete_flat_geometry a bs ha hall
  have hz := List.all_eq_true.1 geoBlocks_shape.2.1
  have h0 : 0 ∉ geoPrefix ++ a ++ bs.flatten := by
    intro hm
    simp only [List.mem_append, List.mem_flatten] at hm
    rcases hm with (hm | hm) | ⟨b, hb, hm⟩
    · have := hz geoPrefix (by simp); simp [hm] at this
    · have := hz a (by simp [ha]); simp [hm] at this
    · have := hz b (by simp [hall b hb]); simp [hm] at this
  exact C12LR_montepy (LrTables.cellParser, Grammar.cellParser) (by simp [classes]) _ ps h0 hr

/-- non-vacuity: `1 0 -1 2:#3 : 4` is in the fragment -/
example : ∃ ps, Run cellT (init [tNUMBER, tSPACE, tNULL, tSPACE, tNUMBER, tSPACE, tNUMBER, tCOLON, tCOMPLEMENT, tNUMBER,
    tSPACE, tCOLON, tSPACE, tNUMBER]) (.accept ps) :=
  C12LR_complete_flat_geometry [tNUMBER] [[tSPACE, tNUMBER], [tCOLON, tCOMPLEMENT, tNUMBER], [tSPACE, tCOLON, tSPACE, tNUMBER]]
    (by decide) (by decide)

end MontePyVerif.C12LR
