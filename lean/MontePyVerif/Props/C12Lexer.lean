import MontePyVerif.Model.Lexer
/-! # Props.C12Lexer — theorems about the regular-expression engine and the lexer model

All for EVERY regular expression / EVERY lexer specification / EVERY text (induction); the `example`s at the end
run the generated rules of `Gen/LexRules.lean` on concrete texts and are tests, labelled as such.
-/
namespace MontePyVerif.C12Lexer
open MontePyVerif.Regex MontePyVerif.Lexer

/-! ## the regular-expression engine -/

theorem findSome?_flatMap' {α β γ : Type} (l : List α) (f : α → List β) (k : β → Option γ) :
    (l.flatMap f).findSome? k = l.findSome? (fun a => (f a).findSome? k) := by
  induction l with
  | nil => rfl
  | cons a l ih =>
    simp only [List.flatMap_cons, List.findSome?_append, List.findSome?_cons, ih]
    cases (f a).findSome? k <;> rfl

theorem flatMap_congr' {α β : Type} (l : List α) (f g : α → List β) (h : ∀ a, a ∈ l → f a = g a) :
    l.flatMap f = l.flatMap g := by
  induction l with
  | nil => rfl
  | cons a l ih =>
    simp only [List.flatMap_cons]
    rw [h a (by simp), ih (fun b hb => h b (by simp [hb]))]

theorem flatMap_nil'' {α β : Type} (l : List α) : l.flatMap (fun _ => ([] : List β)) = [] := by
  induction l with
  | nil => rfl
  | cons a l ih => simp [List.flatMap_cons, ih]

theorem step1_mem {p : Char → Bool} {s e : List Char} (h : e ∈ step1 p s) :
    ∃ c, s = c :: e ∧ p c = true := by
  cases s with
  | nil => simp [step1] at h
  | cons c t =>
    simp only [step1] at h
    split at h
    · simp at h; exact ⟨c, by rw [h], by assumption⟩
    · simp at h

theorem repEnds_suffix (step : List Char → List (List Char))
    (hstep : ∀ s e, e ∈ step s → e <:+ s) :
    ∀ fuel mn mx s e, e ∈ repEnds step fuel mn mx s → e <:+ s := by
  intro fuel
  induction fuel with
  | zero =>
    intro mn mx s e h
    simp only [repEnds] at h
    split at h
    · simp at h; subst h; exact List.suffix_refl _
    · simp at h
  | succ fuel ih =>
    intro mn mx s e h
    simp only [repEnds, List.mem_append] at h
    rcases h with h | h
    · split at h
      · simp at h
      · rw [List.mem_flatMap] at h
        obtain ⟨s', hs', he⟩ := h
        split at he
        · exact (ih _ _ _ _ he).trans (hstep _ _ hs')
        · simp at he
    · split at h
      · simp at h; subst h; exact List.suffix_refl _
      · simp at h

/-- `re_prefix`: whatever a regular expression matches at the front of a text is a PREFIX of it — every
    remainder `ends` lists is a suffix of the text. -/
theorem re_suffix (ic : Bool) (r : Re) : ∀ s e, e ∈ ends ic r s → e <:+ s := by
  induction r with
  | eps => intro s e h; simp [ends] at h; subst h; exact List.suffix_refl _
  | lit p =>
    intro s e h; obtain ⟨c, hs, _⟩ := step1_mem h; subst hs; exact List.suffix_cons _ _
  | any =>
    intro s e h; obtain ⟨c, hs, _⟩ := step1_mem h; subst hs; exact List.suffix_cons _ _
  | set neg items =>
    intro s e h; obtain ⟨c, hs, _⟩ := step1_mem h; subst hs; exact List.suffix_cons _ _
  | cat a b iha ihb =>
    intro s e h
    simp only [ends, List.mem_flatMap] at h
    obtain ⟨s', hs', he⟩ := h
    exact (ihb _ _ he).trans (iha _ _ hs')
  | alt a b iha ihb =>
    intro s e h
    simp only [ends, List.mem_append] at h
    rcases h with h | h
    · exact iha _ _ h
    · exact ihb _ _ h
  | rep r mn mx ih =>
    intro s e h
    simp only [ends] at h
    exact repEnds_suffix _ ih _ _ _ _ _ h
  | nla r _ =>
    intro s e h
    simp only [ends] at h
    split at h
    · simp at h; subst h; exact List.suffix_refl _
    · simp at h
  | eol =>
    intro s e h
    simp only [ends] at h
    split at h
    · simp at h; subst h; exact List.suffix_refl _
    · simp at h

theorem re_prefix (ic : Bool) (r : Re) (s e : List Char) (h : e ∈ ends ic r s) : ∃ pre, s = pre ++ e := by
  obtain ⟨pre, hp⟩ := re_suffix ic r s e h
  exact ⟨pre, hp.symm⟩

/-- a repetition with a positive minimum consumes at least one character (every iteration does) -/
theorem repEnds_lt (step : List Char → List (List Char)) (hstep : ∀ s e, e ∈ step s → e <:+ s)
    (fuel mn : Nat) (mx : Option Nat) (s e : List Char) (hmn : mn ≠ 0)
    (h : e ∈ repEnds step fuel mn mx s) : e.length < s.length := by
  cases fuel with
  | zero => simp [repEnds, hmn] at h
  | succ fuel =>
    simp only [repEnds, List.mem_append] at h
    rcases h with h | h
    · split at h
      · simp at h
      · rw [List.mem_flatMap] at h
        obtain ⟨s', _, he⟩ := h
        split at he
        · have := (repEnds_suffix step hstep _ _ _ _ _ he).length_le
          omega
        · simp at he
    · simp [hmn] at h

/-- `re_progress`: a regular expression that is not `nullable` consumes at least one character -/
theorem ends_lt_of_not_nullable (ic : Bool) (r : Re) :
    r.nullable = false → ∀ s e, e ∈ ends ic r s → e.length < s.length := by
  induction r with
  | eps => intro h; simp [Re.nullable] at h
  | lit p => intro _ s e h; obtain ⟨c, hs, _⟩ := step1_mem h; subst hs; simp
  | any => intro _ s e h; obtain ⟨c, hs, _⟩ := step1_mem h; subst hs; simp
  | set neg items => intro _ s e h; obtain ⟨c, hs, _⟩ := step1_mem h; subst hs; simp
  | cat a b iha ihb =>
    intro hn s e h
    simp only [ends, List.mem_flatMap] at h
    obtain ⟨s', hs', he⟩ := h
    have h1 := (re_suffix ic a _ _ hs').length_le
    have h2 := (re_suffix ic b _ _ he).length_le
    simp only [Re.nullable, Bool.and_eq_false_iff] at hn
    rcases hn with hn | hn
    · have := iha hn _ _ hs'; omega
    · have := ihb hn _ _ he; omega
  | alt a b iha ihb =>
    intro hn s e h
    simp only [Re.nullable, Bool.or_eq_false_iff] at hn
    simp only [ends, List.mem_append] at h
    rcases h with h | h
    · exact iha hn.1 _ _ h
    · exact ihb hn.2 _ _ h
  | rep r mn mx _ =>
    intro hn s e h
    simp only [Re.nullable, Bool.or_eq_false_iff, beq_eq_false_iff_ne] at hn
    simp only [ends] at h
    exact repEnds_lt _ (re_suffix ic r) _ _ _ _ _ hn.1 h
  | nla r _ => intro h; simp [Re.nullable] at h
  | eol => intro h; simp [Re.nullable] at h

/-- the fuel of a repetition is sufficient: any two fuels that are at least the length of the text agree -/
theorem repEnds_fuel (step : List Char → List (List Char)) :
    ∀ f1 f2 mn mx s, s.length ≤ f1 → s.length ≤ f2 → repEnds step f1 mn mx s = repEnds step f2 mn mx s := by
  intro f1
  induction f1 with
  | zero =>
    intro f2 mn mx s h1 _
    have hs : s = [] := List.eq_nil_of_length_eq_zero (by omega)
    subst hs
    cases f2 with
    | zero => rfl
    | succ f2 =>
      simp only [repEnds, List.length_nil, Nat.not_lt_zero, if_false, flatMap_nil'']
      split <;> simp
  | succ f1 ih =>
    intro f2 mn mx s h1 h2
    cases f2 with
    | zero =>
      have hs : s = [] := List.eq_nil_of_length_eq_zero (by omega)
      subst hs
      simp only [repEnds, List.length_nil, Nat.not_lt_zero, if_false]
      split <;> simp
    | succ f2 =>
      simp only [repEnds]
      congr 1
      split
      · rfl
      · apply flatMap_congr'
        intro s' _
        split
        · exact ih _ _ _ _ (by omega) (by omega)
        · rfl

/-! ### the continuation-passing matcher computes the first success over `ends` -/

theorem step1M_eq {α : Type} (p : Char → Bool) (s : List Char) (k : List Char → Option α) :
    step1M p s k = (step1 p s).findSome? k := by
  cases s with
  | nil => rfl
  | cons c t =>
    simp only [step1M, step1]
    split
    · simp [List.findSome?_cons]; cases k t <;> rfl
    · rfl

theorem findSome?_single {α β : Type} (k : α → Option β) (a : α) : [a].findSome? k = k a := by
  simp [List.findSome?_cons]; cases k a <;> rfl

theorem repM_eq {α : Type} (stepM : List Char → (List Char → Option α) → Option α)
    (step : List Char → List (List Char)) (h : ∀ s k, stepM s k = (step s).findSome? k) :
    ∀ fuel mn mx s k, repM stepM fuel mn mx s k = (repEnds step fuel mn mx s).findSome? k := by
  intro fuel
  induction fuel with
  | zero =>
    intro mn mx s k
    simp only [repM, repEnds]
    split
    · rw [findSome?_single]
    · rfl
  | succ fuel ih =>
    intro mn mx s k
    simp only [repM, repEnds, List.findSome?_append]
    have e1 : (if mx == some 0 then none
           else stepM s (fun s' =>
             if s'.length < s.length then repM stepM fuel (mn - 1) (mx.map (· - 1)) s' k else none))
        = (if mx == some 0 then []
     else (step s).flatMap (fun s' =>
       if s'.length < s.length then repEnds step fuel (mn - 1) (mx.map (· - 1)) s' else [])).findSome? k := by
      split
      · rfl
      · rw [h, findSome?_flatMap']
        congr 1
        funext s'
        split
        · exact ih _ _ _ _
        · rfl
    rw [e1]
    have e2 : (if mn == 0 then k s else none) = (if mn == 0 then [s] else []).findSome? k := by
      split
      · rw [findSome?_single]
      · rfl
    rw [e2]
    generalize (List.findSome? k _) = x
    generalize (List.findSome? k _) = y
    cases x <;> rfl

/-- `m` (what the driver runs) is the first success of the continuation over `ends` (the specification) -/
theorem m_eq_findSome {α : Type} (ic : Bool) (r : Re) :
    ∀ (s : List Char) (k : List Char → Option α), m ic r s k = (ends ic r s).findSome? k := by
  induction r with
  | eps => intro s k; simp only [m, ends]; rw [findSome?_single]
  | lit p => intro s k; simp only [m, ends]; exact step1M_eq _ _ _
  | any => intro s k; simp only [m, ends]; exact step1M_eq _ _ _
  | set neg items => intro s k; simp only [m, ends]; exact step1M_eq _ _ _
  | cat a b iha ihb =>
    intro s k
    simp only [m, ends]
    rw [iha, findSome?_flatMap']
    congr 1
    funext s'
    exact ihb _ _
  | alt a b iha ihb =>
    intro s k
    simp only [m, ends, List.findSome?_append]
    rw [iha, ihb]
    generalize (List.findSome? k _) = x
    generalize (List.findSome? k _) = y
    cases x <;> rfl
  | rep r mn mx ih =>
    intro s k
    simp only [m, ends]
    exact repM_eq _ _ (fun s k => ih s k) _ _ _ _ _
  | nla r _ =>
    intro s k
    simp only [m, ends]
    split
    · rw [findSome?_single]
    · rfl
  | eol =>
    intro s k
    simp only [m, ends]
    split
    · rw [findSome?_single]
    · rfl

/-- what the lexer uses, `matchFront`, is `re.match` as the specification defines it: the head of `ends` -/
theorem matchFront_eq_spec (ic : Bool) (r : Re) (s : List Char) : matchFront ic r s = matchSpec ic r s := by
  unfold matchFront matchSpec
  rw [m_eq_findSome]
  cases ends ic r s with
  | nil => rfl
  | cons a l => simp

theorem matchFront_suffix {ic : Bool} {r : Re} {s rest : List Char} (h : matchFront ic r s = some rest) :
    rest <:+ s := by
  rw [matchFront_eq_spec] at h
  unfold matchSpec at h
  exact re_suffix ic r s rest (List.mem_of_head? h)

theorem matchFront_lt {ic : Bool} {r : Re} {s rest : List Char} (hn : r.nullable = false)
    (h : matchFront ic r s = some rest) : rest.length < s.length := by
  rw [matchFront_eq_spec] at h
  unfold matchSpec at h
  exact ends_lt_of_not_nullable ic r hn s rest (List.mem_of_head? h)

/-! ## SLY's loop -/

/-- the text a list of tokens was made from: the concatenation of their raw texts -/
def raws (ts : List Token) : Text := (ts.map (·.raw)).flatten

/-- the concatenation of the token VALUES -/
def values (ts : List Token) : Text := (ts.map (·.value)).flatten

theorem firstRule_suffix {ic : Bool} {rules : List (String × Re)} {s rest : Text} {n : String}
    (h : firstRule ic rules s = some (n, rest)) : rest <:+ s := by
  induction rules with
  | nil => simp [firstRule] at h
  | cons p rs ih =>
    obtain ⟨n', r⟩ := p
    simp only [firstRule] at h
    split at h
    · rename_i rest' hm
      simp only [Option.some.injEq, Prod.mk.injEq] at h
      obtain ⟨_, rfl⟩ := h
      exact matchFront_suffix hm
    · exact ih h

theorem firstRule_lt {ic : Bool} {rules : List (String × Re)} {s rest : Text} {n : String}
    (hn : ∀ p, p ∈ rules → p.2.nullable = false)
    (h : firstRule ic rules s = some (n, rest)) : rest.length < s.length := by
  induction rules with
  | nil => simp [firstRule] at h
  | cons p rs ih =>
    obtain ⟨n', r⟩ := p
    simp only [firstRule] at h
    split at h
    · rename_i rest' hm
      simp only [Option.some.injEq, Prod.mk.injEq] at h
      obtain ⟨_, rfl⟩ := h
      exact matchFront_lt (hn (n', r) (by simp)) hm
    · exact ih (fun p hp => hn p (by simp [hp])) h

/-- one turn of the loop never "stops" with the outcomes reserved for the loop itself -/
theorem lexStep_stop {spec : LexerSpec} {rb : Text} {c : Char} {t : Text} {o : Outcome}
    (h : lexStep spec rb c t = .stop o) : o ≠ .ok ∧ o ≠ .fuel := by
  unfold lexStep at h
  split at h
  · dsimp only at h
    split at h
    · cases h; simp
    · split at h <;> cases h <;> simp
  · split at h <;> cases h <;> simp

theorem raws_cons (tk : Token) (ts : List Token) : raws (tk :: ts) = tk.raw ++ raws ts := by
  simp [raws]

/-- `lex_lossless`, general form: the raw texts of the tokens, concatenated, are a prefix of the text — and the
    whole text when the lexer reaches its end -/
theorem lexLoop_lossless (spec : LexerSpec) :
    ∀ fuel rb s, raws (lexLoop spec fuel rb s).1 <+: s ∧
      ((lexLoop spec fuel rb s).2 = .ok → raws (lexLoop spec fuel rb s).1 = s) := by
  intro fuel
  induction fuel with
  | zero =>
    intro rb s
    cases s with
    | nil => simp [lexLoop, raws]
    | cons c t => simp [lexLoop, raws]
  | succ fuel ih =>
    intro rb s
    cases s with
    | nil => simp [lexLoop, raws]
    | cons c t =>
      simp only [lexLoop]
      split
      · rename_i o hs
        refine ⟨by simp [raws], ?_⟩
        intro ho
        exact absurd ho (lexStep_stop hs).1
      · rename_i ty v keep hs
        split
        · simp [raws]
        · dsimp only
          have := ih ((List.take keep (c :: t)).reverse ++ rb) (List.drop keep (c :: t))
          rw [raws_cons]
          dsimp only
          constructor
          · have h := (List.prefix_append_right_inj (List.take keep (c :: t))).mpr this.1
            rwa [List.take_append_drop] at h
          · intro ho
            rw [this.2 ho, List.take_append_drop]

/-- `lex_lossless`: when the lexer model returns tokens `ts` for the text `s` and reaches the end, the
    concatenation of the RAW texts of `ts` is `s` (nothing is lost, nothing is invented, nothing is reordered) -/
theorem lex_lossless (spec : LexerSpec) (text : Text) (ts : List Token)
    (h : lex spec text = (ts, .ok)) : raws ts = text := by
  have := (lexLoop_lossless spec text.length [] text).2
  unfold lex at h
  rw [h] at this
  exact this rfl

/-- … and when it stops early (LexError, ValueError) the tokens produced so far spell a prefix of the text -/
theorem lex_prefix (spec : LexerSpec) (text : Text) : raws (lex spec text).1 <+: text :=
  (lexLoop_lossless spec text.length [] text).1

/-- `lex_nonempty`: every token has a non-empty raw text -/
theorem lexLoop_nonempty (spec : LexerSpec) :
    ∀ fuel rb s tk, tk ∈ (lexLoop spec fuel rb s).1 → tk.raw ≠ [] := by
  intro fuel
  induction fuel with
  | zero =>
    intro rb s tk h
    cases s <;> simp [lexLoop] at h
  | succ fuel ih =>
    intro rb s tk h
    cases s with
    | nil => simp [lexLoop] at h
    | cons c t =>
      simp only [lexLoop] at h
      split at h
      · simp at h
      · rename_i ty v keep hs
        split at h
        · simp at h
        · rename_i hk
          dsimp only at h
          rw [List.mem_cons] at h
          rcases h with h | h
          · subst h
            dsimp only
            cases keep with
            | zero => simp at hk
            | succ k => simp
          · exact ih _ _ _ h

theorem lex_nonempty (spec : LexerSpec) (text : Text) (tk : Token) (h : tk ∈ (lex spec text).1) : tk.raw ≠ [] :=
  lexLoop_nonempty spec _ _ _ tk h

/-- the fuel of the loop is sufficient (every token consumes a character): `lex` never reports `fuel` -/
theorem lexLoop_fuel (spec : LexerSpec) :
    ∀ fuel rb s, s.length ≤ fuel → (lexLoop spec fuel rb s).2 ≠ .fuel := by
  intro fuel
  induction fuel with
  | zero =>
    intro rb s hl
    have hs : s = [] := List.eq_nil_of_length_eq_zero (by omega)
    subst hs
    simp [lexLoop]
  | succ fuel ih =>
    intro rb s hl
    cases s with
    | nil => simp [lexLoop]
    | cons c t =>
      simp only [lexLoop]
      split
      · rename_i o hs
        exact (lexStep_stop hs).2
      · rename_i ty v keep hs
        split
        · simp
        · rename_i hk
          dsimp only
          apply ih
          simp only [List.length_drop, List.length_cons] at hl ⊢
          have : keep ≠ 0 := by simpa using hk
          omega

theorem lex_fuel (spec : LexerSpec) (text : Text) : (lex spec text).2 ≠ .fuel :=
  lexLoop_fuel spec _ _ _ (Nat.le_refl _)

/-! ## the action functions: what a token's value can be -/

/-- the shape of every action's result on a matched text `value`: the token keeps the whole match and its value
    is the match (or, SPACE, the match with tabs expanded), or — the COMMENT give-back — it keeps one character
    and its value is that character -/
def ActShape (value : Text) (res : ActRes) : Prop :=
  ∀ ty v keep, res = .tok ty v keep →
    (keep = value.length ∧ (v = value ∨ v = expandTabs value)) ∨ (keep = 1 ∧ v = value.take 1)

theorem actShape_whole (ty : String) (value : Text) : ActShape value (.tok ty value value.length) := by
  intro ty' v keep h; cases h; exact Or.inl ⟨rfl, Or.inl rfl⟩

theorem actComment_shape (spec : LexerSpec) (rb value : Text) : ActShape value (actComment spec rb value) := by
  unfold actComment
  dsimp only
  split
  · exact actShape_whole _ _
  · split
    · intro ty v keep h; cases h; exact Or.inr ⟨rfl, rfl⟩
    · intro ty v keep h; cases h

theorem actColumnComment_shape (name : String) (rb value : Text) :
    ActShape value (actColumnComment name rb value) := by
  unfold actColumnComment
  split
  · exact actShape_whole _ _
  · intro ty v keep h; cases h

theorem actZaid_shape (spec : LexerSpec) (rb value : Text) : ActShape value (actZaid spec rb value) := by
  unfold actZaid
  split
  · split <;> exact actShape_whole _ _
  · exact actShape_whole _ _

theorem actNumberWord_shape (spec : LexerSpec) (value : Text) : ActShape value (actNumberWord spec value) := by
  unfold actNumberWord
  split <;> exact actShape_whole _ _

theorem actNumber_shape (value : Text) : ActShape value (actNumber value) := by
  unfold actNumber
  split
  · intro ty v keep h; cases h
  · exact actShape_whole _ _
  · exact actShape_whole _ _

theorem action_shape (spec : LexerSpec) (name : String) (rb value : Text) :
    ActShape value (action spec name rb value) := by
  unfold action
  split
  all_goals first
    | exact actShape_whole _ _
    | exact actComment_shape _ _ _
    | exact actColumnComment_shape _ _ _
    | exact actZaid_shape _ _ _
    | exact actNumberWord_shape _ _
    | exact actNumber_shape _
    | (intro ty v keep h; cases h; exact Or.inl ⟨rfl, Or.inr rfl⟩)
    | (intro ty v keep h; cases h)

theorem take_length_take (n : Nat) (l : Text) : l.take (l.take n).length = l.take n := by
  induction l generalizing n with
  | nil => simp
  | cons a l ih =>
    cases n with
    | zero => simp
    | succ n => simp

theorem take_one_take (n : Nat) (c : Char) (t : Text) (h : ((c :: t).take n).isEmpty = false) :
    ((c :: t).take n).take 1 = (c :: t).take 1 := by
  cases n with
  | zero => simp at h
  | succ n => simp

/-- one turn of the loop: the value of the token is the text it keeps, or that text with its tabs expanded -/
theorem lexStep_value {spec : LexerSpec} {rb : Text} {c : Char} {t : Text} {ty : String} {v : Text} {keep : Nat}
    (h : lexStep spec rb c t = .tok ty v keep) :
    v = (c :: t).take keep ∨ v = expandTabs ((c :: t).take keep) := by
  unfold lexStep at h
  split at h
  · dsimp only at h
    split at h
    · cases h
    · rename_i name rest hf hne
      split at h
      · rename_i ty' v' keep' ha
        cases h
        rcases action_shape spec name rb _ _ _ _ ha with ⟨hk, hv⟩ | ⟨hk, hv⟩
        · rw [hk, take_length_take]
          exact hv
        · rw [hk, hv]
          left
          exact take_one_take _ _ _ (by simpa using hne)
      · cases h
      · cases h
  · split at h
    · cases h; left; simp
    · cases h

theorem lexLoop_value (spec : LexerSpec) :
    ∀ fuel rb s tk, tk ∈ (lexLoop spec fuel rb s).1 → tk.value = tk.raw ∨ tk.value = expandTabs tk.raw := by
  intro fuel
  induction fuel with
  | zero =>
    intro rb s tk h
    cases s <;> simp [lexLoop] at h
  | succ fuel ih =>
    intro rb s tk h
    cases s with
    | nil => simp [lexLoop] at h
    | cons c t =>
      simp only [lexLoop] at h
      split at h
      · simp at h
      · rename_i ty v keep hs
        split at h
        · simp at h
        · dsimp only at h
          rw [List.mem_cons] at h
          rcases h with h | h
          · subst h
            exact lexStep_value hs
          · exact ih _ _ _ h

/-- `str.expandtabs` is the identity on a text without a tab -/
theorem expandTabsFrom_id (tab : Nat) : ∀ (s : Text) (col : Nat), '\t' ∉ s → expandTabsFrom tab col s = s := by
  intro s
  induction s with
  | nil => intro col _; rfl
  | cons c t ih =>
    intro col h
    simp only [List.mem_cons, not_or] at h
    have hc : (c == '\t') = false := by
      simp only [beq_eq_false_iff_ne, ne_eq]
      exact fun e => h.1 e.symm
    simp only [expandTabsFrom, hc]
    simp [ih _ h.2]

/-- `lex_lossless` for the VALUES: on a text without tabs the concatenation of the token values is the text -/
theorem lex_values_lossless (spec : LexerSpec) (text : Text) (ts : List Token)
    (h : lex spec text = (ts, .ok)) (htab : '\t' ∉ text) : values ts = text := by
  have hr := lex_lossless spec text ts h
  have hv : ∀ tk, tk ∈ ts → tk.value = tk.raw := by
    intro tk htk
    have hraw : '\t' ∉ tk.raw := by
      intro hin
      apply htab
      rw [← hr]
      unfold raws
      rw [List.mem_flatten]
      exact ⟨tk.raw, List.mem_map_of_mem htk, hin⟩
    have := lexLoop_value spec text.length [] text tk (by unfold lex at h; rw [h]; exact htk)
    rcases this with e | e
    · exact e
    · rw [e]; exact expandTabsFrom_id _ _ _ hraw
  unfold values
  rw [← hr]
  unfold raws
  congr 1
  exact List.map_congr_left hv

/-! ## `Input.tokenize` -/

theorem mem_takeWhile_p {α : Type} (p : α → Bool) (l : List α) (x : α) (h : x ∈ l.takeWhile p) : p x = true := by
  induction l with
  | nil => simp at h
  | cons a l ih =>
    simp only [List.takeWhile_cons] at h
    split at h
    · rw [List.mem_cons] at h
      rcases h with h | h
      · subst h; assumption
      · exact ih h
    · simp at h

theorem rstripNL_spec (v : Text) : ∃ k, v = rstripNL v ++ List.replicate k '\n' := by
  refine ⟨(v.reverse.takeWhile (· == '\n')).length, ?_⟩
  unfold rstripNL
  have h1 : v = (v.reverse.dropWhile (· == '\n')).reverse ++ (v.reverse.takeWhile (· == '\n')).reverse := by
    rw [← List.reverse_append, List.takeWhile_append_dropWhile, List.reverse_reverse]
  have h2 : (v.reverse.takeWhile (· == '\n')).reverse = List.replicate (v.reverse.takeWhile (· == '\n')).length '\n' := by
    rw [List.eq_replicate_iff]
    refine ⟨by simp, ?_⟩
    intro b hb
    rw [List.mem_reverse] at hb
    have := mem_takeWhile_p _ _ _ hb
    simpa using this
  rw [← h2]
  exact h1

theorem values_append (a b : List Token) : values (a ++ b) = values a ++ values b := by
  simp [values]

/-- the lexer half of "Echo" at the level of `Input.tokenize`: on a text without tabs that the lexer reads to its
    end, the concatenated values of the tokens MontePy's parsers receive are the text minus final newlines -/
theorem tokenize_lossless (spec : LexerSpec) (text : Text) (ts : List Token)
    (h : tokenizeText spec text = (ts, .ok)) (htab : '\t' ∉ text) :
    ∃ k, values ts ++ List.replicate k '\n' = text := by
  unfold tokenizeText at h
  cases hl : lex spec text with
  | mk ts0 o =>
    rw [hl] at h
    cases o
    case ok =>
      dsimp only at h
      have hv := lex_values_lossless spec text ts0 hl htab
      split at h
      · rename_i hnone
        rw [List.getLast?_eq_none_iff] at hnone
        subst hnone
        simp only [Prod.mk.injEq, and_true] at h
        subst h
        exact ⟨0, by simpa [values] using hv⟩
      · rename_i last hsome
        simp only [Prod.mk.injEq, and_true] at h
        subst h
        have hsplit : ts0 = ts0.dropLast ++ [last] := by
          obtain ⟨ys, hys⟩ := List.getLast?_eq_some_iff.mp hsome
          rw [hys, List.dropLast_concat]
        obtain ⟨k, hk⟩ := rstripNL_spec last.value
        refine ⟨k, ?_⟩
        rw [hsplit, values_append] at hv
        rw [values_append, ← hv]
        have : values (if (rstripNL last.value).isEmpty = true then [] else [{ last with value := rstripNL last.value }])
            = rstripNL last.value := by
          split
          · rename_i he
            simp only [List.isEmpty_iff] at he
            simp [values, he]
          · simp [values]
        rw [this, List.append_assoc, ← hk]
        simp [values]
    all_goals (simp at h)

/-- on a text without tabs every token's value is its raw text -/
theorem lex_value_eq_raw (spec : LexerSpec) (text : Text) (ts : List Token)
    (h : lex spec text = (ts, .ok)) (htab : '\t' ∉ text) : ∀ tk, tk ∈ ts → tk.value = tk.raw := by
  have hr := lex_lossless spec text ts h
  intro tk htk
  have hraw : '\t' ∉ tk.raw := by
    intro hin
    apply htab
    rw [← hr]
    unfold raws
    rw [List.mem_flatten]
    exact ⟨tk.raw, List.mem_map_of_mem htk, hin⟩
  have := lexLoop_value spec text.length [] text tk (by unfold lex at h; rw [h]; exact htk)
  rcases this with e | e
  · exact e
  · rw [e]; exact expandTabsFrom_id _ _ _ hraw

theorem rstripNL_append_nl (x : Text) : rstripNL (x ++ ['\n']) = rstripNL x := by
  unfold rstripNL
  simp

theorem rstripNL_id (x : Text) (h : ∀ y, x ≠ y ++ ['\n']) : rstripNL x = x := by
  rcases List.eq_nil_or_concat x with rfl | ⟨y, c, rfl⟩
  · rfl
  · have hc : c ≠ '\n' := by
      intro e
      subst e
      exact h y (by simp)
    unfold rstripNL
    simp [hc]

/-- `tokenize_lossless`, sharp form for an input text: the text of an input is `J ++ "\n"` (`input_text` joins the
    lines with newlines and adds one); when `J` has no tab and does not itself end in a newline (the last line is
    not empty), the concatenated values of the tokens `Input.tokenize` hands to the parser are exactly `J` -/
theorem tokenize_lossless_input (spec : LexerSpec) (J : Text) (ts : List Token)
    (h : tokenizeText spec (J ++ ['\n']) = (ts, .ok)) (htab : '\t' ∉ J) (hJ : ∀ y, J ≠ y ++ ['\n']) :
    values ts = J := by
  have htab' : '\t' ∉ J ++ ['\n'] := by
    simp only [List.mem_append, List.mem_singleton, not_or]
    exact ⟨htab, by decide⟩
  unfold tokenizeText at h
  cases hl : lex spec (J ++ ['\n']) with
  | mk ts0 o =>
    rw [hl] at h
    cases o
    case ok =>
      dsimp only at h
      have hv := lex_values_lossless spec _ ts0 hl htab'
      split at h
      · rename_i hnone
        rw [List.getLast?_eq_none_iff] at hnone
        subst hnone
        simp [values] at hv
      · rename_i last hsome
        simp only [Prod.mk.injEq, and_true] at h
        subst h
        obtain ⟨ys, hys⟩ := List.getLast?_eq_some_iff.mp hsome
        have hlast : last ∈ ts0 := by rw [hys]; simp
        have hne : last.value ≠ [] := by
          rw [lex_value_eq_raw spec _ ts0 hl htab' last hlast]
          exact lex_nonempty spec _ last (by rw [hl]; exact hlast)
        rw [hys, List.dropLast_concat]
        rw [hys, values_append] at hv
        have hvl : values [last] = last.value := by simp [values]
        rw [hvl] at hv
        rcases List.eq_nil_or_concat last.value with hnil | ⟨L', x, hL⟩
        · exact absurd hnil hne
        · rw [List.concat_eq_append] at hL
          rw [hL, ← List.append_assoc] at hv
          have hinj := List.append_inj' hv rfl
          have hx : x = '\n' := by simpa using hinj.2
          subst hx
          have hL' : ∀ y, L' ≠ y ++ ['\n'] := by
            intro y hy
            apply hJ (values ys ++ y)
            rw [← hinj.1, hy, List.append_assoc]
          have hr : rstripNL last.value = L' := by
            rw [hL, rstripNL_append_nl, rstripNL_id _ hL']
          rw [values_append, hr, ← hinj.1]
          congr 1
          split
          · rename_i he
            simp only [List.isEmpty_iff] at he
            simp [values, he]
          · simp [values]
    all_goals (simp at h)

/-! ## determinism facts C12 can use -/

/-- a word the NUMBER rule matched is the token NULL exactly when `fortran_float` of it is zero, NUMBER exactly
    when it is a non-zero float, and raises ValueError exactly when `fortran_float` does -/
theorem number_null (value : Text) :
    (fortranFloatIsZero value = some true → actNumber value = .tok "NULL" value value.length) ∧
    (fortranFloatIsZero value = some false → actNumber value = .tok "NUMBER" value value.length) ∧
    (fortranFloatIsZero value = none → actNumber value = .valueError) := by
  unfold actNumber
  refine ⟨?_, ?_, ?_⟩ <;> intro h <;> rw [h]

/-- a NUMBER token is never a zero: `actNumber` says NUMBER only for a non-zero float -/
theorem number_token_nonzero (value v : Text) (k : Nat) (h : actNumber value = .tok "NUMBER" v k) :
    fortranFloatIsZero value = some false := by
  unfold actNumber at h
  split at h
  · cases h
  · simp only [ActRes.tok.injEq] at h
    exact absurd h.1 (by decide)
  · assumption

/-- `lex_literal_tokens`: where no rule matches, a character of the literal set is a token by itself -/
theorem lex_literal_tokens (spec : LexerSpec) (rb : Text) (c : Char) (t : Text)
    (hnone : firstRule spec.ic spec.rules (c :: t) = none) (hlit : spec.literals.contains c = true) :
    lexStep spec rb c t = .tok (String.singleton c) [c] 1 := by
  have hm : c ∈ spec.literals := by simpa using hlit
  unfold lexStep
  rw [hnone]
  simp [hm]

/-- … and a character that no rule matches and that is no literal is a LexError (ParsingError of the input) -/
theorem lex_error (spec : LexerSpec) (rb : Text) (c : Char) (t : Text)
    (hnone : firstRule spec.ic spec.rules (c :: t) = none) (hlit : spec.literals.contains c = false) :
    lexStep spec rb c t = .stop .lexError := by
  have hm : c ∉ spec.literals := by simpa using hlit
  unfold lexStep
  rw [hnone]
  simp [hm]

/-! ## the generated lexers: static facts of the tables, and totality of the model on them -/

def allSpecs : List LexerSpec := [mcnpLexer, particleLexer, cellLexer, dataLexer, surfaceLexer]

/-- the action functions `Model/Lexer.lean:action` knows, by `__qualname__` -/
def knownQuals : List String :=
  ["MCNP_Lexer.DOLLAR_COMMENT", "MCNP_Lexer.MESSAGE", "DataLexer.PARTICLE_SPECIAL", "MCNP_Lexer.COMMENT",
   "MCNP_Lexer.SOURCE_COMMENT", "MCNP_Lexer.TALLY_COMMENT", "MCNP_Lexer.SPACE", "MCNP_Lexer.ZAID",
   "MCNP_Lexer.NUMBER_WORD", "MCNP_Lexer.NUMBER", "MCNP_Lexer.TEXT", "ParticleLexer.TEXT", "SurfaceLexer.TEXT"]

def textQuals : List String := ["MCNP_Lexer.TEXT", "ParticleLexer.TEXT", "SurfaceLexer.TEXT"]

/-- what the model needs of a lexer's tables: no rule can match the empty string, no repetition has a body that
    can (so `Model/Regex.lean`'s "every iteration consumes" is sre's rule), every action function is modelled -/
def specStaticOk (spec : LexerSpec) : Bool :=
  spec.rules.all (fun p => !p.2.nullable && p.2.repOk)
  && spec.funcs.all (fun f => knownQuals.contains f.2)
  && (match spec.funcs.lookup "TEXT" with
      | some q => textQuals.contains q
      | none => false)

/-- the five lexers of the working tree's `tokens.py` (as translated into `Gen/LexRules.lean`) satisfy it.
    A check of the generated TABLE (re-run whenever a pattern or a function of tokens.py changes), not of inputs. -/
theorem generated_lexers_static : allSpecs.all specStaticOk = true := by decide

theorem generated_expressions_static :
    (MontePyVerif.Gen.LexRules.shortcutExpressions.all (fun e => e.2.2.repOk)
      && MontePyVerif.Gen.LexRules.nuclideInputs.repOk) = true := by decide

theorem lookup_mem {l : List (String × String)} {k v : String} (h : l.lookup k = some v) : (k, v) ∈ l := by
  induction l with
  | nil => simp [List.lookup] at h
  | cons p l ih =>
    obtain ⟨a, b⟩ := p
    simp only [List.lookup] at h
    split at h
    · rename_i heq
      simp only [Option.some.injEq] at h
      subst h
      have : k = a := by simpa using heq
      subst this
      simp
    · exact List.mem_cons_of_mem _ (ih h)

theorem static_rules {spec : LexerSpec} (hs : specStaticOk spec = true) :
    ∀ p, p ∈ spec.rules → p.2.nullable = false := by
  intro p hp
  simp only [specStaticOk, Bool.and_eq_true, List.all_eq_true] at hs
  have := hs.1.1 p hp
  simp only [Bool.not_eq_true'] at this
  exact this.1

theorem static_funcs {spec : LexerSpec} (hs : specStaticOk spec = true) {name q : String}
    (h : spec.funcs.lookup name = some q) : knownQuals.contains q = true := by
  simp only [specStaticOk, Bool.and_eq_true, List.all_eq_true] at hs
  exact hs.1.2 (name, q) (lookup_mem h)

theorem textType_known {spec : LexerSpec} (hs : specStaticOk spec = true) (rb v : Text) :
    textType spec rb v ≠ none := by
  simp only [specStaticOk, Bool.and_eq_true] at hs
  have h3 := hs.2
  unfold textType
  split at h3
  · rename_i q hq
    rw [hq]
    simp only [textQuals, List.contains_cons, List.contains_nil, Bool.or_false, Bool.or_eq_true, beq_iff_eq] at h3
    rcases h3 with h | h | h <;> subst h <;> simp
  · simp at h3

theorem action_known {spec : LexerSpec} (hs : specStaticOk spec = true) (name : String) (rb value : Text) :
    action spec name rb value ≠ .unmodelled := by
  unfold action
  split
  · simp
  · simp
  · simp
  · simp
  · unfold actComment
    dsimp only
    split
    · simp
    · split
      · simp
      · rename_i hn
        exact absurd hn (textType_known hs _ _)
  · unfold actColumnComment; split <;> simp
  · unfold actColumnComment; split <;> simp
  · simp
  · unfold actZaid; split
    · split <;> simp
    · simp
  · unfold actNumberWord; split <;> simp
  · unfold actNumber; split <;> simp
  · simp
  · simp
  · simp
  · have hk := static_funcs hs (name := name) (by assumption)
    simp only [knownQuals, List.contains_cons, List.contains_nil, Bool.or_false, Bool.or_eq_true, beq_iff_eq] at hk
    simp_all

/-- one turn of the loop on a lexer whose tables are `specStaticOk`: it stops only with LexError or ValueError,
    and a token it makes keeps at least one character -/
theorem lexStep_static {spec : LexerSpec} (hs : specStaticOk spec = true) (rb : Text) (c : Char) (t : Text) :
    (∀ o, lexStep spec rb c t = .stop o → o = .lexError ∨ o = .valueError) ∧
    (∀ ty v keep, lexStep spec rb c t = .tok ty v keep → keep ≠ 0) := by
  unfold lexStep
  split
  · rename_i name rest hf
    have hlt := firstRule_lt (static_rules hs) hf
    have hne : ((c :: t).take ((c :: t).length - rest.length)).isEmpty = false := by
      have : 0 < (c :: t).length - rest.length := by omega
      cases hk : (c :: t).length - rest.length with
      | zero => omega
      | succ k => simp
    dsimp only
    rw [hne]
    simp only [Bool.false_eq_true, if_false]
    constructor
    · intro o h
      split at h
      · cases h
      · cases h; exact Or.inr rfl
      · rename_i hu
        exact absurd hu (action_known hs _ _ _)
    · intro ty v keep h
      split at h
      · rename_i ty' v' keep' ha
        cases h
        rcases action_shape spec name rb _ _ _ _ ha with ⟨hk, _⟩ | ⟨hk, _⟩
        · rw [hk]
          intro h0
          rw [List.length_eq_zero_iff] at h0
          rw [h0] at hne
          simp at hne
        · omega
      · cases h
      · cases h
  · constructor
    · intro o h
      split at h
      · cases h
      · cases h; exact Or.inl rfl
    · intro ty v keep h
      split at h
      · cases h; simp
      · cases h

theorem lexLoop_total {spec : LexerSpec} (hs : specStaticOk spec = true) :
    ∀ fuel rb s, s.length ≤ fuel →
      (lexLoop spec fuel rb s).2 = .ok ∨ (lexLoop spec fuel rb s).2 = .lexError ∨ (lexLoop spec fuel rb s).2 = .valueError := by
  intro fuel
  induction fuel with
  | zero =>
    intro rb s hl
    have hs' : s = [] := List.eq_nil_of_length_eq_zero (by omega)
    subst hs'
    simp [lexLoop]
  | succ fuel ih =>
    intro rb s hl
    cases s with
    | nil => simp [lexLoop]
    | cons c t =>
      simp only [lexLoop]
      split
      · rename_i o hst
        exact Or.inr ((lexStep_static hs rb c t).1 o hst)
      · rename_i ty v keep hst
        have hk := (lexStep_static hs rb c t).2 ty v keep hst
        split
        · rename_i h0
          exact absurd (by simpa using h0) hk
        · dsimp only
          apply ih
          simp only [List.length_drop, List.length_cons] at hl ⊢
          omega

/-- totality of the model on the generated lexers: for each of the five lexer classes and EVERY text the model
    ends with the end of the text, a LexError or a ValueError — never with `stuck` (SLY looping on an empty match),
    `unmodelled` (an unknown action function) or `fuel` -/
theorem lex_total (spec : LexerSpec) (hmem : spec ∈ allSpecs) (text : Text) :
    (lex spec text).2 = .ok ∨ (lex spec text).2 = .lexError ∨ (lex spec text).2 = .valueError := by
  have hs : specStaticOk spec = true := by
    have := generated_lexers_static
    rw [List.all_eq_true] at this
    exact this spec hmem
  exact lexLoop_total hs _ _ _ (Nat.le_refl _)

/-! ## tests (non-vacuity): the generated rules on concrete texts, evaluated by the kernel -/

private def view (r : List Token × Outcome) : List (String × String) × Outcome :=
  (r.1.map (fun t => (t.type, String.ofList t.value)), r.2)

/-- test: `Input.tokenize` of the cell input `1 0 -1 imp:n=1` with the CellLexer rules -/
example : view (inputTokenize cellLexer ["1 0 -1 imp:n=1".toList]) =
    ([("NUMBER", "1"), ("SPACE", " "), ("NULL", "0"), ("SPACE", " "), ("NUMBER", "-1"), ("SPACE", " "),
      ("KEYWORD", "imp"), (":", ":"), ("PARTICLE", "n"), ("=", "="), ("NUMBER", "1")], .ok) := by decide

/-- test: the hypotheses of `lex_lossless` / `lex_values_lossless` / `tokenize_lossless` are satisfiable -/
example : (lex cellLexer "1 0 -1 imp:n=1\n".toList).2 = .ok := by decide
example : '\t' ∉ "1 0 -1 imp:n=1\n".toList := by decide

/-- test: the first matching rule wins, not the longest (`1e5m` is one multiply shortcut; `c14` is `c` then `14`),
    a multigroup ZAID is a multiply shortcut off a nuclide list, the COMMENT give-back, SPACE expands tabs -/
example : view (lex dataLexer "sd4 4145.81m 1e5m\tc14".toList) =
    ([("TEXT", "sd"), ("NUMBER", "4"), ("SPACE", " "), ("NUM_MULTIPLY", "4145.81m"), ("SPACE", " "),
      ("NUM_MULTIPLY", "1e5m"), ("SPACE", "        "), ("PARTICLE", "c"), ("NUMBER", "14")], .ok) := by decide
example : view (lex dataLexer "m1 4145.81m".toList) =
    ([("TEXT", "m"), ("NUMBER", "1"), ("SPACE", " "), ("ZAID", "4145.81m")], .ok) := by decide
example : view (lex surfaceLexer "c x\n1 PX 0.0 $ c\n      c 5".toList) =
    ([("COMMENT", "c x"), ("SPACE", "\n"), ("NUMBER", "1"), ("SPACE", " "), ("SURFACE_TYPE", "PX"), ("SPACE", " "),
      ("NULL", "0.0"), ("SPACE", " "), ("DOLLAR_COMMENT", "$ c"), ("SPACE", "\n      "), ("TEXT", "c"), ("SPACE", " "),
      ("NUMBER", "5")], .ok) := by decide
/-- test: errors — a character no rule and no literal knows; a NUMBER `fortran_float` cannot read; a source
    comment beyond column 5 -/
example : view (lex cellLexer "1 ;".toList) = ([("NUMBER", "1"), ("SPACE", " ")], .lexError) := by decide
example : view (lex cellLexer "1.5-".toList) = ([], .valueError) := by decide
example : view (lex dataLexer "       sc1 x".toList) = ([("SPACE", "       ")], .valueError) := by decide
/-- test: the regular-expression engine backtracks like sre (`(m|mx|mpn|xs)\d+`: `m` fails at `x`, `mx` is tried) -/
example : isMatch true MontePyVerif.Gen.LexRules.nuclideInputs "mx12:n".toList = true := by decide
example : isMatch true MontePyVerif.Gen.LexRules.nuclideInputs "mt12".toList = false := by decide
/-- test: a double that underflows is a zero (NULL), the smallest subnormal is not -/
example : fortranFloatIsZero "1e-400".toList = some true := by decide
set_option exponentiation.threshold 2000 in
example : fortranFloatIsZero "4.9e-324".toList = some false := by decide

end MontePyVerif.C12Lexer
