import MontePyVerif.Model.Lexer
/-! # Props.C12Lexer — theorems about the regular-expression engine and the lexer model

All for EVERY regular expression / EVERY lexer specification / EVERY text (induction); the `example`s at the end
run the generated rules of `Gen/LexRules.lean` on concrete texts and are tests, labelled as such.
-/
namespace MontePyVerif.C12Lexer
open MontePyVerif.Regex MontePyVerif.Lexer

/-! ## the regular-expression engine -/

theorem findSome?_flatMap' {α β γ : Type} (l : List α) (f : α → List β) (k : β → Option γ) :
    (l.flatMap f).findSome? k = l.findSome? (fun a => (f a).findSome? k) := by
  induction l with
  | nil => rfl
  | cons a l ih =>
    simp only [List.flatMap_cons, List.findSome?_append, List.findSome?_cons, ih]
    cases (f a).findSome? k <;> rfl

theorem flatMap_congr' {α β : Type} (l : List α) (f g : α → List β) (h : ∀ a, a ∈ l → f a = g a) :
    l.flatMap f = l.flatMap g := by
  induction l with
  | nil => rfl
  | cons a l ih =>
    simp only [List.flatMap_cons]
    rw [h a (by simp), ih (fun b hb => h b (by simp [hb]))]

theorem flatMap_nil'' {α β : Type} (l : List α) : l.flatMap (fun _ => ([] : List β)) = [] := by
  induction l with
  | nil => rfl
  | cons a l ih => simp [List.flatMap_cons, ih]

theorem step1_mem {p : Char → Bool} {s e : List Char} (h : e ∈ step1 p s) :
    ∃ c, s = c :: e ∧ p c = true := by
  cases s with
  | nil => simp [step1] at h
  | cons c t =>
    simp only [step1] at h
    split at h
    · simp at h; exact ⟨c, by rw [h], by assumption⟩
    · simp at h

theorem repEnds_suffix (step : List Char → List (List Char))
    (hstep : ∀ s e, e ∈ step s → e <:+ s) :
    ∀ fuel mn mx s e, e ∈ repEnds step fuel mn mx s → e <:+ s := by
  intro fuel
  induction fuel with
  | zero =>
    intro mn mx s e h
    simp only [repEnds] at h
    split at h
    · simp at h; subst h; exact List.suffix_refl _
    · simp at h
  | succ fuel ih =>
    intro mn mx s e h
    simp only [repEnds, List.mem_append] at h
    rcases h with h | h
    · split at h
      · simp at h
      · rw [List.mem_flatMap] at h
        obtain ⟨s', hs', he⟩ := h
        split at he
        · exact (ih _ _ _ _ he).trans (hstep _ _ hs')
        · simp at he
    · split at h
      · simp at h; subst h; exact List.suffix_refl _
      · simp at h

/-- `re_prefix`: whatever a regular expression matches at the front of a text is a PREFIX of it — every
    remainder `ends` lists is a suffix of the text. -/
theorem re_suffix (ic : Bool) (r : Re) : ∀ s e, e ∈ ends ic r s → e <:+ s := by
  induction r with
  | eps => intro s e h; simp [ends] at h; subst h; exact List.suffix_refl _
  | lit p =>
    intro s e h; obtain ⟨c, hs, _⟩ := step1_mem h; subst hs; exact List.suffix_cons _ _
  | any =>
    intro s e h; obtain ⟨c, hs, _⟩ := step1_mem h; subst hs; exact List.suffix_cons _ _
  | set neg items =>
    intro s e h; obtain ⟨c, hs, _⟩ := step1_mem h; subst hs; exact List.suffix_cons _ _
  | cat a b iha ihb =>
    intro s e h
    simp only [ends, List.mem_flatMap] at h
    obtain ⟨s', hs', he⟩ := h
    exact (ihb _ _ he).trans (iha _ _ hs')
  | alt a b iha ihb =>
    intro s e h
    simp only [ends, List.mem_append] at h
    rcases h with h | h
    · exact iha _ _ h
    · exact ihb _ _ h
  | rep r mn mx ih =>
    intro s e h
    simp only [ends] at h
    exact repEnds_suffix _ ih _ _ _ _ _ h
  | nla r _ =>
    intro s e h
    simp only [ends] at h
    split at h
    · simp at h; subst h; exact List.suffix_refl _
    · simp at h
  | eol =>
    intro s e h
    simp only [ends] at h
    split at h
    · simp at h; subst h; exact List.suffix_refl _
    · simp at h

theorem re_prefix (ic : Bool) (r : Re) (s e : List Char) (h : e ∈ ends ic r s) : ∃ pre, s = pre ++ e := by
  obtain ⟨pre, hp⟩ := re_suffix ic r s e h
  exact ⟨pre, hp.symm⟩

/-- a repetition with a positive minimum consumes at least one character (every iteration does) -/
theorem repEnds_lt (step : List Char → List (List Char)) (hstep : ∀ s e, e ∈ step s → e <:+ s)
    (fuel mn : Nat) (mx : Option Nat) (s e : List Char) (hmn : mn ≠ 0)
    (h : e ∈ repEnds step fuel mn mx s) : e.length < s.length := by
  cases fuel with
  | zero => simp [repEnds, hmn] at h
  | succ fuel =>
    simp only [repEnds, List.mem_append] at h
    rcases h with h | h
    · split at h
      · simp at h
      · rw [List.mem_flatMap] at h
        obtain ⟨s', _, he⟩ := h
        split at he
        · have := (repEnds_suffix step hstep _ _ _ _ _ he).length_le
          omega
        · simp at he
    · simp [hmn] at h

/-- `re_progress`: a regular expression that is not `nullable` consumes at least one character -/
theorem ends_lt_of_not_nullable (ic : Bool) (r : Re) :
    r.nullable = false → ∀ s e, e ∈ ends ic r s → e.length < s.length := by
  induction r with
  | eps => intro h; simp [Re.nullable] at h
  | lit p => intro _ s e h; obtain ⟨c, hs, _⟩ := step1_mem h; subst hs; simp
  | any => intro _ s e h; obtain ⟨c, hs, _⟩ := step1_mem h; subst hs; simp
  | set neg items => intro _ s e h; obtain ⟨c, hs, _⟩ := step1_mem h; subst hs; simp
  | cat a b iha ihb =>
    intro hn s e h
    simp only [ends, List.mem_flatMap] at h
    obtain ⟨s', hs', he⟩ := h
    have h1 := (re_suffix ic a _ _ hs').length_le
    have h2 := (re_suffix ic b _ _ he).length_le
    simp only [Re.nullable, Bool.and_eq_false_iff] at hn
    rcases hn with hn | hn
    · have := iha hn _ _ hs'; omega
    · have := ihb hn _ _ he; omega
  | alt a b iha ihb =>
    intro hn s e h
    simp only [Re.nullable, Bool.or_eq_false_iff] at hn
    simp only [ends, List.mem_append] at h
    rcases h with h | h
    · exact iha hn.1 _ _ h
    · exact ihb hn.2 _ _ h
  | rep r mn mx _ =>
    intro hn s e h
    simp only [Re.nullable, Bool.or_eq_false_iff, beq_eq_false_iff_ne] at hn
    simp only [ends] at h
    exact repEnds_lt _ (re_suffix ic r) _ _ _ _ _ hn.1 h
  | nla r _ => intro h; simp [Re.nullable] at h
  | eol => intro h; simp [Re.nullable] at h

/-- the fuel of a repetition is sufficient: any two fuels that are at least the length of the text agree -/
theorem repEnds_fuel (step : List Char → List (List Char)) :
    ∀ f1 f2 mn mx s, s.length ≤ f1 → s.length ≤ f2 → repEnds step f1 mn mx s = repEnds step f2 mn mx s := by
  intro f1
  induction f1 with
  | zero =>
    intro f2 mn mx s h1 _
    have hs : s = [] := List.eq_nil_of_length_eq_zero (by omega)
    subst hs
    cases f2 with
    | zero => rfl
    | succ f2 =>
      simp only [repEnds, List.length_nil, Nat.not_lt_zero, if_false, flatMap_nil'']
      split <;> simp
  | succ f1 ih =>
    intro f2 mn mx s h1 h2
    cases f2 with
    | zero =>
      have hs : s = [] := List.eq_nil_of_length_eq_zero (by omega)
      subst hs
      simp only [repEnds, List.length_nil, Nat.not_lt_zero, if_false]
      split <;> simp
    | succ f2 =>
      simp only [repEnds]
      congr 1
      split
      · rfl
      · apply flatMap_congr'
        intro s' _
        split
        · exact ih _ _ _ _ (by omega) (by omega)
        · rfl

/-! ### the continuation-passing matcher computes the first success over `ends` -/

theorem step1M_eq {α : Type} (p : Char → Bool) (s : List Char) (k : List Char → Option α) :
    step1M p s k = (step1 p s).findSome? k := by
  cases s with
  | nil => rfl
  | cons c t =>
    simp only [step1M, step1]
    split
    · simp [List.findSome?_cons]; cases k t <;> rfl
    · rfl

theorem findSome?_single {α β : Type} (k : α → Option β) (a : α) : [a].findSome? k = k a := by
  simp [List.findSome?_cons]; cases k a <;> rfl

theorem repM_eq {α : Type} (stepM : List Char → (List Char → Option α) → Option α)
    (step : List Char → List (List Char)) (h : ∀ s k, stepM s k = (step s).findSome? k) :
    ∀ fuel mn mx s k, repM stepM fuel mn mx s k = (repEnds step fuel mn mx s).findSome? k := by
  intro fuel
  induction fuel with
  | zero =>
    intro mn mx s k
    simp only [repM, repEnds]
    split
    · rw [findSome?_single]
    · rfl
  | succ fuel ih =>
    intro mn mx s k
    simp only [repM, repEnds, List.findSome?_append]
    have e1 : (if mx == some 0 then none
           else stepM s (fun s' =>
             if s'.length < s.length then repM stepM fuel (mn - 1) (mx.map (· - 1)) s' k else none))
        = (if mx == some 0 then []
     else (step s).flatMap (fun s' =>
       if s'.length < s.length then repEnds step fuel (mn - 1) (mx.map (· - 1)) s' else [])).findSome? k := by
      split
      · rfl
      · rw [h, findSome?_flatMap']
        congr 1
        funext s'
        split
        · exact ih _ _ _ _
        · rfl
    rw [e1]
    have e2 : (if mn == 0 then k s else none) = (if mn == 0 then [s] else []).findSome? k := by
      split
      · rw [findSome?_single]
      · rfl
    rw [e2]
    generalize (List.findSome? k _) = x
    generalize (List.findSome? k _) = y
    cases x <;> rfl

/-- `m` (what the driver runs) is the first success of the continuation over `ends` (the specification) -/
theorem m_eq_findSome {α : Type} (ic : Bool) (r : Re) :
    ∀ (s : List Char) (k : List Char → Option α), m ic r s k = (ends ic r s).findSome? k := by
  induction r with
  | eps => intro s k; simp only [m, ends]; rw [findSome?_single]
  | lit p => intro s k; simp only [m, ends]; exact step1M_eq _ _ _
  | any => intro s k; simp only [m, ends]; exact step1M_eq _ _ _
  | set neg items => intro s k; simp only [m, ends]; exact step1M_eq _ _ _
  | cat a b iha ihb =>
    intro s k
    simp only [m, ends]
    rw [iha, findSome?_flatMap']
    congr 1
    funext s'
    exact ihb _ _
  | alt a b iha ihb =>
    intro s k
    simp only [m, ends, List.findSome?_append]
    rw [iha, ihb]
    generalize (List.findSome? k _) = x
    generalize (List.findSome? k _) = y
    cases x <;> rfl
  | rep r mn mx ih =>
    intro s k
    simp only [m, ends]
    exact repM_eq _ _ (fun s k => ih s k) _ _ _ _ _
  | nla r _ =>
    intro s k
    simp only [m, ends]
    split
    · rw [findSome?_single]
    · rfl
  | eol =>
    intro s k
    simp only [m, ends]
    split
    · rw [findSome?_single]
    · rfl

/-- what the lexer uses, `matchFront`, is `re.match` as the specification defines it: the head of `ends` -/
theorem matchFront_eq_spec (ic : Bool) (r : Re) (s : List Char) : matchFront ic r s = matchSpec ic r s := by
  unfold matchFront matchSpec
  rw [m_eq_findSome]
  cases ends ic r s with
  | nil => rfl
  | cons a l => simp

theorem matchFront_suffix {ic : Bool} {r : Re} {s rest : List Char} (h : matchFront ic r s = some rest) :
    rest <:+ s := by
  rw [matchFront_eq_spec] at h
  unfold matchSpec at h
  exact re_suffix ic r s rest (List.mem_of_head? h)

theorem matchFront_lt {ic : Bool} {r : Re} {s rest : List Char} (hn : r.nullable = false)
    (h : matchFront ic r s = some rest) : rest.length < s.length := by
  rw [matchFront_eq_spec] at h
  unfold matchSpec at h
  exact ends_lt_of_not_nullable ic r hn s rest (List.mem_of_head? h)

/-! ## SLY's loop -/

/-- the text a list of tokens was made from: the concatenation of their raw texts -/
def raws (ts : List Token) : Text := (ts.map (·.raw)).flatten

/-- the concatenation of the token VALUES -/
def values (ts : List Token) : Text := (ts.map (·.value)).flatten

theorem firstRule_suffix {ic : Bool} {rules : List (String × Re)} {s rest : Text} {n : String}
    (h : firstRule ic rules s = some (n, rest)) : rest <:+ s := by
  induction rules with
  | nil => simp [firstRule] at h
  | cons p rs ih =>
    obtain ⟨n', r⟩ := p
    simp only [firstRule] at h
    split at h
    · rename_i rest' hm
      simp only [Option.some.injEq, Prod.mk.injEq] at h
      obtain ⟨_, rfl⟩ := h
      exact matchFront_suffix hm
    · exact ih h

theorem firstRule_lt {ic : Bool} {rules : List (String × Re)} {s rest : Text} {n : String}
    (hn : ∀ p, p ∈ rules → p.2.nullable = false)
    (h : firstRule ic rules s = some (n, rest)) : rest.length < s.length := by
  induction rules with
  | nil => simp [firstRule] at h
  | cons p rs ih =>
    obtain ⟨n', r⟩ := p
    simp only [firstRule] at h
    split at h
    · rename_i rest' hm
      simp only [Option.some.injEq, Prod.mk.injEq] at h
      obtain ⟨_, rfl⟩ := h
      exact matchFront_lt (hn (n', r) (by simp)) hm
    · exact ih (fun p hp => hn p (by simp [hp])) h

/-- one turn of the loop never "stops" with the outcomes reserved for the loop itself -/
theorem lexStep_stop {spec : LexerSpec} {rb : Text} {c : Char} {t : Text} {o : Outcome}
    (h : lexStep spec rb c t = .stop o) : o ≠ .ok ∧ o ≠ .fuel := by
  unfold lexStep at h
  split at h
  · dsimp only at h
    split at h
    · cases h; simp
    · split at h <;> cases h <;> simp
  · split at h <;> cases h <;> simp

theorem raws_cons (tk : Token) (ts : List Token) : raws (tk :: ts) = tk.raw ++ raws ts := by
  simp [raws]

/-- `lex_lossless`, general form: the raw texts of the tokens, concatenated, are a prefix of the text — and the
    whole text when the lexer reaches its end -/
theorem lexLoop_lossless (spec : LexerSpec) :
    ∀ fuel rb s, raws (lexLoop spec fuel rb s).1 <+: s ∧
      ((lexLoop spec fuel rb s).2 = .ok → raws (lexLoop spec fuel rb s).1 = s) := by
  intro fuel
  induction fuel with
  | zero =>
    intro rb s
    cases s with
    | nil => simp [lexLoop, raws]
    | cons c t => simp [lexLoop, raws]
  | succ fuel ih =>
    intro rb s
    cases s with
    | nil => simp [lexLoop, raws]
    | cons c t =>
      simp only [lexLoop]
      split
      · rename_i o hs
        refine ⟨by simp [raws], ?_⟩
        intro ho
        exact absurd ho (lexStep_stop hs).1
      · rename_i ty v keep hs
        split
        · simp [raws]
        · dsimp only
          have := ih ((List.take keep (c :: t)).reverse ++ rb) (List.drop keep (c :: t))
          rw [raws_cons]
          dsimp only
          constructor
          · have h := (List.prefix_append_right_inj (List.take keep (c :: t))).mpr this.1
            rwa [List.take_append_drop] at h
          · intro ho
            rw [this.2 ho, List.take_append_drop]

/-- `lex_lossless`: when the lexer model returns tokens `ts` for the text `s` and reaches the end, the
    concatenation of the RAW texts of `ts` is `s` (nothing is lost, nothing is invented, nothing is reordered) -/
theorem lex_lossless (spec : LexerSpec) (text : Text) (ts : List Token)
    (h : lex spec text = (ts, .ok)) : raws ts = text := by
  have := (lexLoop_lossless spec text.length [] text).2
  unfold lex at h
  rw [h] at this
  exact this rfl

/-- … and when it stops early (LexError, ValueError) the tokens produced so far spell a prefix of the text -/
theorem lex_prefix (spec : LexerSpec) (text : Text) : raws (lex spec text).1 <+: text :=
  (lexLoop_lossless spec text.length [] text).1

/-- `lex_nonempty`: every token has a non-empty raw text -/
theorem lexLoop_nonempty (spec : LexerSpec) :
    ∀ fuel rb s tk, tk ∈ (lexLoop spec fuel rb s).1 → tk.raw ≠ [] := by
  intro fuel
  induction fuel with
  | zero =>
    intro rb s tk h
    cases s <;> simp [lexLoop] at h
  | succ fuel ih =>
    intro rb s tk h
    cases s with
    | nil => simp [lexLoop] at h
    | cons c t =>
      simp only [lexLoop] at h
      split at h
      · simp at h
      · rename_i ty v keep hs
        split at h
        · simp at h
        · rename_i hk
          dsimp only at h
          rw [List.mem_cons] at h
          rcases h with h | h
          · subst h
            dsimp only
            cases keep with
            | zero => simp at hk
            | succ k => simp
          · exact ih _ _ _ h

theorem lex_nonempty (spec : LexerSpec) (text : Text) (tk : Token) (h : tk ∈ (lex spec text).1) : tk.raw ≠ [] :=
  lexLoop_nonempty spec _ _ _ tk h

/-- the fuel of the loop is sufficient (every token consumes a character): `lex` never reports `fuel` -/
theorem lexLoop_fuel (spec : LexerSpec) :
    ∀ fuel rb s, s.length ≤ fuel → (lexLoop spec fuel rb s).2 ≠ .fuel := by
  intro fuel
  induction fuel with
  | zero =>
    intro rb s hl
    have hs : s = [] := List.eq_nil_of_length_eq_zero (by omega)
    subst hs
    simp [lexLoop]
  | succ fuel ih =>
    intro rb s hl
    cases s with
    | nil => simp [lexLoop]
    | cons c t =>
      simp only [lexLoop]
      split
      · rename_i o hs
        exact (lexStep_stop hs).2
      · rename_i ty v keep hs
        split
        · simp
        · rename_i hk
          dsimp only
          apply ih
          simp only [List.length_drop, List.length_cons] at hl ⊢
          have : keep ≠ 0 := by simpa using hk
          omega

theorem lex_fuel (spec : LexerSpec) (text : Text) : (lex spec text).2 ≠ .fuel :=
  lexLoop_fuel spec _ _ _ (Nat.le_refl _)

end MontePyVerif.C12Lexer
