import MontePyVerif.Model.Errors
import MontePyVerif.Lemmas.ReaderErrors
import MontePyVerif.Props.C20
/-!
# C13 — bad input fails in a controlled way: a deliberate error, never a leak or hang

Theorems about `Model.Errors` (the error policy of `read_input`), stated over the tables GENERATED from the source
(`Gen/Errors.lean`: class hierarchy from the live classes, handler lists OBSERVED by raising every class inside every
region of the working tree, `raise` statements from the AST), so
that removing a class from an `except` tuple, changing the hierarchy or adding a `raise` of an unhandled class inside a
guarded loop re-opens a proof.

**What is not proved here.** "No internal exception escapes from any Python expression reachable from `read_input`"
is a statement about every expression of the interpreter; no executable Lean model short of a model of CPython
carries it.  An abstract file *states* which class is raised where; the theorems say what the layers of handlers make
of it, for all files.  The other half is explored on the real code (corruption enumeration, tools/props/c13.py) and
is labelled exploration in the evidence.
-/
namespace MontePyVerif.Errors
open MontePyVerif.Gen.Errors

/-! ## 1. The decision table -/

/-- The policy, written out: which classes each guarded region takes.  This is the table a maintainer would write
    down; `C13_mapping` proves that the `except` clauses of the source (via `Gen.Errors.handlers` and the live
    hierarchy) implement exactly it. -/
def policy : Region → List Cls
  | .parseInputConstructKeep => [.MalformedInputError, .ParsingError, .BrokenObjectLinkError, .UnknownElement]
  | .parseInputConstructMap =>
      [.MalformedInputError, .ParsingError, .BrokenObjectLinkError, .RedundantParameterSpecification,
       .ParticleTypeNotInProblem, .ParticleTypeNotInCell, .UnknownElement, .IllegalState, .ValueError, .UnicodeDecodeError]
  | .parseInputInner =>
      [.MalformedInputError, .ParsingError, .NumberConflictError, .BrokenObjectLinkError, .UnsupportedFeature, .UnknownElement,
       .TypeError]
  | .parseInputOuter =>
      [.MalformedInputError, .ParsingError, .BrokenObjectLinkError, .UnsupportedFeature, .FileNotFoundError]
  | .uipLoadData => [.MalformedInputError, .ParsingError, .BrokenObjectLinkError]
  | .uipSurfaceLoop => [.BrokenObjectLinkError, .ParticleTypeNotInProblem, .ParticleTypeNotInCell]
  | .uipDataLoop =>
      [.MalformedInputError, .ParsingError, .BrokenObjectLinkError, .ParticleTypeNotInProblem, .ParticleTypeNotInCell]
  | .cellsModifierOnce => [.MalformedInputError, .ParsingError, .BrokenObjectLinkError]
  | .cellsModifierMerge => [.MalformedInputError, .ParsingError, .BrokenObjectLinkError]
  | .cellsCellLoop =>
      [.MalformedInputError, .ParsingError, .BrokenObjectLinkError, .ParticleTypeNotInProblem, .ParticleTypeNotInCell]
  | .cellsBlankModifiers =>
      [.MalformedInputError, .ParsingError, .BrokenObjectLinkError, .ParticleTypeNotInProblem, .ParticleTypeNotInCell]
  | .objectInit =>
      [.MalformedInputError, .ParsingError, .BrokenObjectLinkError, .RedundantParameterSpecification,
       .ParticleTypeNotInProblem, .ParticleTypeNotInCell, .UnknownElement, .IllegalState, .ValueError, .UnicodeDecodeError]
  | .flushInput =>
      [.MalformedInputError, .ParsingError, .BrokenObjectLinkError, .RedundantParameterSpecification,
       .ParticleTypeNotInProblem, .ParticleTypeNotInCell, .UnknownElement, .IllegalState, .ValueError, .UnicodeDecodeError]

/-- **C13_mapping.** For every guarded region, every class and both modes the outcome is: handled classes become a
    warning in check mode and are re-raised in normal mode; every other class propagates unchanged — and "handled" is
    exactly the written-out policy table.  (A complete enumeration of the finite generated table.) -/
theorem C13_mapping : ∀ (r : Region) (c : Cls) (m : Mode),
    outcome r c m =
      if (policy r).contains c then (match m with | .check => .warnAndContinue | .normal => .raise c) else .leak c := by
  intro r c m
  cases r <;> cases c <;> cases m <;> decide

/-- **C13_tables_known.** Every fact of `Gen/Errors.lean` was observed on the working tree or read from its source:
    the translator wrote no "unknown" (a region whose probe could not be run AND whose except clauses were not
    recognised, a raise site whose function is gone, a pairing step that neither pairs strictly nor truncates).
    An unknown region is written as the empty handler list, so that `C13_mapping` fails with it. -/
theorem C13_tables_known : unknownFacts = [] := by decide

/-- **C13_hierarchy.** The facts about `errors.py` the policy relies on (from the live classes): every error type of
    MontePy that describes a bad input is a ValueError except NumberConflictError (Exception) and UnsupportedFeature
    (NotImplementedError); ParsingError and BrokenObjectLinkError are MalformedInputErrors; nothing is a Warning. -/
theorem C13_hierarchy :
    isSubclass .ParsingError .MalformedInputError = true ∧ isSubclass .BrokenObjectLinkError .MalformedInputError = true
    ∧ isSubclass .MalformedInputError .ValueError = true ∧ isSubclass .UnknownElement .ValueError = true
    ∧ isSubclass .ParticleTypeNotInProblem .ValueError = true ∧ isSubclass .ParticleTypeNotInCell .ValueError = true
    ∧ isSubclass .RedundantParameterSpecification .ValueError = true
    ∧ isSubclass .NumberConflictError .ValueError = false ∧ isSubclass .UnsupportedFeature .ValueError = false
    ∧ isSubclass .UnsupportedFeature .NotImplementedError = true
    ∧ isSubclass .LexError .ValueError = false
    ∧ (∀ c ∈ [Cls.MalformedInputError, .ParsingError, .BrokenObjectLinkError, .NumberConflictError, .UnsupportedFeature,
              .UnknownElement], isSubclass c .Warning = false ∧ isSubclass c .Exception = true) := by
  decide

/-- **C13_handled_ok.** Every class MontePy raises with a `raise` statement inside a guarded region (linking
    functions: enumerated from the AST; per-input region: every deliberate class after the two mapping layers; outer
    region: the reader's own errors) is taken by that region's handler: nothing deliberate passes a handler it is
    raised under, so in check mode nothing deliberate becomes a traceback. -/
theorem C13_handled_ok : ∀ (r : Region) (c : Cls), c ∈ raisedIn r → handled r c = true := by
  intro r
  cases r <;> decide

/-- non-vacuity: the enumerations are not empty -/
example : Cls.BrokenObjectLinkError ∈ raisedIn .cellsCellLoop ∧ Cls.NumberConflictError ∈ raisedIn .parseInputInner
    ∧ Cls.UnsupportedFeature ∈ raisedIn .parseInputInner ∧ Cls.FileNotFoundError ∈ raisedIn .parseInputOuter := by decide

/-- **C13_mapping_layers.** The two mapping layers in front of the per-input handler: a ValueError of any kind raised
    by the parser becomes MalformedInputError (MCNP_Object.__init__); after the constructor every ValueError that is
    not already a MalformedInputError or UnknownElement becomes MalformedInputError (parse_input); everything else
    (TypeError, AttributeError, LexError, UnsupportedFeature ...) passes unchanged; an ordinary input passes
    `flush_input`, a malformed read input is re-raised. -/
theorem C13_mapping_layers : ∀ c : Cls,
    (objectInitMap c = if isSubclass c .ValueError then .MalformedInputError else c)
    ∧ (constructMap c = if isSubclass c .MalformedInputError || c == .UnknownElement then c
                        else if isSubclass c .ValueError then .MalformedInputError else c)
    ∧ (isSubclass c .ValueError = true → handled .parseInputInner (constructMap c) = true)
    ∧ flushInput .ValueError = .yieldInput ∧ flushInput .ParsingError = .reraise .ParsingError := by
  intro c
  cases c <;> decide

/-! ## 2. The staged reader, for all abstract files -/

/-- the class an item hands to parse_input's handlers, if any (construction only; conflicts depend on the state) -/
def itemClass : Item → Option Cls
  | .readerRaise c => some c
  | .input _ (some f) => some (constructClass f)
  | .input _ none => none

/-- an item whose fault (if any) is of a class MontePy raises deliberately: reader-level faults are the reader's own
    errors, per-input faults are taken by the per-input handler -/
def itemOk : Item → Bool
  | .readerRaise c => handled .parseInputOuter c
  | .input _ (some f) => handled .parseInputInner (constructClass f)
  | .input _ none => true

/-- an abstract file whose faults are all of classes MontePy raises deliberately -/
def Deliberate (file : List Item) : Prop := ∀ it ∈ file, itemOk it = true

instance (file : List Item) : Decidable (Deliberate file) :=
  inferInstanceAs (Decidable (∀ it ∈ file, itemOk it = true))

theorem cellLinkError_cls (s : St) (c : Card) (x : Cls) (h : cellLinkError s c = some x) : x = .BrokenObjectLinkError := by
  cases c <;> simp only [cellLinkError] at h
  case cell =>
    repeat' (split at h)
    all_goals first | (cases h; rfl) | cases h
  all_goals cases h

theorem surfaceLinkError_cls (s : St) (c : Card) (x : Cls) (h : surfaceLinkError s c = some x) : x = .BrokenObjectLinkError := by
  cases c <;> simp only [surfaceLinkError] at h
  case surface =>
    repeat' (split at h)
    all_goals first | (cases h; rfl) | cases h
  all_goals cases h

/-! ### the data loop: what its events are, that they only grow, that the snapshot loop visits every input -/

def isDataEv (e : Region × Cls) : Prop := e = (Region.uipDataLoop, Cls.MalformedInputError)

theorem matScan_inv (mid n : Nat) (snap : List (Nat × Card)) : ∀ (st : DSt),
    (matScan mid n snap st).visited = st.visited
    ∧ (∀ e ∈ st.events, e ∈ (matScan mid n snap st).events)
    ∧ ((∀ e ∈ st.events, isDataEv e) → ∀ e ∈ (matScan mid n snap st).events, isDataEv e)
    ∧ (∀ y ∈ (matScan mid n snap st).live, y ∈ st.live) := by
  induction snap with
  | nil => intro st; simp [matScan]
  | cons x rest ih =>
    intro st
    obtain ⟨j, c⟩ := x
    cases c with
    | thermal m =>
      simp only [matScan]
      split
      · split
        · refine ⟨rfl, fun e he => by simp [he], fun h e he => ?_, fun y hy => hy⟩
          simp only [List.mem_append, List.mem_cons, List.not_mem_nil, or_false] at he
          rcases he with he | he
          · exact h e he
          · exact he
        · obtain ⟨h1, h2, h3, h4⟩ := ih { st with hasLaw := st.hasLaw ++ [mid], live := st.live.filter (fun x => x.1 != j) }
          exact ⟨h1, h2, h3, fun y hy => (List.mem_filter.mp (h4 y hy)).1⟩
      · exact ih st
    | _ => simp only [matScan]; exact ih st

theorem visit_inv (st : DSt) (x : Nat × Card) :
    (visit st x).visited = st.visited ++ [x.1]
    ∧ (∀ e ∈ st.events, e ∈ (visit st x).events)
    ∧ ((∀ e ∈ st.events, isDataEv e) → ∀ e ∈ (visit st x).events, isDataEv e)
    ∧ (∀ y ∈ (visit st x).live, y ∈ st.live) := by
  obtain ⟨i, c⟩ := x
  cases c with
  | material n =>
    simp only [visit]
    obtain ⟨h1, h2, h3, h4⟩ := matScan_inv i n st.live { st with visited := st.visited ++ [i] }
    exact ⟨h1, h2, h3, h4⟩
  | thermal n =>
    simp only [visit]
    split
    · exact ⟨rfl, fun e he => he, fun h => h, fun y hy => hy⟩
    · refine ⟨rfl, fun e he => by simp [he], fun h e he => ?_, fun y hy => hy⟩
      simp only [List.mem_append, List.mem_cons, List.not_mem_nil, or_false] at he
      rcases he with he | he
      · exact h e he
      · exact he
  | _ => exact ⟨rfl, fun e he => he, fun h => h, fun y hy => hy⟩

theorem foldVisit_inv (xs : List (Nat × Card)) : ∀ (st : DSt),
    (xs.foldl visit st).visited = st.visited ++ xs.map (·.1)
    ∧ (∀ e ∈ st.events, e ∈ (xs.foldl visit st).events)
    ∧ ((∀ e ∈ st.events, isDataEv e) → ∀ e ∈ (xs.foldl visit st).events, isDataEv e)
    ∧ (∀ y ∈ (xs.foldl visit st).live, y ∈ st.live) := by
  induction xs with
  | nil => intro st; simp
  | cons x rest ih =>
    intro st
    obtain ⟨v1, v2, v3, v4⟩ := visit_inv st x
    obtain ⟨h1, h2, h3, h4⟩ := ih (visit st x)
    simp only [List.foldl_cons]
    refine ⟨by rw [h1, v1]; simp, fun e he => h2 e (v2 e he), fun h => h3 (v3 h), fun y hy => v4 y (h4 y hy)⟩

theorem dataLoopEvents_cls (data : List Card) : ∀ e ∈ dataLoopEvents data, isDataEv e := by
  unfold dataLoopEvents linkDataSnapshot
  exact (foldVisit_inv (indexed data) { live := indexed data }).2.2.1 (by simp)

theorem indexed_mem (data : List Card) (c : Card) (h : c ∈ data) : ∃ i, (i, c) ∈ indexed data := by
  obtain ⟨i, hi, rfl⟩ := List.mem_iff_getElem.mp h
  refine ⟨i, ?_⟩
  unfold indexed
  rw [List.mem_iff_getElem]
  refine ⟨i, by simp [hi], ?_⟩
  simp

theorem indexed_snd (data : List Card) : ∀ y ∈ indexed data, y.2 ∈ data := by
  intro y hy
  unfold indexed at hy
  exact (List.of_mem_zip hy).2

/-- a dangling MT is reported wherever it stands in the snapshot, whatever was visited before it -/
theorem foldVisit_dangling (data : List Card) (n : Nat) (hno : Card.material n ∉ data) (xs : List (Nat × Card)) :
    ∀ (st : DSt), (∀ y ∈ st.live, y.2 ∈ data) → (∃ i, (i, Card.thermal n) ∈ xs) →
      (Region.uipDataLoop, Cls.MalformedInputError) ∈ (xs.foldl visit st).events := by
  induction xs with
  | nil => intro st _ h; obtain ⟨i, hi⟩ := h; simp at hi
  | cons x rest ih =>
    intro st hlive h
    obtain ⟨i, hi⟩ := h
    simp only [List.foldl_cons]
    have hlive' : ∀ y ∈ (visit st x).live, y.2 ∈ data := fun y hy => hlive y ((visit_inv st x).2.2.2 y hy)
    rcases List.mem_cons.mp hi with rfl | hi
    · apply (foldVisit_inv rest (visit st (i, .thermal n))).2.1
      simp only [visit]
      have : (st.live.any fun y => y.2 == Card.material n) = false := by
        rw [List.any_eq_false]
        intro y hy hc
        have := hlive y hy
        simp only [beq_iff_eq] at hc
        rw [hc] at this
        exact hno this
      simp [this]
    · exact ih (visit st x) hlive' ⟨i, hi⟩

theorem linkEvents_handled (s : St) : ∀ e ∈ linkEvents s, handled e.1 e.2 = true := by
  intro e he
  have key : ∀ (r : Region) (f : Card → Option Cls) (cs : List Card),
      (∀ c x, f c = some x → handled r x = true) → ∀ e ∈ optEvents r f cs, handled e.1 e.2 = true := by
    intro r f cs hf e he
    simp only [optEvents, List.mem_filterMap] at he
    obtain ⟨c, _, hc⟩ := he
    cases hfc : f c with
    | none => simp [hfc] at hc
    | some x => simp [hfc] at hc; subst hc; exact hf c x hfc
  have hmod : ∀ (cs : List Card) (seen : List Nat), ∀ e ∈ modifierEvents seen cs, handled e.1 e.2 = true := by
    intro cs
    induction cs with
    | nil => intro seen e he; simp [modifierEvents] at he
    | cons c rest ih =>
      intro seen e he
      cases c with
      | cellMod k cant nent =>
        simp only [modifierEvents, List.mem_append] at he
        rcases he with he | he
        · split at he
          · simp only [List.mem_cons, List.not_mem_nil, or_false] at he
            rcases he with rfl | rfl <;> decide
          · simp at he
        · exact ih _ e he
      | _ => simp only [modifierEvents] at he; exact ih _ e he
  simp only [linkEvents, List.mem_append] at he
  rcases he with ((((he | he) | he) | he) | he) | he
  · split at he
    · simp only [List.mem_cons, List.not_mem_nil, or_false] at he; subst he; decide
    · simp at he
  · exact hmod _ _ e he
  · refine key _ _ _ ?_ e he
    intro c x hx
    rw [cellLinkError_cls s c x hx]; decide
  · simp only [blankModifierEvents, List.mem_filterMap] at he
    obtain ⟨k, _, hk⟩ := he
    split at hk
    · simp at hk; subst hk; decide
    · simp at hk
  · refine key _ _ _ ?_ e he
    intro c x hx
    rw [surfaceLinkError_cls s c x hx]; decide
  · have := dataLoopEvents_cls s.data e he
    unfold isDataEv at this
    subst this; decide

/-- check mode over handled events returns, adding one warning per event, in order -/
theorem linkRun_check (evs : List (Region × Cls)) : ∀ (s : St), (∀ e ∈ evs, handled e.1 e.2 = true) →
    linkRun .check s evs = { final := .returned, st := { s with warnings := s.warnings ++ evs.map (·.2) } } := by
  induction evs with
  | nil => intro s _; simp [linkRun]
  | cons e rest ih =>
    intro s h
    obtain ⟨r, c⟩ := e
    have hrc : handled r c = true := h (r, c) (by simp)
    simp only [linkRun, outcome, hrc, if_true]
    rw [ih _ (fun e he => h e (by simp [he]))]
    simp [List.append_assoc]

/-- reading in check mode never fails on a deliberate file -/
theorem readItems_check (file : List Item) : ∀ (s : St), Deliberate file →
    (∃ s', readItems .check s file = .next s') ∨ (∃ s', readItems .check s file = .stop s') := by
  induction file with
  | nil => intro s _; left; exact ⟨s, rfl⟩
  | cons it rest ih =>
    intro s h
    have hit := h it (by simp)
    have hrest : Deliberate rest := fun x hx => h x (by simp [hx])
    have hflush : flushInput .ValueError = .yieldInput := by decide
    cases it with
    | readerRaise c =>
      simp only [itemOk] at hit
      right
      exact ⟨{ s with warnings := s.warnings ++ [c] }, by
        simp [readItems, stepItem, outerHandle, outcome, hit]⟩
    | input card fault =>
      cases fault with
      | some f =>
        simp only [itemOk] at hit
        have : stepItem .check s (.input card (some f)) = .next { s with warnings := s.warnings ++ [constructClass f] } := by
          simp [stepItem, hflush, innerHandle, outcome, hit]
        simp only [readItems, this]
        exact ih _ hrest
      | none =>
        have hnc : handled .parseInputInner .NumberConflictError = true := by decide
        cases hap : appendCard s card with
        | mk s1 conflict =>
          cases conflict with
          | true =>
            have : stepItem .check s (.input card none) = .next { s1 with warnings := s1.warnings ++ [.NumberConflictError] } := by
              simp [stepItem, hflush, hap, innerHandle, outcome, hnc]
            simp only [readItems, this]
            exact ih _ hrest
          | false =>
            have : stepItem .check s (.input card none) = .next s1 := by
              simp [stepItem, hflush, hap]
            simp only [readItems, this]
            exact ih _ hrest

/-- **C13_check_mode_returns.** In check mode the staged reader returns for EVERY abstract file whose faults are of
    classes MontePy raises deliberately, whatever their number, kind and position (induction over the input list and
    over the linking events): every failure becomes a warning. -/
theorem C13_check_mode_returns (file : List Item) (h : Deliberate file) :
    (readInput .check file).final = .returned := by
  unfold readInput
  rcases readItems_check file {} h with ⟨s, hs⟩ | ⟨s, hs⟩ <;>
    simp only [hs] <;> rw [linkRun_check _ _ (linkEvents_handled s)]

example : Deliberate [.input (.cell 1 0 [7] [] []) none, .input (.cell 1 0 [1] [] []) none,
    .input (.surface 1 none none) (some ⟨.ctor, .ValueError⟩), .input .other (some ⟨.parser, .UnsupportedFeature⟩),
    .readerRaise .FileNotFoundError] := by decide

/-! ### every failing input is reported in check mode -/

/-- warnings only grow while reading -/
theorem stepItem_check_warns (s : St) (card : Card) (f : Fault)
    (h : handled .parseInputInner (constructClass f) = true) :
    stepItem .check s (.input card (some f)) = .next { s with warnings := s.warnings ++ [constructClass f] } := by
  have hflush : flushInput .ValueError = .yieldInput := by decide
  simp [stepItem, hflush, innerHandle, outcome, h]

def stepWarnings : Step → List Cls
  | .next s => s.warnings | .stop s => s.warnings | .fail s _ _ => s.warnings

theorem appendCard_warnings (s : St) (c : Card) : (appendCard s c).1.warnings = s.warnings := by
  cases c <;> simp only [appendCard] <;> (try split) <;> rfl

theorem stepItem_mono (m : Mode) (s : St) (it : Item) : ∀ w ∈ s.warnings, w ∈ stepWarnings (stepItem m s it) := by
  intro w hw
  have hflush : flushInput .ValueError = .yieldInput := by decide
  have houter : ∀ (s : St) (c : Cls), w ∈ s.warnings → w ∈ stepWarnings (outerHandle m s c) := by
    intro s c hw
    simp only [outerHandle]; split <;> simp [stepWarnings, hw]
  have hinner : ∀ (s : St) (c : Cls), w ∈ s.warnings → w ∈ stepWarnings (innerHandle m s c) := by
    intro s c hw
    simp only [innerHandle]; split
    · simp [stepWarnings, hw]
    · simp [stepWarnings, hw]
    · exact houter s _ hw
  cases it with
  | readerRaise c => exact houter s c hw
  | input card fault =>
    cases fault with
    | some f => simp only [stepItem, hflush]; exact hinner s _ hw
    | none =>
      simp only [stepItem, hflush]
      have := appendCard_warnings s card
      cases hap : appendCard s card with
      | mk s1 conflict =>
        rw [hap] at this; simp only at this
        cases conflict with
        | true => simp only [if_true]; exact hinner s1 _ (by rw [this]; exact hw)
        | false => simp [stepWarnings, this, hw]

theorem readItems_mono (m : Mode) (file : List Item) : ∀ (s : St), ∀ w ∈ s.warnings, w ∈ stepWarnings (readItems m s file) := by
  induction file with
  | nil => intro s w hw; simpa [readItems, stepWarnings] using hw
  | cons it rest ih =>
    intro s w hw
    have h1 := stepItem_mono m s it w hw
    simp only [readItems]
    cases hst : stepItem m s it with
    | next s1 => rw [hst] at h1; exact ih s1 w h1
    | stop s1 => rw [hst] at h1; simpa using h1
    | fail s1 c r => rw [hst] at h1; simpa using h1

theorem linkRun_mono (m : Mode) (evs : List (Region × Cls)) : ∀ (s : St), ∀ w ∈ s.warnings, w ∈ (linkRun m s evs).st.warnings := by
  induction evs with
  | nil => intro s w hw; simpa [linkRun] using hw
  | cons e rest ih =>
    intro s w hw
    obtain ⟨r, c⟩ := e
    simp only [linkRun]
    split
    · exact ih _ w (by simp [hw])
    · exact hw
    · exact hw

/-- files without reader-level faults -/
def NoReaderFault (file : List Item) : Prop := ∀ it ∈ file, ∀ c, it ≠ .readerRaise c

/-- **C13_check_mode_reports.** In check mode no per-input failure is lost: if no reader-level fault cuts the file
    short, the class of EVERY failing input of a deliberate file is among the warnings of the returned problem —
    wherever the input stands and however many other inputs fail before or after it (check mode does not abandon the
    file at the first error). -/
theorem C13_check_mode_reports (pre post : List Item) (card : Card) (f : Fault)
    (h : Deliberate (pre ++ .input card (some f) :: post)) (hr : NoReaderFault pre) :
    constructClass f ∈ (readInput .check (pre ++ .input card (some f) :: post)).st.warnings := by
  have hf : handled .parseInputInner (constructClass f) = true := by
    have := h (.input card (some f)) (by simp)
    simpa only [itemOk] using this
  -- reading the prefix never stops
  have hpre : ∀ (pre : List Item) (s : St) (rest : List Item), Deliberate pre → NoReaderFault pre →
      ∃ s', readItems .check s (pre ++ rest) = readItems .check s' rest := by
    intro pre
    induction pre with
    | nil => intro s rest _ _; exact ⟨s, rfl⟩
    | cons it more ih =>
      intro s rest hd hn
      have hflush : flushInput .ValueError = .yieldInput := by decide
      have hit := hd it (by simp)
      have hd' : Deliberate more := fun x hx => hd x (by simp [hx])
      have hn' : NoReaderFault more := fun x hx => hn x (by simp [hx])
      cases it with
      | readerRaise c => exact absurd rfl (hn (.readerRaise c) (by simp) c)
      | input card fault =>
        cases fault with
        | some g =>
          simp only [itemOk] at hit
          obtain ⟨s', hs'⟩ := ih { s with warnings := s.warnings ++ [constructClass g] } rest hd' hn'
          exact ⟨s', by simp only [List.cons_append, readItems, stepItem_check_warns s card g hit]; exact hs'⟩
        | none =>
          have hnc : handled .parseInputInner .NumberConflictError = true := by decide
          cases hap : appendCard s card with
          | mk s1 conflict =>
            cases conflict with
            | true =>
              obtain ⟨s', hs'⟩ := ih { s1 with warnings := s1.warnings ++ [.NumberConflictError] } rest hd' hn'
              refine ⟨s', ?_⟩
              have : stepItem .check s (.input card none) = .next { s1 with warnings := s1.warnings ++ [.NumberConflictError] } := by
                simp [stepItem, hflush, hap, innerHandle, outcome, hnc]
              simp only [List.cons_append, readItems, this]; exact hs'
            | false =>
              obtain ⟨s', hs'⟩ := ih s1 rest hd' hn'
              refine ⟨s', ?_⟩
              have : stepItem .check s (.input card none) = .next s1 := by simp [stepItem, hflush, hap]
              simp only [List.cons_append, readItems, this]; exact hs'
  have hdpre : Deliberate pre := fun x hx => h x (by simp [hx])
  obtain ⟨s', hs'⟩ := hpre pre {} (.input card (some f) :: post) hdpre hr
  have hmem : constructClass f ∈ stepWarnings (readItems .check {} (pre ++ .input card (some f) :: post)) := by
    rw [hs']
    simp only [readItems, stepItem_check_warns s' card f hf]
    exact readItems_mono .check post _ _ (by simp)
  unfold readInput
  cases hrd : readItems .check {} (pre ++ .input card (some f) :: post) with
  | next s => rw [hrd] at hmem; exact linkRun_mono .check _ s _ hmem
  | stop s => rw [hrd] at hmem; exact linkRun_mono .check _ s _ hmem
  | fail s c r => rw [hrd] at hmem; exact hmem

example : Deliberate ([.input (.cell 1 0 [1] [] []) (some ⟨.parser, .UnsupportedFeature⟩)] ++
    .input (.surface 1 none none) (some ⟨.treeNone, .ParsingError⟩) :: [.input .mode none]) ∧
    NoReaderFault [.input (.cell 1 0 [1] [] []) (some ⟨.parser, .UnsupportedFeature⟩)] := by
  refine ⟨by decide, ?_⟩
  intro it hit c hc; simp at hit; subst hit; cases hc

/-! ### normal mode: the first failure, with its deliberate class -/

/-- an item that passes the reading loop without any exception from state `s` -/
def cleanFrom (s : St) : List Item → Option St
  | [] => some s
  | .input card none :: rest => if (appendCard s card).2 then none else cleanFrom (appendCard s card).1 rest
  | _ => none

theorem readItems_clean (m : Mode) (pre : List Item) : ∀ (s s1 : St) (rest : List Item), cleanFrom s pre = some s1 →
    readItems m s (pre ++ rest) = readItems m s1 rest := by
  induction pre with
  | nil => intro s s1 rest h; simp [cleanFrom] at h; subst h; rfl
  | cons it more ih =>
    intro s s1 rest h
    have hflush : flushInput .ValueError = .yieldInput := by decide
    cases it with
    | readerRaise c => simp [cleanFrom] at h
    | input card fault =>
      cases fault with
      | some f => simp [cleanFrom] at h
      | none =>
        simp only [cleanFrom] at h
        cases hap : appendCard s card with
        | mk s2 conflict =>
          rw [hap] at h
          cases conflict with
          | true => simp at h
          | false =>
            simp only [Bool.false_eq_true, if_false] at h
            have : stepItem m s (.input card none) = .next s2 := by simp [stepItem, hflush, hap]
            simp only [List.cons_append, readItems, this]
            exact ih s2 s1 rest h

/-- **C13_normal_mode_first_error.** In normal mode the outcome is the FIRST failing input's class after the mapping
    layers, re-raised by the per-input handler: for every file `pre ++ [failing input] ++ post` whose prefix reads
    cleanly, whatever follows. -/
theorem C13_normal_mode_first_error (pre post : List Item) (card : Card) (f : Fault) (s1 : St)
    (hpre : cleanFrom {} pre = some s1) (hf : handled .parseInputInner (constructClass f) = true) :
    (readInput .normal (pre ++ .input card (some f) :: post)).final = .raised (constructClass f) (some .parseInputInner) := by
  have hflush : flushInput .ValueError = .yieldInput := by decide
  unfold readInput
  rw [readItems_clean .normal pre {} s1 _ hpre]
  simp [readItems, stepItem, hflush, innerHandle, outcome, hf]

example : cleanFrom {} [.input (.cell 1 0 [1] [] []) none, .input (.cell 2 0 [1] [] []) none] =
    some { cells := [.cell 1 0 [1] [] [], .cell 2 0 [1] [] []] } := by decide

/-- **C13_normal_mode_clean_prefix.** A duplicate number is the container's NumberConflictError, and a reader-level
    fault is the reader's class re-raised by the outer handler — again after any cleanly read prefix. -/
theorem C13_normal_mode_clean_prefix (pre post : List Item) (s1 : St) (hpre : cleanFrom {} pre = some s1) :
    (∀ card, (appendCard s1 card).2 = true →
      (readInput .normal (pre ++ .input card none :: post)).final = .raised .NumberConflictError (some .parseInputInner))
    ∧ (∀ c, handled .parseInputOuter c = true →
      (readInput .normal (pre ++ .readerRaise c :: post)).final = .raised c (some .parseInputOuter)) := by
  have hflush : flushInput .ValueError = .yieldInput := by decide
  have hnc : handled .parseInputInner .NumberConflictError = true := by decide
  constructor
  · intro card hc
    unfold readInput
    rw [readItems_clean .normal pre {} s1 _ hpre]
    cases hap : appendCard s1 card with
    | mk s2 conflict =>
      rw [hap] at hc; simp only at hc; subst hc
      simp [readItems, stepItem, hflush, hap, innerHandle, outcome, hnc]
  · intro c hc
    unfold readInput
    rw [readItems_clean .normal pre {} s1 _ hpre]
    simp [readItems, stepItem, outerHandle, outcome, hc]

/-- the duplicate-number conflict is real: a second cell with a number already read -/
example : (appendCard { cells := [.cell 1 0 [1] [] []] } (.cell 1 0 [2] [] [])).2 = true := by decide

/-! ### the linking stage -/

/-- **C13_link_errors.** What the linking stage reports, for every state the reading stage can hand over:
    a cell with a missing material, surface or complement gives BrokenObjectLinkError in the cell loop; a surface with
    a missing periodic partner or transform gives BrokenObjectLinkError in the surface loop; MT without M and two MT
    for one M give MalformedInputError in the data loop; two MODE inputs, a once-only per-cell data input given twice
    and per-cell data in both blocks give MalformedInputError; and the linking stage reports nothing else. -/
theorem C13_link_errors (s : St) :
    (∀ num mat surfs comps mods, Card.cell num mat surfs comps mods ∈ s.cells →
        ((mat > 0 ∧ mat ∉ s.materials) ∨ (∃ r ∈ surfs, r ∉ s.surfaces.map Card.num) ∨ (∃ r ∈ comps, r ∉ s.cells.map Card.num)) →
        (Region.cellsCellLoop, Cls.BrokenObjectLinkError) ∈ linkEvents s)
    ∧ (∀ num tr per, Card.surface num tr per ∈ s.surfaces →
        ((∃ p, per = some p ∧ p ∉ s.surfaces.map Card.num) ∨ (∃ t, tr = some t ∧ Card.transform t ∉ s.data)) →
        (Region.uipSurfaceLoop, Cls.BrokenObjectLinkError) ∈ linkEvents s)
    ∧ (∀ n, Card.thermal n ∈ s.data → Card.material n ∉ s.data → (Region.uipDataLoop, Cls.MalformedInputError) ∈ linkEvents s)
    ∧ ((s.data.filter (· == .mode)).length ≥ 2 → (Region.uipLoadData, Cls.MalformedInputError) ∈ linkEvents s)
    ∧ (∀ e ∈ linkEvents s, e.2 = .BrokenObjectLinkError ∨ e.2 = .MalformedInputError) := by
  have some_of : ∀ (r : Region) (f : Card → Option Cls) (cs : List Card) (c : Card) (x : Cls),
      c ∈ cs → f c = some x → (r, x) ∈ optEvents r f cs := by
    intro r f cs c x hc hx
    simp only [optEvents, List.mem_filterMap]
    exact ⟨c, hc, by rw [hx]; rfl⟩
  refine ⟨?_, ?_, ?_, ?_, ?_⟩
  · intro num mat surfs comps mods hmem hbad
    have hne : cellLinkError s (.cell num mat surfs comps mods) ≠ none := by
      intro hn
      simp only [cellLinkError] at hn
      split at hn
      · cases hn
      · rename_i h1
        split at hn
        · cases hn
        · rename_i h2
          split at hn
          · cases hn
          · rename_i h3
            rcases hbad with ⟨hm, hnm⟩ | ⟨r, hr, hnr⟩ | ⟨r, hr, hnr⟩
            · apply h1; simp [hm, hnm]
            · apply h2; simp only [dangling, List.any_eq_true]; exact ⟨r, hr, by simpa using hnr⟩
            · apply h3; simp only [dangling, List.any_eq_true]; exact ⟨r, hr, by simpa using hnr⟩
    obtain ⟨x, hx⟩ := Option.ne_none_iff_exists'.mp hne
    have hxc := cellLinkError_cls s _ x hx
    subst hxc
    simp only [linkEvents, List.mem_append]
    left; left; left; right
    exact some_of _ _ _ _ _ hmem hx
  · intro num tr per hmem hbad
    have hne : surfaceLinkError s (.surface num tr per) ≠ none := by
      intro hn
      simp only [surfaceLinkError] at hn
      rcases hbad with ⟨p, rfl, hp⟩ | ⟨t, rfl, ht⟩
      · have hc : (s.surfaces.map Card.num).contains p = false := by simpa using hp
        simp only [hc] at hn
        cases hn
      · have ht' : s.data.contains (.transform t) = false := by simpa using ht
        simp only [ht'] at hn
        repeat' (split at hn)
        all_goals contradiction
    obtain ⟨x, hx⟩ := Option.ne_none_iff_exists'.mp hne
    have hxc := surfaceLinkError_cls s _ x hx
    subst hxc
    simp only [linkEvents, List.mem_append]
    left; right
    exact some_of _ _ _ _ _ hmem hx
  · intro n hmem hno
    simp only [linkEvents, List.mem_append]
    right
    unfold dataLoopEvents linkDataSnapshot
    exact foldVisit_dangling s.data n hno (indexed s.data) { live := indexed s.data } (indexed_snd s.data)
      (indexed_mem s.data _ hmem)
  · intro h
    simp only [linkEvents, List.mem_append]
    left; left; left; left; left
    simp [h]
  · intro e he
    have hmod : ∀ (cs : List Card) (seen : List Nat), ∀ e ∈ modifierEvents seen cs, e.2 = Cls.MalformedInputError := by
      intro cs
      induction cs with
      | nil => intro seen e he; simp [modifierEvents] at he
      | cons c rest ih =>
        intro seen e he
        cases c with
        | cellMod k cant nent =>
          simp only [modifierEvents, List.mem_append] at he
          rcases he with he | he
          · split at he
            · simp only [List.mem_cons, List.not_mem_nil, or_false] at he
              rcases he with rfl | rfl <;> rfl
            · simp at he
          · exact ih _ e he
        | _ => simp only [modifierEvents] at he; exact ih _ e he
    have key : ∀ (r : Region) (f : Card → Option Cls) (cs : List Card),
        (∀ c x, f c = some x → x = .BrokenObjectLinkError ∨ x = .MalformedInputError) →
        ∀ e ∈ optEvents r f cs, e.2 = .BrokenObjectLinkError ∨ e.2 = .MalformedInputError := by
      intro r f cs hf e he
      simp only [optEvents, List.mem_filterMap] at he
      obtain ⟨c, _, hc⟩ := he
      cases hfc : f c with
      | none => simp [hfc] at hc
      | some x => simp [hfc] at hc; subst hc; exact hf c x hfc
    simp only [linkEvents, List.mem_append] at he
    rcases he with ((((he | he) | he) | he) | he) | he
    · split at he
      · simp only [List.mem_cons, List.not_mem_nil, or_false] at he; subst he; right; rfl
      · simp at he
    · right; exact hmod _ _ e he
    · exact key _ _ _ (fun c x hx => Or.inl (cellLinkError_cls s c x hx)) e he
    · simp only [blankModifierEvents, List.mem_filterMap] at he
      obtain ⟨k, _, hk⟩ := he
      split at hk
      · simp at hk; subst hk; right; rfl
      · simp at hk
    · exact key _ _ _ (fun c x hx => Or.inl (surfaceLinkError_cls s c x hx)) e he
    · have := dataLoopEvents_cls s.data e he
      unfold isDataEv at this
      subst this; right; rfl

example : (Region.cellsCellLoop, Cls.BrokenObjectLinkError) ∈
    linkEvents { cells := [.cell 1 0 [7] [] []], surfaces := [.surface 1 none none] } := by decide

/-- **C13_link_first.** In normal mode the linking stage raises the class of its first event, re-raised by the
    handler of the region the event occurs in; with no event it returns. -/
theorem C13_link_first (s : St) :
    (linkEvents s = [] → (linkRun .normal s (linkEvents s)).final = .returned)
    ∧ (∀ r c rest, linkEvents s = (r, c) :: rest → (linkRun .normal s (linkEvents s)).final = .raised c (some r)) := by
  constructor
  · intro h; rw [h]; rfl
  · intro r c rest h
    have hh := linkEvents_handled s (r, c) (by rw [h]; simp)
    rw [h]
    simp only at hh
    simp [linkRun, outcome, hh]

/-! ### the loop over the data inputs visits every input, whatever the order of the cards -/

/-- **C13_link_visits_all.** With the loop of `__update_internal_pointers` running over a snapshot of
    `self._data_inputs` (as the source has it: `for input in list(self._data_inputs)`), `update_pointers` runs for
    EVERY data input EXACTLY ONCE, in file order, whatever the order of the cards and however many MT inputs the
    materials remove from the list on the way; so an MT input without a material is reported wherever it stands. -/
theorem C13_link_visits_all (data : List Card) :
    (linkDataSnapshot data).visited = List.range data.length
    ∧ (∀ n, Card.thermal n ∈ data → Card.material n ∉ data →
        (Region.uipDataLoop, Cls.MalformedInputError) ∈ dataLoopEvents data) := by
  constructor
  · unfold linkDataSnapshot
    rw [(foldVisit_inv (indexed data) { live := indexed data }).1]
    simp only [List.nil_append]
    unfold indexed
    have : (List.range data.length).length ≤ data.length := by simp
    exact List.map_fst_zip this
  · intro n hmem hno
    unfold dataLoopEvents linkDataSnapshot
    exact foldVisit_dangling data n hno (indexed data) { live := indexed data } (indexed_snd data) (indexed_mem data _ hmem)

/-- **C13_link_live_skips.** Why the snapshot matters: the same loop over the list itself (`for input in
    self._data_inputs`, Python's list iterator on a list that shrinks) skips the input after a material that removed
    an MT written before it — `mt1, m1, mt7, m2`: `mt7` (no material 7) is never visited and nothing is reported. -/
theorem C13_link_live_skips :
    (linkDataLive [.thermal 1, .material 1, .thermal 7, .material 2]).visited = [0, 1, 3]
    ∧ (linkDataLive [.thermal 1, .material 1, .thermal 7, .material 2]).events = []
    ∧ (linkDataSnapshot [.thermal 1, .material 1, .thermal 7, .material 2]).visited = [0, 1, 2, 3]
    ∧ dataLoopEvents [.thermal 1, .material 1, .thermal 7, .material 2] = [(.uipDataLoop, .MalformedInputError)] := by
  decide

/-- the cards of a behaviour probe (`Gen.Errors.probeDataLoop`: kind 0 = M, 1 = MT, 2 = other) -/
def probeCard : Nat × Nat → Card
  | (0, n) => .material n
  | (1, n) => .thermal n
  | _ => .other

/-- **C13_link_probe.** The model's data loop agrees with the BEHAVIOUR of the working tree: for every probe problem
    the translator linked just now (every order of `mt1, m1, mt7, m2` and three orders with a duplicated MT, in check
    mode) the number of MalformedInputError warnings is the model's.  A loop that no longer visits every input (the
    list iterated while it shrinks) changes the recorded numbers and this obligation fails. -/
theorem C13_link_probe :
    ∀ p ∈ probeDataLoop, (dataLoopEvents (p.1.map probeCard)).length = p.2 := by
  decide

example : probeDataLoop.length ≥ 24 ∧ (∃ p ∈ probeDataLoop, p.2 = 2) := by decide

/-! ### what can come out is documented -/

/-- **C13_deliberate_is_documented.** Every class a handler of the mapping layer can hand to the caller — re-raised
    by a region in normal mode — is in C13's documented set (MalformedInputError and subclasses,
    NumberConflictError, UnsupportedFeature, UnknownElement, ValueError, TypeError, FileNotFoundError); and every
    class the two mapping layers produce from a ValueError is MalformedInputError or UnknownElement. -/
theorem C13_deliberate_is_documented :
    (∀ (r : Region) (c : Cls) (m : Mode) (c' : Cls), outcome r c m = .raise c' → documented c' = true)
    ∧ (∀ (file : List Item) (c : Cls) (r : Region), Deliberate file →
        (readInput .normal file).final = .raised c (some r) → documented c = true) := by
  have h1 : ∀ (r : Region) (c : Cls) (m : Mode) (c' : Cls), outcome r c m = .raise c' → documented c' = true := by
    intro r c m c' h
    have hd : ∀ (r : Region) (c : Cls), handled r c = true → documented c = true := by
      intro r c; cases r <;> cases c <;> decide
    simp only [outcome] at h
    split at h
    · rename_i hh
      cases m with
      | check => cases h
      | normal => simp only [Outcome.raise.injEq] at h; subst h; exact hd r c hh
    · cases h
  refine ⟨h1, ?_⟩
  -- every `raised c (some r)` of the model comes out of `outcome r' c' m = .raise c`
  have houter : ∀ (s : St) (c : Cls) (s' : St) (x : Cls) (r : Region),
      outerHandle .normal s c = .fail s' x (some r) → documented x = true := by
    intro s c s' x r h
    simp only [outerHandle] at h
    split at h
    · cases h
    · rename_i c2 hc2; cases h; exact h1 _ _ _ _ hc2
    · cases h
  have hinner : ∀ (s : St) (c : Cls) (s' : St) (x : Cls) (r : Region),
      innerHandle .normal s c = .fail s' x (some r) → documented x = true := by
    intro s c s' x r h
    simp only [innerHandle] at h
    split at h
    · cases h
    · rename_i c2 hc2; cases h; exact h1 _ _ _ _ hc2
    · exact houter _ _ _ _ _ h
  have hstep : ∀ (s : St) (it : Item) (s' : St) (x : Cls) (r : Region),
      stepItem .normal s it = .fail s' x (some r) → documented x = true := by
    intro s it s' x r h
    have hflush : flushInput .ValueError = .yieldInput := by decide
    cases it with
    | readerRaise c => exact houter _ _ _ _ _ h
    | input card fault =>
      cases fault with
      | some f => simp only [stepItem, hflush] at h; exact hinner _ _ _ _ _ h
      | none =>
        simp only [stepItem, hflush] at h
        split at h
        · exact hinner _ _ _ _ _ h
        · cases h
  have hread : ∀ (file : List Item) (s s' : St) (x : Cls) (r : Region),
      readItems .normal s file = .fail s' x (some r) → documented x = true := by
    intro file
    induction file with
    | nil => intro s s' x r h; simp [readItems] at h
    | cons it rest ih =>
      intro s s' x r h
      simp only [readItems] at h
      cases hst : stepItem .normal s it with
      | next s1 => rw [hst] at h; exact ih _ _ _ _ h
      | stop s1 => rw [hst] at h; cases h
      | fail s1 c2 r2 => rw [hst] at h; cases h; exact hstep _ _ _ _ _ hst
  have hlink : ∀ (evs : List (Region × Cls)) (s : St) (x : Cls) (r : Region),
      (linkRun .normal s evs).final = .raised x (some r) → documented x = true := by
    intro evs
    induction evs with
    | nil => intro s x r h; simp [linkRun] at h
    | cons e rest ih =>
      intro s x r h
      obtain ⟨r0, c0⟩ := e
      simp only [linkRun] at h
      split at h
      · exact ih _ _ _ h
      · rename_i c2 hc2; simp only [Final.raised.injEq] at h; rw [← h.1]; exact h1 _ _ _ _ hc2
      · simp at h
  intro file c r _ h
  unfold readInput at h
  cases hrd : readItems .normal {} file with
  | next s => rw [hrd] at h; exact hlink _ _ _ _ h
  | stop s => rw [hrd] at h; exact hlink _ _ _ _ h
  | fail s c2 r2 => rw [hrd] at h; simp only [Final.raised.injEq] at h; obtain ⟨rfl, rfl⟩ := h; exact hread _ _ _ _ _ hrd

/-! ## 3. What the mapping layer does not do: arbitrary classes -/

/-- the full-strength wish: whatever class is raised inside an input's construction, check mode returns -/
def C13_any_class_statement : Prop :=
  ∀ (file : List Item), (readInput .check file).final = .returned

/-- **C13_any_class_refuted.** It does not hold: a class outside ValueError and TypeError that no handler names (an
    AttributeError, IndexError or KeyError thrown by the runtime in a constructor, after the guarded parse) passes every
    layer in both modes.
    The mapping layer cannot make *every* Python exception deliberate; which expressions throw is explored on the real
    code (known findings C13-F*). -/
theorem C13_any_class_refuted : ¬ C13_any_class_statement := by
  intro h
  have := h [.input .other (some ⟨.ctor, .AttributeError⟩)]
  revert this
  decide

/-- **C13_any_class_partial.** With the excluded class spelled out — some fault's class is taken by no handler —
    it holds (this is `C13_check_mode_returns`), and such a class reaches the caller unchanged, marked as not
    re-raised by any region. -/
theorem C13_any_class_partial :
    (∀ file, Deliberate file → (readInput .check file).final = .returned)
    ∧ (∀ (m : Mode) (card : Card) (w : Where) (c : Cls), handled .parseInputInner (constructClass ⟨w, c⟩) = false →
        handled .parseInputOuter (constructClass ⟨w, c⟩) = false →
        (readInput m [.input card (some ⟨w, c⟩)]).final = .raised (constructClass ⟨w, c⟩) none) := by
  refine ⟨C13_check_mode_returns, ?_⟩
  intro m card w c h1 h2
  have hflush : flushInput .ValueError = .yieldInput := by decide
  simp [readInput, readItems, stepItem, hflush, innerHandle, outerHandle, outcome, h1, h2]

example : handled .parseInputInner (constructClass ⟨.ctor, .AttributeError⟩) = false
    ∧ handled .parseInputOuter (constructClass ⟨.ctor, .AttributeError⟩) = false := by decide

/-- a TypeError raised while one input is built (explicit, like `Mode particle must be a str`, or thrown by the
    runtime) is taken by the per-input handler: a warning in check mode, re-raised unchanged in normal mode -/
example : (readInput .check [.input .mode (some ⟨.ctor, .TypeError⟩)]).final = .returned
    ∧ (readInput .normal [.input .mode (some ⟨.ctor, .TypeError⟩)]).final = .raised .TypeError (some .parseInputInner) := by
  decide

/-! ## 3b. The pairing step of a material (nothing of the file is dropped silently) -/

theorem pairUpStrict_spec {α : Type} : ∀ (n : Nat) (xs : List α), xs.length ≤ n →
    (xs.length % 2 = 1 → pairUpStrict xs = .error .leftover)
    ∧ (xs.length % 2 = 0 → ∃ ps, pairUpStrict xs = .ok ps ∧ ps.flatMap (fun p => [p.1, p.2]) = xs ∧ 2 * ps.length = xs.length) := by
  intro n
  induction n with
  | zero =>
    intro xs h
    have : xs = [] := List.eq_nil_of_length_eq_zero (by omega)
    subst this
    exact ⟨by simp, fun _ => ⟨[], rfl, rfl, rfl⟩⟩
  | succ n ih =>
    intro xs h
    match xs, h with
    | [], _ => exact ⟨by simp, fun _ => ⟨[], rfl, rfl, rfl⟩⟩
    | [a], _ => exact ⟨fun _ => rfl, by simp⟩
    | a :: b :: rest, h =>
      have hr : rest.length ≤ n := by simp at h; omega
      obtain ⟨hodd, heven⟩ := ih rest hr
      constructor
      · intro ho
        have : rest.length % 2 = 1 := by simp at ho; omega
        simp [pairUpStrict, hodd this]
      · intro he
        have : rest.length % 2 = 0 := by simp at he; omega
        obtain ⟨ps, hps, hflat, hlen⟩ := heven this
        refine ⟨(a, b) :: ps, by simp [pairUpStrict, hps], by simp [hflat], by simp; omega⟩

/-- **C13_pairing.** The pairing step of `Material.__init__` as the source has it now (`Gen.Errors.materialPairing`,
    read off the AST): a list with an odd number of entries is REJECTED (a ValueError, which `parse_input` reports as
    MalformedInputError: re-raised in normal mode, a warning in check mode), and a list with an even number of entries
    loses nothing: the pairs, flattened, are the list.  With the truncating `zip(it, it)` idiom neither half is
    provable (an odd list is accepted and its last entry dropped): a rewrite of the pairing expression re-opens this
    theorem. -/
theorem C13_pairing {α : Type} (xs : List α) :
    (xs.length % 2 = 1 →
      ∃ e, pairUp xs = .error e ∧ pairErrClass e = .MalformedInputError
        ∧ handled .parseInputInner (pairErrClass e) = true)
    ∧ (xs.length % 2 = 0 →
      ∃ ps, pairUp xs = .ok ps ∧ ps.flatMap (fun p => [p.1, p.2]) = xs ∧ 2 * ps.length = xs.length) := by
  obtain ⟨hodd, heven⟩ := pairUpStrict_spec xs.length xs (Nat.le_refl _)
  constructor
  · intro h
    exact ⟨.leftover, by simp [pairUp, pairUpWith, materialPairing, hodd h], by decide, by decide⟩
  · intro h
    obtain ⟨ps, hps, hflat, hlen⟩ := heven h
    exact ⟨ps, by simp [pairUp, pairUpWith, materialPairing, hps], hflat, hlen⟩

/-- non-vacuity, and what the truncating idiom would do -/
example : pairUp [1001, 6667, 8016] = .error .leftover ∧ pairUp [1001, 6667, 8016, 3333] = .ok [(1001, 6667), (8016, 3333)]
    ∧ pairUpWith .zipTruncating [1001, 6667, 8016] = .ok [(1001, 6667)] := by decide

/-! ## 4. The reader itself (reusing the reader model of C11/C20, `Model/Reader.lean`)

`Model.Errors` takes reader-level faults as given (`Item.readerRaise c`).  The theorems below discharge that
assumption against the *line-level* model of `read_front_matters` / `read_data` / the read-card queue that C11 and C20
validate against the code: for every byte content of every file, the reader is total, stops at its first error, and
that error is one of the classes the outer handler of `parse_input` takes. -/

open MontePyVerif.Reader in
/-- the exception class a reader error of `Model.Reader` stands for (`outOfFuel` is not an outcome of the code) -/
def errCls : Reader.Err → Option Cls
  | .parsing => some .ParsingError
  | .malformed => some .MalformedInputError
  | .unsupported => some .UnsupportedFeature
  | .fileNotFound => some .FileNotFoundError
  | .outOfFuel => none

open MontePyVerif.Reader in
/-- **C13_reader_total.** `Reader.readData` (= `read_data` on one file, a structurally recursive total function:
    it terminates on every list of lines) fails — for EVERY configuration and EVERY content — only with a malformed
    read input (ParsingError), a read cycle (MalformedInputError) or vertical format (UnsupportedFeature); nothing is
    yielded after the first error; and each of these classes is raised by a `raise` statement of the reader
    (`raisedIn .parseInputOuter`, from the AST) and is taken by the outer handler of `parse_input` — so in check mode
    every reader-level failure is a warning and the call returns. -/
theorem C13_reader_total (cfg : Reader.Cfg) (lines : List Reader.Str) :
    (∀ e, Event.raise e ∈ readData cfg lines → e = .parsing ∨ e = .malformed ∨ e = .unsupported)
    ∧ cut (readData cfg lines) = readData cfg lines
    ∧ (∀ e, Event.raise e ∈ readData cfg lines →
        ∃ c, errCls e = some c ∧ c ∈ raisedIn .parseInputOuter ∧ handled .parseInputOuter c = true
          ∧ outerHandle .check {} c = .stop { warnings := [c] }) := by
  refine ⟨ore_readData cfg lines, cut_readData cfg lines, ?_⟩
  intro e he
  rcases ore_readData cfg lines e he with rfl | rfl | rfl
  · exact ⟨.ParsingError, rfl, by decide, by decide, by decide⟩
  · exact ⟨.MalformedInputError, rfl, by decide, by decide, by decide⟩
  · exact ⟨.UnsupportedFeature, rfl, by decide, by decide, by decide⟩

/-- non-vacuity: a vertical-format line and a malformed read input do raise -/
example : Reader.Event.raise .unsupported ∈ Reader.readData ⟨128, .cell, ['m'], [['m']]⟩ ["1 0 -1".toList, "# 1 2".toList] := by
  decide

example : Reader.Event.raise .parsing ∈ Reader.readData ⟨128, .cell, ['m'], [['m']]⟩ ["read foo".toList] := by decide

open MontePyVerif.Reader in
/-- **C13_reader_terminates.** The whole reader with its read-card queue (`Reader.readAll` = `read_input_syntax`
    consumed to the end), on every finite file system and every top-level file: from some fuel on the run is the same
    for every larger fuel (the queue empties: never a hang — `C20_term_always`, reused), it never ends for lack of
    fuel, and every error it ends with stands for a class the outer handler takes: the three of `read_data` or
    FileNotFoundError for a read target (or top file) that is missing. -/
theorem C13_reader_terminates (ll : Nat) (fs : FS) (main : Reader.Str) (bytes : List Nat) (support : List Reader.Str)
    (hsup : ∀ p, fs p ≠ none → p ∈ support) (hm : fs main = some bytes) :
    ∃ fuel0, ∀ extra, readAll ll (extra + fuel0) fs main = readAll ll fuel0 fs main ∧
      ∀ e, Event.raise e ∈ readAll ll (extra + fuel0) fs main →
        ∃ c, errCls e = some c ∧ handled .parseInputOuter c = true ∧ documented c = true := by
  obtain ⟨_, fuel0, h⟩ := MontePyVerif.C20.C20_term_always ll fs main bytes support hsup hm
  refine ⟨fuel0, fun extra => ⟨(h extra).1, ?_⟩⟩
  intro e he
  rw [(h extra).1] at he
  cases e with
  | parsing => exact ⟨.ParsingError, rfl, by decide, by decide⟩
  | malformed => exact ⟨.MalformedInputError, rfl, by decide, by decide⟩
  | unsupported => exact ⟨.UnsupportedFeature, rfl, by decide, by decide⟩
  | fileNotFound => exact ⟨.FileNotFoundError, rfl, by decide, by decide⟩
  | outOfFuel => exact absurd he (h extra).2

/-- non-vacuity: C20's example file systems satisfy the hypotheses; the one with a missing read target ends with
    FileNotFoundError -/
example : Reader.firstRaise (Reader.readAll 128 2 MontePyVerif.C20.exFsMissing ['d', '/', 'm']) = some .fileNotFound := by
  decide

end MontePyVerif.Errors
