import MontePyVerif.Model.Setter
import MontePyVerif.Gen.GeometryProbe
import MontePyVerif.Props.C06
/-!
# C14 — a rejected edit leaves the problem unchanged

Property (fixed text, properties.jsonl): an API call that is rejected (wrong type, out-of-range value,
number collision, particle not in the problem's mode, structurally illegal argument) raises an
exception and leaves the problem observably unchanged: attribute reads and a subsequent write give
the same results as before the call, and later valid edits behave as if the rejected call had not
happened.

Model: `Model/Setter.lean` (generated setter templates as an interpreter of the statement lists
extracted into `Gen/SetterDecls.lean`; every hand-written setter / multi-step mutator in its actual
statement order, returning the state at the raise point) and, for the collection mutators,
`Model/Collection.lean` (C06).  `observe` is the identity on the model state: the theorems give
equality of the whole state, hence of every attribute read and of anything computed from it.
-/
namespace MontePyVerif.Setter

open MontePyVerif.Gen

/-! ## generated setters -/

/-- after an assignment nothing raises: the remaining statements cannot produce an error -/
theorem runSteps_no_raise {σ α : Type} (c : GenCtx σ α) :
    ∀ (steps : List SetterStep), steps.all (fun t => !stepRaises t) = true →
      ∀ (s : σ) (v : α), ∃ s', runSteps c steps s v = .ok s' := by
  intro steps
  induction steps with
  | nil => intro _ s v; exact ⟨s, rfl⟩
  | cons st rest ih =>
    intro h s v
    simp only [List.all_cons, Bool.and_eq_true] at h
    obtain ⟨h1, h2⟩ := h
    cases st <;> simp [stepRaises] at h1 <;> simp only [runSteps]
    · exact ih h2 s v
    · exact ih h2 (c.latch s) v
    · exact ih h2 s v
    · exact ih h2 (c.assign s v) v

/-- **C14_generated** — for every setter template whose statement list has every raising statement
    before the first assigning one (the validator may do both, nothing may raise after it), for every
    property (`GenCtx`: any `types`, `base_type`, hidden attribute) whose validator is all-or-nothing
    by itself (`ValidatorAtomic`), every state and every argument: a rejected call returns the state
    unchanged. -/
theorem C14_generated {σ α : Type} (c : GenCtx σ α) (hv : ValidatorAtomic c) :
    ∀ (steps : List SetterStep), safeOrder steps = true →
      ∀ (s : σ) (v : α) (e : Err) (s' : σ), runSteps c steps s v = .err e s' → s' = s := by
  intro steps
  induction steps with
  | nil => intro _ s v e s' h; simp [runSteps] at h
  | cons st rest ih =>
    intro hs s v e s' h
    cases st with
    | resolveTypes =>
      have hs' : safeOrder rest = true := by simpa [safeOrder, stepAssigns] using hs
      simp only [runSteps] at h
      exact ih hs' s v e s' h
    | fetch =>
      have hs' : safeOrder rest = true := by simpa [safeOrder, stepAssigns] using hs
      simp only [runSteps] at h
      exact ih hs' s v e s' h
    | latchTypes =>
      have hrest : rest.all (fun t => !stepRaises t) = true := by
        simpa [safeOrder, stepAssigns, stepRaises] using hs
      simp only [runSteps] at h
      obtain ⟨s2, h2⟩ := runSteps_no_raise c rest hrest (c.latch s) v
      rw [h2] at h; cases h
    | assign =>
      have hrest : rest.all (fun t => !stepRaises t) = true := by
        simpa [safeOrder, stepAssigns, stepRaises] using hs
      simp only [runSteps] at h
      obtain ⟨s2, h2⟩ := runSteps_no_raise c rest hrest (c.assign s v) v
      rw [h2] at h; cases h
    | isinstance =>
      have hs' : safeOrder rest = true := by simpa [safeOrder, stepAssigns] using hs
      simp only [runSteps] at h
      split at h
      · exact ih hs' s v e s' h
      · cases h; rfl
    | convert =>
      have hs' : safeOrder rest = true := by simpa [safeOrder, stepAssigns] using hs
      simp only [runSteps] at h
      split at h
      · rename_i v' _; exact ih hs' s v' e s' h
      · cases h; rfl
    | validate =>
      -- the validator may have changed the state when it returns; then nothing can raise any more;
      -- when it raises, it is all-or-nothing by hypothesis
      have hrest : rest.all (fun t => !stepRaises t) = true := by
        simpa [safeOrder, stepAssigns, stepRaises] using hs
      simp only [runSteps] at h
      split at h
      · rename_i s1 _
        obtain ⟨s2, h2⟩ := runSteps_no_raise c rest hrest s1 v
        rw [h2] at h; cases h
      · rename_i e1 s1 hval
        cases h
        exact hv s v _ _ hval
    | other => simp [safeOrder, stepAssigns, stepRaises] at hs

/-- the statement order found in `montepy/utilities.py` on this run satisfies the hypothesis -/
theorem gen_orders_safe : safeOrder valNodeSteps = true ∧ safeOrder pointerSteps = true := by decide

/-- **C14_generated_code** — `C14_generated` instantiated with the two statement lists extracted from
    the working tree: a source edit that assigns (or latches `types`) before a check changes
    `Gen/SetterDecls.lean` and this proof no longer builds. -/
theorem C14_generated_code {σ α : Type} (c : GenCtx σ α) (hv : ValidatorAtomic c)
    (s : σ) (v : α) (e : Err) (s' : σ) :
    (runSteps c valNodeSteps s v = .err e s' → s' = s) ∧
    (runSteps c pointerSteps s v = .err e s' → s' = s) :=
  ⟨C14_generated c hv _ gen_orders_safe.1 s v e s', C14_generated c hv _ gen_orders_safe.2 s v e s'⟩

/-- the validators of `declCtx` are pure checks -/
theorem declCtx_atomic (d : SetterDecl) : ValidatorAtomic (declCtx d) := by
  intro s v e s' h
  simp only [declCtx] at h
  split at h
  · cases h
  · cases h; rfl

/-- **C14_generated_decl** — every extracted declaration, every object, every argument. -/
theorem C14_generated_decl (d : SetterDecl) (s : GObj) (a : Atom) (e : Err) (s' : GObj)
    (h : genSetter d s a = .err e s') : s' = s := by
  unfold genSetter at h
  split at h
  · exact (C14_generated_code (declCtx d) (declCtx_atomic d) s a e s').2 h
  · exact (C14_generated_code (declCtx d) (declCtx_atomic d) s a e s').1 h

def exDecl : SetterDecl where
  file := "montepy/cell.py"
  cls := "Cell"
  prop := "number"
  pointer := false
  hidden := "_number"
  types := .given
  typeNames := ["int"]
  baseType := none
  validator := some "_number_validator"
  deletable := false

def exObj : GObj := { cls := "Cell", value := .int 1, linked := true, taken := [1, 2] }

/-- non-vacuity: generated setters do reject (here: a number collision), and do accept -/
example : genSetter exDecl exObj (.int 2) = .err .numberConflict exObj := by
  simp [genSetter, exDecl, exObj, valNodeSteps, runSteps, declCtx, isInstName, convertBy, validateBy, Atom.asInt?]
example : genSetter exDecl exObj (.int 3) = .ok { exObj with value := .int 3 } := by
  simp [genSetter, exDecl, exObj, valNodeSteps, runSteps, declCtx, isInstName, convertBy, validateBy, Atom.asInt?]

/-- the statement order of the code before the repair (`types = type(self)` written into the
    closure first) does not satisfy the hypothesis … -/
def preRepairSteps : List SetterStep := [.latchTypes, .isinstance, .convert, .validate, .assign]

/-- **C14_generated_latch_refuted** — … and really changes state on a rejected call: the closure
    keeps the class of the rejected caller (DESIGN 7.3 #16; repaired by a `fix:` commit). -/
theorem C14_generated_latch_refuted :
    safeOrder preRepairSteps = false ∧
    ∃ (c : GenCtx (Nat × Option Nat) Nat) (s : Nat × Option Nat) (v : Nat) (e : Err) (s' : Nat × Option Nat),
      runSteps c preRepairSteps s v = .err e s' ∧ s' ≠ s := by
  refine ⟨by decide, ?_⟩
  let c : GenCtx (Nat × Option Nat) Nat :=
    { isInst := (fun _ _ => false)
      convert := (fun v => Except.ok v)
      validate := (fun s _ => Res.ok s)
      assign := (fun s v => (v, s.2))
      latch := (fun s => (s.1, some s.1)) }
  refine ⟨c, (7, none), 0, .typeError, (7, some 7), ?_, ?_⟩
  · simp [preRepairSteps, runSteps, c]
  · decide

/-! ## hand-written setters and multi-step mutators -/

theorem set_self {α : Type} : ∀ (l : List α) (i : Nat) (c : α), l[i]? = some c → l.set i c = l := by
  intro l
  induction l with
  | nil => intro i c h; simp at h
  | cons a t ih =>
    intro i c h
    cases i with
    | zero => simp at h; simp [h]
    | succ j => simp at h; simp [ih j c h]

/-- a mutator of one element that leaves the element alone when it raises leaves the list alone -/
theorem atIdx_err {α : Type} (l : List α) (i : Nat) (f : α → Res α)
    (hf : ∀ c e c', f c = .err e c' → c' = c) (e : Err) (l' : List α)
    (h : atIdx l i f = .err e l') : l' = l := by
  unfold atIdx at h
  split at h
  · cases h; rfl
  · rename_i c hc
    split at h
    · cases h
    · rename_i e' c' hfc
      have hc' := hf c e' c' hfc
      subst hc'
      cases h
      exact set_self l i _ hc

theorem onCells_err (w : World) (i : Nat) (f : CellSt → Res CellSt)
    (hf : ∀ c e c', f c = .err e c' → c' = c) (e : Err) (w' : World)
    (h : onCells w i f = .err e w') : w' = w := by
  unfold onCells at h
  split at h
  · cases h
  · rename_i e' cs hcs
    have hcs' := atIdx_err w.cells i f hf e' cs hcs
    subst hcs'
    cases h
    rfl

theorem onSurfaces_err (w : World) (i : Nat) (f : SurfSt → Res SurfSt)
    (hf : ∀ c e c', f c = .err e c' → c' = c) (e : Err) (w' : World)
    (h : onSurfaces w i f = .err e w') : w' = w := by
  unfold onSurfaces at h
  split at h
  · cases h
  · rename_i e' cs hcs
    have hcs' := atIdx_err w.surfaces i f hf e' cs hcs
    subst hcs'
    cases h
    rfl

theorem onTransforms_err (w : World) (i : Nat) (f : TrSt → Res TrSt)
    (hf : ∀ c e c', f c = .err e c' → c' = c) (e : Err) (w' : World)
    (h : onTransforms w i f = .err e w') : w' = w := by
  unfold onTransforms at h
  split at h
  · cases h
  · rename_i e' cs hcs
    have hcs' := atIdx_err w.transforms i f hf e' cs hcs
    subst hcs'
    cases h
    rfl

theorem impAll_err (mode : List Nat) (v : Val) (c : CellSt) (e : Err) (c' : CellSt)
    (h : impAll mode v c = .err e c') : c' = c ∧ impAllRejects v = some e := by
  unfold impAll at h
  split at h
  · rename_i e' he; cases h; exact ⟨rfl, he⟩
  · split at h
    · split at h <;> cases h
    · cases h

theorem impAll_ok (mode : List Nat) (v : Val) (c c' : CellSt)
    (h : impAll mode v c = .ok c') : impAllRejects v = none := by
  unfold impAll at h
  split at h
  · cases h
  · assumption

/-- **C14_equal_importance_loop** — the loop of `Cells.set_equal_importance` calls
    `cell.importance.all = importance` cell by cell and keeps the cells already set when a later
    call raises.  It is safe all the same, for every list of cells, by induction: whether `all`
    rejects depends on the value only, so a rejection happens at the first non-vacuum cell, before
    anything was set. -/
theorem C14_equal_importance_loop (mode : List Nat) (v : Val) (vac : List Int) :
    ∀ (cs : List CellSt) (e : Err) (cs' : List CellSt),
      equalLoop mode v vac cs = .err e cs' → cs' = cs ∧ impAllRejects v = some e := by
  intro cs
  induction cs with
  | nil => intro e cs' h; simp [equalLoop] at h
  | cons c t ih =>
    intro e cs' h
    simp only [equalLoop] at h
    split at h
    · split at h
      · cases h
      · rename_i e' t' ht
        obtain ⟨h1, h2⟩ := ih e' t' ht
        subst h1
        cases h
        exact ⟨rfl, h2⟩
    · split at h
      · rename_i e' c' hc
        obtain ⟨h1, h2⟩ := impAll_err mode v c e' c' hc
        subst h1
        cases h
        exact ⟨rfl, h2⟩
      · rename_i c' hc
        split at h
        · cases h
        · rename_i e' t' ht
          -- impossible: `all` accepted the value for `c`, so it accepts it for every later cell
          have hnone := impAll_ok mode v c c' hc
          obtain ⟨_, h2⟩ := ih e' t' ht
          rw [hnone] at h2
          cases h2

def exCell (n : Int) : CellSt :=
  { number := n, isAtomDens := false, density := some 10, imps := [(0, 1), (1, 1)], univ := 0,
    notTruncated := false, fillMulti := false, fillUniverse := none, fillHasUniverses := false,
    fillTransform := none, fillHidden := false, geometry := "-1", complements := [], surfaces := [1] }

/-! ### the geometry validator: a two-phase commit over two containers -/

/-- **C14_geometry_validator_atomic** — `HalfSpace._add_new_children_to_cell` (the validator behind the
    `Cell.geometry` setter, `HalfSpace.left/right`, `&=`, `|=`), for every cell and every geometry tree:
    if it raises — wrong kind of divider, number in use, number used twice among the new dividers, in
    EITHER container — neither `cell.complements` nor `cell.surfaces` (nor anything else) has changed:
    both containers are checked before the first divider is added to either. -/
theorem C14_geometry_validator_atomic (c : CellSt) (leaves : List Leaf) (e : Err) (c' : CellSt)
    (h : addNewChildren c leaves = .err e c') : c' = c := by
  unfold addNewChildren at h
  simp only [] at h
  split at h
  · cases h; rfl
  · split at h
    · cases h; rfl
    · cases h

theorem geomCtx_atomic : ValidatorAtomic geomCtx := by
  intro s v e s' h
  simp only [geomCtx] at h
  split at h
  · exact C14_geometry_validator_atomic _ _ _ _ h
  · cases h

/-- **C14_geometry_setter** — a rejected `cell.geometry = g` (wrong type, or rejected by the validator)
    changes nothing: the generated-template theorem over the extracted statement order, with the
    atomicity of the validator as its hypothesis. -/
theorem C14_geometry_setter (v : Val) (c : CellSt) (e : Err) (c' : CellSt)
    (h : cellGeometry v c = .err e c') : c' = c :=
  (C14_generated_code geomCtx geomCtx_atomic c v e c').2 h

def exGeomCell : CellSt := { exCell 9 with complements := [], surfaces := [2] }
/-- `~cell1 & +copy_of_surface_2`: a new complement and a surface whose number the cell already uses -/
def exGeomLeaves : List Leaf :=
  [{ asCell := true, kind := .cell, num := 1, member := false, oid := 0 },
   { asCell := false, kind := .surface, num := 2, member := false, oid := 1 }]

/-- non-vacuity: the validator does reject (here in the SECOND container) and does accept -/
example : (addNewChildren exGeomCell exGeomLeaves).isErr = true := by decide
example : (addNewChildren exGeomCell (exGeomLeaves.take 1)).state.complements = [1] := by decide

/-- **C14_geometry_per_container_refuted** — "one all-or-nothing `extend` per container" is NOT
    all-or-nothing: with a new complement and a colliding surface the complements are already
    extended when the surfaces raise (seeded change C14c; the code and `addNewChildren` check both first). -/
theorem C14_geometry_per_container_refuted :
    ¬ (∀ (c : CellSt) (leaves : List Leaf) (e : Err) (c' : CellSt),
        addNewChildrenPerContainer c leaves = .err e c' → c'.complements = c.complements) := by
  intro h
  have h1 : (addNewChildrenPerContainer exGeomCell exGeomLeaves).state.complements = exGeomCell.complements := by
    cases hr : addNewChildrenPerContainer exGeomCell exGeomLeaves with
    | ok c' => exact absurd (show (addNewChildrenPerContainer exGeomCell exGeomLeaves).isErr = false by rw [hr]; rfl) (by decide)
    | err e c' => exact h _ _ _ _ hr
  revert h1
  decide

def kindOfCode : Nat → DivKind
  | 0 => .cell
  | 1 => .surface
  | _ => .other

def probeLeaf (t : Bool × Nat × Int × Bool × Nat) : Leaf :=
  { asCell := t.1, kind := kindOfCode t.2.1, num := t.2.2.1, member := t.2.2.2.1, oid := t.2.2.2.2 }

def errCode : Err → Nat
  | .typeError => 1
  | .numberConflict => 2
  | _ => 3

/-- does the model predict what the translator observed on the real `cell.geometry = g`? -/
def probeAgrees (p : GeomProbe) : Bool :=
  let c : CellSt := { exCell 9 with complements := p.complements, surfaces := p.surfaces }
  match addNewChildren c (p.leaves.map probeLeaf) with
  | .ok c' => p.outcome == 0 && c'.complements == p.complementsAfter && c'.surfaces == p.surfacesAfter
  | .err e c' => p.outcome == errCode e && c'.complements == p.complementsAfter && c'.surfaces == p.surfacesAfter

/-- **C14_geometry_probes** — the tie of the hand-written validator to the source: on every probe the
    translator ran on the working tree (new complement + colliding surface copy, new surface + complement
    of a colliding cell, wrong kind of divider behind a new complement, …) the model predicts the observed
    exception class and the observed containers afterwards.  A validator that commits one container
    before it has checked the other changes `Gen/GeometryProbe.lean` and this no longer builds. -/
theorem C14_geometry_probes : geomProbes.all probeAgrees = true := by decide

/-- **C14_each** — every modelled mutator, every state, every argument: if the call raises, the
    state at the raise point is the state before the call. -/
theorem C14_each (w : World) (op : Op) (e : Err) (w' : World) (h : step w op = .err e w') : w' = w := by
  cases op with
  | modeSet v =>
    simp only [step] at h
    unfold modeSet at h
    have hl : ∀ xs, modeSetList w xs = .err e w' → w' = w := by
      intro xs h
      unfold modeSetList at h
      repeat' split at h
      all_goals first | (cases h; rfl) | cases h
    split at h
    · exact hl _ h
    · exact hl _ h
    · split at h <;> cases h; rfl
    · split at h <;> cases h; rfl
    · cases h; rfl
  | modeAdd v =>
    simp only [step] at h
    unfold modeAdd at h
    split at h <;> cases h <;> rfl
  | modeRemove v =>
    simp only [step] at h
    unfold modeRemove at h
    simp only [] at h
    repeat' split at h
    all_goals first | (cases h; rfl) | cases h
  | impSet c p v =>
    refine onCells_err w c _ ?_ e w' h
    intro c e c' h
    unfold impSetItem at h
    repeat' split at h
    all_goals first | (cases h; rfl) | cases h
  | impAll c v =>
    exact onCells_err w c _ (fun c e c' h => (impAll_err _ _ _ _ _ h).1) e w' h
  | impDel c p =>
    refine onCells_err w c _ ?_ e w' h
    intro c e c' h
    unfold impDel at h
    repeat' split at h
    all_goals first | (cases h; rfl) | cases h
  | setEqualImportance v vac =>
    simp only [step] at h
    unfold setEqualImportance at h
    simp only [] at h
    have hgo : ∀ xs,
        (match vacuumNumbers (w.cells.map (·.number)) xs [] with
          | .error e => Res.err e w
          | .ok vac =>
            match equalLoop w.mode v vac w.cells with
            | .err e cs => Res.err e { w with cells := cs }
            | .ok cs => Res.ok { w with cells := vacuumLoop w.mode vac cs }) = .err e w' → w' = w := by
      intro xs h
      split at h
      · cases h; rfl
      · split at h
        · rename_i e' cs hcs
          have hcs' := (C14_equal_importance_loop _ _ _ _ _ _ hcs).1
          subst hcs'
          cases h
          rfl
        · cases h
    split at h
    · exact hgo _ h
    · exact hgo _ h
    · exact hgo _ h
    · cases h; rfl
  | universeNumber u v =>
    simp only [step] at h
    unfold universeNumber at h
    repeat' split at h
    all_goals first | (cases h; rfl) | cases h
  | claim u v =>
    simp only [step] at h
    unfold claim at h
    simp only [] at h
    repeat' split at h
    all_goals first | (cases h; rfl) | cases h
  | surfaceConstants s v =>
    refine onSurfaces_err w s _ ?_ e w' h
    intro c e c' h
    unfold surfaceConstants at h
    repeat' split at h
    all_goals first | (cases h; rfl) | cases h
  | isReflecting s v =>
    refine onSurfaces_err w s _ ?_ e w' h
    intro c e c' h
    unfold isReflecting at h
    split at h <;> cases h; rfl
  | isWhite s v =>
    refine onSurfaces_err w s _ ?_ e w' h
    intro c e c' h
    unfold isWhiteBoundary at h
    split at h <;> cases h; rfl
  | coordinates s v =>
    refine onSurfaces_err w s _ ?_ e w' h
    intro c e c' h
    unfold coordinates at h
    simp only [] at h
    repeat' split at h
    all_goals first | (cases h; rfl) | cases h
  | atomDensity c v =>
    refine onCells_err w c _ ?_ e w' h
    intro c e c' h
    unfold setDensity at h
    repeat' split at h
    all_goals first | (cases h; rfl) | cases h
  | massDensity c v =>
    refine onCells_err w c _ ?_ e w' h
    intro c e c' h
    unfold setDensity at h
    repeat' split at h
    all_goals first | (cases h; rfl) | cases h
  | cellUniverse c v =>
    refine onCells_err w c _ ?_ e w' h
    intro c e c' h
    unfold cellUniverse at h
    repeat' split at h
    all_goals first | (cases h; rfl) | cases h
  | notTruncated c v =>
    refine onCells_err w c _ ?_ e w' h
    intro c e c' h
    unfold notTruncated at h
    repeat' split at h
    all_goals first | (cases h; rfl) | cases h
  | fillUniverse c v =>
    refine onCells_err w c _ ?_ e w' h
    intro c e c' h
    unfold fillUniverse at h
    repeat' split at h
    all_goals first | (cases h; rfl) | cases h
  | fillUniverses c v =>
    refine onCells_err w c _ ?_ e w' h
    intro c e c' h
    unfold fillUniverses at h
    repeat' split at h
    all_goals first | (cases h; rfl) | cases h
  | fillMultiple c v =>
    refine onCells_err w c _ ?_ e w' h
    intro c e c' h
    unfold fillMultiple at h
    split at h <;> cases h; rfl
  | fillTransform c v =>
    refine onCells_err w c _ ?_ e w' h
    intro c e c' h
    unfold fillTransform at h
    repeat' split at h
    all_goals first | (cases h; rfl) | cases h
  | cellGeometry c v =>
    exact onCells_err w c _ (fun c e c' h => C14_geometry_setter v c e c' h) e w' h
  | geomChild c v =>
    refine onCells_err w c _ ?_ e w' h
    intro c e c' h
    unfold geomChild at h
    split at h
    · exact C14_geometry_validator_atomic _ _ _ _ h
    · cases h; rfl
  | displacement t v =>
    refine onTransforms_err w t _ ?_ e w' h
    intro c e c' h
    unfold displacementVector at h
    repeat' split at h
    all_goals first | (cases h; rfl) | cases h
  | rotation t v =>
    refine onTransforms_err w t _ ?_ e w' h
    intro c e c' h
    unfold rotationMatrix at h
    repeat' split at h
    all_goals first | (cases h; rfl) | cases h
  | problemCells v =>
    simp only [step] at h
    unfold problemCells at h
    simp only [] at h
    repeat' split at h
    all_goals first | (cases h; rfl) | cases h
  | problemMaterials v =>
    simp only [step] at h
    unfold problemMaterials at h
    repeat' split at h
    all_goals first | (cases h; rfl) | cases h
  | mcnpVersion v =>
    simp only [step] at h
    unfold mcnpVersion at h
    repeat' split at h
    all_goals first | (cases h; rfl) | cases h

/-- **C14_then_valid** — later edits behave as if the rejected call had not happened: an edit script
    containing a rejected call ends in the same state as the script without it (for every prefix,
    every rejected call, every continuation). -/
theorem C14_then_valid (w : World) (pre : List Op) (op : Op) (post : List Op) (e : Err) (w' : World)
    (h : step (run w pre) op = .err e w') : run w (pre ++ op :: post) = run w (pre ++ post) := by
  have h1 : w' = run w pre := C14_each _ _ _ _ h
  simp only [run, List.foldl_append, List.foldl_cons]
  have : (step (List.foldl (fun w op => (step w op).state) w pre) op).state
      = List.foldl (fun w op => (step w op).state) w pre := by
    have h' := h
    simp only [run] at h' h1
    rw [h', Res.state, h1]
  rw [this]

/-! ### non-vacuity and decision tables -/

def exWorld : World :=
  { mode := [0, 1], cells := [exCell 1, exCell 2, exCell 3],
    surfaces := [{ number := 1, constants := [1], reflecting := false, white := false }],
    transforms := [{ number := 1, displacement := [0, 0, 1], rotation := [] }],
    universes := [0, 1], materials := [1, 2], version := [6, 2, 0] }

/-- rejected calls exist in the model (hypothesis of `C14_each` / `C14_then_valid`) … -/
example : (step exWorld (.modeSet (.words [some 1, none]))).isErr = true := by decide
example : (step exWorld (.setEqualImportance (.atom (.float (-1))) (.list [.int 1]))).isErr = true := by decide
example : (step exWorld (.atomDensity 1 (.atom .hugeInt))).isErr = true := by decide
example : (step exWorld (.universeNumber 1 (.atom (.int 0)))).isErr = true := by decide
/-- … and accepted ones change the state (the model is not the constant function) -/
example : (step exWorld (.setEqualImportance (.atom (.int 5)) (.list [.int 1]))).state ≠ exWorld := by decide
example : (step exWorld (.modeSet (.words [some 3]))).state ≠ exWorld := by decide

/-- **C14_rejects** — the invalid-argument classes of the edit-script table are rejected by the model
    (decision tables, for every state and every target): wrong type, out of range, number collision,
    particle not in the mode, structurally illegal. -/
theorem C14_rejects (w : World) :
    -- wrong type / negative / too large for a double: densities
    (∀ (i : Nat) (c : CellSt) (atom : Bool) (a : Atom), w.cells[i]? = some c →
        (a.isNumber = false → onCells w i (setDensity atom (.atom a)) = .err .typeError w) ∧
        (a.isNumber = true → a.isNeg = true → onCells w i (setDensity atom (.atom a)) = .err .valueError w)) ∧
    (∀ (i : Nat) (c : CellSt) (atom : Bool), w.cells[i]? = some c →
        onCells w i (setDensity atom (.atom .hugeInt)) = .err .overflowError w) ∧
    -- particle not in the problem's mode
    (∀ (i : Nat) (c : CellSt) (p : Nat) (v : Val), w.cells[i]? = some c → w.mode.contains p = false →
        step w (.impSet i (.atom (.particle p)) v) = .err .particleNotInProblem w) ∧
    -- a particle name that is none: Mode.set with a str
    (∀ (pre : List Nat), step w (.modeSet (.words (pre.map some ++ [none]))) = .err .valueError w) ∧
    -- number collision / out of range: Universe.number
    (∀ (i : Nat) (old n : Int), w.universes[i]? = some old → n ≤ 0 →
        step w (.universeNumber i (.atom (.int n))) = .err .valueError w) ∧
    (∀ (i : Nat) (old n : Int), w.universes[i]? = some old → 0 < n → w.universes.contains n = true →
        step w (.universeNumber i (.atom (.int n))) = .err .numberConflict w) ∧
    -- list of wrong length: surface constants
    (∀ (i : Nat) (s : SurfSt) (xs : List Atom), w.surfaces[i]? = some s → xs.length ≠ s.constants.length →
        step w (.surfaceConstants i (.list xs)) = .err .valueError w) ∧
    -- structurally illegal: a single fill universe while multiple_universes is set; truncation in universe 0
    (∀ (i : Nat) (c : CellSt) (n : Int) (f : Bool), w.cells[i]? = some c → c.fillMulti = true →
        step w (.fillUniverse i (.atom (.obj "Universe" n f))) = .err .valueError w) ∧
    (∀ (i : Nat) (c : CellSt), w.cells[i]? = some c → c.univ = 0 →
        step w (.notTruncated i (.atom (.bool true))) = .err .valueError w) ∧
    -- an importance the first non-vacuum cell would reject: the whole call is rejected
    (∀ (a : Atom) (xs : List Atom), a.isNumber = false → (step w (.setEqualImportance (.atom a) (.list xs))).isErr = true ∨
        (∃ cs, equalLoop w.mode (.atom a) [] [] = .ok cs)) := by
  refine ⟨?_, ?_, ?_, ?_, ?_, ?_, ?_, ?_, ?_, ?_⟩
  · intro i c atom a hc
    constructor
    · intro h1
      simp [onCells, atIdx, hc, setDensity, h1, set_self _ _ _ hc]
    · intro h1 h2
      simp [onCells, atIdx, hc, setDensity, h1, h2, set_self _ _ _ hc]
  · intro i c atom hc
    simp [onCells, atIdx, hc, setDensity, Atom.isNumber, Atom.isNeg, Atom.asRat?, Atom.toFloat, set_self _ _ _ hc]
  · intro i c p v hc hp
    have hp' : p ∉ w.mode := by simpa using hp
    simp [step, onCells, atIdx, hc, impSetItem, hp', set_self _ _ _ hc]
  · intro pre
    simp only [step, modeSet]
    have key : ∀ (pre : List Nat) (acc : List Nat),
        parseModes (pre.map (fun p => Atom.str (some p)) ++ [Atom.str none]) acc = .error .valueError := by
      intro pre
      induction pre with
      | nil => intro acc; simp [parseModes]
      | cons p t ih => intro acc; simp only [List.map_cons, List.cons_append, parseModes]; exact ih _
    have e1 : (pre.map some ++ [none]).map Atom.str = pre.map (fun p => Atom.str (some p)) ++ [Atom.str none] := by
      simp [List.map_append, List.map_map, Function.comp_def]
    rw [e1, key]
  · intro i old n hi hn
    simp [step, universeNumber, hi, Atom.asInt?, hn]
  · intro i old n hi hn hc
    have : ¬ n ≤ 0 := by omega
    have hc' : n ∈ w.universes := by simpa using hc
    simp [step, universeNumber, hi, Atom.asInt?, this, hc']
  · intro i s xs hs hl
    simp [step, onSurfaces, atIdx, hs, surfaceConstants, hl, set_self _ _ _ hs]
  · intro i c n f hc hm
    simp [step, onCells, atIdx, hc, fillUniverse, isSub, superOf, hm, set_self _ _ _ hc]
  · intro i c hc hu
    simp [step, onCells, atIdx, hc, notTruncated, hu, set_self _ _ _ hc]
  · intro a xs _
    exact Or.inr ⟨[], rfl⟩

/-- the loop of `Mode._parse_and_override_particle_modes` before the repair -/
example : modeSetOld exWorld [some 1, none] = .err .valueError { exWorld with mode := [1] } := by decide

/-- **C14_mode_set_old_refuted** — the pre-repair `Mode.set` (clear the set, then add one by one)
    does change the state on a rejected call (`mode.set("p zz")`, DESIGN 7.3 #18); the repaired code
    is `modeSet`, covered by `C14_each`. -/
theorem C14_mode_set_old_refuted :
    ¬ (∀ (w : World) (ws : List (Option Nat)) (e : Err) (w' : World), modeSetOld w ws = .err e w' → w' = w) := by
  intro h
  have := h exWorld [some 1, none] .valueError { exWorld with mode := [1] } (by decide)
  revert this
  decide

end MontePyVerif.Setter

/-! ## collection mutators (model and invariant: C06) -/
namespace MontePyVerif.Collection

theorem setNumber_link (s : St) (o : ObjId) (n : Int) : (setNumber s o n).1.link = s.link := by
  unfold setNumber
  split
  · rfl
  · split
    · simp only []
      split
      · exact (checkNumber_core s n).link
      · exact (checkNumber_core s n).link
    · rfl

/-- **C14_collection** — every collection operation other than `append_renumber` that raises — with
    any exception, not only `NumberConflictError` — leaves members, order, numbers *and* the links
    of all objects to the problem as they were (`Core`); look-ups are a function of these under the
    C06 invariant. -/
theorem C14_collection (s : St) (op : Op) (e : Err) (h : (step s op).2 = .err e)
    (hop : ∀ o k, op ≠ .appendRenumber o k) : Core s (step s op).1 := by
  have hne : (step s op).2 ≠ .ok := by rw [h]; simp
  cases op with
  | append o => exact append_err_core hne
  | setitem o => exact append_err_core hne
  | appendRenumber o k => exact absurd rfl (hop o k)
  | extend os =>
    change (extend s os).2 = _ at h
    show Core s (extend s os).1
    unfold extend at h ⊢
    split
    · rename_i s1 n heq
      have e1 : s1 = (checkAll true s os).1 := by rw [heq]
      subst e1
      exact Core.trans (b := (checkAll true s os).1) ⟨rfl, rfl, rfl, rfl⟩ (conflict_core _ _)
    · rename_i s1 heq
      simp [heq] at h
  | iadd os =>
    change (iadd s os).2 = _ at h
    show Core s (iadd s os).1
    unfold iadd at h ⊢
    split
    · rename_i s1 n heq
      have e1 : s1 = (checkAll false s os).1 := by rw [heq]
      subst e1
      exact Core.trans (b := (checkAll false s os).1) ⟨rfl, rfl, rfl, rfl⟩ (conflict_core _ _)
    · rename_i s1 heq
      simp [heq] at h
  | remove o =>
    change (remove s o).2 = _ at h
    show Core s (remove s o).1
    unfold remove at h ⊢
    split
    · rename_i hm; simp [hm] at h
    · exact Core.refl s
  | pop p =>
    change (pop s p).2 = _ at h
    show Core s (pop s p).1
    unfold pop at h ⊢
    split
    · exact Core.refl s
    · split
      · exact Core.refl s
      · rename_i heq1 _ _ heq2; simp [heq1, heq2] at h
  | delitem n =>
    change (delitem s n).2 = _ at h
    show Core s (delitem s n).1
    unfold delitem at h ⊢
    split
    · rename_i s1 heq
      have e1 : s1 = (get s n).1 := by rw [heq]
      subst e1
      exact get_core s n
    · rename_i s1 o heq
      have e1 : s1 = (get s n).1 := by rw [heq]
      subst e1
      split
      · rename_i m hm
        exfalso
        apply hne
        show (delitem s n).2 = .ok
        unfold delitem
        rw [heq]
        simp only [hm]
      · exact get_core s n
  | clear => simp [step, clear] at h
  | setNumber o n => exact setNumber_err_core hne
  | get n => simp [step] at h
  | getitem n =>
    change (getitem s n).2 = _ at h
    show Core s (getitem s n).1
    unfold getitem at h ⊢
    split
    · rename_i s1 heq
      have e1 : s1 = (get s n).1 := by rw [heq]
      subst e1
      exact get_core s n
    · rename_i s1 o heq; simp [heq] at h
  | contains o => simp [step] at h
  | numbers => simp [step] at h
  | keys => simp [step] at h
  | items => simp [step] at h
  | len => simp [step] at h
  | checkNumber n => exact checkNumber_core s n
  | requestNumber a k => exact requestNumber_core s a k
  | nextNumber k => exact nextNumber_core s k
  | slice a b => simp [step, slice] at h

/-- non-vacuity: errors other than conflicts are reachable -/
example : (step exState (.remove 99)).2 = .err .valueError := by decide
example : (step exState (.nextNumber 0)).2 = .err .valueError := by decide

/-- **C14_append_renumber_atomic** (full strength since MontePy's repair of finding C14-F1: the number is found
    before the object is linked) — a failing `append_renumber` (`step = 0`, a step that leads to no number above 0,
    a conflict) leaves the members, every number and every link to the problem exactly as they were, for every
    state, object and step.  Rounds 1-2 had `C14_append_renumber_link_refuted` (witness: a fresh object whose
    number is taken, step 0: `ValueError` with the object left linked) and a `_partial`. -/
theorem C14_append_renumber_atomic (s : St) (o : ObjId) (k : Int) (e : Err)
    (h : (appendRenumber s o k).2 = .err e) :
    (appendRenumber s o k).1.link = s.link ∧ (appendRenumber s o k).1.objs = s.objs ∧
    (appendRenumber s o k).1.num = s.num := by
  unfold appendRenumber at h ⊢
  split
  · exact ⟨rfl, rfl, rfl⟩
  · rename_i hno
    simp only [hno, if_false] at h
    simp only [] at h ⊢
    have c0 := checkNumber_core s (s.num o)
    split
    · rename_i hok0
      simp only [hok0, if_true] at h
      split
      · rename_i hok; simp [hok] at h
      · rename_i hnok
        have c1 := append_err_core hnok
        exact ⟨by rw [c1.link, c0.link], by rw [c1.objs, c0.objs], by rw [c1.num, c0.num]⟩
    · rename_i hnok0
      simp only [hnok0, if_false] at h
      have c2 := requestNumber_core (checkNumber s (s.num o)).1 (s.num o) k
      split
      · rename_i n hn
        simp only [hn] at h
        split
        · exact ⟨by rw [c2.link, c0.link], by rw [c2.objs, c0.objs], by rw [c2.num, c0.num]⟩
        · rename_i hpos
          simp only [hpos, if_false] at h
          generalize hs3 : ({ (requestNumber (checkNumber s (s.num o)).1 (s.num o) k).1 with
              link := fun x => if x = o ∧ s.owned = true then true
                else (requestNumber (checkNumber s (s.num o)).1 (s.num o) k).1.link x } : St) = s3 at h ⊢
          have hobj3 : s3.objs = (requestNumber (checkNumber s (s.num o)).1 (s.num o) k).1.objs := by rw [← hs3]
          have hnum3 : s3.num = (requestNumber (checkNumber s (s.num o)).1 (s.num o) k).1.num := by rw [← hs3]
          -- the offered number is above 0 and free, the object is not a member: neither the number
          -- assignment nor the second append can fail, so this branch raises nothing
          have hfree : n ∉ (checkNumber s (s.num o)).1.objs.map (checkNumber s (s.num o)).1.num := by
            apply requestNumber_free (a := s.num o) (k := k)
            cases hr : (requestNumber (checkNumber s (s.num o)).1 (s.num o) k).2 <;> simp [hr, Out.int?] at hn ⊢
            exact hn
          have ho3 : o ∉ s3.objs := by rw [hobj3, c2.objs, c0.objs]; exact hno
          have hfree3 : n ∉ s3.objs.map s3.num := by rw [hobj3, hnum3, c2.objs, c2.num]; exact hfree
          have hok3 : (setNumber s3 o n).2 = .ok := by
            unfold setNumber
            have hn0 : ¬ n ≤ 0 := hpos
            simp only [hn0, if_false]
            split
            · have hck : (checkNumber s3 n).2 = .ok := by
                unfold checkNumber
                have hnf : (inNumbers s3 n).2 = false := by
                  cases hf : (inNumbers s3 n).2 with
                  | false => rfl
                  | true => exact absurd ((inNumbers_found s3 n).mp hf) hfree3
                split
                rename_i s1 found heq
                have h2 : found = (inNumbers s3 n).2 := by rw [heq]
                rw [h2, hnf]
                rfl
              simp [hck]
            · rfl
          simp only [hok3, if_true] at h
          have hn3 := setNumber_ok_num hok3
          have ho3' := (setNumber_objs s3 o n).1
          have hfresh : (setNumber s3 o n).1.num o ∉ (setNumber s3 o n).1.objs.map (setNumber s3 o n).1.num := by
            rw [hn3, ho3', map_update_of_not_mem _ _ _ _ ho3]
            simpa using hfree3
          have hok4 := append_ok_of_fresh hfresh
          simp [hok4] at h
      · exact ⟨by rw [c2.link, c0.link], by rw [c2.objs, c0.objs], by rw [c2.num, c0.num]⟩

/-- non-vacuity: the witness of the former refutation now raises with the object left alone -/
example : (appendRenumber exState 9 0).2 = .err .valueError ∧ (appendRenumber exState 9 0).1.link 9 = exState.link 9 := by
  decide

/-- … and so does a step that walks below 1 -/
example : (appendRenumber exState 9 (-1)).2 = .err .valueError ∧ (appendRenumber exState 9 (-1)).1.link 9 = exState.link 9 := by
  decide

end MontePyVerif.Collection
