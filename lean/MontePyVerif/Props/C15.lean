import MontePyVerif.Lemmas.Write
import MontePyVerif.Spec.Blocks
/-!
# C15 — write_to_file never destroys or half-writes the destination

Statements about `Model/Write.lean` (the repaired `MCNP_Problem.write_to_file` / `MCNP_InputFile`), for
**every** problem (any number of objects, any of them raising), every prior state of the destination,
either value of `overwrite`, and every fault plan (`Fault`: creating the temporary, the k-th
`format_for_mcnp_input`, the k-th `fh.write` after any prefix of its text, close, `os.replace`,
`_handle_warnings`).  The statement order of the writer and the guards of `open` come from the generated
table `Gen/WriteOrder.lean`; the block-order theorems are judged by the independent reader `Spec/Blocks.lean`.
-/
namespace MontePyVerif.Write
open MontePyVerif.Gen.WriteOrder (Seg)
open MontePyVerif.Spec.Blocks

/-! ## the two halves of `MCNP_InputFile`: open and exit -/

theorem openW_cases (d : Dest) (ow : Bool) (plan : Fault) :
    (∃ e, openW ⟨d, none⟩ ow plan = (⟨d, none⟩, some e)) ∨ openW ⟨d, none⟩ ow plan = (⟨d, some []⟩, none) := by
  unfold openW fsCreateTmp
  cases d <;> dsimp only <;> (repeat' split) <;> simp

theorem exitW_spec (fs : FS) (exc : Option Err) (plan : Fault) :
    (exitW fs exc plan).1.tmp = none ∧
    ((exitW fs exc plan).2 ≠ none → (exitW fs exc plan).1.dest = fs.dest) ∧
    ((exitW fs exc plan).2 = none → exc = none ∧ ∃ c, fs.tmp = some c ∧ (exitW fs exc plan).1.dest = .file c) := by
  unfold exitW
  split
  · simp [fsRemoveTmp]
  · split
    · simp [fsRemoveTmp]
    · split
      · simp [fsRemoveTmp]
      · split
        · next fs' h =>
          unfold fsReplace at h
          split at h <;> simp_all
          all_goals (subst h; simp)
        · simp [fsRemoveTmp]

/-- the core, for any statement sequence: no temporary is left; the destination is what it was, or the
    complete text; a normal return means the complete text; an exception that is not raised by
    `_handle_warnings` (i.e. after the commit) means the destination is what it was. -/
theorem atomic_seq (seq : List Seg) (p : Problem) (d : Dest) (ow : Bool) (plan : Fault) :
    (writeToFileSeq seq p ⟨d, none⟩ ow plan).2.tmp = none ∧
    ((writeToFileSeq seq p ⟨d, none⟩ ow plan).2.dest = d ∨
      ∃ out, complete p seq = some out ∧ (writeToFileSeq seq p ⟨d, none⟩ ow plan).2.dest = .file out) ∧
    ((writeToFileSeq seq p ⟨d, none⟩ ow plan).1 = none →
      ∃ out, complete p seq = some out ∧ (writeToFileSeq seq p ⟨d, none⟩ ow plan).2.dest = .file out) ∧
    ((writeToFileSeq seq p ⟨d, none⟩ ow plan).1 ≠ none → (∀ e, plan ≠ .warn e) →
      (writeToFileSeq seq p ⟨d, none⟩ ow plan).2.dest = d) := by
  unfold writeToFileSeq
  rcases openW_cases d ow plan with ⟨e, h⟩ | h
  · rw [h]; simp
  · rw [h]; dsimp only
    generalize hr : runSeq plan p { fs := ⟨d, some []⟩, nfmt := 0, nwr := 0, lineno := 1 } seq = r
    have hd : r.1.fs.dest = d := by rw [← hr, runSeq_dest]
    have ⟨ht, herr, hok⟩ := exitW_spec r.1.fs r.2 plan
    split
    · next fs2 e hx =>
      rw [hx] at ht herr
      dsimp only at ht herr
      have : fs2.dest = d := by rw [← hd]; exact herr (by simp)
      simp [ht, this]
    · next fs2 hx =>
      rw [hx] at ht hok
      dsimp only at ht hok
      obtain ⟨hexc, c, hc, hdest⟩ := hok rfl
      have hrun : runSeq plan p { fs := ⟨d, some []⟩, nfmt := 0, nwr := 0, lineno := 1 } seq = (r.1, none) := by
        rw [hr, ← hexc]
      obtain ⟨out, h1, h2, h3⟩ := runSeq_ok hrun (c := []) rfl
      have hcomp : complete p seq = some out := by simp [complete, h1, h3]
      have hfile : fs2.dest = .file out := by
        rw [hdest]; rw [h2] at hc; simp at hc; rw [hc]
      cases plan <;> simp [ht, hcomp, hfile]

/-! ## the obligations of DESIGN.md section 6, C15 -/

/-- a problem used for the non-vacuity examples: a message block, two cells, one surface, one data card,
    one modifier card that goes to the data block -/
def demo : Problem :=
  { message := some (.lines ["MESSAGE: outp=o", ""]), title := .lines ["demo"],
    cells := [.lines ["1 0 -1"], .lines ["2 0 1", "     imp:n=0"]], surfaces := [.lines ["1 so 1"]],
    dataInputs := [.lines ["mode n"]], modifiers := [.lines ["imp:n 1 0"]] }

/-- the same problem with a new cell that has no geometry (`validate()` raises IllegalState) -/
def demoInvalid : Problem := { demo with cells := demo.cells ++ [.raises .illegalState] }

def demoText : List String :=
  ["MESSAGE: outp=o", "", "demo", "1 0 -1", "2 0 1", "     imp:n=0", "", "1 so 1", "", "mode n", "imp:n 1 0", ""]

/-- **C15_guards** — the truth table of the guards: an existing file is not replaced without
    `overwrite=True` (FileExistsError), a directory is never written to (IsADirectoryError); in both cases
    nothing at all happens to the file system, whatever the problem and the fault plan. -/
theorem C15_guards (p : Problem) (plan : Fault) :
    (∀ c, writeToFile p ⟨.file c, none⟩ false plan = (some .fileExists, ⟨.file c, none⟩)) ∧
    (∀ ow, writeToFile p ⟨.dir, none⟩ ow plan = (some .isADirectory, ⟨.dir, none⟩)) := by
  constructor
  · intro c
    have : "FileExistsError" ∈ MontePyVerif.Gen.WriteOrder.openGuards := by decide
    simp [writeToFile, writeToFileSeq, openW, this]
  · intro ow
    have : "IsADirectoryError" ∈ MontePyVerif.Gen.WriteOrder.openGuards := by decide
    simp [writeToFile, writeToFileSeq, openW, this]

example : writeToFile demo ⟨.file ["the original"], none⟩ false .none = (some .fileExists, ⟨.file ["the original"], none⟩) :=
  (C15_guards demo .none).1 _

/-- the statement of C15 at full strength -/
def C15_atomic_statement : Prop :=
  ∀ (p : Problem) (d : Dest) (ow : Bool) (plan : Fault),
    ((writeToFile p ⟨d, none⟩ ow plan).2.dest = d ∨
      ∃ out, render p = some out ∧ (writeToFile p ⟨d, none⟩ ow plan).2.dest = .file out) ∧
    ((writeToFile p ⟨d, none⟩ ow plan).1 = none →
      ∃ out, render p = some out ∧ (writeToFile p ⟨d, none⟩ ow plan).2.dest = .file out)

/-- **C15_atomic** — for every problem, destination state, `overwrite` and fault plan: afterwards the
    destination is exactly what it was or the complete text of the problem; and a call that returns
    normally has left the complete text. -/
theorem C15_atomic : C15_atomic_statement := by
  intro p d ow plan
  have h := atomic_seq MontePyVerif.Gen.WriteOrder.sequence p d ow plan
  exact ⟨h.2.1, h.2.2.1⟩

/-- **C15_no_temp_left** — on every path (normal return or any exception) no temporary file remains. -/
theorem C15_no_temp_left (p : Problem) (d : Dest) (ow : Bool) (plan : Fault) :
    (writeToFile p ⟨d, none⟩ ow plan).2.tmp = none :=
  (atomic_seq MontePyVerif.Gen.WriteOrder.sequence p d ow plan).1

/-- **C15_error_unchanged** — if the call raises (and the exception does not come from the warning
    report that follows the commit) the destination is exactly what it was. -/
theorem C15_error_unchanged (p : Problem) (d : Dest) (ow : Bool) (plan : Fault)
    (herr : (writeToFile p ⟨d, none⟩ ow plan).1 ≠ none) (hw : ∀ e, plan ≠ .warn e) :
    (writeToFile p ⟨d, none⟩ ow plan).2.dest = d :=
  (atomic_seq MontePyVerif.Gen.WriteOrder.sequence p d ow plan).2.2.2 herr hw

-- non-vacuity: an invalid new cell and an existing destination (the witness of the defect before the repair)
example : writeToFile demoInvalid ⟨.file ["the original"], none⟩ true .none
    = (some .illegalState, ⟨.file ["the original"], none⟩) := by decide
-- a full disk in the middle of the sixth line
example : writeToFile demo ⟨.file ["the original"], none⟩ true (.write 5 3)
    = (some .osError, ⟨.file ["the original"], none⟩) := by decide
-- a failure after the commit: the call raises, the destination is complete
example : writeToFile demo ⟨.file ["the original"], none⟩ true (.warn (.other "AttributeError"))
    = (some (.other "AttributeError"), ⟨.file demoText, none⟩) := by decide

/-- **C15_complete_when_no_fault** — the writer does write: with no fault, a destination that passes
    the guards and a problem whose objects all format, the call returns normally and the destination is
    the complete text (so `C15_atomic` is not satisfied by never committing). -/
theorem C15_complete_when_no_fault (p : Problem) (d : Dest) (ow : Bool) (out : List String)
    (hd : d = .absent ∨ (∃ c, d = .file c) ∧ ow = true) (h : render p = some out) :
    writeToFile p ⟨d, none⟩ ow .none = (none, ⟨.file out, none⟩) := by
  unfold render complete at h
  split at h
  · next out' hr =>
    split at h
    · next henc =>
      cases h
      have hopen : openW ⟨d, none⟩ ow .none = (⟨d, some []⟩, none) := by
        rcases hd with rfl | ⟨⟨c, rfl⟩, rfl⟩ <;> simp [openW, fsCreateTmp]
      obtain ⟨w', hrun⟩ := runSeq_none p { fs := ⟨d, some []⟩, nfmt := 0, nwr := 0, lineno := 1 }
        MontePyVerif.Gen.WriteOrder.sequence out hr henc
      obtain ⟨o2, h1, h2, -⟩ := runSeq_ok hrun (c := []) rfl
      have ho : o2 = out := by rw [hr] at h1; exact (Option.some.inj h1).symm
      subst ho
      have hdest : w'.fs.dest = d := by
        have := runSeq_dest .none p { fs := ⟨d, some []⟩, nfmt := 0, nwr := 0, lineno := 1 } MontePyVerif.Gen.WriteOrder.sequence
        rw [hrun] at this; exact this
      have hfs : w'.fs = ⟨d, some o2⟩ := by
        cases hw : w'.fs with
        | mk dd tt => rw [hw] at hdest h2; simp at hdest h2; simp [hdest, h2]
      have hexit : exitW w'.fs none .none = (⟨.file o2, none⟩, none) := by
        rw [hfs]
        rcases hd with rfl | ⟨⟨c, rfl⟩, rfl⟩ <;> simp [exitW, fsReplace]
      simp only [writeToFile, writeToFileSeq, hopen, hrun, hexit]
    · cases h
  · cases h

example : writeToFile demo ⟨.file ["the original"], none⟩ true .none = (none, ⟨.file demoText, none⟩) :=
  C15_complete_when_no_fault demo _ true demoText (Or.inr ⟨⟨_, rfl⟩, rfl⟩) (by decide)

/-! ## histories: any sequence of calls on the same path -/

structure Call where
  problem : Problem
  overwrite : Bool
  plan : Fault

/-- the user's script: one `write_to_file` after the other on the same path -/
def runHistory (fs : FS) : List Call → FS
  | [] => fs
  | c :: t => runHistory (writeToFile c.problem fs c.overwrite c.plan).2 t

/-- **C15_history** — after any history of calls (each with its own problem, flag and fault) the
    destination is what it was at the start or the complete text of one of the problems written, and no
    temporary file is left. -/
theorem C15_history (calls : List Call) (d : Dest) :
    (runHistory ⟨d, none⟩ calls).tmp = none ∧
    ((runHistory ⟨d, none⟩ calls).dest = d ∨
      ∃ c ∈ calls, ∃ out, render c.problem = some out ∧ (runHistory ⟨d, none⟩ calls).dest = .file out) := by
  induction calls generalizing d with
  | nil => exact ⟨rfl, Or.inl rfl⟩
  | cons c t ih =>
    simp only [runHistory]
    have htmp := C15_no_temp_left c.problem d c.overwrite c.plan
    have hat := (C15_atomic c.problem d c.overwrite c.plan).1
    generalize hfs : (writeToFile c.problem ⟨d, none⟩ c.overwrite c.plan).2 = fs at htmp hat
    obtain ⟨d', t'⟩ := fs
    simp only at htmp hat
    subst htmp
    obtain ⟨h1, h2⟩ := ih d'
    refine ⟨h1, ?_⟩
    rcases h2 with h2 | ⟨c', hc', out, ho, hd'⟩
    · rcases hat with hat | ⟨out, ho, hd'⟩
      · left; rw [h2, hat]
      · right; exact ⟨c, by simp, out, ho, by rw [h2, hd']⟩
    · right; exact ⟨c', by simp [hc'], out, ho, hd'⟩

example : (runHistory ⟨.absent, none⟩
    [⟨demo, false, .none⟩, ⟨demoInvalid, true, .none⟩, ⟨demo, false, .none⟩, ⟨demo, true, .write 2 1⟩]).dest
    = .file demoText := by decide

end MontePyVerif.Write
