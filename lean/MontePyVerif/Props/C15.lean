import MontePyVerif.Lemmas.Write
import MontePyVerif.Spec.Blocks
/-!
# C15 — write_to_file never destroys or half-writes the destination

Statements about `Model/Write.lean` (the repaired `MCNP_Problem.write_to_file` / `MCNP_InputFile`), for
**every** problem (any number of objects, any of them raising), every prior state of the destination,
either value of `overwrite`, and every fault plan (`Fault`: creating the temporary, the k-th
`format_for_mcnp_input`, the k-th `fh.write` after any prefix of its text, close, `os.replace`,
`_handle_warnings`).  The statement order of the writer and the guards of `open` come from the generated
table `Gen/WriteOrder.lean`; the block-order theorems are judged by the independent reader `Spec/Blocks.lean`.
-/
namespace MontePyVerif.Write
open MontePyVerif.Gen.WriteOrder (Seg)
open MontePyVerif.Spec.Blocks

/-! ## the two halves of `MCNP_InputFile`: open and exit -/

theorem openW_cases (d : Dest) (ow : Bool) (plan : Fault) :
    (∃ e, openW ⟨d, none⟩ ow plan = (⟨d, none⟩, some e)) ∨ openW ⟨d, none⟩ ow plan = (⟨d, some []⟩, none) := by
  unfold openW fsCreateTmp
  cases d <;> dsimp only <;> (repeat' split) <;> simp

theorem exitW_spec (w : W) (exc : Option Err) (plan : Fault) :
    (exitW w exc plan).1.tmp = none ∧
    ((exitW w exc plan).2 ≠ none → (exitW w exc plan).1.dest = w.fs.dest) ∧
    ((exitW w exc plan).2 = none →
      exc = none ∧ ∃ t, w.fs.tmp = some t ∧ (exitW w exc plan).1.dest = .file (t ++ w.buf)) := by
  unfold exitW closeW
  cases htmp : w.fs.tmp <;> cases hd : w.fs.dest <;> cases exc <;> cases plan <;>
    simp [fsRemoveTmp, fsFlushTmp, fsReplace, htmp, hd] <;> (repeat' split) <;> simp_all

/-- a failing close raises, whatever prefix of the buffer it managed to flush -/
theorem exitW_close (w : W) (exc : Option Err) (n c : Nat) : (exitW w exc (.close n c)).2 ≠ none := by
  simp [exitW, closeW]

/-- the core, for any statement sequence and any buffering policy: no temporary is left; the destination
    is what it was, or the complete text; a normal return means the complete text; an exception that is
    not raised by `_handle_warnings` (i.e. after the commit) means the destination is what it was. -/
theorem atomic_seq (seq : List Seg) (p : Problem) (d : Dest) (ow : Bool) (plan : Fault) (sched : Nat → Bool) :
    (writeToFileSeq seq p ⟨d, none⟩ ow plan sched).2.tmp = none ∧
    ((writeToFileSeq seq p ⟨d, none⟩ ow plan sched).2.dest = d ∨
      ∃ out, complete p seq = some out ∧ (writeToFileSeq seq p ⟨d, none⟩ ow plan sched).2.dest = .file out) ∧
    ((writeToFileSeq seq p ⟨d, none⟩ ow plan sched).1 = none →
      ∃ out, complete p seq = some out ∧ (writeToFileSeq seq p ⟨d, none⟩ ow plan sched).2.dest = .file out) ∧
    ((writeToFileSeq seq p ⟨d, none⟩ ow plan sched).1 ≠ none → (∀ e, plan ≠ .warn e) →
      (writeToFileSeq seq p ⟨d, none⟩ ow plan sched).2.dest = d) := by
  unfold writeToFileSeq writeToFileWith
  rcases openW_cases d ow plan with ⟨e, h⟩ | h
  · rw [h]; simp
  · rw [h]; dsimp only
    generalize hr : runSeq plan p { fs := ⟨d, some []⟩, buf := [], autoFlush := sched, nfmt := 0, nwr := 0, lineno := 1 } seq = r
    have hd : r.1.fs.dest = d := by rw [← hr, runSeq_dest]
    have ⟨ht, herr, hok⟩ := exitW_spec r.1 r.2 plan
    split
    · next fs2 e hx =>
      rw [hx] at ht herr
      dsimp only at ht herr
      have : fs2.dest = d := by rw [← hd]; exact herr (by simp)
      simp [ht, this]
    · next fs2 hx =>
      rw [hx] at ht hok
      dsimp only at ht hok
      obtain ⟨hexc, t, hc, hdest⟩ := hok rfl
      have hrun : runSeq plan p { fs := ⟨d, some []⟩, buf := [], autoFlush := sched, nfmt := 0, nwr := 0, lineno := 1 } seq
          = (r.1, none) := by
        rw [hr, ← hexc]
      obtain ⟨out, h1, h3, h2⟩ := runSeq_ok hrun
      obtain ⟨t', ht', hacc⟩ := h2 [] ⟨[], rfl, rfl⟩
      have hcomp : complete p seq = some out := by simp [complete, h1, h3]
      have hfile : fs2.dest = .file out := by
        rw [hdest]; rw [ht'] at hc; cases hc; simpa using congrArg Dest.file hacc
      cases plan <;> simp [ht, hcomp, hfile]

theorem render_complete {p : Problem} {out : List String} (h : render p = some out) :
    renderSeq p MontePyVerif.Gen.WriteOrder.sequence = some out ∧ out.all encodable = true := by
  unfold render complete at h
  split at h
  · split at h
    · cases h; exact ⟨by assumption, by assumption⟩
    · cases h
  · cases h

/-! ## the obligations of DESIGN.md section 6, C15 -/

/-- a problem used for the non-vacuity examples: a message block, two cells, one surface, one data card,
    one modifier card that goes to the data block -/
def demo : Problem :=
  { message := some (.lines ["MESSAGE: outp=o", ""]), title := .lines ["demo"],
    cells := [.lines ["1 0 -1"], .lines ["2 0 1", "     imp:n=0"]], surfaces := [.lines ["1 so 1"]],
    dataInputs := [.lines ["mode n"]], modifiers := [.lines ["imp:n 1 0"]] }

/-- the same problem with a new cell that has no geometry (`validate()` raises IllegalState) -/
def demoInvalid : Problem := { demo with cells := demo.cells ++ [.raises .illegalState] }

def demoText : List String :=
  ["MESSAGE: outp=o", "", "demo", "1 0 -1", "2 0 1", "     imp:n=0", "", "1 so 1", "", "mode n", "imp:n 1 0", ""]

/-- **C15_guards** — the truth table of the guards: an existing file is not replaced without
    `overwrite=True` (FileExistsError), a directory is never written to (IsADirectoryError); in both cases
    nothing at all happens to the file system, whatever the problem, the fault plan and the buffering. -/
theorem C15_guards (p : Problem) (plan : Fault) (sched : Nat → Bool) :
    (∀ c, writeToFile p ⟨.file c, none⟩ false plan sched = (some .fileExists, ⟨.file c, none⟩)) ∧
    (∀ ow, writeToFile p ⟨.dir, none⟩ ow plan sched = (some .isADirectory, ⟨.dir, none⟩)) := by
  constructor
  · intro c
    have : "FileExistsError" ∈ MontePyVerif.Gen.WriteOrder.openGuards := by decide
    simp [writeToFile, writeToFileSeq, writeToFileWith, openW, this]
  · intro ow
    have : "IsADirectoryError" ∈ MontePyVerif.Gen.WriteOrder.openGuards := by decide
    simp [writeToFile, writeToFileSeq, writeToFileWith, openW, this]

example : writeToFile demo ⟨.file ["the original"], none⟩ false .none = (some .fileExists, ⟨.file ["the original"], none⟩) :=
  (C15_guards demo .none noAutoFlush).1 _

/-- the statement of C15 at full strength: every problem, every prior state of the destination, either
    flag, every fault plan (a failing close after **any prefix** of the buffered text included), and
    every buffering policy of the handle -/
def C15_atomic_statement : Prop :=
  ∀ (p : Problem) (d : Dest) (ow : Bool) (plan : Fault) (sched : Nat → Bool),
    ((writeToFile p ⟨d, none⟩ ow plan sched).2.dest = d ∨
      ∃ out, render p = some out ∧ (writeToFile p ⟨d, none⟩ ow plan sched).2.dest = .file out) ∧
    ((writeToFile p ⟨d, none⟩ ow plan sched).1 = none →
      ∃ out, render p = some out ∧ (writeToFile p ⟨d, none⟩ ow plan sched).2.dest = .file out)

/-- **C15_atomic** — afterwards the destination is exactly what it was or the complete text of the
    problem; and a call that returns normally has left the complete text. -/
theorem C15_atomic : C15_atomic_statement := by
  intro p d ow plan sched
  have h := atomic_seq MontePyVerif.Gen.WriteOrder.sequence p d ow plan sched
  exact ⟨h.2.1, h.2.2.1⟩

/-- **C15_atomic_written** — the same for the writer as it is now (trailing blanks of every formatted
    line are dropped before it is written), over the four-operation file interface (write into the
    buffer, flush of any prefix, `os.replace`, remove): for every fault plan — in particular
    `Fault.close n c`, a close that fails after `n` lines and `c` characters of the buffer reached the
    file — and every buffering policy, no temporary is left and the destination is what it was or the
    complete text.  It holds because `exitW` closes *before* it renames. -/
theorem C15_atomic_written (p : Problem) (d : Dest) (ow : Bool) (plan : Fault) (sched : Nat → Bool) :
    (writeToFileNow p ⟨d, none⟩ ow plan sched).2.tmp = none ∧
    ((writeToFileNow p ⟨d, none⟩ ow plan sched).2.dest = d ∨
      ∃ ls, renderNow p = some ls ∧ (writeToFileNow p ⟨d, none⟩ ow plan sched).2.dest = .file ls) := by
  have h := C15_atomic p.strip d ow plan sched
  have t := (atomic_seq MontePyVerif.Gen.WriteOrder.sequence p.strip d ow plan sched).1
  exact ⟨t, by simpa [writeToFileNow, renderNow] using h.1⟩

/-- **C15_no_temp_left** — on every path (normal return or any exception) no temporary file remains. -/
theorem C15_no_temp_left (p : Problem) (d : Dest) (ow : Bool) (plan : Fault) (sched : Nat → Bool) :
    (writeToFile p ⟨d, none⟩ ow plan sched).2.tmp = none :=
  (atomic_seq MontePyVerif.Gen.WriteOrder.sequence p d ow plan sched).1

/-- **C15_error_unchanged** — if the call raises (and the exception does not come from the warning
    report that follows the commit) the destination is exactly what it was. -/
theorem C15_error_unchanged (p : Problem) (d : Dest) (ow : Bool) (plan : Fault) (sched : Nat → Bool)
    (herr : (writeToFile p ⟨d, none⟩ ow plan sched).1 ≠ none) (hw : ∀ e, plan ≠ .warn e) :
    (writeToFile p ⟨d, none⟩ ow plan sched).2.dest = d :=
  (atomic_seq MontePyVerif.Gen.WriteOrder.sequence p d ow plan sched).2.2.2 herr hw

/-- **C15_close_fault_unchanged** — a close that fails, after whatever prefix of the buffered text it
    flushed, makes the call raise and leaves the destination exactly as it was. -/
theorem C15_close_fault_unchanged (p : Problem) (d : Dest) (ow : Bool) (n c : Nat) (sched : Nat → Bool) :
    (writeToFile p ⟨d, none⟩ ow (.close n c) sched).1 ≠ none ∧
    (writeToFile p ⟨d, none⟩ ow (.close n c) sched).2.dest = d := by
  have hne : (writeToFile p ⟨d, none⟩ ow (.close n c) sched).1 ≠ none := by
    unfold writeToFile writeToFileSeq writeToFileWith
    rcases openW_cases d ow (.close n c) with ⟨e, h⟩ | h
    · rw [h]; simp
    · rw [h]; dsimp only
      split
      · simp
      · next fs2 hx =>
        exact absurd (by rw [hx]) (exitW_close _ _ n c)
  exact ⟨hne, C15_error_unchanged p d ow _ sched hne (by intro e; simp)⟩

-- non-vacuity: an invalid new cell and an existing destination (the witness of the defect before the repair)
example : writeToFile demoInvalid ⟨.file ["the original"], none⟩ true .none
    = (some .illegalState, ⟨.file ["the original"], none⟩) := by decide
-- a full disk in the middle of the sixth line
example : writeToFile demo ⟨.file ["the original"], none⟩ true (.write 5 3)
    = (some .osError, ⟨.file ["the original"], none⟩) := by decide
-- a close that fails after 4 lines and 2 characters of the buffer reached the temporary
example : writeToFile demo ⟨.file ["the original"], none⟩ true (.close 4 2)
    = (some .osError, ⟨.file ["the original"], none⟩) := by decide
-- the same with a buffer that is written out after every third write call
example : writeToFile demo ⟨.file ["the original"], none⟩ true (.close 1 0) (fun k => k % 3 == 2)
    = (some .osError, ⟨.file ["the original"], none⟩) := by decide
-- a failure after the commit: the call raises, the destination is complete
example : writeToFile demo ⟨.file ["the original"], none⟩ true (.warn (.other "AttributeError"))
    = (some (.other "AttributeError"), ⟨.file demoText, none⟩) := by decide

/-- the statement of C15 for the order *rename first, close afterwards* (`exitWRenameFirst`) -/
def C15_atomic_rename_first_statement : Prop :=
  ∀ (p : Problem) (d : Dest) (ow : Bool) (plan : Fault) (sched : Nat → Bool),
    (writeToFileRenameFirst p ⟨d, none⟩ ow plan sched).2.dest = d ∨
      ∃ out, renderNow p = some out ∧ (writeToFileRenameFirst p ⟨d, none⟩ ow plan sched).2.dest = .file out

/-- **C15_atomic_rename_first_refuted** — renaming the temporary onto the destination *before* it is
    closed (the `os.fsync; os.replace; close` order without a flush) destroys the destination: the close
    flushes Python's buffer into the file that already has the destination's name, and when it fails
    the original is gone and a truncated file is left.  Witness: the demo problem over an existing file,
    close failing before anything was flushed — the destination is an empty file. -/
theorem C15_atomic_rename_first_refuted : ¬ C15_atomic_rename_first_statement := by
  intro h
  have h1 := h demo (.file ["the original"]) true (.close 0 0) noAutoFlush
  have hv : writeToFileRenameFirst demo ⟨.file ["the original"], none⟩ true (.close 0 0) noAutoFlush
      = (some .osError, ⟨.file [], none⟩) := by decide
  have hr : renderNow demo = some demoText := by decide
  rw [hv, hr] at h1
  simp [demoText] at h1

-- the refuted order with a failing close after 5 lines: a truncated problem where the original was
example : writeToFileRenameFirst demo ⟨.file ["the original"], none⟩ true (.close 5 0)
    = (some .osError, ⟨.file ["MESSAGE: outp=o", "", "demo", "1 0 -1", "2 0 1"], none⟩) := by decide

/-- **C15_complete_when_no_fault** — the writer does write: with no fault, a destination that passes
    the guards and a problem whose objects all format, the call returns normally and the destination is
    the complete text (so `C15_atomic` is not satisfied by never committing). -/
theorem C15_complete_when_no_fault (p : Problem) (d : Dest) (ow : Bool) (out : List String) (sched : Nat → Bool)
    (hd : d = .absent ∨ (∃ c, d = .file c) ∧ ow = true) (h : render p = some out) :
    writeToFile p ⟨d, none⟩ ow .none sched = (none, ⟨.file out, none⟩) := by
  have hat := atomic_seq MontePyVerif.Gen.WriteOrder.sequence p d ow .none sched
  -- it is enough to show that the call returns normally
  suffices hnone : (writeToFile p ⟨d, none⟩ ow .none sched).1 = none by
    unfold writeToFile at hnone ⊢
    obtain ⟨o2, ho2, hdest⟩ := hat.2.2.1 hnone
    have : o2 = out := by
      have h' : render p = some o2 := ho2
      rw [h] at h'; exact (Option.some.inj h').symm
    subst this
    have htmp := hat.1
    generalize hres : writeToFileSeq MontePyVerif.Gen.WriteOrder.sequence p ⟨d, none⟩ ow .none sched = res
      at hnone hdest htmp
    obtain ⟨r, ⟨dd, tt⟩⟩ := res
    simp only at hnone hdest htmp
    have hdest' : dd = .file o2 := hdest
    subst hnone hdest' htmp
    rfl
  have hren := render_complete h
  obtain ⟨hr, henc⟩ := hren
  have hopen : openW ⟨d, none⟩ ow .none = (⟨d, some []⟩, none) := by
    rcases hd with rfl | ⟨⟨c, rfl⟩, rfl⟩ <;> simp [openW, fsCreateTmp]
  obtain ⟨w', hrun⟩ := runSeq_none p { fs := ⟨d, some []⟩, buf := [], autoFlush := sched, nfmt := 0, nwr := 0, lineno := 1 }
    MontePyVerif.Gen.WriteOrder.sequence out hr henc
  obtain ⟨o2, -, -, h2⟩ := runSeq_ok hrun
  obtain ⟨t, ht, -⟩ := h2 [] ⟨[], rfl, rfl⟩
  have hdest : w'.fs.dest = d := by
    have := runSeq_dest .none p { fs := ⟨d, some []⟩, buf := [], autoFlush := sched, nfmt := 0, nwr := 0, lineno := 1 }
      MontePyVerif.Gen.WriteOrder.sequence
    rw [hrun] at this; exact this
  have hexit : (exitW w' none .none).2 = none := by
    rcases hd with rfl | ⟨⟨c, rfl⟩, rfl⟩ <;>
      simp [exitW, closeW, fsFlushTmp, fsReplace, ht, hdest]
  simp only [writeToFile, writeToFileSeq, writeToFileWith, hopen, hrun]
  generalize hx : exitW w' none .none = x at hexit
  obtain ⟨fs2, e2⟩ := x
  simp only at hexit
  subst hexit
  rfl

example : writeToFile demo ⟨.file ["the original"], none⟩ true .none = (none, ⟨.file demoText, none⟩) :=
  C15_complete_when_no_fault demo _ true demoText noAutoFlush (Or.inr ⟨⟨_, rfl⟩, rfl⟩) (by decide)

/-! ## histories: any sequence of calls on the same path -/

structure Call where
  problem : Problem
  overwrite : Bool
  plan : Fault
  sched : Nat → Bool := noAutoFlush

/-- the user's script: one `write_to_file` after the other on the same path -/
def runHistory (fs : FS) : List Call → FS
  | [] => fs
  | c :: t => runHistory (writeToFile c.problem fs c.overwrite c.plan c.sched).2 t

/-- **C15_history** — after any history of calls (each with its own problem, flag, fault and buffering)
    the destination is what it was at the start or the complete text of one of the problems written,
    and no temporary file is left. -/
theorem C15_history (calls : List Call) (d : Dest) :
    (runHistory ⟨d, none⟩ calls).tmp = none ∧
    ((runHistory ⟨d, none⟩ calls).dest = d ∨
      ∃ c ∈ calls, ∃ out, render c.problem = some out ∧ (runHistory ⟨d, none⟩ calls).dest = .file out) := by
  induction calls generalizing d with
  | nil => exact ⟨rfl, Or.inl rfl⟩
  | cons c t ih =>
    simp only [runHistory]
    have htmp := C15_no_temp_left c.problem d c.overwrite c.plan c.sched
    have hat := (C15_atomic c.problem d c.overwrite c.plan c.sched).1
    generalize hfs : (writeToFile c.problem ⟨d, none⟩ c.overwrite c.plan c.sched).2 = fs at htmp hat
    obtain ⟨d', t'⟩ := fs
    simp only at htmp hat
    subst htmp
    obtain ⟨h1, h2⟩ := ih d'
    refine ⟨h1, ?_⟩
    rcases h2 with h2 | ⟨c', hc', out, ho, hd'⟩
    · rcases hat with hat | ⟨out, ho, hd'⟩
      · left; rw [h2, hat]
      · right; exact ⟨c, by simp, out, ho, by rw [h2, hd']⟩
    · right; exact ⟨c', by simp [hc'], out, ho, hd'⟩

example : (runHistory ⟨.absent, none⟩
    [⟨demo, false, .none, noAutoFlush⟩, ⟨demoInvalid, true, .none, noAutoFlush⟩, ⟨demo, false, .none, noAutoFlush⟩,
     ⟨demo, true, .write 2 1, noAutoFlush⟩, ⟨demo, true, .close 3 1, noAutoFlush⟩]).dest
    = .file demoText := by decide

/-! ## block order (cited by other properties as C15_order_*) -/

/-- **C15_order_sequence** — the order in which `write_to_file` of the working tree writes its segments
    (observed by the translator on a probe problem, on every run): message, title, cells, blank, surfaces,
    blank, data inputs, the modifier cards of the data block, and only then the blank line that ends the
    data block. -/
theorem C15_order_sequence :
    MontePyVerif.Gen.WriteOrder.sequence
      = [.message, .title, .cells, .blank, .surfaces, .blank, .dataInputs, .modifiers, .blank] ∧
    MontePyVerif.Gen.WriteOrder.recognised = true := by decide

/-- **C15_commit_table** — `MCNP_InputFile` commits with `os.replace` and cleans up with `os.remove`;
    `open` has both guards; the handle is ASCII (tables observed on the working tree on every run). -/
theorem C15_commit_table :
    "replace" ∈ MontePyVerif.Gen.WriteOrder.exitOsCalls ∧ "remove" ∈ MontePyVerif.Gen.WriteOrder.exitOsCalls ∧
    MontePyVerif.Gen.WriteOrder.openGuards = ["FileExistsError", "IsADirectoryError"] ∧
    MontePyVerif.Gen.WriteOrder.openEncoding = "ascii" := by decide

theorem renderSeq_cons {p : Problem} {s : Seg} {t : List Seg} {out : List String}
    (h : renderSeq p (s :: t) = some out) :
    ∃ a b, segLines p s = some a ∧ renderSeq p t = some b ∧ out = a ++ b := by
  simp only [renderSeq] at h
  split at h
  · next a b ha hb => exact ⟨a, b, ha, hb, (Option.some.inj h).symm⟩
  · cases h

theorem render_renderSeq {p : Problem} {out : List String} (h : render p = some out) :
    renderSeq p MontePyVerif.Gen.WriteOrder.sequence = some out := by
  unfold render complete at h
  split at h
  · split at h
    · cases h; assumption
    · cases h
  · cases h

/-- **C15_order_closed_form** — the complete text is: message lines, title, the cells' lines, one
    empty line, the surfaces' lines, one empty line, the data inputs' lines, the modifier cards' lines,
    one empty line — and nothing else. -/
theorem C15_order_closed_form (p : Problem) (out : List String) (h : render p = some out) :
    ∃ msg title cells surfs data mods,
      segLines p .message = some msg ∧ linesOf [p.title] = some title ∧ linesOf p.cells = some cells ∧
      linesOf p.surfaces = some surfs ∧ linesOf p.dataInputs = some data ∧ linesOf p.modifiers = some mods ∧
      out = msg ++ title ++ cells ++ [""] ++ surfs ++ [""] ++ data ++ mods ++ [""] := by
  have h0 := render_renderSeq h
  rw [C15_order_sequence.1] at h0
  obtain ⟨msg, r1, hm, h1, rfl⟩ := renderSeq_cons h0
  obtain ⟨title, r2, ht, h2, rfl⟩ := renderSeq_cons h1
  obtain ⟨cells, r3, hc, h3, rfl⟩ := renderSeq_cons h2
  obtain ⟨b1, r4, hb1, h4, rfl⟩ := renderSeq_cons h3
  obtain ⟨surfs, r5, hs, h5, rfl⟩ := renderSeq_cons h4
  obtain ⟨b2, r6, hb2, h6, rfl⟩ := renderSeq_cons h5
  obtain ⟨data, r7, hd, h7, rfl⟩ := renderSeq_cons h6
  obtain ⟨mods, r8, hmo, h8, rfl⟩ := renderSeq_cons h7
  obtain ⟨b3, r9, hb3, h9, rfl⟩ := renderSeq_cons h8
  simp only [renderSeq, Option.some.injEq] at h9
  simp only [segLines, Option.some.injEq] at hb1 hb2 hb3
  subst hb1 hb2 hb3 h9
  exact ⟨msg, title, cells, surfs, data, mods, hm, ht, hc, hs, hd, hmo, by simp [List.append_assoc]⟩

/-- **C15_order_terminator_last** — the last line written is the blank line that ends the data block:
    no card follows it. -/
theorem C15_order_terminator_last (p : Problem) (out : List String) (h : render p = some out) :
    ∃ body, out = body ++ [""] := by
  obtain ⟨msg, title, cells, surfs, data, mods, -, -, -, -, -, -, rfl⟩ := C15_order_closed_form p out h
  exact ⟨_, rfl⟩

example : render demo = some demoText := by decide

/-! ### the same, judged by MCNP's own reading of the file (`Spec/Blocks.lean`) -/

theorem splitAtBlank_append (xs rest : List String) (h : xs.all (fun l => !isBlank l) = true) :
    splitAtBlank (xs ++ "" :: rest) = (xs, some rest) := by
  induction xs with
  | nil => simp [splitAtBlank, show isBlank "" = true by decide]
  | cons x t ih =>
    simp only [List.all_cons, Bool.and_eq_true, Bool.not_eq_eq_eq_not, Bool.not_true] at h
    simp only [List.cons_append, splitAtBlank, h.1, Bool.false_eq_true, ↓reduceIte]
    rw [ih (by simpa using h.2)]

theorem readBody_blocks (t : String) (cells surfs data rest : List String)
    (hc : cells.all (fun l => !isBlank l) = true) (hs : surfs.all (fun l => !isBlank l) = true)
    (hd : data.all (fun l => !isBlank l) = true) :
    readBody (t :: (cells ++ "" :: (surfs ++ "" :: (data ++ "" :: rest))))
      = ⟨[], some t, cells, surfs, data, 3, rest⟩ := by
  simp only [readBody, splitAtBlank_append _ _ hc, splitAtBlank_append _ _ hs, splitAtBlank_append _ _ hd]

/-- every formatted card line is a non-blank line -/
def cardsOk (os : List Fmt) : Bool :=
  os.all fun o => match o with
    | .lines ls => ls.all (fun l => !isBlank l)
    | .raises _ => true

/-- the message block is `MESSAGE: …`, non-blank continuation lines and its blank delimiter -/
def messageOk (p : Problem) : Bool :=
  match p.message with
  | none => true
  | some (.lines (l :: t)) => startsMessage l && t.getLast? = some "" && (l :: t).dropLast.all (fun l => !isBlank l)
  | some _ => false

/-- the title is one line, and without a message block it does not announce one -/
def titleOk (p : Problem) : Bool :=
  match p.title with
  | .lines [t] => p.message.isSome || !startsMessage t
  | _ => false

/-- the named, decidable hypothesis of `C15_order_blocks`: what C10 (physical lines) guarantees about the
    formatted objects — no blank line inside a block, a one-line title, a well-formed message block -/
def LinesOk (p : Problem) : Bool :=
  messageOk p && titleOk p && cardsOk p.cells && cardsOk p.surfaces && cardsOk p.dataInputs && cardsOk p.modifiers

theorem linesOf_noBlank {os : List Fmt} {out : List String} (h : linesOf os = some out) (hok : cardsOk os = true) :
    out.all (fun l => !isBlank l) = true := by
  induction os generalizing out with
  | nil => simp only [linesOf, Option.some.injEq] at h; subst h; rfl
  | cons o t ih =>
    cases o with
    | raises e => simp [linesOf] at h
    | lines ls =>
      simp only [linesOf, Option.map_eq_some_iff] at h
      obtain ⟨rest, hr, rfl⟩ := h
      simp only [cardsOk, List.all_cons, Bool.and_eq_true] at hok
      simp only [List.all_append, Bool.and_eq_true]
      exact ⟨hok.1, ih hr (by simpa [cardsOk] using hok.2)⟩

/-- **C15_order_blocks** — MCNP's block reader applied to the complete text finds the title, exactly the
    cells' lines in the cell block, exactly the surfaces' lines in the surface block, the data inputs'
    lines *followed by the modifier cards' lines* in the data block, three blank-line delimiters, and
    nothing after the terminator. -/
theorem C15_order_blocks (p : Problem) (out : List String) (hok : LinesOk p = true) (h : render p = some out) :
    ∃ msg t cells surfs data mods,
      segLines p .message = some (if p.message.isSome then msg ++ [""] else []) ∧ p.title = .lines [t] ∧
      linesOf p.cells = some cells ∧ linesOf p.surfaces = some surfs ∧
      linesOf p.dataInputs = some data ∧ linesOf p.modifiers = some mods ∧
      readBlocks out = { message := msg, title := some t, cells := cells, surfaces := surfs,
                         data := data ++ mods, delimiters := 3, ignored := [] } := by
  obtain ⟨msg, title, cells, surfs, data, mods, hm, ht, hc, hs, hd, hmo, rfl⟩ := C15_order_closed_form p out h
  simp only [LinesOk, Bool.and_eq_true] at hok
  obtain ⟨⟨⟨⟨⟨hmsg, htitle⟩, hcells⟩, hsurfs⟩, hdata⟩, hmods⟩ := hok
  have nc := linesOf_noBlank hc hcells
  have ns := linesOf_noBlank hs hsurfs
  have nd : (data ++ mods).all (fun l => !isBlank l) = true := by
    simp only [List.all_append, Bool.and_eq_true]
    exact ⟨linesOf_noBlank hd hdata, linesOf_noBlank hmo hmods⟩
  -- the title is one line
  unfold titleOk at htitle
  split at htitle
  · next t hpt =>
    have htl : title = [t] := by rw [hpt] at ht; simpa [linesOf] using ht.symm
    subst htl
    have hbody : ∀ pre : List String, pre ++ [t] ++ cells ++ [""] ++ surfs ++ [""] ++ data ++ mods ++ [""]
        = pre ++ t :: (cells ++ "" :: (surfs ++ "" :: ((data ++ mods) ++ "" :: []))) := by
      intro pre; simp [List.append_assoc]
    -- message block or not
    unfold messageOk at hmsg
    split at hmsg
    · next hnone =>
      have hm0 : msg = [] := by simpa [segLines, segObjects, hnone, linesOf] using hm.symm
      subst hm0
      simp only [hnone, Option.isSome_none, Bool.false_or, Bool.not_eq_eq_eq_not, Bool.not_true] at htitle
      refine ⟨[], t, cells, surfs, data, mods, by simp [segLines, segObjects, hnone, linesOf], hpt, hc, hs, hd, hmo, ?_⟩
      rw [hbody []]
      simp only [List.nil_append, readBlocks, htitle, Bool.false_eq_true, ↓reduceIte]
      exact readBody_blocks t cells surfs (data ++ mods) [] nc ns nd
    · next l tl hsome =>
      simp only [Bool.and_eq_true, decide_eq_true_eq] at hmsg
      obtain ⟨⟨hstart, hlast⟩, hnb⟩ := hmsg
      have hm1 : msg = l :: tl := by simpa [segLines, segObjects, hsome, linesOf] using hm.symm
      -- l :: tl = (l :: tl).dropLast ++ [""], and tl is not empty
      have htl : tl ≠ [] := by intro h0; simp [h0] at hlast
      have hsplit : l :: tl = (l :: tl).dropLast ++ [""] := by
        have h1 := List.dropLast_concat_getLast htl
        have h2 : tl.getLast htl = "" := by
          have := List.getLast?_eq_some_getLast htl
          rw [hlast] at this; exact (Option.some.inj this).symm
        rw [h2] at h1
        rw [List.dropLast_cons_of_ne_nil htl, List.cons_append, h1]
      refine ⟨(l :: tl).dropLast, t, cells, surfs, data, mods, ?_, hpt, hc, hs, hd, hmo, ?_⟩
      · simp only [hsome, Option.isSome_some, ↓reduceIte]
        rw [← hsplit]; simp [segLines, segObjects, hsome, linesOf]
      · rw [hm1, hbody (l :: tl)]
        rw [hsplit, List.append_assoc, List.singleton_append]
        rw [List.dropLast_cons_of_ne_nil htl] at hnb ⊢
        simp only [List.cons_append, readBlocks, hstart, ↓reduceIte]
        rw [← List.cons_append, splitAtBlank_append _ _ hnb]
        simp only [readBody_blocks t cells surfs (data ++ mods) [] nc ns nd, List.dropLast_concat,
          List.dropLast_cons_of_ne_nil (show tl.dropLast ++ [""] ≠ [] by simp)]
    · cases hmsg
  · cases htitle

/-- **C15_order_nothing_lost** — corollary: MCNP ignores no card of a file written by `write_to_file`. -/
theorem C15_order_nothing_lost (p : Problem) (out : List String) (hok : LinesOk p = true) (h : render p = some out) :
    lostLines (readBlocks out) = [] ∧ (readBlocks out).delimiters = 3 := by
  obtain ⟨msg, t, cells, surfs, data, mods, -, -, -, -, -, -, hrb⟩ := C15_order_blocks p out hok h
  rw [hrb]; exact ⟨rfl, rfl⟩

-- non-vacuity: the demo problem satisfies the hypothesis, and MCNP finds the modifier card in the data block
example : LinesOk demo = true := by decide
example : (readBlocks demoText).data = ["mode n", "imp:n 1 0"] ∧ (readBlocks demoText).ignored = [] := by decide

/-- the order of the code before the repair (terminator first, modifier cards after it): refuted by the
    same Spec — kept as the witness of defect DESIGN 7.3 #7 -/
theorem C15_order_before_repair_refuted :
    ∃ out, complete demo [.message, .title, .cells, .blank, .surfaces, .blank, .dataInputs, .blank, .modifiers, .blank] = some out ∧
      lostLines (readBlocks out) = ["imp:n 1 0"] :=
  ⟨["MESSAGE: outp=o", "", "demo", "1 0 -1", "2 0 1", "     imp:n=0", "", "1 so 1", "", "mode n", "", "imp:n 1 0", ""],
   by decide, by decide⟩

end MontePyVerif.Write
