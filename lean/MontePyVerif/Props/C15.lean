import MontePyVerif.Model.Write
import MontePyVerif.Spec.Blocks
namespace MontePyVerif.Write
theorem C15_stub : True := trivial
end MontePyVerif.Write
