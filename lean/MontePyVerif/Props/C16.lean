import MontePyVerif.Lemmas.Links
import MontePyVerif.Lemmas.LinksLoad
/-!
# C16 — forward links and reverse look-ups of the object graph always agree

Property (fixed text, properties.jsonl): after reading, and after any sequence of edits, a cell's surfaces
and complements contain every divider its geometry uses; surface.cells, material.cells, universe.cells and
cells_complementing_this yield exactly the cells whose forward links point at that object; every cell is in
exactly one universe; every object held by a problem's collections is linked to that problem.

Model: `Model/Links.lean` (the repaired code).  Helper lemmas: `Lemmas/Links.lean`.
Where the code refutes the full statement there is a `_refuted` theorem with a concrete witness history and a
`_partial` theorem whose extra hypothesis is a named predicate (`HasUniverse`, `CompLinked`).
-/
namespace MontePyVerif.Links

/-! ## containment: `leaves (c.geometry) ⊆ c.surfaces ∪ c.complements` -/

/-- cell `c`: every node of its geometry points back at `c` and every divider is in `c`'s containers -/
def Contain (st : St) (c : ObjId) : Prop := ∀ g, (st.cellOf c).geom = some g → Good st c g

/-- the invariant of C16's first statement, for every cell object (member of the problem or not) -/
def InvContain (st : St) : Prop := ∀ c, Contain st c

theorem InvContain.ext {st st' : St} (h : InvContain st) (e : Ext st st') : InvContain st' := by
  intro c g hg
  rw [e.geom c] at hg
  exact (h c g hg).ext e

/-- `st'` has the same geometries and containers (only other fields moved) -/
def Same (st st' : St) : Prop :=
  ∀ x, (st'.cellOf x).geom = (st.cellOf x).geom ∧
    (st'.cellOf x).surfs = (st.cellOf x).surfs ∧ (st'.cellOf x).comps = (st.cellOf x).comps

theorem Same.refl (st : St) : Same st st := fun _ => ⟨rfl, rfl, rfl⟩

theorem Same.trans {a b c : St} (h1 : Same a b) (h2 : Same b c) : Same a c :=
  fun x => ⟨(h2 x).1.trans (h1 x).1, (h2 x).2.1.trans (h1 x).2.1, (h2 x).2.2.trans (h1 x).2.2⟩

theorem InvContain.same {st st' : St} (h : InvContain st) (e : Same st st') : InvContain st' := by
  intro c g hg
  rw [(e c).1] at hg
  have := h c g hg
  exact ⟨this.1, by rw [(e c).2.1]; exact this.2.1, by rw [(e c).2.2]; exact this.2.2⟩

theorem same_updCell (st : St) (c : ObjId) (f : CellSt → CellSt)
    (hf : ∀ cs, (f cs).geom = cs.geom ∧ (f cs).surfs = cs.surfs ∧ (f cs).comps = cs.comps) :
    Same st (st.updCell c f) := by
  intro x
  simp only [updCell_cellOf]
  split
  · subst_vars; exact hf _
  · exact ⟨rfl, rfl, rfl⟩

theorem same_setLinked (st : St) (k : Kind) (o : ObjId) : Same st (st.setLinked k o) := by
  cases k
  · exact fun x => linkCell_cellOf st o x
  all_goals exact Same.refl _

theorem same_setMembers (st : St) (k : Kind) (l : List ObjId) : Same st (st.setMembers k l) := by
  cases k <;> exact Same.refl _

theorem same_setNum (st : St) (k : Kind) (o : ObjId) (n : Int) : Same st (st.setNum k o n) := by
  cases k <;> exact Same.refl _

theorem same_foldl {α : Type} (f : St → α → St) (hf : ∀ s x, Same s (f s x)) :
    ∀ (l : List α) (st : St), Same st (l.foldl f st) := by
  intro l
  induction l with
  | nil => intro st; exact Same.refl st
  | cons a t ih => intro st; exact (hf st a).trans (ih (f st a))

theorem same_setMaterial (st : St) (c : ObjId) (m : Option ObjId) : Same st (setMaterial st c m).1 :=
  (same_updCell st c (fun cs => { cs with mat := m }) (fun _ => ⟨rfl, rfl, rfl⟩)).trans (fun _ => ⟨rfl, rfl, rfl⟩)

theorem same_setUniverse (st : St) (c u : ObjId) : Same st (setUniverse st c u).1 :=
  (same_updCell st c (fun cs => { cs with univ := some u }) (fun _ => ⟨rfl, rfl, rfl⟩)).trans
    (fun _ => ⟨rfl, rfl, rfl⟩)

/-- the edits that do not touch any geometry or container -/
theorem same_step (st : St) (op : Op)
    (h : match op with
      | .setMaterial .. | .setUniverse .. | .claim .. | .setFill .. | .setNumber .. | .append .. | .remove ..
      | .setMaterials .. | .setCells .. | .addCellChildren | .reupdate | .extend .. | .appendRenumber .. => True
      | _ => False) : Same st (step st op).1 := by
  cases op with
  | setMaterial c m => exact same_setMaterial st c m
  | setUniverse c u => exact same_setUniverse st c u
  | claim u cs =>
    simp only [step, claim]
    split
    · exact same_foldl (fun s c => (setUniverse s c u).1) (fun s x => same_setUniverse s x u) cs st
    · exact Same.refl st
  | setFill c u => exact same_updCell st c (fun cs => { cs with fill := u }) (fun _ => ⟨rfl, rfl, rfl⟩)
  | setNumber k o n =>
    simp only [step, setNumber]
    split
    · exact Same.refl st
    · split
      · exact Same.refl st
      · exact same_setNum st k o n
  | append k o =>
    simp only [step, collAppend]
    split
    · exact Same.refl st
    · exact (same_setMembers st k _).trans (same_setLinked _ k o)
  | remove k o =>
    simp only [step, collRemove]
    split
    · exact Same.refl st
    · exact same_setMembers st k _
  | setMaterials ms =>
    simp only [step, setMaterials]
    split
    · exact Same.refl _
    · exact Same.refl st
  | setCells cs =>
    simp only [step, setCells]
    split
    · exact (Same.refl _ : Same st { st with cells := cs }).trans
        (same_foldl _ (fun s x => same_setLinked s .cell x) cs _)
    · exact Same.refl st
  | addCellChildren =>
    simp only [step, addCellChildren]
    split
    · exact Same.refl st
    · exact Same.refl _
  | extend k os =>
    simp only [step, collExtend]
    split
    · exact (same_setMembers st k _).trans (same_foldl (fun s o => s.setLinked k o) (fun s o => same_setLinked s k o) os _)
    · exact Same.refl st
  | appendRenumber k o =>
    have happ : ∀ s : St, Same s (collAppend s k o).1 := by
      intro s
      unfold collAppend
      split
      · exact Same.refl s
      · exact (same_setMembers s k _).trans (same_setLinked _ k o)
    simp only [step, appendRenumber]
    split
    · exact Same.refl st
    · try dsimp only
      split
      · split
        · exact same_setLinked st k o
        · exact ((same_setLinked st k o).trans (same_setNum _ k o _)).trans (happ _)
      · exact (same_setLinked st k o).trans (happ _)
  | setGeometry c g => exact h.elim
  | iopCell u c g => exact h.elim
  | iopAlias u c g => exact h.elim
  | setDivider c p ic d => exact h.elim
  | setChild c p r g => exact h.elim
  | reupdate => exact Same.refl st

/-- storing a registered tree as the geometry of `c` keeps the invariant -/
theorem inv_setGeom {st : St} {c : ObjId} {g : HS} (h : InvContain st) (hg : Good st c g) :
    InvContain (st.updCell c (fun cs => { cs with geom := some g })) := by
  intro x g' hg'
  by_cases hx : x = c
  · subst hx
    have : g = g' := by simpa using hg'
    subst this
    exact ⟨hg.1, by simpa using hg.2.1, by simpa using hg.2.2⟩
  · have hg'' : (st.cellOf x).geom = some g' := by simpa [hx] using hg'
    have := h x g' hg''
    exact ⟨this.1, by simpa [hx] using this.2.1, by simpa [hx] using this.2.2⟩

theorem setGeometry_inv {st : St} (c : ObjId) (g : HS) (h : InvContain st) :
    InvContain (setGeometry st c g).1 := by
  unfold setGeometry
  have hs := addChildren_spec st c g
  generalize addChildren st c g = r at hs ⊢
  obtain ⟨st1, e⟩ := r
  cases e with
  | some err => exact h.ext hs.1
  | none =>
    dsimp only at hs ⊢
    have := hs.2 rfl
    refine inv_setGeom (h.ext hs.1) ⟨setCell_allCell c g, ?_, ?_⟩
    · simpa using this.1
    · simpa using this.2

theorem iopCell_inv {st : St} (u : Bool) (c : ObjId) (other : HS) (h : InvContain st) :
    InvContain (iopCell u st c other).1 := by
  unfold iopCell
  split
  · exact h
  · rename_i g hg
    have hs := iop_spec u c other g st (h c g hg)
    generalize iop u st g other = res at hs ⊢
    obtain ⟨⟨st1, e1⟩, g1, ret⟩ := res
    cases e1 with
    | some err => exact inv_setGeom (h.ext hs.1) hs.2
    | none =>
      have h2 : InvContain (st1.updCell c (fun cs => { cs with geom := some g1 })) := inv_setGeom (h.ext hs.1) hs.2
      dsimp only at hs ⊢
      cases ret with
      | none =>
        exact setGeometry_inv c g1 h2
      | some n =>
        exact setGeometry_inv c n h2

theorem iopAlias_inv {st : St} (u : Bool) (c : ObjId) (other : HS) (h : InvContain st) :
    InvContain (iopAlias u st c other).1 := by
  unfold iopAlias
  split
  · exact h
  · rename_i g hg
    have hs := iop_spec u c other g st (h c g hg)
    generalize iop u st g other = res at hs ⊢
    obtain ⟨⟨st1, e1⟩, g1, ret⟩ := res
    exact inv_setGeom (h.ext hs.1) hs.2

theorem setChild_inv {st : St} (c : ObjId) (path : List Bool) (right : Bool) (new : HS)
    (h : InvContain st) :
    InvContain (setChild st c path right new).1 := by
  unfold setChild
  split
  · exact h
  · rename_i g hg
    have hgood := h c g hg
    split
    · rename_i u l r p hget
      have hnode := good_get g path _ hgood hget
      obtain ⟨hp, hl, hr⟩ := good_bin.mp hnode
      subst hp
      have hs := linkChild_spec st c new
      generalize linkChild st (some c) new = lres at hs ⊢
      obtain ⟨⟨st1, e1⟩, n'⟩ := lres
      cases e1 with
      | some err => exact h.ext hs.1
      | none =>
        have hn' : Good st1 c n' := by
          have h1 := hs.2.1 rfl
          have h2 := hs.2.2 rfl
          simp only at h1 h2
          rw [h1]; exact h2
        refine inv_setGeom (h.ext hs.1) (good_set g path _ (hgood.ext hs.1) ?_)
        cases right
        · exact good_bin.mpr ⟨rfl, hn', hr.ext hs.1⟩
        · exact good_bin.mpr ⟨rfl, hl.ext hs.1, hn'⟩
    · rename_i l p hget
      have hnode := good_get g path _ hgood hget
      obtain ⟨hp, _⟩ := good_compl.mp hnode
      subst hp
      split
      · exact h
      · have hs := linkChild_spec st c new
        generalize linkChild st (some c) new = lres at hs ⊢
        obtain ⟨⟨st1, e1⟩, n'⟩ := lres
        cases e1 with
        | some err => exact h.ext hs.1
        | none =>
          have hn' : Good st1 c n' := by
            have h1 := hs.2.1 rfl
            have h2 := hs.2.2 rfl
            simp only at h1 h2
            rw [h1]; exact h2
          exact inv_setGeom (h.ext hs.1) (good_set g path _ (hgood.ext hs.1) (good_compl.mpr ⟨rfl, hn'⟩))
    · exact h

theorem registerDivider_spec (st : St) (c : ObjId) (ic : Bool) (d : ObjId) :
    Ext st (registerDivider st (some c) ic d).1 ∧
    ((registerDivider st (some c) ic d).2 = none →
      (ic = true → d ∈ ((registerDivider st (some c) ic d).1.cellOf c).comps) ∧
      (ic = false → d ∈ ((registerDivider st (some c) ic d).1.cellOf c).surfs)) := by
  unfold registerDivider
  cases ic with
  | true =>
    simp only [if_true]
    split
    · rename_i hm
      exact ⟨Ext.refl st, fun _ => ⟨fun _ => (by simpa using hm), fun h => (by cases h)⟩⟩
    · have hs := cellCompAppend_spec st c d
      exact ⟨hs.1, fun hok => ⟨fun _ => hs.2 hok, fun h => (by cases h)⟩⟩
  | false =>
    simp only [Bool.false_eq_true, if_false]
    split
    · rename_i hm
      exact ⟨Ext.refl st, fun _ => ⟨fun h => (by cases h), fun _ => (memS_iff _ _ _).mp hm⟩⟩
    · have hs := cellSurfAppend_spec st c d
      exact ⟨hs.1, fun hok => ⟨fun h => (by cases h), fun _ => hs.2 hok⟩⟩

theorem setDivider_inv {st : St} (c : ObjId) (path : List Bool) (ic : Bool) (d : ObjId)
    (h : InvContain st) :
    InvContain (setDivider st c path ic d).1 := by
  unfold setDivider
  split
  · exact h
  · rename_i g hg
    have hgood := h c g hg
    split
    · rename_i ic0 d0 side p hget
      have hnode := good_get g path _ hgood hget
      have hp : p = some c := by simpa [HS.allCell] using hnode.1
      subst hp
      split
      · exact h
      · have hs := registerDivider_spec st c ic0 d
        generalize registerDivider st (some c) ic0 d = r at hs ⊢
        obtain ⟨st1, e1⟩ := r
        cases e1 with
        | some err => exact h.ext hs.1
        | none =>
          dsimp only at hs
          have hg1 : (st1.cellOf c).geom = some g := by rw [hs.1.geom c]; exact hg
          simp only [replaceDivider, hg1]
          refine inv_setGeom (h.ext hs.1) (good_set g path _ (hgood.ext hs.1) ?_)
          have hm := hs.2 rfl
          refine ⟨by simp [HS.allCell], ?_, ?_⟩
          · intro s hs'
            cases ic0
            · simp only [HS.surfs, Bool.false_eq_true, if_false, List.mem_singleton] at hs'
              subst hs'; exact hm.2 rfl
            · simp [HS.surfs] at hs'
          · intro s hs'
            cases ic0
            · simp [HS.comps] at hs'
            · simp only [HS.comps, if_true, List.mem_singleton] at hs'
              subst hs'; exact hm.1 rfl
    · exact h

/-- **C16_contain_step** — every modelled operation (geometry assignment, `&=`, `|=`, in-place `&=`/`|=`
    through an alias, divider / left / right replacement, material, universe, claim, fill, renumbering,
    collection insertion and removal, the materials / cells setters, `add_cell_children_to_problem`,
    `remove_duplicate_surfaces` without duplicates) keeps `leaves ⊆ surfaces ∪ complements` for every cell,
    *also when the edit raises*.  No side condition: since the identity repairs an equal copy of a surface is
    just another surface (it is registered, or the edit is refused). -/
theorem C16_contain_step (st : St) (op : Op) (h : InvContain st) : InvContain (step st op).1 := by
  cases op with
  | setGeometry c g => exact setGeometry_inv c g h
  | iopCell u c g => exact iopCell_inv u c g h
  | iopAlias u c g => exact iopAlias_inv u c g h
  | setDivider c p ic d => exact setDivider_inv c p ic d h
  | setChild c p r g => exact setChild_inv c p r g h
  | reupdate => exact h.same (same_step st _ trivial)
  | setMaterial c m => exact h.same (same_step st _ trivial)
  | setUniverse c u => exact h.same (same_step st _ trivial)
  | claim u cs => exact h.same (same_step st _ trivial)
  | setFill c u => exact h.same (same_step st _ trivial)
  | setNumber k o n => exact h.same (same_step st _ trivial)
  | append k o => exact h.same (same_step st _ trivial)
  | remove k o => exact h.same (same_step st _ trivial)
  | extend k os => exact h.same (same_step st _ trivial)
  | appendRenumber k o => exact h.same (same_step st _ trivial)
  | setMaterials ms => exact h.same (same_step st _ trivial)
  | setCells cs => exact h.same (same_step st _ trivial)
  | addCellChildren => exact h.same (same_step st _ trivial)

/-- **C16_contain** — induction over edit histories: from any state that satisfies the invariant (the
    empty pool: `C16_contain_blank`; the cells of a file after `load`: `C16_load_contain`) every history of
    operations leads to a state that satisfies it. -/
theorem C16_contain (ops : List Op) : ∀ (st : St), InvContain st → InvContain (run st ops) := by
  induction ops with
  | nil => intro st h; exact h
  | cons op t ih => intro st h; exact ih (step st op).1 (C16_contain_step st op h)

/-- the pool before anything is read or assigned satisfies the invariant -/
theorem C16_contain_blank (cnum snum mnum unum tnum : ObjId → Int)
    (strans : ObjId → Option ObjId) (other : Kind → ObjId → Bool) :
    InvContain (St.blank cnum snum mnum unum tnum strans other) := by
  intro c g hg
  simp [St.blank] at hg

/-! ### non-vacuity; an equal copy is now registered or refused -/

def demoOps : List Op :=
  [.setGeometry 0 (.bin false (.leaf false 0 true none) (.leaf false 1 false none) none),
   .setDivider 0 [true] false 2]

/-- three surfaces; with `clones`, surface `2` has the number of surface `0` (an equal copy, or any other
    surface with that number: since the identity repairs there is no difference) -/
def demo (clones : Bool) : St :=
  St.blank (fun o => o + 1) (fun o => if clones && o == 2 then 1 else o + 1) (fun o => o + 1) (fun o => o)
    (fun o => o + 1) (fun _ => none)

theorem demo_inv (b : Bool) : InvContain (demo b) := C16_contain_blank _ _ _ _ _ _ _

/-- a non-trivial history (assignment, then replacement of a leaf's divider by a third surface) reaches a
    state where the containers really were extended -/
example : ((run (demo false) demoOps).cellOf 0).surfs = [0, 1, 2] := by decide

/-- the history that refuted the statement before the identity repairs (former finding C16-F1a): the copy
    with the taken number is *refused*, the geometry keeps its old divider -/
example : (step (step (demo true) demoOps[0]).1 demoOps[1]).2 = some .numberConflict ∧
    ((run (demo true) demoOps).cellOf 0).geom =
      some (.bin false (.leaf false 0 true (some 0)) (.leaf false 1 false (some 0)) (some 0)) := by decide

/-! ## reverse look-ups -/

/-- **C16_reverse_surface** — `surface.cells` is exactly the filter the generator computes. -/
theorem C16_reverse_surface (st : St) (s d : ObjId) :
    d ∈ surfaceCells st s ↔ st.slink s = true ∧ d ∈ st.cells ∧ memS st s (st.cellOf d).surfs = true := by
  unfold surfaceCells
  split <;> simp_all [List.mem_filter]

/-- … stated against the forward links of the *geometry*:
    a cell of the problem whose geometry uses `s` is in `s.cells` (needs the containment invariant). -/
theorem C16_reverse_surface_geometry (st : St) (s d : ObjId) (g : HS) (h : InvContain st)
    (hl : st.slink s = true) (hd : d ∈ st.cells) (hg : (st.cellOf d).geom = some g) (hs : s ∈ g.surfs) :
    d ∈ surfaceCells st s := by
  rw [C16_reverse_surface]
  exact ⟨hl, hd, (memS_iff _ _ _).mpr ((h d g hg).2.1 s hs)⟩

theorem C16_reverse_surface_exact (st : St) (s d : ObjId) :
    d ∈ surfaceCells st s ↔ st.slink s = true ∧ d ∈ st.cells ∧ s ∈ (st.cellOf d).surfs := by
  rw [C16_reverse_surface, memS_iff]

/-- **C16_reverse_material** (repaired code: `cell.material is self`) -/
theorem C16_reverse_material (st : St) (m d : ObjId) :
    d ∈ materialCells st m ↔ st.mlink m = true ∧ d ∈ st.cells ∧ (st.cellOf d).mat = some m := by
  unfold materialCells
  split
  · simp only [List.mem_filter]
    constructor
    · rintro ⟨hd, hm⟩
      refine ⟨by assumption, hd, ?_⟩
      split at hm
      · rename_i m' hm'
        have : m' = m := by simpa using hm
        rw [hm', this]
      · cases hm
    · rintro ⟨_, hd, hm'⟩
      exact ⟨hd, by rw [hm']; simp⟩
  · simp_all

/-- **C16_reverse_universe** (`==` on universes is identity) -/
theorem C16_reverse_universe (st : St) (u d : ObjId) :
    d ∈ universeCells st u ↔ st.ulink u = true ∧ d ∈ st.cells ∧ (st.cellOf d).univ = some u := by
  unfold universeCells
  split <;> simp_all [List.mem_filter]

/-- **C16_reverse_complement** -/
theorem C16_reverse_complement (st : St) (c d : ObjId) :
    d ∈ cellsComplementing st c ↔ (st.cellOf c).link = true ∧ d ∈ st.cells ∧ d ≠ c ∧ c ∈ (st.cellOf d).comps := by
  unfold cellsComplementing
  split <;> simp_all [List.mem_filter]

theorem C16_reverse_complement_geometry (st : St) (c d : ObjId) (g : HS) (h : InvContain st)
    (hl : (st.cellOf c).link = true) (hd : d ∈ st.cells) (hne : d ≠ c)
    (hg : (st.cellOf d).geom = some g) (hc : c ∈ g.comps) : d ∈ cellsComplementing st c := by
  rw [C16_reverse_complement]
  exact ⟨hl, hd, hne, (h d g hg).2.2 c hc⟩

/-- history used by the refutation: a cell from scratch complements another cell from scratch and is then
    appended to the problem; the complemented cell never is -/
def orphanOps : List Op := [.setGeometry 1 (.compl (.leaf true 0 true none) none), .append .cell 1]

/-- **C16_reverse_refuted** — "exactly the cells whose forward links point at that object" fails for a
    target that is not linked to the problem: the generators search through `self._problem`.  Since the repair
    fccf732 a material / universe / surface a linked cell points at always is linked; what is left is a
    *complemented cell* that is not itself part of the problem (known finding C16-F2a). -/
theorem C16_reverse_refuted :
    ¬ (∀ (st : St) (c d : ObjId), d ∈ st.cells → d ≠ c → c ∈ (st.cellOf d).comps → d ∈ cellsComplementing st c) := by
  intro hall
  have := hall (run (demo false) orphanOps) 0 1 (by decide) (by decide) (by decide)
  revert this
  decide

/-- **C16_reverse_setMaterial** — the repaired setter: assigning a material to a cell that is linked to the
    problem links the material, so its reverse look-up yields the cell at once. -/
theorem C16_reverse_setMaterial (st : St) (c m : ObjId) (hl : (st.cellOf c).link = true) (hc : c ∈ st.cells) :
    c ∈ materialCells (setMaterial st c (some m)).1 m := by
  rw [C16_reverse_material]
  exact ⟨by simp [setMaterial, hl], hc, by simp [setMaterial]⟩

/-- **C16_reverse_partial** — for a linked target the reverse look-up does yield every cell of the problem
    whose forward link points at it. -/
theorem C16_reverse_partial (st : St) (m d : ObjId) (hl : st.mlink m = true) (hd : d ∈ st.cells)
    (hm : (st.cellOf d).mat = some m) : d ∈ materialCells st m := by
  rw [C16_reverse_material]
  exact ⟨hl, hd, hm⟩

example : ∃ (st : St) (m d : ObjId), st.mlink m = true ∧ d ∈ st.cells ∧ (st.cellOf d).mat = some m :=
  ⟨run (demo false) [.append .cell 0, .append .material 1, .setMaterial 0 (some 1)], 1, 0, by decide, by decide, by decide⟩

/-! ## universes -/

/-- **C16_universe_unique** — a cell is in at most one universe's `.cells`. -/
theorem C16_universe_unique (st : St) (u u' d : ObjId) (h : d ∈ universeCells st u) (h' : d ∈ universeCells st u') :
    u = u' := by
  rw [C16_reverse_universe] at h h'
  have := h.2.2.symm.trans h'.2.2
  cases this
  rfl

/-- every cell of the problem has a universe, and that universe is linked to the problem -/
def UnivOK (st : St) : Prop := ∀ d ∈ st.cells, ∃ u, (st.cellOf d).univ = some u ∧ st.ulink u = true

/-- **C16_universe_partial** — under `UnivOK` the `.cells` of the universes partition the cells of the
    problem: every cell is in exactly one. -/
theorem C16_universe_partial (st : St) (h : UnivOK st) (d : ObjId) (hd : d ∈ st.cells) :
    ∃ u, d ∈ universeCells st u ∧ ∀ u', d ∈ universeCells st u' → u' = u := by
  obtain ⟨u, hu, hl⟩ := h d hd
  refine ⟨u, (C16_reverse_universe st u d).mpr ⟨hl, hd, hu⟩, fun u' h' => ?_⟩
  exact C16_universe_unique st u' u d h' ((C16_reverse_universe st u d).mpr ⟨hl, hd, hu⟩)

/-- **C16_universe_refuted** — `UnivOK` is not an invariant of the code: a `Cell()` appended to the problem
    has no universe (known finding C16-F3), and a universe that was never appended to `problem.universes`
    is not linked (known finding C16-F2b). -/
theorem C16_universe_refuted :
    ¬ (∀ (st : St) (ops : List Op), UnivOK st → UnivOK (run st ops)) := by
  intro hall
  have h := hall (demo false) [.append .cell 0] (by intro d hd; simp [demo, St.blank] at hd)
  obtain ⟨u, hu, _⟩ := h 0 (by decide)
  have hnone : ((run (demo false) [.append .cell 0]).cellOf 0).univ = none := by decide
  rw [hnone] at hu
  cases hu

/-- assigning a universe to a cell keeps `UnivOK` when the universe is linked or — repaired setter — the cell
    is (the universe is linked by the assignment): `claim` on the cells of a problem can no longer break it -/
theorem C16_universe_setUniverse (st : St) (c u : ObjId) (h : UnivOK st)
    (hl : st.ulink u = true ∨ (st.cellOf c).link = true) : UnivOK (setUniverse st c u).1 := by
  intro d hd
  simp only [setUniverse] at hd ⊢
  by_cases hdc : d = c
  · subst hdc
    refine ⟨u, by simp, ?_⟩
    rcases hl with hl | hl <;> simp [hl]
  · obtain ⟨u', hu', hl'⟩ := h d hd
    refine ⟨u', by simpa [hdc] using hu', ?_⟩
    show (if ((st.cellOf c).link && u == u') = true then true else st.ulink u') = true
    split
    · rfl
    · exact hl'

example : UnivOK (run (demo false) [.append .universe 3, .append .cell 0, .setUniverse 0 3]) := by
  intro d hd
  have hcells : (run (demo false) [.append .universe 3, .append .cell 0, .setUniverse 0 3]).cells = [0] := by decide
  have : d = 0 := by rw [hcells] at hd; simpa using hd
  rw [this]
  exact ⟨3, by decide, by decide⟩

/-! ## members of the problem's collections are linked to the problem -/

/-- every member of `problem.cells / surfaces / materials / universes / transforms` has `_problem` set -/
def InvLinked (st : St) : Prop := ∀ k o, o ∈ st.members k → st.linked k o = true

theorem InvLinked.ext {st st' : St} (h : InvLinked st) (e : LinkExt st st') : InvLinked st' := by
  intro k o ho
  rw [e.members k] at ho
  exact e.linked k o (h k o ho)

theorem setLinked_linked (st : St) (k : Kind) (o : ObjId) : (st.setLinked k o).linked k o = true := by
  cases k <;> simp [St.setLinked, St.linkCell, St.linked, upd]

theorem setLinked_mono (st : St) (k k' : Kind) (o x : ObjId) (h : st.linked k' x = true) :
    (st.setLinked k o).linked k' x = true := by
  cases k
  · exact (linkCell_ext st o).linked k' x h
  all_goals
    cases k' <;> simp only [St.setLinked, St.linked, upd] at h ⊢ <;>
      first | exact h | (split <;> first | rfl | exact h)

theorem setLinked_members (st : St) (k k' : Kind) (o : ObjId) : (st.setLinked k o).members k' = st.members k' := by
  cases k <;> cases k' <;> rfl

theorem setMembers_members (st : St) (k k' : Kind) (l : List ObjId) :
    (st.setMembers k l).members k' = if k' = k then l else st.members k' := by
  cases k <;> cases k' <;> rfl

theorem setMembers_linked (st : St) (k k' : Kind) (l : List ObjId) (o : ObjId) :
    (st.setMembers k l).linked k' o = st.linked k' o := by
  cases k <;> cases k' <;> rfl

theorem setNum_members (st : St) (k k' : Kind) (o : ObjId) (n : Int) : (st.setNum k o n).members k' = st.members k' := by
  cases k <;> cases k' <;> rfl

theorem setNum_linked (st : St) (k k' : Kind) (o x : ObjId) (n : Int) : (st.setNum k o n).linked k' x = st.linked k' x := by
  cases k <;> cases k' <;> rfl

theorem linkExt_foldl {α : Type} (f : St → α → St) (hf : ∀ s x, LinkExt s (f s x)) :
    ∀ (l : List α) (st : St), LinkExt st (l.foldl f st) := by
  intro l
  induction l with
  | nil => intro st; exact LinkExt.refl st
  | cons a t ih => intro st; exact (hf st a).trans (ih (f st a))

theorem mem_insertByNum (num : ObjId → Int) (o x : ObjId) : ∀ l, x ∈ insertByNum num o l ↔ x = o ∨ x ∈ l := by
  intro l
  induction l with
  | nil => simp [insertByNum]
  | cons a t ih =>
    simp only [insertByNum]
    split
    · simp
    · simp only [List.mem_cons, ih]
      constructor
      · rintro (h | h | h)
        · exact Or.inr (Or.inl h)
        · exact Or.inl h
        · exact Or.inr (Or.inr h)
      · rintro (h | h | h)
        · exact Or.inr (Or.inl h)
        · exact Or.inl h
        · exact Or.inr (Or.inr h)

theorem mem_sortByNum (num : ObjId → Int) (x : ObjId) : ∀ l, x ∈ sortByNum num l ↔ x ∈ l := by
  intro l
  induction l with
  | nil => simp [sortByNum]
  | cons a t ih =>
    have : sortByNum num (a :: t) = insertByNum num a (sortByNum num t) := rfl
    rw [this, mem_insertByNum, ih]
    simp

theorem setMaterial_linkExt (st : St) (c : ObjId) (m : Option ObjId) : LinkExt st (setMaterial st c m).1 := by
  refine (linkExt_updCell st c (fun cs => { cs with mat := m }) (fun x => x)).trans
    ⟨fun k => by cases k <;> rfl, fun k o h => ?_⟩
  cases k
  · exact h
  · exact h
  · show (if ((st.cellOf c).link && m == some o) = true then true else st.mlink o) = true
    split
    · rfl
    · exact h
  · exact h
  · exact h

theorem setUniverse_linkExt (st : St) (c u : ObjId) : LinkExt st (setUniverse st c u).1 := by
  refine (linkExt_updCell st c (fun cs => { cs with univ := some u }) (fun x => x)).trans
    ⟨fun k => by cases k <;> rfl, fun k o h => ?_⟩
  cases k
  · exact h
  · exact h
  · exact h
  · show (if ((st.cellOf c).link && u == o) = true then true else st.ulink o) = true
    split
    · rfl
    · exact h
  · exact h

theorem setGeometry_linkExt (st : St) (c : ObjId) (g : HS) : LinkExt st (setGeometry st c g).1 := by
  simp only [setGeometry]
  have hs := (addChildren_spec st c g).1
  generalize addChildren st c g = r at hs ⊢
  obtain ⟨st1, e⟩ := r
  cases e with
  | some err => exact hs.linkExt
  | none =>
    dsimp only at hs ⊢
    exact hs.linkExt.trans (linkExt_updCell st1 c _ (fun x => x))

theorem setGeometry_pExt (st : St) (c : ObjId) (g : HS) : PExt st (setGeometry st c g).1 := by
  simp only [setGeometry]
  have hs := (addChildren_spec st c g).1
  generalize addChildren st c g = r at hs ⊢
  obtain ⟨st1, e⟩ := r
  cases e with
  | some err => exact hs.pExt
  | none =>
    dsimp only at hs ⊢
    exact hs.pExt.trans (pExt_updGeom st1 c _)

/-- the five geometry edits only register dividers and store geometries -/
theorem geo_pExt (st : St) (op : Op)
    (hop : match op with
      | .setGeometry .. | .iopCell .. | .iopAlias .. | .setDivider .. | .setChild .. => True
      | _ => False) : PExt st (step st op).1 := by
  cases op with
  | setGeometry c g => exact setGeometry_pExt st c g
  | iopCell u c other =>
    simp only [step, iopCell]
    split
    · exact PExt.refl st
    · rename_i g hg
      have hs := iop_pExt u other g st
      generalize iop u st g other = res at hs ⊢
      obtain ⟨⟨st1, e1⟩, g1, ret⟩ := res
      cases e1 with
      | some err => (try dsimp only at *); exact hs.trans (pExt_updGeom st1 c _)
      | none =>
        dsimp only at hs ⊢
        exact (hs.trans (pExt_updGeom st1 c _)).trans (setGeometry_pExt _ c _)
  | iopAlias u c other =>
    simp only [step, iopAlias]
    split
    · exact PExt.refl st
    · rename_i g hg
      have hs := iop_pExt u other g st
      generalize iop u st g other = res at hs ⊢
      obtain ⟨⟨st1, e1⟩, g1, ret⟩ := res
      (try dsimp only at *); exact hs.trans (pExt_updGeom st1 c _)
  | setDivider c path ic d =>
    simp only [step, setDivider]
    split
    · exact PExt.refl st
    · split
      · rename_i ic0 d0 side p hget
        split
        · exact PExt.refl st
        · have hr : PExt st (registerDivider st p ic0 d).1 := by
            unfold registerDivider
            cases p with
            | none => exact PExt.refl st
            | some c' =>
              simp only
              split
              · split
                · exact PExt.refl st
                · exact (cellCompAppend_spec st c' d).1.pExt
              · split
                · exact PExt.refl st
                · exact (cellSurfAppend_spec st c' d).1.pExt
          generalize registerDivider st p ic0 d = r at hr ⊢
          obtain ⟨st1, e1⟩ := r
          cases e1 with
          | some err => (try dsimp only at *); exact hr
          | none =>
            simp only [replaceDivider]
            split
            · (try dsimp only at *); exact hr.trans (pExt_updGeom st1 c _)
            · (try dsimp only at *); exact hr
      · exact PExt.refl st
  | setChild c path right new =>
    simp only [step, setChild]
    have hlc : ∀ p, PExt st (linkChild st p new).1.1 := by
      intro p
      cases p with
      | none => exact PExt.refl st
      | some c' => exact (linkChild_spec st c' new).1.pExt
    split
    · exact PExt.refl st
    · split
      · rename_i u l r p hget
        have := hlc p
        generalize linkChild st p new = lres at this ⊢
        obtain ⟨⟨st1, e1⟩, n'⟩ := lres
        cases e1 with
        | some err => (try dsimp only at *); exact this
        | none => (try dsimp only at *); exact this.trans (pExt_updGeom st1 c _)
      · rename_i l p hget
        split
        · exact PExt.refl st
        · have := hlc p
          generalize linkChild st p new = lres at this ⊢
          obtain ⟨⟨st1, e1⟩, n'⟩ := lres
          cases e1 with
          | some err => (try dsimp only at *); exact this
          | none => (try dsimp only at *); exact this.trans (pExt_updGeom st1 c _)
      · exact PExt.refl st
  | reupdate => exact hop.elim
  | setMaterial c m => exact hop.elim
  | setUniverse c u => exact hop.elim
  | claim u cs => exact hop.elim
  | setFill c u => exact hop.elim
  | setNumber k o n => exact hop.elim
  | append k o => exact hop.elim
  | remove k o => exact hop.elim
  | extend k os => exact hop.elim
  | appendRenumber k o => exact hop.elim
  | setMaterials ms => exact hop.elim
  | setCells cs => exact hop.elim
  | addCellChildren => exact hop.elim

theorem collAppend_linked (st : St) (k : Kind) (o : ObjId) (h : InvLinked st) : InvLinked (collAppend st k o).1 := by
  unfold collAppend
  split
  · exact h
  · intro k' x hx
    rw [setLinked_members, setMembers_members] at hx
    split at hx
    · subst_vars
      rcases List.mem_append.mp hx with hm | hm
      · exact setLinked_mono _ _ _ _ _ (by rw [setMembers_linked]; exact h _ x hm)
      · simp only [List.mem_singleton] at hm
        subst hm
        exact setLinked_linked _ _ _
    · exact setLinked_mono _ _ _ _ _ (by rw [setMembers_linked]; exact h _ x hx)

theorem setLinked_invLinked (st : St) (k : Kind) (o : ObjId) (h : InvLinked st) : InvLinked (st.setLinked k o) := by
  intro k' x hx
  rw [setLinked_members] at hx
  exact setLinked_mono _ _ _ _ _ (h k' x hx)

theorem setNum_invLinked (st : St) (k : Kind) (o : ObjId) (n : Int) (h : InvLinked st) : InvLinked (st.setNum k o n) := by
  intro k' x hx
  rw [setNum_members] at hx
  rw [setNum_linked]
  exact h k' x hx

/-- folding `link_to_problem` over a list of objects of one class: members untouched, links only set, every
    listed object linked -/
theorem setLinkedFold_spec (k : Kind) : ∀ (l : List ObjId) (s : St),
    (∀ k', (l.foldl (fun s o => s.setLinked k o) s).members k' = s.members k') ∧
    (∀ k' x, s.linked k' x = true → (l.foldl (fun s o => s.setLinked k o) s).linked k' x = true) ∧
    (∀ x ∈ l, (l.foldl (fun s o => s.setLinked k o) s).linked k x = true) := by
  intro l
  induction l with
  | nil => intro s; exact ⟨fun _ => rfl, fun _ _ hx => hx, fun x hx => by cases hx⟩
  | cons a t ih =>
    intro s
    obtain ⟨h1, h2, h3⟩ := ih (s.setLinked k a)
    refine ⟨fun k' => (h1 k').trans (setLinked_members s k k' a),
      fun k' x hx => h2 k' x (setLinked_mono s k k' a x hx), fun x hx => ?_⟩
    rcases List.mem_cons.mp hx with rfl | ht
    · exact h2 k _ (setLinked_linked s k _)
    · exact h3 x ht

/-- **C16_linked_step** — every edit keeps "members are linked", also when it raises: collection
    insertion links the new member, the repaired `materials` setter and `add_cell_children_to_problem` link
    every member of the collections they install, nothing ever clears a `_problem` pointer. -/
theorem C16_linked_step (st : St) (op : Op) (h : InvLinked st) : InvLinked (step st op).1 := by
  cases op with
  | reupdate => exact h
  | setGeometry c g => exact h.ext (setGeometry_linkExt st c g)
  | iopCell u c other =>
    simp only [step, iopCell]
    split
    · exact h
    · rename_i g hg
      have hs := iop_linkExt u other g st
      generalize iop u st g other = res at hs ⊢
      obtain ⟨⟨st1, e1⟩, g1, ret⟩ := res
      cases e1 with
      | some err => (try dsimp only at *); exact h.ext (hs.trans (linkExt_updCell st1 c _ (fun x => x)))
      | none =>
        dsimp only at hs ⊢
        have h2 : InvLinked (st1.updCell c (fun cs => { cs with geom := some g1 })) :=
          h.ext (hs.trans (linkExt_updCell st1 c _ (fun x => x)))
        exact h2.ext (setGeometry_linkExt _ c _)
  | iopAlias u c other =>
    simp only [step, iopAlias]
    split
    · exact h
    · rename_i g hg
      have hs := iop_linkExt u other g st
      generalize iop u st g other = res at hs ⊢
      obtain ⟨⟨st1, e1⟩, g1, ret⟩ := res
      (try dsimp only at *); exact h.ext (hs.trans (linkExt_updCell st1 c _ (fun x => x)))
  | setDivider c path ic d =>
    simp only [step, setDivider]
    split
    · exact h
    · split
      · rename_i ic0 d0 side p hget
        split
        · exact h
        · have hr : LinkExt st (registerDivider st p ic0 d).1 := by
            unfold registerDivider
            cases p with
            | none => exact LinkExt.refl st
            | some c' =>
              simp only
              split
              · split
                · exact LinkExt.refl st
                · exact (cellCompAppend_spec st c' d).1.linkExt
              · split
                · exact LinkExt.refl st
                · exact (cellSurfAppend_spec st c' d).1.linkExt
          generalize registerDivider st p ic0 d = r at hr ⊢
          obtain ⟨st1, e1⟩ := r
          cases e1 with
          | some err => (try dsimp only at *); exact h.ext hr
          | none =>
            simp only [replaceDivider]
            split
            · (try dsimp only at *); exact h.ext (hr.trans (linkExt_updCell st1 c _ (fun x => x)))
            · (try dsimp only at *); exact h.ext hr
      · exact h
  | setChild c path right new =>
    simp only [step, setChild]
    have hlc : ∀ p, LinkExt st (linkChild st p new).1.1 := by
      intro p
      cases p with
      | none => exact LinkExt.refl st
      | some c' => exact (linkChild_spec st c' new).1.linkExt
    split
    · exact h
    · split
      · rename_i u l r p hget
        have := hlc p
        generalize linkChild st p new = lres at this ⊢
        obtain ⟨⟨st1, e1⟩, n'⟩ := lres
        cases e1 with
        | some err => (try dsimp only at *); exact h.ext this
        | none => (try dsimp only at *); exact h.ext (this.trans (linkExt_updCell st1 c _ (fun x => x)))
      · rename_i l p hget
        split
        · exact h
        · have := hlc p
          generalize linkChild st p new = lres at this ⊢
          obtain ⟨⟨st1, e1⟩, n'⟩ := lres
          cases e1 with
          | some err => (try dsimp only at *); exact h.ext this
          | none => (try dsimp only at *); exact h.ext (this.trans (linkExt_updCell st1 c _ (fun x => x)))
      · exact h
  | setMaterial c m => exact h.ext (setMaterial_linkExt st c m)
  | setUniverse c u => exact h.ext (setUniverse_linkExt st c u)
  | claim u cs =>
    simp only [step, claim]
    split
    · (try dsimp only at *); exact h.ext (linkExt_foldl (fun s c => (setUniverse s c u).1)
        (fun s x => setUniverse_linkExt s x u) cs st)
    · exact h
  | setFill c u => simp only [step, setFill]; exact h.ext (linkExt_updCell st c _ (fun x => x))
  | setNumber k o n =>
    simp only [step, setNumber]
    split
    · exact h
    · split
      · exact h
      · intro k' x hx
        rw [setNum_members] at hx
        rw [setNum_linked]
        exact h k' x hx
  | append k o =>
    simp only [step, collAppend]
    split
    · exact h
    · intro k' x hx
      rw [setLinked_members, setMembers_members] at hx
      split at hx
      · subst_vars
        rcases List.mem_append.mp hx with hm | hm
        · exact setLinked_mono _ _ _ _ _ (by rw [setMembers_linked]; exact h _ x hm)
        · simp only [List.mem_singleton] at hm
          subst hm
          exact setLinked_linked _ _ _
      · exact setLinked_mono _ _ _ _ _ (by rw [setMembers_linked]; exact h _ x hx)
  | remove k o =>
    simp only [step, collRemove]
    split
    · exact h
    · intro k' x hx
      rw [setMembers_members] at hx
      rw [setMembers_linked]
      split at hx
      · subst_vars; exact h _ x (List.mem_of_mem_erase hx)
      · exact h k' x hx
  | extend k os =>
    simp only [step, collExtend]
    split
    · obtain ⟨h1, h2, h3⟩ := setLinkedFold_spec k os (st.setMembers k (st.members k ++ os))
      intro k' x hx
      rw [h1 k', setMembers_members] at hx
      split at hx
      · subst_vars
        rcases List.mem_append.mp hx with hm | hm
        · exact h2 _ x (by rw [setMembers_linked]; exact h _ x hm)
        · exact h3 x hm
      · exact h2 k' x (by rw [setMembers_linked]; exact h k' x hx)
    · exact h
  | appendRenumber k o =>
    simp only [step, appendRenumber]
    split
    · exact h
    · try dsimp only
      have h1 := setLinked_invLinked st k o h
      split
      · split
        · exact h1
        · exact collAppend_linked _ k o (setNum_invLinked _ k o _ h1)
      · exact collAppend_linked _ k o h1
  | setMaterials ms =>
    simp only [step, setMaterials]
    split
    · intro k' x hx
      cases k'
      · exact h .cell x hx
      · exact h .surface x hx
      · simp only [St.members] at hx
        simp only [St.linked]
        simp [hx]
      · exact h .universe x hx
      · exact h .transform x hx
    · exact h
  | setCells cs =>
    simp only [step, setCells]
    split
    · -- every listed cell is linked by the fold; the other collections and links are untouched
      have key : ∀ (l : List ObjId) (s : St),
          (l.foldl (fun s c => s.setLinked .cell c) s).members = s.members ∧
          (∀ k' x, s.linked k' x = true → (l.foldl (fun s c => s.setLinked .cell c) s).linked k' x = true) ∧
          (∀ x ∈ l, (l.foldl (fun s c => s.setLinked .cell c) s).linked .cell x = true) := by
        intro l
        induction l with
        | nil => intro s; exact ⟨rfl, fun _ _ hx => hx, fun x hx => by cases hx⟩
        | cons a t ih =>
          intro s
          obtain ⟨h1, h2, h3⟩ := ih (s.setLinked .cell a)
          refine ⟨h1.trans (funext fun k' => setLinked_members s .cell k' a),
            fun k' x hx => h2 k' x (setLinked_mono s .cell k' a x hx), fun x hx => ?_⟩
          rcases List.mem_cons.mp hx with rfl | ht
          · exact h2 .cell _ (setLinked_linked s .cell _)
          · exact h3 x ht
      obtain ⟨h1, h2, h3⟩ := key cs { st with cells := cs }
      intro k' x hx
      rw [h1] at hx
      cases k'
      · exact h3 x hx
      · exact h2 .surface x (h .surface x hx)
      · exact h2 .material x (h .material x hx)
      · exact h2 .universe x (h .universe x hx)
      · exact h2 .transform x (h .transform x hx)
    · exact h
  | addCellChildren =>
    simp only [step, addCellChildren]
    split
    · exact h
    · intro k' x hx
      cases k'
      · exact h .cell x hx
      · simp only [St.members, mem_sortByNum] at hx
        simp only [St.linked]
        simp [hx]
      · simp only [St.members, mem_sortByNum] at hx
        simp only [St.linked]
        simp [hx]
      · exact h .universe x hx
      · simp only [St.members, mem_sortByNum] at hx
        simp only [St.linked]
        simp [hx]

/-- **C16_linked** — over every history of edits, from the empty problem (or any state in which the members
    are linked, e.g. the one `load` produces, whose every insertion goes through `collAppend`). -/
theorem C16_linked (ops : List Op) : ∀ (st : St), InvLinked st → InvLinked (run st ops) := by
  induction ops with
  | nil => intro st h; exact h
  | cons op t ih =>
    intro st h
    exact ih (step st op).1 (C16_linked_step st op h)

theorem C16_linked_blank (cnum snum mnum unum tnum : ObjId → Int)
    (strans : ObjId → Option ObjId) (other : Kind → ObjId → Bool) :
    InvLinked (St.blank cnum snum mnum unum tnum strans other) := by
  intro k o ho
  cases k <;> simp [St.blank, St.members] at ho

/-- non-vacuity: a history that inserts, rebuilds the collections and inserts again ends with linked members -/
example : (run (demo false) [.append .cell 0, .setGeometry 0 (.leaf false 1 true none), .addCellChildren,
    .append .surface 2]).surfaces = [1, 2] ∧
    (run (demo false) [.append .cell 0, .setGeometry 0 (.leaf false 1 true none), .addCellChildren,
    .append .surface 2]).slink 2 = true := by decide

/-! ## directly after reading -/

/-- **C16_load** — after the model's `load` (every input appended to its collection, then
    `Cells.update_pointers`, then the universe and fill cards pushed to the cells), for every cell of the file the
    containers hold *exactly* the dividers of the geometry: `leaves (c.geometry) = c.surfaces ∪ c.complements`
    as sets of objects, and every node of the geometry points at the cell.  `UniqS st`: the problem read into
    has no two surfaces with one number (the blank pool: none at all). -/
theorem C16_load (st : St) (pcs : List PCell) (nS nM nT : Nat) (nextU : ObjId) (hu : UniqS st)
    (h : (load st pcs nS nM nT nextU).1.2 = none) :
    ∀ c, c < pcs.length → Exact (load st pcs nS nM nT nextU).1.1 c := by
  unfold load at h ⊢
  dsimp only at h ⊢
  have u1 := appendAll_uniq .cell (List.range pcs.length) st hu
  generalize appendAll .cell (List.range pcs.length) st = r1 at u1 h ⊢
  obtain ⟨st1, e1⟩ := r1
  cases e1 with
  | some err => cases h
  | none =>
    dsimp only at u1 h ⊢
    have u2 := appendAll_uniq .surface (List.range nS) st1 u1
    generalize appendAll .surface (List.range nS) st1 = r2 at u2 h ⊢
    obtain ⟨st2, e2⟩ := r2
    cases e2 with
    | some err => cases h
    | none =>
      dsimp only at u2 h ⊢
      have u3 := appendAll_uniq .material (List.range nM) st2 u2
      generalize appendAll .material (List.range nM) st2 = r3 at u3 h ⊢
      obtain ⟨st3, e3⟩ := r3
      cases e3 with
      | some err => cases h
      | none =>
        dsimp only at u3 h ⊢
        have u4 := appendAll_uniq .transform (List.range nT) st3 u3
        generalize appendAll .transform (List.range nT) st3 = r4 at u4 h ⊢
        obtain ⟨st4, e4⟩ := r4
        cases e4 with
        | some err => cases h
        | none =>
          dsimp only at u4 h ⊢
          have u5 : UniqS { st4 with dataM := List.range nM, dataT := List.range nT } := u4
          have hids : (((List.range pcs.length).zip pcs).map Prod.fst) = List.range pcs.length :=
            List.map_fst_zip (by simp)
          generalize hup : updateAllCells ((List.range pcs.length).zip pcs)
            { st4 with dataM := List.range nM, dataT := List.range nT } = r5 at h ⊢
          obtain ⟨st6, e6⟩ := r5
          cases e6 with
          | some err => cases h
          | none =>
            dsimp only at h ⊢
            have hsp := updateAllCells_spec _ _ st6 hup u5 (by rw [hids]; exact List.nodup_range)
            intro c hc
            have hcm : c ∈ ((List.range pcs.length).zip pcs).map Prod.fst := by
              rw [hids]; exact List.mem_range.mpr hc
            obtain ⟨p, hp, hpc⟩ := List.mem_map.mp hcm
            have hex := hsp.2.2 p hp
            rw [hpc] at hex
            have s1 := pushUniverses_same ((List.range pcs.length).zip pcs) st6 nextU
            have s2 := pushFills_same ((List.range pcs.length).zip pcs)
              (pushUniverses ((List.range pcs.length).zip pcs) st6 nextU).1
            exact hex.of_eq ((s1.trans s2) c)

/-- the containment invariant holds for the cells of the file directly after reading -/
theorem C16_load_contain (st : St) (pcs : List PCell) (nS nM nT : Nat) (nextU : ObjId) (hu : UniqS st)
    (h : (load st pcs nS nM nT nextU).1.2 = none) (c : ObjId) (hc : c < pcs.length) :
    Contain (load st pcs nS nM nT nextU).1.1 c := by
  obtain ⟨g, hg, ha, hs, hcm⟩ := C16_load st pcs nS nM nT nextU hu h c hc
  intro g' hg'
  rw [hg] at hg'
  cases hg'
  exact ⟨ha, fun s hs' => (hs s).mpr hs', fun d hd => (hcm d).mpr hd⟩

/-- non-vacuity: a two-cell file (`1 0 -1 2`, `2 0 #1 1`) loads, cell 1 shares a surface and complements cell 0 -/
def demoFile : List PCell :=
  [{ num := 1, mat := 0, geom := .bin false (.leaf false 1 false) (.leaf false 2 true), univ := none, fill := none },
   { num := 2, mat := 0, geom := .bin false (.compl (.leaf true 1 true)) (.bin false (.leaf false 1 true) (.leaf false 1 true)),
     univ := some 5, fill := none }]

example : (load (demo false) demoFile 2 0 0 0).1.2 = none ∧
    ((load (demo false) demoFile 2 0 0 0).1.1.cellOf 1).surfs = [0] ∧
    ((load (demo false) demoFile 2 0 0 0).1.1.cellOf 1).comps = [0] := by decide

example : UniqS (demo false) := by simp [UniqS, demo, St.blank]

/-! ## after `add_cell_children_to_problem` -/

theorem setAdd_fold_spec (eq : ObjId → ObjId → Bool) (hrefl : ∀ o, eq o o = true) : ∀ (l acc : List ObjId),
    (∀ x ∈ acc, x ∈ l.foldl (setAdd eq) acc) ∧ (∀ o ∈ l, ∃ x ∈ l.foldl (setAdd eq) acc, eq o x = true) := by
  intro l
  induction l with
  | nil => intro acc; exact ⟨fun _ h => h, fun o ho => by cases ho⟩
  | cons a t ih =>
    intro acc
    simp only [List.foldl_cons]
    obtain ⟨h1, h2⟩ := ih (setAdd eq acc a)
    have hsub : ∀ x ∈ acc, x ∈ setAdd eq acc a := by
      intro x hx; unfold setAdd; split
      · exact hx
      · exact List.mem_append_left _ hx
    refine ⟨fun x hx => h1 x (hsub x hx), fun o ho => ?_⟩
    rcases List.mem_cons.mp ho with rfl | ht
    · by_cases hany : (acc.any fun x => eq o x) = true
      · have hany' := hany
        rw [List.any_eq_true] at hany'
        obtain ⟨x, hx, he⟩ := hany'
        exact ⟨x, h1 x (hsub x hx), he⟩
      · have : o ∈ setAdd eq acc o := by unfold setAdd; rw [if_neg hany]; simp
        exact ⟨o, h1 o this, hrefl o⟩
    · exact h2 o ht

theorem collect_spec (eq : ObjId → ObjId → Bool) (hrefl : ∀ o, eq o o = true) (items : ObjId → List ObjId) :
    ∀ (cells acc : List ObjId),
    (∀ x ∈ acc, x ∈ collect eq items cells acc) ∧
    (∀ c ∈ cells, ∀ o ∈ items c, ∃ x ∈ collect eq items cells acc, eq o x = true) := by
  intro cells
  induction cells with
  | nil => intro acc; exact ⟨fun _ h => h, fun c hc => by cases hc⟩
  | cons a t ih =>
    intro acc
    unfold collect
    simp only [List.foldl_cons]
    obtain ⟨h1, h2⟩ := ih ((items a).foldl (setAdd eq) acc)
    unfold collect at h1 h2
    have hf := setAdd_fold_spec eq hrefl (items a) acc
    refine ⟨fun x hx => h1 x (hf.1 x hx), fun c hc o ho => ?_⟩
    rcases List.mem_cons.mp hc with rfl | ht
    · obtain ⟨x, hx, he⟩ := hf.2 o ho
      exact ⟨x, h1 x hx, he⟩
    · exact h2 c ht o ho

/-- **C16_children** — after a successful `add_cell_children_to_problem`, for every cell of the problem: every
    surface in `cell.surfaces` is a member of `problem.surfaces` (what `write_to_file` iterates for the surface
    block) and is linked; the transform of such a surface is a member of `problem.transforms`, is in
    `data_inputs` (what `write_to_file` iterates for the data block) and is linked; the cell's material is a member
    of `problem.materials`, is in `data_inputs` and is linked.  Object identity throughout, no side condition
    (repaired code: collected by identity; two objects with one number make the call raise, `C16_children_conflict`). -/
theorem C16_children (st : St) (hok : (addCellChildren st).2 = none) (c : ObjId) (hc : c ∈ st.cells) :
    c ∈ (addCellChildren st).1.cells ∧
    (∀ s ∈ ((addCellChildren st).1.cellOf c).surfs,
      s ∈ (addCellChildren st).1.surfaces ∧ (addCellChildren st).1.slink s = true ∧
      ∀ t, st.strans s = some t → t ∈ (addCellChildren st).1.transforms ∧ t ∈ (addCellChildren st).1.dataT ∧
        (addCellChildren st).1.tlink t = true) ∧
    (∀ m, ((addCellChildren st).1.cellOf c).mat = some m →
      m ∈ (addCellChildren st).1.materials ∧ m ∈ (addCellChildren st).1.dataM ∧
      (addCellChildren st).1.mlink m = true) := by
  unfold addCellChildren at hok ⊢
  dsimp only at hok ⊢
  split at hok
  · cases hok
  · rename_i hcond
    rw [if_neg hcond]
    dsimp only
    have hid : ∀ o : ObjId, (fun x y : ObjId => x == y) o o = true := fun o => by simp
    have hS := (collect_spec (fun x y => x == y) hid (fun c => (st.cellOf c).surfs) st.cells st.surfaces).2 c hc
    have hT := (collect_spec (fun x y => x == y) hid
      (fun c => (st.cellOf c).surfs.filterMap st.strans) st.cells st.transforms).2 c hc
    have hM := (collect_spec (fun x y => x == y) hid (fun c => (st.cellOf c).mat.toList) st.cells st.materials).2 c hc
    refine ⟨hc, fun s hsm => ?_, fun m hmat => ?_⟩
    · obtain ⟨x, hx, he⟩ := hS s hsm
      have hxe : s = x := by simpa using he
      subst hxe
      refine ⟨(mem_sortByNum _ _ _).mpr hx, by simp [hx], fun t ht => ?_⟩
      obtain ⟨y, hy, hey⟩ := hT t (List.mem_filterMap.mpr ⟨s, hsm, ht⟩)
      have : t = y := by simpa using hey
      subst this
      refine ⟨(mem_sortByNum _ _ _).mpr hy, ?_, by simp [hy]⟩
      obtain ⟨z, hz, hez⟩ := (setAdd_fold_spec (fun x y => x == y) hid _ st.dataT).2 t hy
      have : t = z := by simpa using hez
      subst this
      exact hz
    · obtain ⟨x, hx, he⟩ := hM m (by simp [hmat])
      have hxe : m = x := by simpa using he
      subst hxe
      refine ⟨(mem_sortByNum _ _ _).mpr hx, ?_, by simp [hx]⟩
      obtain ⟨z, hz, hez⟩ := (setAdd_fold_spec (fun x y => x == y) hid _ st.dataM).2 m hx
      have : m = z := by simpa using hez
      subst this
      exact hz

/-- … and against the forward links of the *geometry* (with the containment invariant): every surface the
    geometry of a cell of the problem uses is a member of `problem.surfaces` and linked afterwards. -/
theorem C16_children_geometry (st : St) (hok : (addCellChildren st).2 = none) (hi : InvContain st)
    (c : ObjId) (hc : c ∈ st.cells) (g : HS)
    (hg : (st.cellOf c).geom = some g) (s : ObjId) (hsg : s ∈ g.surfs) :
    s ∈ (addCellChildren st).1.surfaces ∧ (addCellChildren st).1.slink s = true := by
  have hsame := same_step st .addCellChildren trivial
  have h := (C16_children st hok c hc).2.1 s (by
    have : ((addCellChildren st).1.cellOf c).surfs = (st.cellOf c).surfs := (hsame c).2.1
    rw [this]; exact (hi c g hg).2.1 s hsg)
  exact ⟨h.1, h.2.1⟩

/-- a refused rebuild (two different objects with one number) changes nothing -/
theorem C16_children_conflict (st : St) (h : (addCellChildren st).2 ≠ none) : (addCellChildren st).1 = st := by
  unfold addCellChildren at h ⊢
  dsimp only at h ⊢
  split
  · rfl
  · rename_i hc; rw [if_neg hc] at h; exact absurd rfl h

/-- non-vacuity: a cell from scratch with a new surface and a new material; afterwards both are members,
    linked, and the material is in `data_inputs` -/
example :
    let st := run (demo false) [.append .cell 0, .setGeometry 0 (.leaf false 1 true none), .setMaterial 0 (some 2)]
    (addCellChildren st).2 = none ∧ (addCellChildren st).1.surfaces = [1] ∧ (addCellChildren st).1.dataM = [2] ∧
    (addCellChildren st).1.slink 1 = true ∧ (addCellChildren st).1.mlink 2 = true := by decide

/-! ## the whole-history invariant -/

/-- what cell `d` points at is linked to the problem: its containers' collections, every surface it holds,
    its material, its universe -/
def GoodCell (st : St) (d : ObjId) : Prop :=
  (st.cellOf d).contLinked = true ∧ (∀ s ∈ (st.cellOf d).surfs, st.slink s = true) ∧
  (∀ m, (st.cellOf d).mat = some m → st.mlink m = true) ∧ (∀ u, (st.cellOf d).univ = some u → st.ulink u = true)

/-- the invariant of every reachable state: containment for every cell object, members of the five collections
    linked, and whatever a cell *of the problem* points at linked (so that the reverse look-ups see the cell) -/
structure Reach (st : St) : Prop where
  contain : InvContain st
  linked : InvLinked st
  good : ∀ d ∈ st.cells, GoodCell st d

theorem GoodCell.pExt {st st' : St} {d : ObjId} (h : GoodCell st d) (e : PExt st st') : GoodCell st' d := by
  obtain ⟨hc, hs, hm, hu⟩ := h
  refine ⟨e.cont d hc, fun s hs' => ?_, fun m hm' => ?_, fun u hu' => ?_⟩
  · rcases e.newSurf d s hs' with h1 | h1
    · exact e.linked .surface s (hs s h1)
    · exact h1 hc
  · rw [e.mat d] at hm'; exact e.linked .material m (hm m hm')
  · rw [e.univ d] at hu'; exact e.linked .universe u (hu u hu')

theorem GoodCell.mono {st st' : St} {d : ObjId} (h : GoodCell st d)
    (hcell : (st'.cellOf d).surfs = (st.cellOf d).surfs ∧ (st'.cellOf d).mat = (st.cellOf d).mat ∧
      (st'.cellOf d).univ = (st.cellOf d).univ ∧
      ((st.cellOf d).contLinked = true → (st'.cellOf d).contLinked = true))
    (hs : ∀ x, st.slink x = true → st'.slink x = true) (hm : ∀ x, st.mlink x = true → st'.mlink x = true)
    (hu : ∀ x, st.ulink x = true → st'.ulink x = true) : GoodCell st' d := by
  obtain ⟨h1, h2, h3, h4⟩ := h
  refine ⟨hcell.2.2.2 h1, fun s hs' => ?_, fun m hm' => ?_, fun u hu' => ?_⟩
  · rw [hcell.1] at hs'; exact hs s (h2 s hs')
  · rw [hcell.2.1] at hm'; exact hm m (h3 m hm')
  · rw [hcell.2.2.1] at hu'; exact hu u (h4 u hu')

theorem goodCell_linkCell_self (st : St) (o : ObjId) : GoodCell (st.linkCell o) o := by
  refine ⟨?_, ?_, ?_, ?_⟩
  · simp [St.linkCell]
  · intro s hs
    have : s ∈ (st.cellOf o).surfs := by simpa [St.linkCell] using hs
    simp [St.linkCell, this]
  · intro m hm
    have : (st.cellOf o).mat = some m := by simpa [St.linkCell] using hm
    simp [St.linkCell, this]
  · intro u hu
    have : (st.cellOf o).univ = some u := by simpa [St.linkCell] using hu
    simp [St.linkCell, this]

theorem goodCell_setUniverse (st : St) (c u d : ObjId) (h : GoodCell st d) (hl : d = c → (st.cellOf c).link = true) :
    GoodCell (setUniverse st c u).1 d := by
  obtain ⟨h1, h2, h3, h4⟩ := h
  unfold GoodCell setUniverse
  simp only [updCell_cellOf]
  by_cases hdc : d = c
  · subst hdc
    simp only [if_true]
    refine ⟨h1, h2, h3, fun u' hu' => ?_⟩
    have : u = u' := by simpa using hu'
    subst this
    simp [hl rfl]
  · simp only [hdc, if_false]
    refine ⟨h1, h2, h3, fun u' hu' => ?_⟩
    split
    · rfl
    · exact h4 u' hu'

theorem goodCell_setMaterial (st : St) (c : ObjId) (m : Option ObjId) (d : ObjId) (h : GoodCell st d)
    (hl : d = c → (st.cellOf c).link = true) : GoodCell (setMaterial st c m).1 d := by
  obtain ⟨h1, h2, h3, h4⟩ := h
  unfold GoodCell setMaterial
  simp only [updCell_cellOf]
  by_cases hdc : d = c
  · subst hdc
    simp only [if_true]
    refine ⟨h1, h2, fun m' hm' => ?_, h4⟩
    subst hm'
    simp [hl rfl]
  · simp only [hdc, if_false]
    refine ⟨h1, h2, fun m' hm' => ?_, h4⟩
    split
    · rfl
    · exact h3 m' hm'

theorem reach_setUniverse (st : St) (c u : ObjId) (h : Reach st) : Reach (setUniverse st c u).1 :=
  ⟨h.contain.same (same_setUniverse st c u), h.linked.ext (setUniverse_linkExt st c u),
   fun d hd => goodCell_setUniverse st c u d (h.good d hd) (fun e => by subst e; exact h.linked .cell d hd)⟩

theorem reach_foldl_setUniverse (u : ObjId) : ∀ (cs : List ObjId) (st : St), Reach st →
    Reach (cs.foldl (fun s c => (setUniverse s c u).1) st) := by
  intro cs
  induction cs with
  | nil => intro st h; exact h
  | cons a t ih => intro st h; exact ih _ (reach_setUniverse st a u h)

/-- folding `Cell.link_to_problem` over a list: every listed cell ends up good, nothing else moves -/
theorem linkCells_spec : ∀ (l : List ObjId) (st : St),
    Ext st (l.foldl (fun s c => s.setLinked .cell c) st) ∧
    ∀ d ∈ l, GoodCell (l.foldl (fun s c => s.setLinked .cell c) st) d := by
  intro l
  induction l with
  | nil => intro st; exact ⟨Ext.refl st, fun d hd => by cases hd⟩
  | cons a t ih =>
    intro st
    simp only [List.foldl_cons]
    obtain ⟨e, hg⟩ := ih (st.setLinked .cell a)
    have e0 : Ext st (st.setLinked .cell a) := linkCell_ext st a
    refine ⟨e0.trans e, fun d hd => ?_⟩
    rcases List.mem_cons.mp hd with rfl | ht
    · exact (goodCell_linkCell_self st d).pExt e.pExt
    · exact hg d ht

/-- every cell of the problem is good -/
def GoodAll (st : St) : Prop := ∀ d ∈ st.cells, GoodCell st d

theorem setLinked_good (st : St) (k : Kind) (o : ObjId) (h : GoodAll st) : GoodAll (st.setLinked k o) := by
  cases k
  · intro d hd
    have hd' : d ∈ st.cells := by
      have : (st.setLinked .cell o).cells = st.cells := (linkCell_ext st o).members .cell
      rw [this] at hd; exact hd
    exact (h d hd').pExt (linkCell_ext st o).pExt
  · intro d hd
    exact (h d hd).mono ⟨rfl, rfl, rfl, fun hx => hx⟩
      (fun x hx => by show upd st.slink o true x = true; unfold upd; split <;> first | rfl | exact hx)
      (fun _ hx => hx) (fun _ hx => hx)
  · intro d hd
    exact (h d hd).mono ⟨rfl, rfl, rfl, fun hx => hx⟩ (fun _ hx => hx)
      (fun x hx => by show upd st.mlink o true x = true; unfold upd; split <;> first | rfl | exact hx)
      (fun _ hx => hx)
  · intro d hd
    exact (h d hd).mono ⟨rfl, rfl, rfl, fun hx => hx⟩ (fun _ hx => hx) (fun _ hx => hx)
      (fun x hx => by show upd st.ulink o true x = true; unfold upd; split <;> first | rfl | exact hx)
  · intro d hd
    exact (h d hd).mono ⟨rfl, rfl, rfl, fun hx => hx⟩ (fun _ hx => hx) (fun _ hx => hx) (fun _ hx => hx)

theorem setNum_good (st : St) (k : Kind) (o : ObjId) (n : Int) (h : GoodAll st) : GoodAll (st.setNum k o n) := by
  intro d hd
  have hcells : (st.setNum k o n).cells = st.cells := by cases k <;> rfl
  rw [hcells] at hd
  refine (h d hd).mono ?_ ?_ ?_ ?_
  · cases k <;> exact ⟨rfl, rfl, rfl, fun hx => hx⟩
  all_goals (intro x hx; cases k <;> exact hx)

theorem setLinkedFold_good (k : Kind) : ∀ (l : List ObjId) (s : St), GoodAll s →
    GoodAll (l.foldl (fun s o => s.setLinked k o) s) := by
  intro l
  induction l with
  | nil => intro s h; exact h
  | cons a t ih => intro s h; exact ih _ (setLinked_good s k a h)

/-- a new member through `append`: the old cells stay good; a new *cell* is good because
    `Cell.link_to_problem` links what it already points at -/
theorem collAppend_good (st : St) (k : Kind) (o : ObjId) (h : GoodAll st) : GoodAll (collAppend st k o).1 := by
  unfold collAppend
  split
  · exact h
  · cases k
    · intro d hd
      have e : Ext (st.setMembers .cell (st.members .cell ++ [o])) ((st.setMembers .cell (st.members .cell ++ [o])).setLinked .cell o) :=
        linkCell_ext _ o
      have hd' : d ∈ st.cells ++ [o] := hd
      rcases List.mem_append.mp hd' with hd1 | hd1
      · have hg : GoodCell (st.setMembers .cell (st.members .cell ++ [o])) d := h d hd1
        exact hg.pExt e.pExt
      · simp only [List.mem_singleton] at hd1
        subst hd1
        exact goodCell_linkCell_self _ d
    · exact setLinked_good (st.setMembers .surface _) .surface o h
    · exact setLinked_good (st.setMembers .material _) .material o h
    · exact setLinked_good (st.setMembers .universe _) .universe o h
    · exact setLinked_good (st.setMembers .transform _) .transform o h

theorem collExtend_good (st : St) (k : Kind) (os : List ObjId) (h : GoodAll st) : GoodAll (collExtend st k os).1 := by
  unfold collExtend
  split
  · cases k
    · obtain ⟨e, hg⟩ := linkCells_spec os (st.setMembers .cell (st.members .cell ++ os))
      intro d hd
      have hcells : (os.foldl (fun (s : St) c => s.setLinked .cell c) (st.setMembers .cell (st.members .cell ++ os))).cells
          = st.cells ++ os := e.members .cell
      rw [hcells] at hd
      rcases List.mem_append.mp hd with hd1 | hd1
      · have hg0 : GoodCell (st.setMembers .cell (st.members .cell ++ os)) d := h d hd1
        exact hg0.pExt e.pExt
      · exact hg d hd1
    · exact setLinkedFold_good .surface os (st.setMembers .surface _) h
    · exact setLinkedFold_good .material os (st.setMembers .material _) h
    · exact setLinkedFold_good .universe os (st.setMembers .universe _) h
    · exact setLinkedFold_good .transform os (st.setMembers .transform _) h
  · exact h

/-- **C16_step** — every modelled operation preserves the invariant `Reach`, also when it raises. -/
theorem C16_step (st : St) (op : Op) (h : Reach st) : Reach (step st op).1 := by
  refine ⟨C16_contain_step st op h.contain, C16_linked_step st op h.linked, ?_⟩
  have geo : PExt st (step st op).1 → ∀ d ∈ (step st op).1.cells, GoodCell (step st op).1 d := by
    intro e d hd
    have : (step st op).1.cells = st.cells := e.members .cell
    rw [this] at hd
    exact (h.good d hd).pExt e
  cases op with
  | setGeometry c g => exact geo (geo_pExt st _ trivial)
  | iopCell u c g => exact geo (geo_pExt st _ trivial)
  | iopAlias u c g => exact geo (geo_pExt st _ trivial)
  | setDivider c p ic d => exact geo (geo_pExt st _ trivial)
  | setChild c p r g => exact geo (geo_pExt st _ trivial)
  | reupdate => exact h.good
  | setMaterial c m =>
    intro d hd
    exact goodCell_setMaterial st c m d (h.good d hd) (fun e => by subst e; exact h.linked .cell d hd)
  | setUniverse c u => exact (reach_setUniverse st c u h).good
  | claim u cs =>
    simp only [step, claim]
    split
    · exact (reach_foldl_setUniverse u cs st h).good
    · exact h.good
  | setFill c u =>
    intro d hd
    refine (h.good d hd).mono ?_ (fun _ hx => hx) (fun _ hx => hx) (fun _ hx => hx)
    simp only [step, setFill, updCell_cellOf]
    split <;> (try subst_vars) <;> exact ⟨rfl, rfl, rfl, fun hx => hx⟩
  | setNumber k o n =>
    simp only [step, setNumber]
    split
    · exact h.good
    · split
      · exact h.good
      · intro d hd
        have hcells : (st.setNum k o n).cells = st.cells := by cases k <;> rfl
        rw [hcells] at hd
        refine (h.good d hd).mono ?_ ?_ ?_ ?_
        · cases k <;> exact ⟨rfl, rfl, rfl, fun hx => hx⟩
        all_goals (intro x hx; cases k <;> exact hx)
  | append k o =>
    simp only [step, collAppend]
    split
    · exact h.good
    · cases k
      · intro d hd
        have e : Ext (st.setMembers .cell (st.members .cell ++ [o])) ((st.setMembers .cell (st.members .cell ++ [o])).setLinked .cell o) :=
          linkCell_ext _ o
        have hd' : d ∈ st.cells ++ [o] := hd
        rcases List.mem_append.mp hd' with hd1 | hd1
        · have hg : GoodCell (st.setMembers .cell (st.members .cell ++ [o])) d := h.good d hd1
          exact hg.pExt e.pExt
        · simp only [List.mem_singleton] at hd1
          subst hd1
          exact goodCell_linkCell_self _ d
      · intro d hd
        exact (h.good d hd).mono ⟨rfl, rfl, rfl, fun hx => hx⟩
          (fun x hx => by show upd st.slink o true x = true; unfold upd; split <;> first | rfl | exact hx)
          (fun _ hx => hx) (fun _ hx => hx)
      · intro d hd
        exact (h.good d hd).mono ⟨rfl, rfl, rfl, fun hx => hx⟩ (fun _ hx => hx)
          (fun x hx => by show upd st.mlink o true x = true; unfold upd; split <;> first | rfl | exact hx)
          (fun _ hx => hx)
      · intro d hd
        exact (h.good d hd).mono ⟨rfl, rfl, rfl, fun hx => hx⟩ (fun _ hx => hx) (fun _ hx => hx)
          (fun x hx => by show upd st.ulink o true x = true; unfold upd; split <;> first | rfl | exact hx)
      · intro d hd
        exact (h.good d hd).mono ⟨rfl, rfl, rfl, fun hx => hx⟩ (fun _ hx => hx) (fun _ hx => hx) (fun _ hx => hx)
  | extend k os => exact collExtend_good st k os h.good
  | appendRenumber k o =>
    simp only [step, appendRenumber]
    split
    · exact h.good
    · try dsimp only
      have h1 := setLinked_good st k o h.good
      split
      · split
        · exact h1
        · exact collAppend_good _ k o (setNum_good _ k o _ h1)
      · exact collAppend_good _ k o h1
  | remove k o =>
    simp only [step, collRemove]
    split
    · exact h.good
    · intro d hd
      have hsub : d ∈ st.cells := by
        cases k
        · exact List.mem_of_mem_erase hd
        all_goals exact hd
      refine (h.good d hsub).mono ?_ ?_ ?_ ?_
      · cases k <;> exact ⟨rfl, rfl, rfl, fun hx => hx⟩
      all_goals (intro x hx; cases k <;> exact hx)
  | setMaterials ms =>
    simp only [step, setMaterials]
    split
    · intro d hd
      exact (h.good d hd).mono ⟨rfl, rfl, rfl, fun hx => hx⟩ (fun _ hx => hx)
        (fun x hx => by show (if ms.contains x then true else st.mlink x) = true; split <;> first | rfl | exact hx)
        (fun _ hx => hx)
    · exact h.good
  | setCells cs =>
    simp only [step, setCells]
    split
    · obtain ⟨e, hg⟩ := linkCells_spec cs { st with cells := cs }
      intro d hd
      have hcells : (cs.foldl (fun (s : St) c => s.setLinked .cell c) { st with cells := cs }).cells = cs := e.members .cell
      rw [hcells] at hd
      exact hg d hd
    · exact h.good
  | addCellChildren =>
    simp only [step, addCellChildren]
    split
    · exact h.good
    · intro d hd
      exact (h.good d hd).mono ⟨rfl, rfl, rfl, fun hx => hx⟩
        (fun x hx => by dsimp only; split <;> first | rfl | exact hx)
        (fun x hx => by dsimp only; split <;> first | rfl | exact hx)
        (fun _ hx => hx)

/-- **C16_reachable** — induction over ALL histories of modelled operations, from any state that satisfies
    `Reach`: the empty pool (`C16_reach_blank`) and every state `load` produces (`C16_init`). -/
theorem C16_reachable (ops : List Op) : ∀ (st : St), Reach st → Reach (run st ops) := by
  induction ops with
  | nil => intro st h; exact h
  | cons op t ih => intro st h; exact ih (step st op).1 (C16_step st op h)

theorem C16_reach_blank (cnum snum mnum unum tnum : ObjId → Int) (strans : ObjId → Option ObjId)
    (other : Kind → ObjId → Bool) : Reach (St.blank cnum snum mnum unum tnum strans other) :=
  ⟨C16_contain_blank _ _ _ _ _ _ _, C16_linked_blank _ _ _ _ _ _ _, fun d hd => by simp [St.blank] at hd⟩

/-! ## `load` produces a state that satisfies the invariant -/

/-- "members linked" and "pointees of problem cells linked", the two parts of `Reach` that are carried through
    the stages of `load` (containment comes from `C16_load`) -/
def LG (st : St) : Prop := InvLinked st ∧ ∀ d ∈ st.cells, GoodCell st d

theorem LG.pExt {st st' : St} (h : LG st) (e : PExt st st') : LG st' :=
  ⟨h.1.ext e.toLink, fun d hd => by
    have : st'.cells = st.cells := e.members .cell
    rw [this] at hd
    exact (h.2 d hd).pExt e⟩

theorem updatePointersP_ext (c : ObjId) : ∀ (t : PHS) (st : St), Ext st (updatePointersP c t st).1.1 := by
  intro t
  induction t with
  | leaf ic n side =>
    intro st
    simp only [updatePointersP]
    cases ic with
    | true =>
      simp only [if_true]
      split
      · exact Ext.refl st
      · rename_i d _
        dsimp only
        split
        · exact Ext.refl st
        · exact (cellCompAppend_spec st c d).1
    | false =>
      simp only [Bool.false_eq_true, if_false]
      split
      · exact Ext.refl st
      · rename_i s _
        dsimp only
        split
        · exact Ext.refl st
        · exact (cellSurfAppend_spec st c s).1
  | compl l ih =>
    intro st
    have := ih st
    simp only [updatePointersP]
    generalize updatePointersP c l st = r at this ⊢
    obtain ⟨⟨st1, e⟩, og⟩ := r
    cases e <;> cases og <;> exact this
  | bin u l r ihl ihr =>
    intro st
    have h1 := ihl st
    simp only [updatePointersP]
    generalize updatePointersP c l st = r1 at h1 ⊢
    obtain ⟨⟨st1, e⟩, og⟩ := r1
    cases e with
    | some err => cases og <;> exact h1
    | none =>
      cases og with
      | none => exact h1
      | some l' =>
        dsimp only
        have h2 := ihr st1
        generalize updatePointersP c r st1 = r2 at h2 ⊢
        obtain ⟨⟨st2, e2⟩, og2⟩ := r2
        cases e2 <;> cases og2 <;> exact h1.trans h2

/-- an `updCell` on cell `c` that keeps the link flag: members and links as before; a cell stays good if it is
    another cell, or if the new record of `c` is good -/
theorem LG.updCell {st : St} (h : LG st) (c : ObjId) (f : CellSt → CellSt)
    (hl : (f (st.cellOf c)).link = (st.cellOf c).link)
    (hg : c ∈ st.cells → GoodCell (st.updCell c f) c) : LG (st.updCell c f) := by
  refine ⟨h.1.ext (linkExt_updCell st c f (fun x => by rw [hl]; exact x)), fun d hd => ?_⟩
  by_cases hdc : d = c
  · subst hdc; exact hg hd
  · exact (h.2 d hd).mono (by simp [updCell_cellOf, hdc]) (fun _ hx => hx) (fun _ hx => hx) (fun _ hx => hx)

theorem mem_linked_of_firstWith {st : St} (h : InvLinked st) (k : Kind) (n : Int) (o : ObjId)
    (hf : firstWith (st.num k) n (st.members k) = some o) : st.linked k o = true :=
  h k o (firstWith_some _ _ _ _ hf).1

theorem resolveMaterial_lg (st : St) (c : ObjId) (n : Int) (h : LG st) : LG (resolveMaterial st c n).1 := by
  unfold resolveMaterial
  dsimp only
  have h0 : LG (st.updCell c (fun cs => { cs with oldMat := n })) :=
    h.updCell c _ rfl (fun hc => (h.2 c hc).mono (by simp) (fun _ hx => hx) (fun _ hx => hx) (fun _ hx => hx))
  split
  · split
    · rename_i m hm
      refine h0.updCell c _ rfl (fun hc => ?_)
      have hg := h0.2 c hc
      have hml : st.mlink m = true := mem_linked_of_firstWith h.1 .material n m hm
      refine ⟨by simpa using hg.1, fun s hs => hg.2.1 s (by simpa using hs), fun m' hm' => ?_,
        fun u hu => hg.2.2.2 u (by simpa using hu)⟩
      have : m = m' := by simpa using hm'
      subst this
      exact hml
    · exact h0
  · refine h0.updCell c _ rfl (fun hc => ?_)
    have hg := h0.2 c hc
    exact ⟨by simpa using hg.1, fun s hs => hg.2.1 s (by simpa using hs), fun m' hm' => by simp at hm',
      fun u hu => hg.2.2.2 u (by simpa using hu)⟩

theorem cellUpdatePointers_lg (st : St) (c : ObjId) (pc : PCell) (h : LG st) :
    LG (cellUpdatePointers st c pc).1 := by
  unfold cellUpdatePointers
  have h1 := resolveMaterial_lg st c pc.mat h
  generalize resolveMaterial st c pc.mat = r at h1 ⊢
  obtain ⟨st1, e⟩ := r
  cases e with
  | some err => exact h1
  | none =>
    dsimp only at h1 ⊢
    -- new containers, linked like the cell
    have h2 : LG (st1.updCell c (fun cs => { cs with surfs := [], comps := [], contLinked := cs.link })) := by
      refine h1.updCell c _ rfl (fun hc => ?_)
      have hg := h1.2 c hc
      have hlk : (st1.cellOf c).link = true := h1.1 .cell c hc
      exact ⟨by simpa using hlk, fun s hs => by simp at hs, fun m hm => hg.2.2.1 m (by simpa using hm),
        fun u hu => hg.2.2.2 u (by simpa using hu)⟩
    have h3 := h2.pExt (updatePointersP_ext c pc.geom _).pExt
    generalize updatePointersP c pc.geom (st1.updCell c (fun cs => { cs with surfs := [], comps := [], contLinked := cs.link })) = up at h3 ⊢
    obtain ⟨⟨st2, e2⟩, og⟩ := up
    cases e2 with
    | some err => cases og <;> exact h3
    | none =>
      cases og with
      | none => exact h3
      | some g => exact h3.pExt (pExt_updGeom st2 c (some g))

theorem updateAllCells_lg : ∀ (l : List (ObjId × PCell)) (st : St), LG st → LG (updateAllCells l st).1 := by
  intro l
  induction l with
  | nil => intro st h; exact h
  | cons a t ih =>
    intro st h
    obtain ⟨c, pc⟩ := a
    simp only [updateAllCells]
    have h1 := cellUpdatePointers_lg st c pc h
    generalize cellUpdatePointers st c pc = r at h1 ⊢
    obtain ⟨st1, e⟩ := r
    cases e with
    | some err => exact h1
    | none => exact ih st1 h1

theorem pushUniverses_lg : ∀ (l : List (ObjId × PCell)) (st : St) (nextU : ObjId), LG st →
    LG (pushUniverses l st nextU).1 := by
  intro l
  induction l with
  | nil => intro st n h; exact h
  | cons a t ih =>
    intro st n h
    obtain ⟨c, pc⟩ := a
    simp only [pushUniverses]
    split
    · rename_i u hu
      refine ih _ _ (h.updCell c _ rfl (fun hc => ?_))
      have hg := h.2 c hc
      have hul : st.ulink u = true := mem_linked_of_firstWith h.1 .universe _ u hu
      refine ⟨by simpa using hg.1, fun s hs => hg.2.1 s (by simpa using hs),
        fun m hm => hg.2.2.1 m (by simpa using hm), fun u' hu' => ?_⟩
      have : u = u' := by simpa using hu'
      subst this
      exact hul
    · -- a new universe: made, linked, appended
      have h1 : LG { st with unum := upd st.unum n (pc.univ.getD 0), ulink := upd st.ulink n true,
                             universes := st.universes ++ [n] } := by
        refine ⟨fun k o ho => ?_, fun d hd => (h.2 d hd).mono ⟨rfl, rfl, rfl, fun hx => hx⟩ (fun _ hx => hx)
          (fun _ hx => hx) (fun x hx => by show upd st.ulink n true x = true; unfold upd; split <;> first | rfl | exact hx)⟩
        cases k
        · exact h.1 .cell o ho
        · exact h.1 .surface o ho
        · exact h.1 .material o ho
        · show upd st.ulink n true o = true
          unfold upd
          split
          · rfl
          · rename_i hne
            have ho' : o ∈ st.universes ++ [n] := ho
            rcases List.mem_append.mp ho' with ho1 | ho1
            · exact h.1 .universe o ho1
            · simp only [List.mem_singleton] at ho1; exact absurd ho1 hne
        · exact h.1 .transform o ho
      refine ih _ _ (h1.updCell c _ rfl (fun hc => ?_))
      have hg := h1.2 c hc
      refine ⟨by simpa using hg.1, fun s hs => hg.2.1 s (by simpa using hs),
        fun m hm => hg.2.2.1 m (by simpa using hm), fun u' hu' => ?_⟩
      have : n = u' := by simpa using hu'
      subst this
      show upd st.ulink n true n = true
      simp [upd]

theorem pushFills_lg : ∀ (l : List (ObjId × PCell)) (st : St), LG st → LG (pushFills l st).1 := by
  intro l
  induction l with
  | nil => intro st h; exact h
  | cons a t ih =>
    intro st h
    obtain ⟨c, pc⟩ := a
    simp only [pushFills]
    split
    · exact ih st h
    · split
      · refine ih _ (h.updCell c _ rfl (fun hc => ?_))
        have hg := h.2 c hc
        exact ⟨by simpa using hg.1, fun s hs => hg.2.1 s (by simpa using hs),
          fun m hm => hg.2.2.1 m (by simpa using hm), fun u hu => hg.2.2.2 u (by simpa using hu)⟩
      · exact h

theorem appendAll_reach (k : Kind) : ∀ (l : List ObjId) (st : St), Reach st → Reach (appendAll k l st).1 := by
  intro l
  induction l with
  | nil => intro st h; exact h
  | cons a t ih =>
    intro st h
    simp only [appendAll]
    have h1 : Reach (collAppend st k a).1 := C16_step st (.append k a) h
    generalize collAppend st k a = r at h1 ⊢
    obtain ⟨st1, e⟩ := r
    cases e with
    | some err => exact h1
    | none => exact ih st1 h1

theorem appendAll_uniqS (k : Kind) (l : List ObjId) (st : St) (h : UniqS st) : UniqS (appendAll k l st).1 :=
  appendAll_uniq k l st h

/-- geometry of the cell objects that are not in the file stays what it was -/
theorem appendAll_sameCells (k : Kind) : ∀ (l : List ObjId) (st : St), Same st (appendAll k l st).1 := by
  intro l
  induction l with
  | nil => intro st; exact Same.refl st
  | cons a t ih =>
    intro st
    simp only [appendAll]
    have h1 : Same st (collAppend st k a).1 := same_step st (.append k a) trivial
    generalize collAppend st k a = r at h1 ⊢
    obtain ⟨st1, e⟩ := r
    cases e with
    | some err => exact h1
    | none => exact h1.trans (ih st1)

/-- **C16_init** — every state that the model's `load` produces from the empty pool satisfies `Reach`:
    containment for every cell object (exactly, for the cells of the file: `C16_load`), every member of the five
    collections linked, and the surfaces, material and universe of every cell of the problem linked. -/
theorem C16_init (cnum snum mnum unum tnum : ObjId → Int) (strans : ObjId → Option ObjId)
    (other : Kind → ObjId → Bool) (pcs : List PCell) (nS nM nT : Nat) (nextU : ObjId)
    (h : (load (St.blank cnum snum mnum unum tnum strans other) pcs nS nM nT nextU).1.2 = none) :
    Reach (load (St.blank cnum snum mnum unum tnum strans other) pcs nS nM nT nextU).1.1 := by
  have hblank := C16_reach_blank cnum snum mnum unum tnum strans other
  have hu : UniqS (St.blank cnum snum mnum unum tnum strans other) := by simp [UniqS, St.blank]
  -- containment: the cells of the file by `C16_load`; every other cell object still has no geometry
  have hexact := C16_load _ pcs nS nM nT nextU hu h
  generalize hst : St.blank cnum snum mnum unum tnum strans other = st at *
  have hgeom0 : ∀ c, (st.cellOf c).geom = none := by intro c; rw [← hst]; rfl
  unfold load at h hexact ⊢
  dsimp only at h hexact ⊢
  have r1 := appendAll_reach .cell (List.range pcs.length) st hblank
  have s1 := appendAll_sameCells .cell (List.range pcs.length) st
  have u1 := appendAll_uniq .cell (List.range pcs.length) st hu
  generalize appendAll .cell (List.range pcs.length) st = a1 at r1 s1 u1 h hexact ⊢
  obtain ⟨st1, e1⟩ := a1
  cases e1 with
  | some err => cases h
  | none =>
    dsimp only at r1 s1 u1 h hexact ⊢
    have r2 := appendAll_reach .surface (List.range nS) st1 r1
    have s2 := appendAll_sameCells .surface (List.range nS) st1
    have u2 := appendAll_uniq .surface (List.range nS) st1 u1
    generalize appendAll .surface (List.range nS) st1 = a2 at r2 s2 u2 h hexact ⊢
    obtain ⟨st2, e2⟩ := a2
    cases e2 with
    | some err => cases h
    | none =>
      dsimp only at r2 s2 u2 h hexact ⊢
      have r3 := appendAll_reach .material (List.range nM) st2 r2
      have s3 := appendAll_sameCells .material (List.range nM) st2
      have u3 := appendAll_uniq .material (List.range nM) st2 u2
      generalize appendAll .material (List.range nM) st2 = a3 at r3 s3 u3 h hexact ⊢
      obtain ⟨st3, e3⟩ := a3
      cases e3 with
      | some err => cases h
      | none =>
        dsimp only at r3 s3 u3 h hexact ⊢
        have r4 := appendAll_reach .transform (List.range nT) st3 r3
        have s4 := appendAll_sameCells .transform (List.range nT) st3
        have u4 := appendAll_uniq .transform (List.range nT) st3 u3
        generalize appendAll .transform (List.range nT) st3 = a4 at r4 s4 u4 h hexact ⊢
        obtain ⟨st4, e4⟩ := a4
        cases e4 with
        | some err => cases h
        | none =>
          dsimp only at r4 s4 u4 h hexact ⊢
          have lg5 : LG { st4 with dataM := List.range nM, dataT := List.range nT } := ⟨r4.linked, r4.good⟩
          have u5 : UniqS { st4 with dataM := List.range nM, dataT := List.range nT } := u4
          have hids : (((List.range pcs.length).zip pcs).map Prod.fst) = List.range pcs.length :=
            List.map_fst_zip (by simp)
          have lg6 := updateAllCells_lg ((List.range pcs.length).zip pcs) _ lg5
          generalize hup : updateAllCells ((List.range pcs.length).zip pcs)
            { st4 with dataM := List.range nM, dataT := List.range nT } = r5 at lg6 h hexact ⊢
          obtain ⟨st6, e6⟩ := r5
          cases e6 with
          | some err => cases h
          | none =>
            dsimp only at lg6 h hexact ⊢
            have hsp := updateAllCells_spec _ _ st6 hup u5 (by rw [hids]; exact List.nodup_range)
            have lg7 := pushUniverses_lg ((List.range pcs.length).zip pcs) st6 nextU lg6
            have lg8 := pushFills_lg ((List.range pcs.length).zip pcs) _ lg7
            have p1 := pushUniverses_same ((List.range pcs.length).zip pcs) st6 nextU
            have p2 := pushFills_same ((List.range pcs.length).zip pcs)
              (pushUniverses ((List.range pcs.length).zip pcs) st6 nextU).1
            refine ⟨fun c => ?_, lg8.1, lg8.2⟩
            by_cases hc : c < pcs.length
            · obtain ⟨g, hg, ha, hs, hcm⟩ := hexact c hc
              intro g' hg'
              rw [hg] at hg'
              cases hg'
              exact ⟨ha, fun s hs' => (hs s).mpr hs', fun d hd => (hcm d).mpr hd⟩
            · intro g hg
              exfalso
              have hnot : c ∉ ((List.range pcs.length).zip pcs).map Prod.fst := by
                rw [hids]; simpa using hc
              have e6 := (hsp.2.1 c hnot).1
              have e4 : (st4.cellOf c).geom = (st.cellOf c).geom :=
                (((s1.trans s2).trans s3).trans s4 c).1
              rw [((p1.trans p2) c).1, e6] at hg
              have : (st4.cellOf c).geom = some g := hg
              rw [e4, hgeom0 c] at this
              cases this

/-! ## what the invariant gives: the reverse look-ups are exact in every reachable state -/

/-- **C16_exact_surface** — in a state that satisfies `Reach`, `surface.cells` is exactly the cells of the problem
    that hold the surface (no link hypothesis: a surface a problem cell holds is linked). -/
theorem C16_exact_surface (st : St) (h : Reach st) (s d : ObjId) :
    d ∈ surfaceCells st s ↔ d ∈ st.cells ∧ s ∈ (st.cellOf d).surfs := by
  rw [C16_reverse_surface_exact]
  exact ⟨fun ⟨_, hd, hs⟩ => ⟨hd, hs⟩, fun ⟨hd, hs⟩ => ⟨(h.good d hd).2.1 s hs, hd, hs⟩⟩

/-- … in particular every cell of the problem whose *geometry* uses `s` -/
theorem C16_exact_surface_geometry (st : St) (h : Reach st) (s d : ObjId) (g : HS) (hd : d ∈ st.cells)
    (hg : (st.cellOf d).geom = some g) (hs : s ∈ g.surfs) : d ∈ surfaceCells st s :=
  (C16_exact_surface st h s d).mpr ⟨hd, (h.contain d g hg).2.1 s hs⟩

/-- **C16_exact_material** -/
theorem C16_exact_material (st : St) (h : Reach st) (m d : ObjId) :
    d ∈ materialCells st m ↔ d ∈ st.cells ∧ (st.cellOf d).mat = some m := by
  rw [C16_reverse_material]
  exact ⟨fun ⟨_, hd, hm⟩ => ⟨hd, hm⟩, fun ⟨hd, hm⟩ => ⟨(h.good d hd).2.2.1 m hm, hd, hm⟩⟩

/-- **C16_exact_universe** -/
theorem C16_exact_universe (st : St) (h : Reach st) (u d : ObjId) :
    d ∈ universeCells st u ↔ d ∈ st.cells ∧ (st.cellOf d).univ = some u := by
  rw [C16_reverse_universe]
  exact ⟨fun ⟨_, hd, hu⟩ => ⟨hd, hu⟩, fun ⟨hd, hu⟩ => ⟨(h.good d hd).2.2.2 u hu, hd, hu⟩⟩

/-- named exclusion (known finding C16-F2a): the complemented cell itself is linked to the problem — it is for
    every cell of the problem and for every cell a problem cell started to complement while it was in the problem -/
def CompLinked (st : St) (c : ObjId) : Prop := (st.cellOf c).link = true

/-- **C16_exact_complement** -/
theorem C16_exact_complement (st : St) (c d : ObjId) (hc : CompLinked st c) :
    d ∈ cellsComplementing st c ↔ d ∈ st.cells ∧ d ≠ c ∧ c ∈ (st.cellOf d).comps := by
  rw [C16_reverse_complement]
  exact ⟨fun ⟨_, h⟩ => h, fun h => ⟨hc, h⟩⟩

theorem compLinked_of_member (st : St) (h : Reach st) (c : ObjId) (hc : c ∈ st.cells) : CompLinked st c :=
  h.linked .cell c hc

/-- named exclusion (known finding C16-F3): the cell has a universe (every cell that was read has; a `Cell()`
    made from scratch has none until one is assigned) -/
def HasUniverse (st : St) (d : ObjId) : Prop := ∃ u, (st.cellOf d).univ = some u

/-- **C16_exact_partition** — every cell of the problem that has a universe is in exactly one universe's
    `.cells` (no `UnivOK` hypothesis any more: the universe is linked by the invariant). -/
theorem C16_exact_partition (st : St) (h : Reach st) (d : ObjId) (hd : d ∈ st.cells) (hu : HasUniverse st d) :
    ∃ u, d ∈ universeCells st u ∧ ∀ u', d ∈ universeCells st u' → u' = u := by
  obtain ⟨u, hu⟩ := hu
  refine ⟨u, (C16_exact_universe st h u d).mpr ⟨hd, hu⟩, fun u' h' => ?_⟩
  have := ((C16_exact_universe st h u' d).mp h').2
  rw [hu] at this
  cases this
  rfl

/-- **C16_main** — the property over inputs and histories: read any file (the model's `load` from the empty pool
    does not raise), apply any sequence of the modelled operations: the resulting state satisfies `Reach`, hence
    containment and the exact reverse look-ups above. -/
theorem C16_main (cnum snum mnum unum tnum : ObjId → Int) (strans : ObjId → Option ObjId)
    (other : Kind → ObjId → Bool) (pcs : List PCell) (nS nM nT : Nat) (nextU : ObjId) (ops : List Op)
    (h : (load (St.blank cnum snum mnum unum tnum strans other) pcs nS nM nT nextU).1.2 = none) :
    Reach (run (load (St.blank cnum snum mnum unum tnum strans other) pcs nS nM nT nextU).1.1 ops) :=
  C16_reachable ops _ (C16_init cnum snum mnum unum tnum strans other pcs nS nM nT nextU h)

/-- non-vacuity: the two-cell file loads; after an edit history both cells have a universe, cell 0 is linked and
    complemented by cell 1, and the reverse look-ups are non-empty -/
example :
    let st := run (load (demo false) demoFile 2 0 0 0).1.1
      [.setGeometry 0 (.bin true (.leaf false 2 true none) (.leaf false 0 false none) none), .setMaterial 1 (some 2)]
    (load (demo false) demoFile 2 0 0 0).1.2 = none ∧ st.cells = [0, 1] ∧
    (st.cellOf 0).univ = some 0 ∧ (st.cellOf 1).univ = some 1 ∧ (st.cellOf 0).link = true ∧
    surfaceCells st 2 = [0] ∧ surfaceCells st 0 = [0, 1] ∧ materialCells st 2 = [1] ∧
    universeCells st 1 = [1] ∧ cellsComplementing st 0 = [1] := by decide

/-! ## identity of the link target: entering a problem re-links -/

/-- **C16_linked_here** — in a state that satisfies the invariant the `_problem` of every member of the five
    collections is THIS problem — not merely "some problem": an object that came in linked to another problem
    (`other`: a deepcopy of a member, an object of a second problem) has been re-linked. -/
theorem C16_linked_here (st : St) (h : InvLinked st) (k : Kind) (o : ObjId) (ho : o ∈ st.members k) :
    st.linkOf k o = some .here := by
  unfold St.linkOf
  simp [h k o ho]

/-- **C16_relink_append** — the entry door `append`: whatever the new member was linked to before -/
theorem C16_relink_append (st : St) (k : Kind) (o : ObjId) (hok : (collAppend st k o).2 = none) :
    o ∈ (collAppend st k o).1.members k ∧ (collAppend st k o).1.linkOf k o = some .here := by
  unfold collAppend at hok ⊢
  split
  · rename_i hc; rw [if_pos hc] at hok; cases hok
  · refine ⟨by rw [setLinked_members, setMembers_members]; simp, ?_⟩
    unfold St.linkOf
    simp [setLinked_linked]

/-- **C16_relink_extend** — the entry doors `extend` and `+=` -/
theorem C16_relink_extend (st : St) (k : Kind) (os : List ObjId) (hok : (collExtend st k os).2 = none)
    (o : ObjId) (ho : o ∈ os) :
    o ∈ (collExtend st k os).1.members k ∧ (collExtend st k os).1.linkOf k o = some .here := by
  unfold collExtend at hok ⊢
  split
  · obtain ⟨h1, _, h3⟩ := setLinkedFold_spec k os (st.setMembers k (st.members k ++ os))
    refine ⟨by rw [h1 k, setMembers_members]; simp [ho], ?_⟩
    unfold St.linkOf
    simp [h3 o ho]
  · rename_i hc; rw [if_neg hc] at hok; cases hok

/-- **C16_relink_pointee** — the entry door "assigned as the material of a cell of the problem" -/
theorem C16_relink_pointee (st : St) (c m : ObjId) (hl : (st.cellOf c).link = true) :
    (setMaterial st c (some m)).1.linkOf .material m = some .here := by
  unfold St.linkOf
  simp [setMaterial, St.linked, hl]

/-- non-vacuity: material `1` comes in linked to another problem; after `append` it is linked here -/
example :
    let st := St.blank (fun o => o + 1) (fun o => o + 1) (fun o => o + 1) (fun o => o) (fun o => o + 1) (fun _ => none)
      (fun k o => k == .material && o == 1)
    st.linkOf .material 1 = some .elsewhere ∧ (collAppend st .material 1).2 = none ∧
    (collAppend st .material 1).1.linkOf .material 1 = some .here := by decide

end MontePyVerif.Links
