import MontePyVerif.Model.World
import MontePyVerif.Gen.Setters
/-! # C17 — problems are isolated; API behaviour does not depend on unrelated history

The theorems are about `Model/World.lean` instantiated with `codeCfg`, the shape of the source as the translator
read it off the AST on this run (`Gen/Setters.lean`).  They hold for every world (reachable or not), every
operation and every history: nothing is bounded.  When the source changes shape (the `nonlocal` comes back, the
queue reset or the log reset goes away, a new `global` statement or class-level singleton appears) a generated
constant changes and the corresponding proof stops building. -/
namespace MontePyVerif.World
open MontePyVerif.Gen

/-- the code as it is now -/
def codeCfg : Cfg :=
  { writesClosure := Setters.templatesWriteClosure
    readerResetsQueue := Setters.readerResetsQueue
    queuePerPath := Setters.queuePerPath
    restartClearsLog := Setters.restartClearsLog
    slyParseRestarts := Setters.slyParseRestarts
    objectInitRestarts := Setters.objectInitRestarts
    readInputRestarts := Setters.readInputRestarts
    setsRecursionLimit := Setters.setsRecursionLimit }

/-! ## What the source says -/

/-- the three facts every isolation theorem below rests on, as extracted from the source on this run -/
theorem C17_cfg_clean :
    codeCfg.writesClosure = false ∧ codeCfg.readerResetsQueue = true ∧ codeCfg.parseStartsClean ∧
    Setters.templatesFound = true ∧ Setters.parseChecksLog = true ∧ codeCfg.setsRecursionLimit = false := by
  decide

/-- the world model contains all the process-wide state the source has: the only name under a `global` statement is
    the read-card queue; the only class-level instances are the parser singletons and the one shared log; the only
    declarations whose accepted type depends on `type(self)` are the three the harness exercises on every class. -/
theorem C17_world_covers_shared_state :
    Setters.globalsWritten = [("montepy/input_parser/input_syntax_reader.py", "reading_queue")] ∧
    Setters.logOwners = ["MCNP_Parser"] ∧
    Setters.classInstances.map (fun x => (x.2.1, x.2.2.1, x.2.2.2)) =
      [("Cell", "_parser", "CellParser"), ("DataInputAbstract", "_parser", "DataParser"),
       ("DataInputAbstract", "_classifier_parser", "ClassifierParser"), ("Material", "_parser", "MaterialParser"),
       ("ThermalScatteringLaw", "_parser", "ThermalParser"), ("ReadInput", "_parser", "ReadParser"),
       ("MCNP_Parser", "log", "SLY_Supressor"), ("Surface", "_parser", "SurfaceParser")] ∧
    (Setters.decls.filter (fun d => d.kind = .selfType)).map (fun d => (d.cls, d.prop)) =
      [("HalfSpace", "left"), ("HalfSpace", "right"), ("Surface", "periodic_surface")] ∧
    -- every statement in a function body of montepy/ that writes class-level or module-level state at run time
    -- (`Class.x = …`, `cls.x = …`, `type(self).x = …`, `del Class.x`, setattr/delattr on a class or module,
    -- `module.x = …`, assignments under `global`/`nonlocal`, item stores and mutating calls on class attributes or
    -- module-level containers) is one of these: the read-card queue (modelled), the two import-time loops that
    -- install generated properties (Importance.<particle>, Surfaces.<type>), and six per-call closures of local
    -- helper functions (not process-wide).  A runtime write to e.g. `DataInput._parser` re-opens this obligation.
    Setters.runtimeSharedWrites =
      [("montepy/data_inputs/importance.py", "setattr", "Importance"),
       ("montepy/input_parser/input_syntax_reader.py", "global-rebind", "reading_queue"),
       ("montepy/input_parser/input_syntax_reader.py", "mutating-call", "reading_queue.append"),
       ("montepy/input_parser/input_syntax_reader.py", "mutating-call", "reading_queue.popleft"),
       ("montepy/input_parser/input_syntax_reader.py", "nonlocal-rebind", "block_counter"),
       ("montepy/input_parser/input_syntax_reader.py", "nonlocal-rebind", "block_type"),
       ("montepy/input_parser/input_syntax_reader.py", "nonlocal-rebind", "input_raw_lines"),
       ("montepy/input_parser/syntax_node.py", "nonlocal-rebind", "shortcut"),
       ("montepy/mcnp_object.py", "nonlocal-rebind", "jump_counter"),
       ("montepy/mcnp_object.py", "nonlocal-rebind", "repeat_counter"),
       ("montepy/surface_collection.py", "setattr", "Surfaces")] ∧
    -- settings of the INTERPRETER (sys.set*, sys.path, os.chdir / os.environ, warnings filters outside catch_warnings,
    -- locale, numpy / decimal / random settings, signal, atexit, gc …) are set nowhere but in these two statements of
    -- montepy/__init__.py, which run once, at import (every history of the property starts after the import).  A call
    -- inside a function — e.g. `sys.setrecursionlimit` on the path of a read — re-opens this obligation.
    Setters.processStateCalls =
      [("montepy/__init__.py", "<module>", "os.environ[...] =", ""),
       ("montepy/__init__.py", "<module>", "warnings.simplefilter", "")] := by
  refine ⟨rfl, rfl, rfl, ?_, rfl, rfl⟩
  decide

/-! ## C17_queue — every read starts with an empty queue -/

theorem startQueue_empty (queue : List FileId) : startQueue codeCfg queue = [] := by
  simp [startQueue, codeCfg, Setters.readerResetsQueue]

/-- whatever the process holds in its queue(s) — one queue or one per path, e.g. what an abandoned read left behind
    under the very path that is read again — a read from ANY path starts with an empty queue -/
theorem C17_queue (queues : PathId → List FileId) (path : PathId) : readStartQueue codeCfg queues path = [] := by
  simp [readStartQueue, startQueue_empty]

/-- non-vacuity: a read abandoned by parse_input (a malformed cell after a read card) does leave the queued target
    behind, under the key of its path -/
example : (step codeCfg 8 World.fresh (.read 0 3 [(0, [.read 5 .ok, .card ⟨1, 1, 1, false, 0⟩, .bad .syntax]), (5, [])] 0)).1.queue
    (queueKey codeCfg 3) = [5] := by decide

/-- after ANY history from ANY world — every event failed or not — the next read starts from an empty queue, for
    every path (same path as an earlier failed read, or another) -/
theorem C17_queue_reachable (fuel : Nat) (w : World) (ops : List Op) (path : PathId) :
    readStartQueue codeCfg (run codeCfg fuel w ops).1.queue path = [] :=
  C17_queue _ _

/-- the model is sensitive to the defect: with one queue per path, fetched with get-or-create and not emptied at the
    start of a read, the same statement is false — a read of path 3 is abandoned with file 5 queued, the next read from
    path 3 starts with [5] -/
theorem C17_queue_per_path_unreset_refutes :
    ¬ (∀ (w : World) (path : PathId),
        readStartQueue { codeCfg with queuePerPath := true, readerResetsQueue := false } w.queue path = []) := by
  intro h
  have := h (step { codeCfg with queuePerPath := true, readerResetsQueue := false } 8 World.fresh
    (.read 0 3 [(0, [.read 5 .ok, .card ⟨1, 1, 1, false, 0⟩, .bad .syntax]), (5, [])] 0)).1 3
  revert this
  decide

/-! ## C17_log — every parse starts with an empty error log -/

theorem parseStartLog_clean {c : Cfg} (h : c.parseStartsClean) (log : Nat) : parseStartLog c log = 0 := by
  obtain ⟨h1, h2⟩ := h
  simp [parseStartLog, restart, h1, h2]

theorem C17_log (log : Nat) : parseStartLog codeCfg log = 0 :=
  parseStartLog_clean (by decide) log

/-- non-vacuity: a cell with a syntax error followed by an illegal character leaves the log non-empty -/
example : (step codeCfg 8 World.fresh (.read 0 0 [(0, [.bad .logThenRaise])] 0)).1.log = 1 := by decide

theorem C17_log_reachable (fuel : Nat) (ops : List Op) :
    parseStartLog codeCfg (run codeCfg fuel World.fresh ops).1.log = 0 :=
  C17_log _

theorem parse_indep {c : Cfg} (h : c.parseStartsClean) (l l' : Nat) (b : ParseBeh) : parse c l b = parse c l' b := by
  simp [parse, parseStartLog_clean h]

theorem objectInit_indep {c : Cfg} (h : c.parseStartsClean) (l l' : Nat) (b : ParseBeh) :
    objectInit c l b = objectInit c l' b := by
  simp only [objectInit, parse, parseStartLog_clean h]

theorem readInputInit_indep {c : Cfg} (h : c.parseStartsClean) (l l' : Nat) (b : ParseBeh) :
    readInputInit c l b = readInputInit c l' b := by
  simp only [readInputInit, parse, parseStartLog_clean h]

theorem constructObjects_indep {c : Cfg} (h : c.parseStartsClean) (n : Nat) (l l' : Nat) :
    (constructObjects c l n).2 = (constructObjects c l' n).2 := by
  cases n with
  | zero => rfl
  | succ n => simp only [constructObjects, objectInit_indep h l l' .ok]

/-! ## C17_latch — the closure cells of generated setters never change -/

theorem setterGate_local {c : Cfg} (h : c.writesClosure = false) (cell : Option ClassId) (d : SetterDecl)
    (selfCls : ClassId) (v : PyVal) : setterGate c cell d selfCls v = (cell, gateSpec d.types selfCls v) := by
  unfold setterGate gateSpec
  cases d.types <;> simp [h]

/-- no operation changes any closure cell … -/
theorem C17_latch (fuel : Nat) (w : World) (op : Op) : (step codeCfg fuel w op).1.latch = w.latch := by
  cases op with
  | setter d s v =>
    simp only [step, setterGate_local (c := codeCfg) rfl]
    funext k
    by_cases hk : k = d.id <;> simp [hk]
  | read p path fs top lim =>
    simp only [step]
    split <;> simp [setProblem]
  | setImp p i v => simp only [step, editCard]; split <;> (try split) <;> (try split) <;> simp [setProblem]
  | setVol p i v => simp only [step, editCard]; split <;> (try split) <;> (try split) <;> simp [setProblem]
  | setNum p i n => simp only [step, editCard]; split <;> (try split) <;> (try split) <;> simp [setProblem]
  | removeCard p i => simp only [step]; split <;> (try split) <;> simp [setProblem]
  | deepcopy a b => simp only [step]; split <;> (try split) <;> simp [setProblem]
  | write p => simp only [step]; split <;> simp
  | construct n => simp only [step]; split <;> simp

/-- … so whether a generated setter accepts a value is a function of (declared types, class of self, value) and of
    nothing else, for every declaration the translator found in montepy/ (with any numbering of classes). -/
theorem C17_latch_decls :
    ∀ d ∈ Setters.decls, ∀ (id : DeclId) (cs : List ClassId) (fuel : Nat) (w : World) (selfCls : ClassId) (v : PyVal),
      let types : Types := match d.kind with
        | .notSettable => .notSettable
        | .selfType => .selfType
        | .classes => .classes cs
      (step codeCfg fuel w (.setter ⟨id, types⟩ selfCls v)).2 = .gate (gateSpec types selfCls v) ∧
      (step codeCfg fuel w (.setter ⟨id, types⟩ selfCls v)).1.latch = w.latch := by
  intro d _ id cs fuel w selfCls v
  refine ⟨?_, C17_latch _ _ _⟩
  simp only [step, setterGate_local (c := codeCfg) rfl]

/-- non-vacuity: there are declarations of each kind, and the gate does reject -/
example : (∃ d ∈ Setters.decls, d.kind = .selfType) ∧ (∃ d ∈ Setters.decls, d.kind = .classes) ∧
    gateSpec .selfType 1 ⟨2, [2, 0]⟩ = .typeError ∧ gateSpec .selfType 1 ⟨3, [3, 1, 0]⟩ = .passed := by decide

/-- the model is sensitive to the defect: with `nonlocal types` back in the source (`writesClosure = true`) the same
    statement is false — CylinderOnAxis (class 1) sets its periodic surface first, then AxisPlane (class 2) is refused. -/
theorem C17_latch_reintroduced_refutes :
    ¬ (∀ (w : World) (d : SetterDecl) (s : ClassId) (v : PyVal),
        (step { codeCfg with writesClosure := true } 0 w (.setter d s v)).2 = .gate (gateSpec d.types s v)) := by
  intro h
  have := h (step { codeCfg with writesClosure := true } 0 World.fresh (.setter ⟨0, .selfType⟩ 1 ⟨1, [1, 0]⟩)).1
    ⟨0, .selfType⟩ 2 ⟨2, [2, 0]⟩
  revert this
  decide

/-! ## C17_isolate — an operation on A leaves every other problem alone, and sees only A -/

theorem setProblem_other (w : World) (p q : ProblemId) (pr : Problem) (h : q ≠ p) :
    (setProblem w p pr).problems q = w.problems q := by
  simp [setProblem, h]

theorem editCard_other (w : World) (p i : Nat) (f : Problem → Card → Except Err Card) (B : ProblemId) (h : B ≠ p) :
    (editCard w p i f).1.problems B = w.problems B := by
  unfold editCard
  split
  · rfl
  · split
    · rfl
    · split
      · rfl
      · exact setProblem_other _ _ _ _ h

/-- frame: whatever the shape of the code, an operation writes at most the problem it targets -/
theorem C17_isolate_frame (c : Cfg) (fuel : Nat) (w : World) (op : Op) (B : ProblemId) (h : op.target ≠ some B) :
    (step c fuel w op).1.problems B = w.problems B := by
  cases op with
  | setter d s v => simp [step]
  | read p path fs top lim =>
    have hB : B ≠ p := fun e => h (by simp [Op.target, e])
    simp only [step]
    split
    · rfl
    · exact setProblem_other _ _ _ _ hB
  | setImp p i v => exact editCard_other _ _ _ _ _ (fun e => h (by simp [Op.target, e]))
  | setVol p i v => exact editCard_other _ _ _ _ _ (fun e => h (by simp [Op.target, e]))
  | setNum p i n => exact editCard_other _ _ _ _ _ (fun e => h (by simp [Op.target, e]))
  | removeCard p i =>
    have hB : B ≠ p := fun e => h (by simp [Op.target, e])
    simp only [step]
    split
    · rfl
    · split
      · exact setProblem_other _ _ _ _ hB
      · rfl
  | deepcopy a b =>
    have hB : B ≠ b := fun e => h (by simp [Op.target, e])
    simp only [step]
    split
    · rfl
    · split
      · exact setProblem_other _ _ _ _ hB
      · rfl
  | write p => simp only [step]; split <;> rfl
  | construct n => simp only [step]; split <;> rfl

/-! ## C17_interp — no operation changes a setting of the interpreter -/

theorem editCard_interp (w : World) (p i : Nat) (f : Problem → Card → Except Err Card) :
    (editCard w p i f).1.interp = w.interp := by
  unfold editCard
  split
  · rfl
  · split
    · rfl
    · split <;> rfl

/-- the recursion limit (and every other setting of the interpreter the model holds) is the same after an operation as
    before it: the code as extracted calls `sys.setrecursionlimit` nowhere (`C17_cfg_clean`), for EVERY operation, world,
    file system and demand `lim` -/
theorem C17_interp (fuel : Nat) (w : World) (op : Op) : (step codeCfg fuel w op).1.interp = w.interp := by
  cases op with
  | setter d s v => simp [step]
  | read p path fs top lim =>
    have hl : readLimit codeCfg w.interp lim = w.interp := by
      simp [readLimit, codeCfg, Setters.setsRecursionLimit]
    simp only [step]
    split <;> simp [setProblem, hl]
  | setImp p i v => exact editCard_interp _ _ _ _
  | setVol p i v => exact editCard_interp _ _ _ _
  | setNum p i n => exact editCard_interp _ _ _ _
  | removeCard p i => simp only [step]; split <;> (try split) <;> simp [setProblem]
  | deepcopy a b => simp only [step]; split <;> (try split) <;> simp [setProblem]
  | write p => simp only [step]; split <;> simp
  | construct n => simp only [step]; split <;> simp

/-- … after ANY history from ANY world -/
theorem C17_interp_reachable (fuel : Nat) (ops : List Op) (w : World) :
    (run codeCfg fuel w ops).1.interp = w.interp := by
  induction ops generalizing w with
  | nil => rfl
  | cons op rest ih =>
    simp only [run]
    rw [ih, C17_interp]

/-- non-vacuity: the limit matters (a cell of 250 surfaces is not deep-copied at the default limit, one of 101 is), and a
    read that "demands" 2897 leaves the limit at 1000 in the code as it is -/
example :
    let w := (step codeCfg 8 World.fresh (.read 0 0 [(0, [.card ⟨1, 1, 1, false, 249⟩])] 0 2897)).1
    w.interp.recLimit = 1000 ∧ (step codeCfg 8 w (.deepcopy 0 1)).2 = .err .recursion ∧
    (step codeCfg 8 (step codeCfg 8 World.fresh (.read 0 0 [(0, [.card ⟨1, 1, 1, false, 100⟩])] 0)).1 (.deepcopy 0 1)).2 = .ok := by
  decide

/-- non-vacuity and sensitivity: with a `sys.setrecursionlimit` on the path of a read (`setsRecursionLimit = true`) the
    statement "the outcome of a call does not depend on operations on unrelated problems" is false.  Problem 0 has a cell
    of 250 surfaces; `copy.deepcopy` of it raises RecursionError in a fresh interpreter, and succeeds after an unrelated
    problem 1 with a cell of 900 surfaces has been read (the read left the limit at 2897). -/
theorem C17_limit_raised_refutes :
    ¬ (∀ (fuel : Nat) (w : World) (pre : List Op) (op : Op),
        (∀ o ∈ pre, ∀ p, (op.target = some p ∨ op.source = some p) → o.target ≠ some p) →
        (step { codeCfg with setsRecursionLimit := true } fuel
            (run { codeCfg with setsRecursionLimit := true } fuel w pre).1 op).2 =
          (step { codeCfg with setsRecursionLimit := true } fuel w op).2) := by
  intro h
  have := h 8 (step { codeCfg with setsRecursionLimit := true } 8 World.fresh
      (.read 0 0 [(0, [.card ⟨1, 1, 1, false, 249⟩])] 0 1000)).1
    [.read 1 1 [(0, [.card ⟨1, 1, 1, false, 899⟩])] 0 2897] (.deepcopy 0 2)
    (by
      intro o ho p hp
      simp only [List.mem_cons, List.not_mem_nil, or_false] at ho
      subst ho
      rcases hp with hp | hp <;> simp [Op.target, Op.source] at hp ⊢ <;> subst hp <;> decide)
  revert this
  decide

/-- the part of a read state that a later input can see when every parse starts clean -/
def RState.core (s : RState) : List FileId × List Card := (s.queue, s.cards)

theorem consumeItem_congr {c : Cfg} (h : c.parseStartsClean) (s s' : RState) (hs : s.core = s'.core) (it : Item) :
    consumeItem c s it = consumeItem c s' it := by
  obtain ⟨q, l, cs⟩ := s
  obtain ⟨q', l', cs'⟩ := s'
  simp only [RState.core, Prod.mk.injEq] at hs
  obtain ⟨rfl, rfl⟩ := hs
  cases it with
  | read f b => simp only [consumeItem, readInputInit_indep h l l' b]
  | bad b => simp only [consumeItem, objectInit_indep h l l' b]
  | card cd => simp only [consumeItem, objectInit_indep h l l' .ok]
  | other => simp only [consumeItem, objectInit_indep h l l' .ok]

theorem consumeItems_congr {c : Cfg} (h : c.parseStartsClean) (items : List Item) (s s' : RState)
    (hs : s.core = s'.core) :
    (consumeItems c s items).2 = (consumeItems c s' items).2 ∧
    (consumeItems c s items).1.core = (consumeItems c s' items).1.core := by
  cases items with
  | nil => exact ⟨rfl, hs⟩
  | cons it rest =>
    simp [consumeItems, consumeItem_congr h s s' hs it]

theorem drain_congr {c : Cfg} (h : c.parseStartsClean) (fs : FileSys) (fuel : Nat) (s s' : RState)
    (hs : s.core = s'.core) :
    (drain c fs fuel s).2 = (drain c fs fuel s').2 ∧ (drain c fs fuel s).1.core = (drain c fs fuel s').1.core := by
  induction fuel generalizing s s' with
  | zero =>
    have hq : s.queue = s'.queue := congrArg Prod.fst hs
    simp only [drain, hq]
    split <;> exact ⟨rfl, hs⟩
  | succ n ih =>
    have hq : s.queue = s'.queue := congrArg Prod.fst hs
    have hc : s.cards = s'.cards := congrArg Prod.snd hs
    unfold drain
    rw [← hq]
    cases hqq : s.queue with
    | nil => exact ⟨rfl, hs⟩
    | cons f rest =>
      simp only
      cases hf : fs.find f with
      | none => exact ⟨rfl, by simp [RState.core, hc]⟩
      | some items =>
        simp only
        have h1 : ({ s with queue := rest } : RState).core = ({ s' with queue := rest } : RState).core := by
          simp [RState.core, hc]
        obtain ⟨he, hcore⟩ := consumeItems_congr h items _ _ h1
        rcases hr : consumeItems c { s with queue := rest } items with ⟨s2, e⟩
        rcases hr' : consumeItems c { s' with queue := rest } items with ⟨s2', e'⟩
        rw [hr, hr'] at he hcore
        simp only at he hcore
        subst he
        cases e with
        | some err => exact ⟨rfl, hcore⟩
        | none => exact ih s2 s2' hcore

/-- a read's result does not depend on the queue or the log it finds -/
theorem readProblem_indep (fuel : Nat) (q q' : List FileId) (l l' : Nat) (fs : FileSys) (top : FileId) :
    (readProblem codeCfg fuel q l fs top).2 = (readProblem codeCfg fuel q' l' fs top).2 := by
  have hclean : codeCfg.parseStartsClean := by decide
  unfold readProblem
  rw [startQueue_empty q, startQueue_empty q']
  cases fs.find top with
  | none => rfl
  | some items =>
    simp only
    have h0 : ({ queue := [], log := l, cards := [] } : RState).core =
        ({ queue := [], log := l', cards := [] } : RState).core := rfl
    obtain ⟨he, hcore⟩ := consumeItems_congr hclean items _ _ h0
    rcases hr : consumeItems codeCfg { queue := [], log := l, cards := [] } items with ⟨s1, e⟩
    rcases hr' : consumeItems codeCfg { queue := [], log := l', cards := [] } items with ⟨s1', e'⟩
    rw [hr, hr'] at he hcore
    simp only at he hcore
    subst he
    cases e with
    | some err => rfl
    | none =>
      simp only
      obtain ⟨he2, hcore2⟩ := drain_congr hclean fs fuel s1 s1' hcore
      rcases hd : drain codeCfg fs fuel s1 with ⟨s2, e2⟩
      rcases hd' : drain codeCfg fs fuel s1' with ⟨s2', e2'⟩
      rw [hd, hd'] at he2 hcore2
      simp only at he2 hcore2
      subst he2
      have hcards : s2.cards = s2'.cards := congrArg Prod.snd hcore2
      cases e2 with
      | some err => rfl
      | none => simp only [hcards]; split <;> rfl

/-- the problems an operation can see -/
def Op.sees (op : Op) (p : ProblemId) : Prop := op.target = some p ∨ op.source = some p

theorem editCard_result (w w' : World) (p i : Nat) (f : Problem → Card → Except Err Card)
    (h : w.problems p = w'.problems p) :
    (editCard w p i f).2 = (editCard w' p i f).2 ∧
    (editCard w p i f).1.problems p = (editCard w' p i f).1.problems p := by
  unfold editCard
  rw [← h]
  cases w.problems p with
  | none => exact ⟨rfl, h⟩
  | some pr =>
    simp only
    cases pr[i]? with
    | none => exact ⟨rfl, h⟩
    | some cd =>
      simp only
      cases f pr cd with
      | error e => exact ⟨rfl, h⟩
      | ok cd' => simp [setProblem]

/-- the result of an operation, and what it leaves in the problems it can see, depend only on those problems, on the
    operation and on the settings of the interpreter (which no operation changes: `C17_interp`) — not on the queue, the
    log, the closure cells or any other problem of the world it runs in -/
theorem C17_isolate_result (fuel : Nat) (w w' : World) (op : Op)
    (h : ∀ p, op.sees p → w.problems p = w'.problems p) (hI : w.interp = w'.interp) :
    (step codeCfg fuel w op).2 = (step codeCfg fuel w' op).2 ∧
    ∀ p, op.sees p → (step codeCfg fuel w op).1.problems p = (step codeCfg fuel w' op).1.problems p := by
  cases op with
  | setter d s v =>
    refine ⟨?_, ?_⟩
    · simp only [step, setterGate_local (c := codeCfg) rfl]
    · intro p hp; simp [Op.sees, Op.target, Op.source] at hp
  | construct n =>
    have hc := constructObjects_indep (c := codeCfg) (by decide) n w.log w'.log
    refine ⟨?_, ?_⟩
    · simp only [step]
      rcases h1 : constructObjects codeCfg w.log n with ⟨l1, e1⟩
      rcases h2 : constructObjects codeCfg w'.log n with ⟨l2, e2⟩
      rw [h1, h2] at hc
      simp only at hc
      subst hc
      cases e1 <;> rfl
    · intro p hp; simp [Op.sees, Op.target, Op.source] at hp
  | read p path fs top lim =>
    have hp := h p (Or.inl rfl)
    have hr := readProblem_indep fuel (w.queue (queueKey codeCfg path)) (w'.queue (queueKey codeCfg path)) w.log w'.log fs top
    simp only [step]
    rcases h1 : readProblem codeCfg fuel (w.queue (queueKey codeCfg path)) w.log fs top with ⟨⟨q, l⟩, r⟩
    rcases h2 : readProblem codeCfg fuel (w'.queue (queueKey codeCfg path)) w'.log fs top with ⟨⟨q', l'⟩, r'⟩
    rw [h1, h2] at hr
    simp only at hr
    subst hr
    cases r with
    | error e =>
      refine ⟨rfl, ?_⟩
      intro x hx
      simp only [Op.sees, Op.target, Op.source, Option.some.injEq, reduceCtorEq, or_false] at hx
      subst hx; exact hp
    | ok pr =>
      refine ⟨rfl, ?_⟩
      intro x hx
      simp only [Op.sees, Op.target, Op.source, Option.some.injEq, reduceCtorEq, or_false] at hx
      subst hx; simp [setProblem]
  | setImp p i v =>
    have := editCard_result w w' p i (fun _ cd => .ok { cd with imp := v }) (h p (Or.inl rfl))
    refine ⟨this.1, ?_⟩
    intro x hx
    simp only [Op.sees, Op.target, Op.source, Option.some.injEq, reduceCtorEq, or_false] at hx
    subst hx; exact this.2
  | setVol p i v =>
    have := editCard_result w w' p i (fun _ cd => .ok { cd with vol := v }) (h p (Or.inl rfl))
    refine ⟨this.1, ?_⟩
    intro x hx
    simp only [Op.sees, Op.target, Op.source, Option.some.injEq, reduceCtorEq, or_false] at hx
    subst hx; exact this.2
  | setNum p i n =>
    have := editCard_result w w' p i
      (fun pr cd => if pr.any (fun x => x.num == n) then .error .numberConflict else .ok { cd with num := n })
      (h p (Or.inl rfl))
    refine ⟨this.1, ?_⟩
    intro x hx
    simp only [Op.sees, Op.target, Op.source, Option.some.injEq, reduceCtorEq, or_false] at hx
    subst hx; exact this.2
  | removeCard p i =>
    have hp := h p (Or.inl rfl)
    simp only [step]
    rw [← hp]
    cases w.problems p with
    | none =>
      refine ⟨rfl, ?_⟩
      intro x hx
      simp only [Op.sees, Op.target, Op.source, Option.some.injEq, reduceCtorEq, or_false] at hx
      subst hx; exact hp
    | some pr =>
      simp only
      split
      · refine ⟨rfl, ?_⟩
        intro x hx
        simp only [Op.sees, Op.target, Op.source, Option.some.injEq, reduceCtorEq, or_false] at hx
        subst hx; simp [setProblem]
      · refine ⟨rfl, ?_⟩
        intro x hx
        simp only [Op.sees, Op.target, Op.source, Option.some.injEq, reduceCtorEq, or_false] at hx
        subst hx; exact hp
  | deepcopy a b =>
    have ha := h a (Or.inr rfl)
    have hb := h b (Or.inl rfl)
    simp only [step]
    rw [← ha, ← hI]
    cases hsrc : w.problems a with
    | none =>
      refine ⟨rfl, ?_⟩
      intro x hx
      simp only [Op.sees, Op.target, Op.source, Option.some.injEq] at hx
      rcases hx with hx | hx <;> subst hx
      · exact hb
      · exact ha
    | some pr =>
      simp only
      by_cases hfit : pr.all (fun cd => w.interp.copyFits cd.depth) = true
      · rw [if_pos hfit, if_pos hfit]
        refine ⟨rfl, ?_⟩
        intro x hx
        simp only [setProblem]
        by_cases hxb : x = b
        · simp [hxb]
        · simp only [hxb, if_false]
          simp only [Op.sees, Op.target, Op.source, Option.some.injEq] at hx
          rcases hx with hx | hx
          · exact absurd hx.symm hxb
          · subst hx; exact ha
      · rw [if_neg hfit, if_neg hfit]
        refine ⟨rfl, ?_⟩
        intro x hx
        simp only [Op.sees, Op.target, Op.source, Option.some.injEq] at hx
        rcases hx with hx | hx <;> subst hx
        · exact hb
        · exact ha
  | write p =>
    have hp := h p (Or.inl rfl)
    simp only [step]
    rw [← hp]
    cases w.problems p with
    | none =>
      refine ⟨rfl, ?_⟩
      intro x hx
      simp only [Op.sees, Op.target, Op.source, Option.some.injEq, reduceCtorEq, or_false] at hx
      subst hx; exact hp
    | some pr =>
      refine ⟨rfl, ?_⟩
      intro x hx
      simp only [Op.sees, Op.target, Op.source, Option.some.injEq, reduceCtorEq, or_false] at hx
      subst hx; exact hp

/-- non-vacuity: two worlds that agree on problem 0 and differ in everything else (queue, log, closure cells, another
    problem), and an operation on problem 0 that really does something -/
example :
    let w : World := (run codeCfg 8 World.fresh [.read 0 0 [(0, [.card ⟨1, 1, 1, false, 0⟩])] 0]).1
    let w' : World := (run codeCfg 8 World.fresh
      [.read 0 0 [(0, [.card ⟨1, 1, 1, false, 0⟩])] 0, .read 1 1 [(0, [.card ⟨5, 1, 1, false, 0⟩])] 0,
       .read 2 2 [(0, [.read 8 .ok, .read 9 .ok])] 0, .read 2 2 [(0, [.bad .logThenRaise])] 0]).1
    w.problems 0 = w'.problems 0 ∧ w'.log ≠ w.log ∧ w'.problems 1 ≠ w.problems 1 ∧
    (step codeCfg 8 w (.setImp 0 0 7)).2 = .ok ∧
    (step codeCfg 8 w' (.write 0)).2 = .written [(1, 1, 1)] := by decide

/-! ## Histories -/

theorem run_frame (c : Cfg) (fuel : Nat) (ops : List Op) (w : World) (B : ProblemId)
    (h : ∀ op ∈ ops, op.target ≠ some B) : (run c fuel w ops).1.problems B = w.problems B := by
  induction ops generalizing w with
  | nil => rfl
  | cons op rest ih =>
    simp only [run]
    rw [ih _ (fun o ho => h o (List.mem_cons_of_mem _ ho))]
    exact C17_isolate_frame c fuel w op B (h op (List.mem_cons_self ..))

/-- C17_copy: after `C = copy.deepcopy(A)` (when it succeeds: no RecursionError, A exists), any history that does not assign or edit A leaves A as it was (in
    particular every history of operations on C), and any history that does not assign or edit C leaves C as the copy
    was made; the copy starts out equal to the original.  (Assumption of the model: deepcopy is a value clone.) -/
theorem C17_copy (c : Cfg) (fuel : Nat) (w : World) (A C : ProblemId) (hAC : A ≠ C) (ops : List Op) :
    let w1 := (step c fuel w (.deepcopy A C)).1
    w1.problems A = w.problems A ∧
    ((step c fuel w (.deepcopy A C)).2 = .ok → w1.problems C = w.problems A) ∧
    ((∀ op ∈ ops, op.target ≠ some A) → (run c fuel w1 ops).1.problems A = w.problems A) ∧
    ((∀ op ∈ ops, op.target ≠ some C) → (run c fuel w1 ops).1.problems C = w1.problems C) := by
  intro w1
  have hA : w1.problems A = w.problems A :=
    C17_isolate_frame c fuel w (.deepcopy A C) A (by simp [Op.target]; exact fun e => hAC e.symm)
  refine ⟨hA, ?_, ?_, ?_⟩
  · show (step c fuel w (.deepcopy A C)).2 = .ok → (step c fuel w (.deepcopy A C)).1.problems C = w.problems A
    simp only [step]
    cases hsrc : w.problems A with
    | none => simp
    | some pr =>
      simp only
      split
      · simp [setProblem]
      · simp
  · intro h; rw [run_frame c fuel ops w1 A h, hA]
  · intro h; exact run_frame c fuel ops w1 C h

/-- non-vacuity: the copy is edited and written, the original still writes what it wrote before -/
example :
    let w := (step codeCfg 8 World.fresh (.read 0 0 [(0, [.card ⟨1, 1, 1, false, 0⟩])] 0)).1
    let w2 := (run codeCfg 8 w [.deepcopy 0 1, .setImp 1 0 9, .write 1]).1
    (step codeCfg 8 w2 (.write 0)).2 = .written [(1, 1, 1)] ∧ (step codeCfg 8 w2 (.write 1)).2 = .written [(1, 9, 1)] := by
  decide

/-- C17_prefix: the outcome of a call after ANY prefix of operations that do not assign or edit the problems the call
    can see equals its outcome without the prefix (in particular: in a fresh interpreter holding the same problem) -/
theorem C17_prefix (fuel : Nat) (w : World) (pre : List Op) (op : Op)
    (hpre : ∀ o ∈ pre, ∀ p, op.sees p → o.target ≠ some p) :
    (step codeCfg fuel (run codeCfg fuel w pre).1 op).2 = (step codeCfg fuel w op).2 := by
  apply (C17_isolate_result fuel _ _ op _ (C17_interp_reachable fuel pre w)).1
  intro p hp
  exact run_frame codeCfg fuel pre w p (fun o ho => hpre o ho p hp)

/-- for a generated setter on objects of no problem the prefix is arbitrary: the outcome after any history whatever, in
    any world, is the gate's specification -/
theorem C17_prefix_setter (fuel : Nat) (w : World) (pre : List Op) (d : SetterDecl) (s : ClassId) (v : PyVal) :
    (step codeCfg fuel (run codeCfg fuel w pre).1 (.setter d s v)).2 = .gate (gateSpec d.types s v) := by
  simp only [step, setterGate_local (c := codeCfg) rfl]

/-- an operation belongs to the family R of problems when it assigns or edits one of them -/
def relevant (R : ProblemId → Bool) (op : Op) : Bool :=
  match op.target with
  | some p => R p
  | none => false

/-- the results of the operations of family R within a history -/
def observed (R : ProblemId → Bool) : List Op → List Res → List Res
  | op :: ops, r :: rs => if relevant R op then r :: observed R ops rs else observed R ops rs
  | _, _ => []

/-- R is closed under "source of a deep copy into R" along the history -/
def closedUnderSources (R : ProblemId → Bool) (ops : List Op) : Prop :=
  ∀ op ∈ ops, relevant R op = true → ∀ src, op.source = some src → R src = true

theorem interleave_aux (fuel : Nat) (R : ProblemId → Bool) (ops : List Op) (hcl : closedUnderSources R ops)
    (w w' : World) (hag : ∀ p, R p = true → w.problems p = w'.problems p) (hI : w.interp = w'.interp) :
    observed R ops (run codeCfg fuel w ops).2 = (run codeCfg fuel w' (ops.filter (relevant R))).2 ∧
    ∀ p, R p = true →
      (run codeCfg fuel w ops).1.problems p = (run codeCfg fuel w' (ops.filter (relevant R))).1.problems p := by
  induction ops generalizing w w' with
  | nil => exact ⟨rfl, hag⟩
  | cons op rest ih =>
    have hcl' : closedUnderSources R rest := fun o ho => hcl o (List.mem_cons_of_mem _ ho)
    by_cases hrel : relevant R op = true
    · -- an operation of the family: same result in both histories, the family's problems stay in agreement
      have hsees : ∀ p, op.sees p → R p = true := by
        intro p hp
        rcases hp with hp | hp
        · simpa [relevant, hp] using hrel
        · exact hcl op (List.mem_cons_self ..) hrel p hp
      have hstep := C17_isolate_result fuel w w' op (fun p hp => hag p (hsees p hp)) hI
      have hI' : (step codeCfg fuel w op).1.interp = (step codeCfg fuel w' op).1.interp := by
        rw [C17_interp, C17_interp]; exact hI
      have hag' : ∀ p, R p = true →
          (step codeCfg fuel w op).1.problems p = (step codeCfg fuel w' op).1.problems p := by
        intro p hRp
        by_cases hs : op.sees p
        · exact hstep.2 p hs
        · have ht : op.target ≠ some p := fun e => hs (Or.inl e)
          rw [C17_isolate_frame codeCfg fuel w op p ht, C17_isolate_frame codeCfg fuel w' op p ht]
          exact hag p hRp
      obtain ⟨ih1, ih2⟩ := ih hcl' _ _ hag' hI'
      simp only [List.filter_cons, hrel, if_true, run, observed]
      exact ⟨by rw [hstep.1, ih1], ih2⟩
    · -- an operation on an unrelated problem: it is left out, and the family's problems are untouched
      have hag' : ∀ p, R p = true → (step codeCfg fuel w op).1.problems p = w'.problems p := by
        intro p hRp
        have ht : op.target ≠ some p := by
          intro e
          apply hrel
          simp [relevant, e, hRp]
        rw [C17_isolate_frame codeCfg fuel w op p ht]
        exact hag p hRp
      obtain ⟨ih1, ih2⟩ := ih hcl' _ _ hag' (by rw [C17_interp]; exact hI)
      simp only [List.filter_cons, hrel, run, observed]
      exact ⟨ih1, ih2⟩

/-- C17_interleave: for ALL interleavings.  Take any history on any number of problems and any family R of problems
    closed under deep-copy sources.  What the family's operations return and write within the history is exactly what
    they return and write when every other operation is left out, and the family's problems end up the same. -/
theorem C17_interleave (fuel : Nat) (R : ProblemId → Bool) (ops : List Op) (hcl : closedUnderSources R ops)
    (w : World) :
    observed R ops (run codeCfg fuel w ops).2 = (run codeCfg fuel w (ops.filter (relevant R))).2 ∧
    ∀ p, R p = true →
      (run codeCfg fuel w ops).1.problems p = (run codeCfg fuel w (ops.filter (relevant R))).1.problems p :=
  interleave_aux fuel R ops hcl w w (fun _ _ => rfl) rfl

/-- non-vacuity: a history where problem 1's reads fail in three ways (leaving queue and log dirty), a copy of 0 is
    edited, setters are called; family {0} is closed and its observed results are non-trivial -/
example :
    let ops : List Op :=
      [.read 1 1 [(0, [.read 8 .ok, .read 9 .ok])] 0, .read 0 0 [(0, [.read 1 .ok, .card ⟨1, 1, 1, false, 0⟩]), (1, [.card ⟨2, 0, 1, false, 0⟩])] 0,
       .read 1 1 [(0, [.bad .logThenRaise])] 0, .deepcopy 0 2, .setImp 2 0 9, .setter ⟨0, .selfType⟩ 1 ⟨1, [1]⟩,
       .setVol 0 1 4, .write 2, .write 0]
    let R : ProblemId → Bool := fun p => p == 0
    closedUnderSources R ops ∧
    observed R ops (run codeCfg 8 World.fresh ops).2 = [.ok, .ok, .written [(1, 1, 1), (2, 0, 4)]] := by
  refine ⟨?_, by decide⟩
  intro op hop hrel src hsrc
  simp only [List.mem_cons, List.mem_nil_iff, or_false] at hop
  rcases hop with rfl | rfl | rfl | rfl | rfl | rfl | rfl | rfl | rfl <;> simp_all [Op.source, relevant, Op.target]

/-! ## Fuel -/

/-- once the queue loop finishes within `fuel` file openings, more fuel changes nothing (the harness uses 64) -/
theorem C17_drain_fuel_mono (c : Cfg) (fs : FileSys) (fuel : Nat) (s : RState)
    (h : (drain c fs fuel s).2 ≠ some .hang) : drain c fs (fuel + 1) s = drain c fs fuel s := by
  induction fuel generalizing s with
  | zero =>
    unfold drain at h ⊢
    cases hq : s.queue with
    | nil => simp
    | cons f rest => simp [hq] at h
  | succ n ih =>
    unfold drain at h ⊢
    cases hq : s.queue with
    | nil => simp
    | cons f rest =>
      simp only [hq] at h ⊢
      cases hf : fs.find f with
      | none => rfl
      | some items =>
        simp only [hf] at h ⊢
        rcases hr : consumeItems c { s with queue := rest } items with ⟨s2, e⟩
        rw [hr] at h
        cases e with
        | some err => rfl
        | none => exact ih s2 h

end MontePyVerif.World
