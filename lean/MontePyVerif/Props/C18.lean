import MontePyVerif.Model.Dedupe
import MontePyVerif.Spec.Dedupe
namespace MontePyVerif.Dedupe
theorem C18_stub : True := trivial
end MontePyVerif.Dedupe
