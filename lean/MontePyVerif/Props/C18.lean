import MontePyVerif.Lemmas.Dedupe
/-!
# C18 — Duplicate-surface removal never changes any cell's region

`remove_duplicate_surfaces(tolerance)` merges only surfaces of the same type, transform and boundary condition whose
constants differ by less than the tolerance.  Every cell that used a removed surface refers to the survivor with the
same sense, so each cell's Boolean region is unchanged once merged surfaces are identified; no reference to a removed
surface remains, and surfaces that are not duplicates are untouched.

Model: `Model/Dedupe.lean` (the repaired code).  Reading of the property: `Spec/Dedupe.lean` (`dup`, `eval`).
All theorems quantify over every problem satisfying `ProblemWF` (the invariants MontePy's constructors and
collections establish), every geometry tree, every tolerance.
-/
namespace MontePyVerif.Dedupe
open MontePyVerif.Spec.Dedupe

/-- what holds of every problem MontePy hands to `remove_duplicate_surfaces`:
    surface numbers are unique (C06), every surface has a number of constants its class accepts (constructors),
    every cell lists in `cell.surfaces` the surfaces its geometry uses (`update_pointers`, the divider setter). -/
structure ProblemWF (p : Problem) : Prop where
  nodup : (p.surfaces.map (·.number)).Nodup
  consts : ∀ s ∈ p.surfaces, WFSurface s
  listed : ∀ c ∈ p.cells, ∀ n ∈ c.geometry.surfaceLeaves, n ∈ c.surfaces

/-- `to_delete` of a call -/
abbrev removedBy (p : Problem) (tol : Rat) : List Nat := (p.removeDuplicateSurfaces tol).2.toDelete
/-- `matching_map` of a call -/
abbrev mapOf (p : Problem) (tol : Rat) : List (Nat × Nat) := (p.removeDuplicateSurfaces tol).2.map
/-- a cell after the call -/
abbrev cellAfter (p : Problem) (tol : Rat) (c : Cell) : Cell := c.removeDuplicateSurfaces (mapOf p tol)

theorem cells_after (p : Problem) (tol : Rat) :
    (p.removeDuplicateSurfaces tol).1.cells = p.cells.map (cellAfter p tol) := rfl

theorem surfaces_after (p : Problem) (tol : Rat) :
    (p.removeDuplicateSurfaces tol).1.surfaces =
      (p.surfaces.map fun s => s.repointPeriodic (mapOf p tol)).filter fun s => !(removedBy p tol).contains s.number := rfl

/-! ## the generated table is the one the model was written for -/

/-- every class that overrides `find_duplicate_surfaces` in the code is one of the three modelled finders -/
theorem C18_finders_modelled :
    ∀ c ∈ Gen.Dedupe.finderClasses, isFinder (SClass.ofName c) = true := by decide

/-- the mnemonics built as a finder class are exactly PX PY PZ / CX CY CZ / C/X C/Y C/Z -/
theorem C18_finder_types :
    (Gen.Dedupe.surfaceClassTable.filter fun r => isFinder (SClass.ofName r.2.1)).map (·.1)
      = ["PX", "PY", "PZ", "C/X", "C/Y", "C/Z", "CX", "CY", "CZ"] := by decide

/-- the base class's `Surface.find_duplicate_surfaces` — run by every built class that does not override it (the MRO
    of the code: `Surface` itself and `GeneralPlane`, i.e. SO, S, P, K/Z, X, GQ, …) — behaves as the `[]` the model's
    `findDuplicateSurfaces` has for the classes `.surface` / `.generalPlane`: the translator called it on probe
    surfaces of every such mnemonic and number of constants (identical, nearly equal, longer/shorter, reflecting
    cards; three tolerances) and no call returned anything but the empty list (round 7: observed, where the first
    version compared the spelling of the body with "return []"); and a built class runs the base class's finder
    exactly when it is not one of the three modelled finder classes (which run their own).  A change of what the base
    finder returns re-opens this. -/
theorem C18_base_finder_modelled :
    (0 < Gen.Dedupe.baseFinderProbes ∧ Gen.Dedupe.baseFinderFound = [] ∧ Gen.Dedupe.baseFinderFoundCount = 0)
      ∧ ∀ r ∈ Gen.Dedupe.finderProviders,
          (r.2 = r.1 ∨ r.2 = "Surface") ∧ (isFinder (SClass.ofName r.1) = false ↔ r.2 = "Surface") := by
  decide

/-! ## the decision logic: finders = Spec.dup -/

/-- `find_duplicate_surfaces` returns exactly the other surfaces of the list that are C18-duplicates of `self`. -/
theorem C18_find_iff (a b : Surface) (S : List Surface) (tol : Rat) (ha : WFSurface a) (hb : WFSurface b) :
    b ∈ findDuplicateSurfaces a S tol ↔
      b ∈ S ∧ b.pyEq a = false ∧ isFinder (classOf a.stype) = true ∧ dup tol a b = true :=
  mem_find_iff a b S tol ha hb

example : WFSurface ⟨1, "PZ", [0], none, none, false, false⟩ ∧ WFSurface ⟨2, "C/Z", [0, 0, 1], none, none, true, false⟩ := by
  decide

/-- the duplicate relation is symmetric (so is, after the repair, `Transform.equivalent`) -/
theorem C18_dup_symm (tol : Rat) (a b : Surface) : dup tol a b = dup tol b a := dup_comm tol a b

theorem pyEq_self (a : Surface) : a.pyEq a = true := by simp [Surface.pyEq]

theorem pyEq_number {a b : Surface} (h : a.pyEq b = true) : a.number = b.number := by
  unfold Surface.pyEq at h
  simp only [Bool.and_eq_true, beq_iff_eq] at h
  exact h.1.1.1.1

theorem finderOK_of_wf {p : Problem} (hp : ProblemWF p) (tol : Rat) : FinderOK p.surfaces tol := by
  have inj : ∀ a ∈ p.surfaces, ∀ b ∈ p.surfaces, a.number = b.number → a = b :=
    fun a ha b hb h => nodup_map_inj (·.number) hp.nodup ha hb h
  refine ⟨?_, ?_, inj⟩
  · intro a ha b hb h
    have h1 := (mem_find_iff a b _ tol (hp.consts a ha) (hp.consts b hb)).1 h
    refine (mem_find_iff b a _ tol (hp.consts b hb) (hp.consts a ha)).2 ⟨ha, ?_, ?_, ?_⟩
    · cases hq : a.pyEq b with
      | false => rfl
      | true =>
        have := inj a ha b hb (pyEq_number hq)
        subst this
        rw [pyEq_self] at h1; exact absurd h1.2.1 (by decide)
    · rw [← dup_stype h1.2.2.2]; exact h1.2.2.1
    · rw [dup_comm]; exact h1.2.2.2
  · intro a ha b h
    have hbS : b ∈ p.surfaces := find_subset h
    refine ⟨hbS, fun e => ?_⟩
    have h1 := (mem_find_iff a b _ tol (hp.consts a ha) (hp.consts b hbS)).1 h
    have := inj b hbS a ha e
    subst this
    rw [pyEq_self] at h1; exact absurd h1.2.1 (by decide)

/-- the invariant of the first loop, at its end -/
theorem loop_inv {p : Problem} (hp : ProblemWF p) (tol : Rat) :
    Inv p.surfaces tol p.surfaces (p.removeDuplicateSurfaces tol).2 :=
  inv_findAll (finderOK_of_wf hp tol)

/-! ## C18_only — merges only duplicates, and only into a survivor -/

/-- Every removed number is the number of a surface `sd` of the problem, `matching_map` sends it to a surface `sv`
    of the problem that is **not** removed, and `sv`, `sd` are duplicates in the sense of the property
    (same type, same transform, same boundary condition, neither periodic, constants within the tolerance). -/
theorem C18_only (p : Problem) (tol : Rat) (hp : ProblemWF p) :
    ∀ d ∈ removedBy p tol, ∃ sd ∈ p.surfaces, ∃ sv ∈ p.surfaces,
      sd.number = d ∧ (mapOf p tol).lookup d = some sv.number ∧ sv.number ∉ removedBy p tol
        ∧ dup tol sv sd = true := by
  intro d hd
  have I := loop_inv hp tol
  have hsome := (I.dom d).1 hd
  obtain ⟨t, ht⟩ := Option.isSome_iff_exists.1 hsome
  obtain ⟨h1, sd, hsd, sv, hsv, e1, e2, _, h4⟩ := I.rng d t ht
  refine ⟨sd, hsd, sv, hsv, e1, by rw [e2]; exact ht, by rw [e2]; exact h1, ?_⟩
  exact ((mem_find_iff sv sd _ tol (hp.consts sv hsv) (hp.consts sd hsd)).1 h4).2.2.2

/-- lists that are pairwise within the tolerance have the same length (`Spec.allWithin` never stops at the shorter one) -/
theorem allWithin_length (tol : Rat) : ∀ (xs ys : List Rat), allWithin tol xs ys = true → xs.length = ys.length
  | [], [], _ => rfl
  | [], _ :: _, h => by simp [allWithin] at h
  | _ :: _, [], h => by simp [allWithin] at h
  | x :: xs, y :: ys, h => by
    simp only [allWithin, Bool.and_eq_true] at h
    simp only [List.length_cons, allWithin_length tol xs ys h.2]

theorem dup_length {tol : Rat} {a b : Surface} (h : dup tol a b = true) : a.consts.length = b.consts.length := by
  unfold dup at h
  simp only [Bool.and_eq_true] at h
  exact allWithin_length tol _ _ h.2

/-- Surfaces written with a different number of constants are never merged (two-sheet cone `K/Z 0 0 10 0.25` and
    one-sheet cone `K/Z 0 0 10 0.25 -1`, `Z 1 2` and `Z 1 2 3 4`, a 4-entry and a 9-entry `P` are different surfaces
    although the shorter list is a prefix of the longer): a removed surface and the survivor it is mapped to have the
    same mnemonic and equally many constants. -/
theorem C18_same_arity (p : Problem) (tol : Rat) (hp : ProblemWF p) :
    ∀ sd ∈ p.surfaces, ∀ sv ∈ p.surfaces, (mapOf p tol).lookup sd.number = some sv.number →
      sv.stype = sd.stype ∧ sv.consts.length = sd.consts.length := by
  intro sd hsd sv hsv hl
  have inj : ∀ a ∈ p.surfaces, ∀ b ∈ p.surfaces, a.number = b.number → a = b :=
    fun a ha b hb h => nodup_map_inj (·.number) hp.nodup ha hb h
  obtain ⟨_, sd', hsd', sv', hsv', e1, e2, _, h4⟩ := (loop_inv hp tol).rng sd.number sv.number hl
  have := inj sd' hsd' sd hsd e1
  subst this
  have := inj sv' hsv' sv hsv e2
  subst this
  have hd := ((mem_find_iff sv' sd' _ tol (hp.consts sv' hsv') (hp.consts sd' hsd')).1 h4).2.2.2
  exact ⟨dup_stype hd, dup_length hd⟩

/-- A surface whose mnemonic is not built as one of the finder classes (it runs the base class's finder: SO, S, P,
    K/Z, X, GQ, …): its `find_duplicate_surfaces` finds nothing, it is never removed, and nothing is merged into it. -/
theorem C18_generic_kept (p : Problem) (tol : Rat) (hp : ProblemWF p) :
    ∀ s ∈ p.surfaces, isFinder (classOf s.stype) = false →
      (∀ S, findDuplicateSurfaces s S tol = []) ∧ s.number ∉ removedBy p tol
        ∧ ∀ d, (mapOf p tol).lookup d ≠ some s.number := by
  intro s hs hf
  have inj : ∀ a ∈ p.surfaces, ∀ b ∈ p.surfaces, a.number = b.number → a = b :=
    fun a ha b hb h => nodup_map_inj (·.number) hp.nodup ha hb h
  have hnil : ∀ S, findDuplicateSurfaces s S tol = [] := by
    intro S
    unfold findDuplicateSurfaces
    cases hc : classOf s.stype <;> simp_all [isFinder]
  have I := loop_inv hp tol
  refine ⟨hnil, ?_, ?_⟩
  · intro hd
    obtain ⟨t, ht⟩ := Option.isSome_iff_exists.1 ((I.dom s.number).1 hd)
    obtain ⟨_, sd, hsd, sv, hsv, e1, _, _, h4⟩ := I.rng s.number t ht
    have := inj sd hsd s hs e1
    subst this
    have h1 := (mem_find_iff sv sd _ tol (hp.consts sv hsv) (hp.consts sd hsd)).1 h4
    rw [dup_stype h1.2.2.2, hf] at h1
    exact absurd h1.2.2.1 (by decide)
  · intro d hl
    obtain ⟨_, sd, _, sv, hsv, _, e2, _, h4⟩ := I.rng d s.number hl
    have := inj sv hsv s hs e2
    subst this
    rw [hnil] at h4
    cases h4

/-- the map's domain is exactly the removed set: a surface is sent somewhere iff it is removed -/
theorem C18_map_domain (p : Problem) (tol : Rat) (hp : ProblemWF p) (d : Nat) :
    d ∈ removedBy p tol ↔ ((mapOf p tol).lookup d).isSome = true := (loop_inv hp tol).dom d

/-- the map's range is disjoint from the removed set: nothing is re-pointed to a removed surface -/
theorem C18_map_range (p : Problem) (tol : Rat) (hp : ProblemWF p) (d t : Nat)
    (h : (mapOf p tol).lookup d = some t) : t ∉ removedBy p tol := ((loop_inv hp tol).rng d t h).1

/-- "removed" is observable: a surface's number is in `to_delete` iff no surface of that number is left -/
theorem C18_removed_iff (p : Problem) (tol : Rat) (s : Surface) (hs : s ∈ p.surfaces) :
    s.number ∈ removedBy p tol ↔ s.number ∉ (p.removeDuplicateSurfaces tol).1.surfaces.map (·.number) := by
  rw [surfaces_after]
  have hnum : ∀ (s : Surface) m, (s.repointPeriodic m).number = s.number := by
    intro s m; unfold Surface.repointPeriodic; split <;> try split <;> rfl
    rfl
  constructor
  · intro h hmem
    obtain ⟨s', hs', e⟩ := List.mem_map.1 hmem
    have := (List.mem_filter.1 hs').2
    rw [e] at this
    simp at this
    exact this h
  · intro h
    apply Classical.byContradiction
    intro hn
    apply h
    refine List.mem_map.2 ⟨s.repointPeriodic (mapOf p tol), List.mem_filter.2 ⟨List.mem_map.2 ⟨s, hs, rfl⟩, ?_⟩, hnum _ _⟩
    rw [hnum]; simpa using hn

/-! ## C18_region — every cell's region is unchanged once merged surfaces are identified -/

theorem cell_geometry {c : Cell} (hl : ∀ n ∈ c.geometry.surfaceLeaves, n ∈ c.surfaces) (dict : List (Nat × Nat)) :
    (c.removeDuplicateSurfaces dict).geometry = c.geometry.subst (dictFun dict) := by
  have key : c.geometry.subst (dictFun (restrictDict dict c.surfaces)) = c.geometry.subst (dictFun dict) :=
    subst_congr _ (fun n hn => dictFun_restrict (hl n hn) dict)
  unfold Cell.removeDuplicateSurfaces
  by_cases he : (restrictDict dict c.surfaces).isEmpty = true
  · simp only [he, if_true]
    rw [← key, List.isEmpty_iff.1 he]
    have : dictFun [] = fun n => n := by funext n; rfl
    rw [this, subst_id]
  · simp only [he]
    show (c.geometry.removeDuplicateSurfaces _ c.surfaces).1 = _
    rw [removeDup_fst, key]

/-- For every position of a point relative to the surfaces (`ρ`) that does not distinguish a removed surface from
    the survivor it is mapped to, and every position relative to the cells (`κ`, for `#n`), every cell's geometry
    after the call evaluates exactly as before: same leaves up to the identification, same senses, same operators. -/
theorem C18_region (p : Problem) (tol : Rat) (hp : ProblemWF p) (ρ κ : Nat → Bool)
    (hρ : ∀ d t, (mapOf p tol).lookup d = some t → ρ d = ρ t) :
    ∀ c ∈ p.cells, eval ρ κ (cellAfter p tol c).geometry = eval ρ κ c.geometry := by
  intro c hc
  rw [cell_geometry (hp.listed c hc), eval_subst]
  congr 1
  funext n
  unfold dictFun
  cases h : (mapOf p tol).lookup n with
  | none => rfl
  | some t => exact (hρ n t h).symm

/-- the sense is not touched: the tree after the call is the tree before with leaf numbers re-pointed through the map -/
theorem C18_same_sense (p : Problem) (tol : Rat) (hp : ProblemWF p) :
    ∀ c ∈ p.cells, (cellAfter p tol c).geometry = c.geometry.subst (dictFun (mapOf p tol)) :=
  fun c hc => cell_geometry (hp.listed c hc) _

/-! ## C18_clean — no reference to a removed surface remains -/

theorem mem_keys_iff (x : Nat) : ∀ (d : List (Nat × Nat)), x ∈ d.map Prod.fst ↔ (d.lookup x).isSome = true
  | [] => by simp
  | (a, b) :: rest => by
    rw [List.map_cons, List.mem_cons, lookup_cons_if, mem_keys_iff x rest]
    by_cases h : x = a <;> simp [h]

theorem cell_surfaces {c : Cell} (hl : ∀ n ∈ c.geometry.surfaceLeaves, n ∈ c.surfaces) (dict : List (Nat × Nat))
    (x : Nat) :
    x ∈ (c.removeDuplicateSurfaces dict).surfaces ↔
      (x ∈ c.surfaces ∨ ∃ n ∈ c.geometry.surfaceLeaves, dict.lookup n = some x)
        ∧ ¬ (x ∈ c.surfaces ∧ (dict.lookup x).isSome = true) := by
  have hkeys : ((restrictDict dict c.surfaces).lookup x).isSome = true ↔ x ∈ c.surfaces ∧ (dict.lookup x).isSome = true := by
    constructor
    · intro h
      obtain ⟨t, ht⟩ := Option.isSome_iff_exists.1 h
      have := restrict_keys c.surfaces x t dict ht
      exact ⟨this.1, by rw [this.2]; rfl⟩
    · rintro ⟨h1, h2⟩
      rw [lookup_restrict c.surfaces x h1 dict]; exact h2
  unfold Cell.removeDuplicateSurfaces
  by_cases he : (restrictDict dict c.surfaces).isEmpty = true
  · simp only [he, if_true]
    have hnil := List.isEmpty_iff.1 he
    rw [hnil] at hkeys
    constructor
    · intro h
      exact ⟨Or.inl h, fun hh => by have := hkeys.2 hh; simp at this⟩
    · rintro ⟨h | ⟨n, hn, h⟩, _⟩
      · exact h
      · exfalso
        -- the key n would be in the restricted dict, which is empty
        have h2 := (lookup_restrict c.surfaces n (hl n hn) dict)
        rw [hnil, h] at h2; simp at h2
  · simp only [he]
    show x ∈ List.filter _ (c.geometry.removeDuplicateSurfaces _ c.surfaces).2 ↔ _
    rw [List.mem_filter, removeDup_snd, exists_restrict hl dict x]
    simp only [Bool.not_eq_true', List.contains_eq_mem, decide_eq_false_iff_not, mem_keys_iff, hkeys]

/-- After the call: (1) no geometry leaf, (2) no `cell.surfaces` entry, (3) no member of `problem.surfaces` and no
    periodic link of a member is a removed surface. -/
theorem C18_clean (p : Problem) (tol : Rat) (hp : ProblemWF p) :
    (∀ c ∈ p.cells, ∀ n ∈ (cellAfter p tol c).geometry.surfaceLeaves, n ∉ removedBy p tol)
    ∧ (∀ c ∈ p.cells, ∀ n ∈ (cellAfter p tol c).surfaces, n ∉ removedBy p tol)
    ∧ (∀ s ∈ (p.removeDuplicateSurfaces tol).1.surfaces,
        s.number ∉ removedBy p tol ∧ ∀ q, s.periodic = some q → q ∉ removedBy p tol) := by
  have I := loop_inv hp tol
  have target : ∀ n, dictFun (mapOf p tol) n ∉ removedBy p tol ∨ dictFun (mapOf p tol) n = n ∧ (mapOf p tol).lookup n = none := by
    intro n
    unfold dictFun
    cases h : (mapOf p tol).lookup n with
    | none => exact Or.inr ⟨rfl, rfl⟩
    | some t => exact Or.inl (I.rng n t h).1
  refine ⟨?_, ?_, ?_⟩
  · intro c hc n hn
    rw [cell_geometry (hp.listed c hc), leaves_subst] at hn
    obtain ⟨m, _, e⟩ := List.mem_map.1 hn
    subst e
    rcases target m with h | ⟨h1, h2⟩
    · exact h
    · rw [h1]; intro hd
      have := (I.dom m).1 hd
      rw [h2] at this; simp at this
  · intro c hc n hn hd
    rw [cell_surfaces (hp.listed c hc)] at hn
    obtain ⟨h1, h2⟩ := hn
    have hsome := (I.dom n).1 hd
    rcases h1 with h | ⟨m, _, h⟩
    · exact h2 ⟨h, hsome⟩
    · exact (I.rng m n h).1 hd
  · intro s hs
    rw [surfaces_after] at hs
    obtain ⟨h1, h2⟩ := List.mem_filter.1 hs
    refine ⟨by simpa using h2, ?_⟩
    obtain ⟨s0, _, e⟩ := List.mem_map.1 h1
    subst e
    intro q hq hd
    unfold Surface.repointPeriodic at hq
    cases hper : s0.periodic with
    | none => simp [hper] at hq
    | some q0 =>
      cases hl : (mapOf p tol).lookup q0 with
      | none =>
        simp only [hper, hl] at hq
        have : q0 = q := by simpa [hper] using hq
        subst this
        have := (I.dom q0).1 hd
        rw [hl] at this; simp at this
      | some t =>
        simp only [hper, hl] at hq
        have : t = q := by simpa using hq
        subst this
        exact (I.rng q0 t hl).1 hd

/-! ## C18_untouched — what is not a duplicate is not touched -/

/-- (1) a surface that is nobody's duplicate is not removed;
    (2) the surfaces after the call are exactly the not-removed surfaces, in their order, each identical to what it
        was except that a periodic link to a removed surface follows the map; a surface whose periodic partner (if any)
        is not removed is literally unchanged;
    (3) a cell none of whose listed surfaces is removed is literally unchanged. -/
theorem C18_untouched (p : Problem) (tol : Rat) (hp : ProblemWF p) :
    (∀ s ∈ p.surfaces, (∀ t ∈ p.surfaces, dup tol t s = false) → s.number ∉ removedBy p tol)
    ∧ ((p.removeDuplicateSurfaces tol).1.surfaces =
          (p.surfaces.filter fun s => !(removedBy p tol).contains s.number).map fun s => s.repointPeriodic (mapOf p tol))
    ∧ (∀ s : Surface, (∀ q, s.periodic = some q → q ∉ removedBy p tol) → s.repointPeriodic (mapOf p tol) = s)
    ∧ (∀ (s : Surface) m, let s' := s.repointPeriodic m
        s'.number = s.number ∧ s'.stype = s.stype ∧ s'.consts = s.consts ∧ s'.transform = s.transform
          ∧ s'.reflecting = s.reflecting ∧ s'.white = s.white)
    ∧ (∀ c ∈ p.cells, (∀ n ∈ c.surfaces, n ∉ removedBy p tol) → cellAfter p tol c = c) := by
  have I := loop_inv hp tol
  have hnum : ∀ (s : Surface) m, (s.repointPeriodic m).number = s.number := by
    intro s m; unfold Surface.repointPeriodic; split <;> try split <;> rfl
    rfl
  refine ⟨?_, ?_, ?_, ?_, ?_⟩
  · intro s hs hno hd
    obtain ⟨sd, hsd, sv, hsv, e1, _, _, hdup⟩ := C18_only p tol hp s.number hd
    have : sd = s := nodup_map_inj (·.number) hp.nodup hsd hs e1
    subst this
    rw [hno sv hsv] at hdup; exact absurd hdup (by decide)
  · rw [surfaces_after, List.filter_map]
    congr 1
    apply List.filter_congr
    intro s _
    simp [Function.comp, hnum]
  · intro s hq
    unfold Surface.repointPeriodic
    cases hper : s.periodic with
    | none => rfl
    | some q =>
      cases hl : (mapOf p tol).lookup q with
      | none => simp [hl]
      | some t =>
        exfalso
        exact hq q hper ((I.dom q).2 (by rw [hl]; rfl))
  · intro s m
    unfold Surface.repointPeriodic
    split <;> try split <;> simp
    simp
  · intro c _ hno
    show c.removeDuplicateSurfaces (mapOf p tol) = c
    unfold Cell.removeDuplicateSurfaces
    have : restrictDict (mapOf p tol) c.surfaces = [] := by
      unfold restrictDict
      apply List.filter_eq_nil_iff.2
      intro pr hpr
      obtain ⟨a, b⟩ := pr
      simp only [List.contains_eq_mem, decide_eq_true_eq]
      intro ha
      apply hno a ha
      apply (I.dom a).2
      have : a ∈ (mapOf p tol).map Prod.fst := List.mem_map.2 ⟨(a, b), hpr, rfl⟩
      exact (mem_keys_iff a _).1 this
    rw [this]; rfl

/-! ## the invariants are re-established (so the theorems apply to every later call as well) -/

theorem C18_wf_preserved (p : Problem) (tol : Rat) (hp : ProblemWF p) :
    ProblemWF (p.removeDuplicateSurfaces tol).1 := by
  have I := loop_inv hp tol
  have hnum : ∀ (s : Surface) m, (s.repointPeriodic m).number = s.number := by
    intro s m; unfold Surface.repointPeriodic; split <;> try split <;> rfl
    rfl
  have hwf : ∀ (s : Surface) m, WFSurface s → WFSurface (s.repointPeriodic m) := by
    intro s m h; unfold Surface.repointPeriodic; split <;> try split <;> exact h
    exact h
  refine ⟨?_, ?_, ?_⟩
  · rw [(C18_untouched p tol hp).2.1, List.map_map]
    have : ((·.number) ∘ fun s : Surface => s.repointPeriodic (mapOf p tol)) = (·.number) := by
      funext s; exact hnum s _
    rw [this]
    exact (List.filter_sublist.map _).nodup hp.nodup
  · intro s hs
    rw [surfaces_after] at hs
    obtain ⟨s0, hs0, e⟩ := List.mem_map.1 (List.mem_filter.1 hs).1
    subst e
    exact hwf s0 _ (hp.consts s0 hs0)
  · intro c' hc' n hn
    rw [cells_after] at hc'
    obtain ⟨c, hc, e⟩ := List.mem_map.1 hc'
    subst e
    rw [cell_geometry (hp.listed c hc), leaves_subst] at hn
    obtain ⟨m, hm, e⟩ := List.mem_map.1 hn
    subst e
    rw [cell_surfaces (hp.listed c hc)]
    unfold dictFun
    cases hl : (mapOf p tol).lookup m with
    | none =>
      refine ⟨Or.inl (hp.listed c hc m hm), fun h => ?_⟩
      simp only [Option.getD_none] at h
      rw [hl] at h; simp at h
    | some t =>
      simp only [Option.getD_some]
      refine ⟨Or.inr ⟨m, hm, hl⟩, fun h => ?_⟩
      exact (I.rng m t hl).1 ((I.dom t).2 h.2)

/-- any history of calls (the quantifier "every tolerance", repeated): the invariants hold before every call, so
    `C18_only`, `C18_region`, `C18_clean`, `C18_untouched` apply to each call of the history. -/
def callSeq (p : Problem) (tols : List Rat) : Problem :=
  tols.foldl (fun p tol => (p.removeDuplicateSurfaces tol).1) p

theorem C18_history (tols : List Rat) : ∀ (p : Problem), ProblemWF p → ProblemWF (callSeq p tols) := by
  induction tols with
  | nil => intro p hp; exact hp
  | cons tol rest ih => intro p hp; exact ih _ (C18_wf_preserved p tol hp)

/-! ## non-vacuity: a concrete problem that satisfies the hypotheses and on which something happens

`1 PZ 0`, `2 PZ 0.00001`, `*3 PZ 0` (reflecting), `4 -1 PZ 5` (periodic with 1), `5 PZ 0.6`;
cell 1: `1 -2 : #(3 5)`, cell 2: `-5 #1`; tolerance 1e-4: surface 2 is merged into 1, nothing else. -/
def demo : Problem :=
  { surfaces := [⟨1, "PZ", [0], none, none, false, false⟩, ⟨2, "PZ", [1/100000], none, none, false, false⟩,
                 ⟨3, "PZ", [0], none, none, true, false⟩, ⟨4, "PZ", [5], none, some 1, false, false⟩,
                 ⟨5, "PZ", [3/5], none, none, false, false⟩],
    cells := [⟨1, .union (.inter (.leaf 1 true) (.leaf 2 false)) (.compl (.inter (.leaf 3 true) (.leaf 5 true))), [1, 2, 3, 5]⟩,
              ⟨2, .inter (.leaf 5 false) (.compl (.cellLeaf 1)), [5]⟩] }

example : ProblemWF demo := ⟨by decide, by decide, by decide⟩
example : removedBy demo (1/10000) = [2] ∧ mapOf demo (1/10000) = [(2, 1)] := by decide +kernel
example : ((demo.removeDuplicateSurfaces (1/10000)).1.cells.map (·.geometry)) =
    [.union (.inter (.leaf 1 true) (.leaf 1 false)) (.compl (.inter (.leaf 3 true) (.leaf 5 true))),
     .inter (.leaf 5 false) (.compl (.cellLeaf 1))] := by decide +kernel
/-- the hypothesis of `C18_region` is met by a valuation that is not constant -/
example : ∃ ρ : Nat → Bool, (∀ d t, (mapOf demo (1/10000)).lookup d = some t → ρ d = ρ t) ∧ ρ 1 ≠ ρ 3 := by
  refine ⟨fun n => n == 1 || n == 2, ?_, by decide⟩
  intro d t h
  have hm : mapOf demo (1/10000) = [(2, 1)] := by decide +kernel
  rw [hm, lookup_cons_if] at h
  by_cases hd : d = 2
  · subst hd; simp at h; subst h; rfl
  · simp [hd] at h
/-- look-alikes with a different number of constants (`1 K/Z 0 0 10 1/4`, `2 K/Z 0 0 10 1/4 -1`, `3 Z 1 2`,
    `4 Z 1 2 3 4`, `5 P 1 0 0 5`, `6 P` by three points) satisfy the hypotheses; no tolerance merges them -/
def lookalikes : Problem :=
  { surfaces := [⟨1, "K/Z", [0, 0, 10, 1/4], none, none, false, false⟩, ⟨2, "K/Z", [0, 0, 10, 1/4, -1], none, none, false, false⟩,
                 ⟨3, "Z", [1, 2], none, none, false, false⟩, ⟨4, "Z", [1, 2, 3, 4], none, none, false, false⟩,
                 ⟨5, "P", [1, 0, 0, 5], none, none, false, false⟩, ⟨6, "P", [1, 0, 0, 5, 5, 1, 0, 5, 0], none, none, false, false⟩],
    cells := [⟨1, .inter (.leaf 2 false) (.union (.leaf 4 true) (.leaf 6 false)), [2, 4, 6]⟩] }

example : ProblemWF lookalikes := ⟨by decide, by decide, by decide⟩
example : ∀ s ∈ lookalikes.surfaces, isFinder (classOf s.stype) = false := by decide
example : removedBy lookalikes 100 = [] := by decide +kernel
/-- with a larger tolerance the chain 1 ~ 2, and 5 stays (0.6 away); with tolerance 1 also 5 goes -/
example : removedBy demo 1 = [2, 5] := by decide +kernel

end MontePyVerif.Dedupe
