import MontePyVerif.Spec.File
import MontePyVerif.Props.C19Gen
/-!
# C19 — writing is repeatable: observation is pure and output is a fixed point

The writer loop of `MCNP_Problem.write_to_file` calls `format_for_mcnp_input` on every object in
turn.  Formatting is *not* a pure function in MontePy: it first pushes current values into the
syntax tree (`_update_values`), and several nodes adjust themselves while formatting
(`ListNode.format` inserts separating padding, `ParticleNode` re-sorts, `Importance._format_tree`
removes particles from a shared classifier, …).  A formatter may also *read* other objects (a
data-block `IMP` card reads every cell; a cell reads the numbers of its surfaces and material).

Model: the problem state is `Nat → τ` (object index ↦ that object's state); object `i`'s formatter
`fmt i : (Nat → τ) → τ × List Str` reads the whole state and returns the new state of object `i`
and its lines.  Two local conditions on the formatters are enough for every global repeatability
statement of C19, for any number of objects, any order and any history of observations:

* `Idem`       — formatting an object a second time gives the same lines and leaves it as it is;
* `Invisible`  — what formatting does to object `i` is not visible to the formatter of `j ≠ i`.

The harness checks both conditions on the real formatters for every explored object (unit
`U-formatters`: format twice; format others in between), and the global statements on real files.
-/
namespace MontePyVerif.Repeat
open MontePyVerif.Spec.File (Str)

variable {τ : Type}

abbrev Fmt (τ : Type) := Nat → (Nat → τ) → τ × List Str

/-- `obj.format_for_mcnp_input(...)` on object `i`: only object `i` may change -/
def fmtAt (fmt : Fmt τ) (s : Nat → τ) (i : Nat) : (Nat → τ) × List Str :=
  (fun j => if j = i then (fmt i s).1 else s j, (fmt i s).2)

/-- the writer loop over the objects `is`, in order: final state and the lines of each object -/
def writeAll (fmt : Fmt τ) : List Nat → (Nat → τ) → (Nat → τ) × List (List Str)
  | [], s => (s, [])
  | i :: t, s => ((writeAll fmt t (fmtAt fmt s i).1).1, (fmtAt fmt s i).2 :: (writeAll fmt t (fmtAt fmt s i).1).2)

def Idem (fmt : Fmt τ) : Prop :=
  ∀ s i, fmt i (fmtAt fmt s i).1 = ((fmt i s).1, (fmt i s).2)

def Invisible (fmt : Fmt τ) : Prop :=
  ∀ s i j, i ≠ j → fmt j (fmtAt fmt s i).1 = fmt j s

/-- one observation more or less makes no difference to any formatter -/
theorem fmt_after_one (fmt : Fmt τ) (hi : Idem fmt) (hv : Invisible fmt) (s : Nat → τ) (k i : Nat) :
    fmt i (fmtAt fmt s k).1 = fmt i s := by
  by_cases h : k = i
  · subst h; rw [hi s k]
  · exact hv s k i h

/-- … nor does any number of them -/
theorem fmt_after_pass (fmt : Fmt τ) (hi : Idem fmt) (hv : Invisible fmt) (js : List Nat) :
    ∀ (s : Nat → τ) (i : Nat), fmt i (writeAll fmt js s).1 = fmt i s := by
  induction js with
  | nil => intro s i; rfl
  | cons j t ih =>
    intro s i
    simp only [writeAll]
    rw [ih, fmt_after_one fmt hi hv]

/-- **writeAll_lines** — under the two local conditions every object is written as if it were
    formatted alone on the state the write started from. -/
theorem writeAll_lines (fmt : Fmt τ) (hi : Idem fmt) (hv : Invisible fmt) (is : List Nat) :
    ∀ (s : Nat → τ), (writeAll fmt is s).2 = is.map (fun i => (fmt i s).2) := by
  induction is with
  | nil => intro s; rfl
  | cons i t ih =>
    intro s
    simp only [writeAll, List.map_cons]
    rw [ih]
    congr 1
    apply List.map_congr_left
    intro j _
    rw [fmt_after_one fmt hi hv]

/-- **C19_twice** — writing twice in a row gives the same lines as writing once. -/
theorem C19_twice (fmt : Fmt τ) (hi : Idem fmt) (hv : Invisible fmt) (is : List Nat) (s : Nat → τ) :
    (writeAll fmt is (writeAll fmt is s).1).2 = (writeAll fmt is s).2 := by
  rw [writeAll_lines fmt hi hv, writeAll_lines fmt hi hv]
  apply List.map_congr_left
  intro i _
  rw [fmt_after_pass fmt hi hv]

/-- **C19_observe** — inspecting any objects `obs` (formatting them, in any order, any number of
    times) before writing does not change what is written. -/
theorem C19_observe (fmt : Fmt τ) (hi : Idem fmt) (hv : Invisible fmt) (obs is : List Nat) (s : Nat → τ) :
    (writeAll fmt is (writeAll fmt obs s).1).2 = (writeAll fmt is s).2 := by
  rw [writeAll_lines fmt hi hv, writeAll_lines fmt hi hv]
  apply List.map_congr_left
  intro i _
  rw [fmt_after_pass fmt hi hv]

/-- an edit is *blind to observation* when the formatters cannot tell, after the edit, whether an
    observation took place before it -/
def EditBlind (fmt : Fmt τ) (e : (Nat → τ) → (Nat → τ)) : Prop :=
  ∀ s k i, fmt i (e (fmtAt fmt s k).1) = fmt i (e s)

/-- **C19_observe_then_edit** — observations interleaved with edits: an observation before an edit
    that is blind to it does not change the bytes written after the edit. -/
theorem C19_observe_then_edit (fmt : Fmt τ) (hi : Idem fmt) (hv : Invisible fmt)
    (e : (Nat → τ) → (Nat → τ)) (he : EditBlind fmt e) (obs is : List Nat) (s : Nat → τ) :
    (writeAll fmt is (e (writeAll fmt obs s).1)).2 = (writeAll fmt is (e s)).2 := by
  rw [writeAll_lines fmt hi hv, writeAll_lines fmt hi hv]
  apply List.map_congr_left
  intro i _
  induction obs generalizing s with
  | nil => rfl
  | cons k t ih =>
    simp only [writeAll]
    rw [ih, he]

/-! ### Non-vacuity: a formatter that mutates in place and satisfies the conditions, one that does not -/

/-- object state: (text, has the separating blank been inserted?) — `ListNode.format` inserts a
    separating blank only where none exists -/
def padOnce : Fmt (Str × Bool) := fun i s =>
  let t := s i
  if t.2 then (t, [t.1]) else ((t.1 ++ [' '], true), [t.1 ++ [' ']])

example : Idem padOnce := by
  intro s i
  simp only [padOnce, fmtAt]
  by_cases h : (s i).2 = true <;> simp [h]

example : Invisible padOnce := by
  intro s i j hij
  have : j ≠ i := fun e => hij e.symm
  simp [padOnce, fmtAt, this]

/-- the mutation "append padding on every call" violates `Idem` (and the real write-twice test) -/
def padAlways : Fmt (Str × Bool) := fun i s => (((s i).1 ++ [' '], true), [(s i).1 ++ [' ']])

example : ¬ Idem padAlways := by
  intro h
  have := h (fun _ => (['a'], false)) 0
  simp [padAlways, fmtAt] at this

end MontePyVerif.Repeat
