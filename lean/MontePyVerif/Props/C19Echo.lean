import MontePyVerif.Props.C12Lexer
/-! # Props.C19Echo — the decomposition of "Echo" (an unedited input formats back to its own text)

C19 (`Props/C19Gen.lean: Echo`), C07 and C01 rest on a measured hypothesis: `fmt (parse bt raw) = raw`.  This file
splits it into the half that is now PROVED (the lexer is lossless: `C12Lexer.tokenize_lossless_input`) and a
smaller hypothesis about the parser alone that the harness measures per input (`tools/vlib/lexlib.py`,
counters `echo:*`):

    LeavesAreTokens tree ts    the texts stored in the leaves of the SLY-built syntax tree, in order, spell what
                               the tokens spell (the parser drops, duplicates and reorders nothing)

A syntax tree is a rose tree whose leaves hold source text (`ValueNode._token`, the strings of a `PaddingNode`,
`ParticleNode._token`, the `_original` of a `ShortcutNode`); an UNEDITED node formats as the concatenation of its
children (`syntax_node.py: SyntaxNode.format, PaddingNode.format, CommentNode.format, ParametersNode.format,
GeometryTree.format, ClassifierNode.format, IsotopesNode.format`, and `ValueNode.format` when `_value_changed` is
false).  `ListNode.format`, `ShortcutNode.format` and `ParticleNode.format` re-derive text even when nothing was
edited; that they give back the concatenation of their leaves is the second measured hypothesis
(`echo:format_is_concat`), not modelled here.
-/
namespace MontePyVerif.C19Echo
open MontePyVerif.Lexer MontePyVerif.C12Lexer

inductive Tree
  | leaf (t : Text)
  | node (cs : List Tree)

mutual
/-- `SyntaxNodeBase.format` of an unedited tree -/
def Tree.format : Tree → Text
  | .leaf t => t
  | .node cs => formatAll cs
def formatAll : List Tree → Text
  | [] => []
  | c :: cs => c.format ++ formatAll cs
end

mutual
/-- the leaf texts, left to right -/
def Tree.leaves : Tree → List Text
  | .leaf t => [t]
  | .node cs => leavesAll cs
def leavesAll : List Tree → List Text
  | [] => []
  | c :: cs => c.leaves ++ leavesAll cs
end

mutual
theorem format_eq_leaves : ∀ t : Tree, t.format = t.leaves.flatten
  | .leaf t => by simp [Tree.format, Tree.leaves]
  | .node cs => by simp only [Tree.format, Tree.leaves]; exact formatAll_eq_leaves cs
theorem formatAll_eq_leaves : ∀ cs : List Tree, formatAll cs = (leavesAll cs).flatten
  | [] => by simp [formatAll, leavesAll]
  | c :: cs => by
    simp only [formatAll, leavesAll, List.flatten_append]
    rw [format_eq_leaves c, formatAll_eq_leaves cs]
end

/-- the measured hypothesis, exact form: the leaves are the token values, one leaf per token -/
def LeavesAreTokensExact (tree : Tree) (ts : List Token) : Prop := tree.leaves = ts.map (·.value)

/-- the measured hypothesis as the harness counts it: the leaves spell what the tokens spell (a `PaddingNode`
    cuts a SPACE token at its newlines, so the segmentation may be finer) -/
def LeavesAreTokens (tree : Tree) (ts : List Token) : Prop := tree.leaves.flatten = values ts

theorem LeavesAreTokensExact.weaken {tree : Tree} {ts : List Token} (h : LeavesAreTokensExact tree ts) :
    LeavesAreTokens tree ts := by
  unfold LeavesAreTokens values
  rw [h]

/-- **Echo, decomposed** (text level).  For an input whose text is `J ++ "\n"` (`J`: the lines joined by
    newlines, without a tab, the last line not empty), that the lexer reads to its end: if the leaves of the
    unedited tree spell what the tokens spell, the tree formats back to `J` — the input's own text. -/
theorem echo_of_leaves (spec : LexerSpec) (J : Text) (ts : List Token) (tree : Tree)
    (hlex : tokenizeText spec (J ++ ['\n']) = (ts, .ok)) (htab : '\t' ∉ J) (hJ : ∀ y, J ≠ y ++ ['\n'])
    (hleaves : LeavesAreTokens tree ts) : tree.format = J := by
  rw [format_eq_leaves, hleaves]
  exact tokenize_lossless_input spec J ts hlex htab hJ

/-- `s.split("\n")` undoes `"\n".join(lines)` when no line holds a newline -/
theorem splitOn_intercalate : ∀ (lines : List Text), lines ≠ [] → (∀ l, l ∈ lines → '\n' ∉ l) →
    splitOn '\n' ("\n".toList.intercalate lines) = lines := by
  have hline : ∀ (l rest : Text), '\n' ∉ l →
      splitOn '\n' (l ++ '\n' :: rest) = l :: splitOn '\n' rest := by
    intro l
    induction l with
    | nil => intro rest _; simp [splitOn]
    | cons c t ih =>
      intro rest h
      simp only [List.mem_cons, not_or] at h
      have hc : (c == '\n') = false := by
        simp only [beq_eq_false_iff_ne, ne_eq]; exact fun e => h.1 e.symm
      simp only [List.cons_append, splitOn, hc, ih rest h.2]
      rfl
  have hlast : ∀ (l : Text), '\n' ∉ l → splitOn '\n' l = [l] := by
    intro l
    induction l with
    | nil => intro _; rfl
    | cons c t ih =>
      intro h
      simp only [List.mem_cons, not_or] at h
      have hc : (c == '\n') = false := by
        simp only [beq_eq_false_iff_ne, ne_eq]; exact fun e => h.1 e.symm
      simp only [splitOn, hc, ih h.2]
      rfl
  intro lines
  induction lines with
  | nil => intro h; exact absurd rfl h
  | cons l ls ih =>
    intro _ hno
    cases ls with
    | nil =>
      simp only [List.intercalate, List.intersperse, List.flatten_cons, List.flatten_nil, List.append_nil]
      exact hlast l (hno l (by simp))
    | cons l2 ls2 =>
      have : "\n".toList.intercalate (l :: l2 :: ls2) = l ++ '\n' :: "\n".toList.intercalate (l2 :: ls2) := by
        simp [List.intercalate, List.intersperse]
      rw [this, hline l _ (hno l (by simp)), ih (by simp) (fun x hx => hno x (by simp [hx]))]

theorem not_mem_intercalate : ∀ (lines : List Text), (∀ l, l ∈ lines → '\t' ∉ l) →
    '\t' ∉ "\n".toList.intercalate lines := by
  intro lines
  induction lines with
  | nil => intro _; simp [List.intercalate]
  | cons l ls ih =>
    intro hno
    cases ls with
    | nil =>
      simp only [List.intercalate, List.intersperse, List.flatten_cons, List.flatten_nil, List.append_nil]
      exact hno l (by simp)
    | cons l2 ls2 =>
      have : "\n".toList.intercalate (l :: l2 :: ls2) = l ++ '\n' :: "\n".toList.intercalate (l2 :: ls2) := by
        simp [List.intercalate, List.intersperse]
      rw [this]
      simp only [List.mem_append, List.mem_cons, not_or]
      exact ⟨hno l (by simp), by decide, ih (fun x hx => hno x (by simp [hx]))⟩

/-- **Echo, decomposed** (line level — the shape of `C19Gen.Echo`: `fmt (parse bt raw) = raw` with
    `fmt tree = tree.format.split("\n")`).  Hypotheses about the input: it has a line, no line holds a newline or a
    tab, the last line is not empty.  Hypothesis about the lexer run: it ends without an error.  Measured
    hypothesis about the parser: `LeavesAreTokens`. -/
theorem echo_lines (spec : LexerSpec) (lines : List Text) (ts : List Token) (tree : Tree)
    (hne : lines ≠ []) (hnl : ∀ l, l ∈ lines → '\n' ∉ l) (htab : ∀ l, l ∈ lines → '\t' ∉ l)
    (hlastline : ∀ y, "\n".toList.intercalate lines ≠ y ++ ['\n'])
    (hlex : inputTokenize spec lines = (ts, .ok))
    (hleaves : LeavesAreTokens tree ts) :
    splitOn '\n' tree.format = lines := by
  have htabJ : '\t' ∉ "\n".toList.intercalate lines := not_mem_intercalate lines htab
  unfold inputTokenize inputText at hlex
  rw [echo_of_leaves spec _ ts tree hlex htabJ hlastline hleaves]
  exact splitOn_intercalate lines hne hnl

/-! ## tests (non-vacuity): a concrete input and tree satisfy the hypotheses -/

private def exLines : List Text := ["1 0 -1".toList, "     imp:n=1".toList]
private def exTree : Tree :=
  .node [.node [.leaf "1".toList, .leaf " ".toList], .node [.leaf "0".toList, .leaf " ".toList],
         .node [.leaf "-1".toList, .node [.leaf "\n".toList, .leaf "     ".toList]],
         .node [.leaf "imp".toList, .leaf ":".toList, .leaf "n".toList, .leaf "=".toList, .leaf "1".toList]]

example : (inputTokenize cellLexer exLines).2 = .ok := by decide
example : LeavesAreTokens exTree (inputTokenize cellLexer exLines).1 := by unfold LeavesAreTokens; decide
example : splitOn '\n' exTree.format = exLines := by decide

end MontePyVerif.C19Echo
