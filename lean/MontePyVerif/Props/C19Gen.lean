import MontePyVerif.Model.Reader
/-!
# C19 — the generation fixed point: reading a file MontePy wrote and writing it again reproduces it

`Props/C19.lean` proves that writing twice, or observing between edits, gives the same lines (idempotent
formatters).  This file proves the other half of the property, "output is a fixed point over generations",
on the model of the line reader `read_data` (`Model/Reader.lean`, tied to the code by C11/C20's correspondence
U-reader) composed with the block-wise writer:

* **`C19_reader_partition`** — `read_data` loses, duplicates and reorders no line: the `input_lines` of the inputs it
  yields, concatenated in order and tagged with their block, are exactly the non-blank lines of the file up to the
  blank line that ends the data block, each as stored (`rstrip` of the line cut at the column limit, tabs
  expanded), for EVERY file and every reader state (induction over the lines) on which the run yields only inputs
  and warnings (no read card, no vertical format — the cases C20 and C13 own).
* **`C19_written_body_read`** — for a body as `write_to_file` lays it out (three blocks of lines that are
  non-blank, right-stripped, tab-free and within the limit, each block closed by one empty line) the reader files
  every line in the block it was written in; whatever follows the last blank line is not read.
* **`C19_generation`** — hence, if the objects of each block format, in order, to the lines of the block's inputs
  (`EchoB`: the lossless syntax tree; per input it is `Echo`, which implies it — *measured* on the real objects of
  every explored problem by the C19 check, not proved: the SLY parser is not modelled), writing what was read from a
  written file gives that file again, line for line.
-/
namespace MontePyVerif.Reader

/-- the line as `read_data` stores it in `input_raw_lines` -/
def stored (cfg : Cfg) (l : Str) : Str := rstrip ((expandtabs Gen.tabSize l).take cfg.lineLength)

/-- the blank-line test of `read_data` -/
def isBlank (l : Str) : Bool := (strip (expandtabs Gen.tabSize l)).isEmpty

/-- the lines `read_data` keeps, with the block they are filed in: everything up to the blank line that ends the
    data block, blank lines dropped.  `n` = blank lines met so far, `bt` = the current block. -/
def kept (cfg : Cfg) : Nat → BlockType → List Str → List (BlockType × Str)
  | _, _, [] => []
  | n, bt, l :: ls =>
    if isBlank l then
      (if cfg.firstBlock.value + (n + 1) ≥ 3 then []
       else kept cfg (n + 1) (BlockType.ofValue (cfg.firstBlock.value + (n + 1))) ls)
    else (bt, stored cfg l) :: kept cfg n bt ls

/-- the lines an event hands to the caller, tagged with the block -/
def evTagged : Event → List (BlockType × Str)
  | .input bt raw => raw.map (fun l => (bt, l))
  | _ => []

/-- a run that yields inputs (and line-length warnings) only -/
def Event.plain : Event → Bool
  | .input _ _ => true
  | .warn => true
  | _ => false

def Plain (evs : List Event) : Prop := ∀ e ∈ evs, e.plain = true

instance (evs : List Event) : Decidable (Plain evs) := by unfold Plain; infer_instance

theorem Plain.append_left {a b : List Event} (h : Plain (a ++ b)) : Plain a :=
  fun e he => h e (List.mem_append_left _ he)

theorem Plain.append_right {a b : List Event} (h : Plain (a ++ b)) : Plain b :=
  fun e he => h e (List.mem_append_right _ he)

theorem Plain.noRaise {evs : List Event} (h : Plain evs) : hasRaise evs = false := by
  unfold hasRaise
  rw [List.any_eq_false]
  intro e he
  have := h e he
  cases e <;> simp_all [Event.plain, Event.isRaise]

theorem flushInput_plain (cfg : Cfg) (bt : BlockType) (raw : List Str) (h : Plain (flushInput cfg bt raw)) :
    flushInput cfg bt raw = [.input bt raw] := by
  unfold flushInput at h ⊢
  by_cases hr : isReadInput raw = true
  · rw [if_pos hr] at h
    cases hp : parseRead raw with
    | none =>
      rw [hp] at h
      have := h (.raise .parsing) (by simp)
      simp [Event.plain] at this
    | some name =>
      rw [hp] at h
      simp only at h
      by_cases hc : cfg.chain.contains (joinPath cfg.topDir name) = true
      · rw [if_pos hc] at h
        have := h (.raise .malformed) (by simp)
        simp [Event.plain] at this
      · rw [if_neg hc] at h
        have := h (.none) (by simp)
        simp [Event.plain] at this
  · rw [if_neg hr]

theorem flushBlock_fst_tagged (cfg : Cfg) (st : LState) (h : Plain (flushBlock cfg st).1) :
    (flushBlock cfg st).1.flatMap evTagged = st.raw.map (fun l => (st.blockType, l)) := by
  have hfst : (flushBlock cfg st).1 = if st.raw.isEmpty then [] else flushInput cfg st.blockType st.raw := rfl
  rw [hfst] at h ⊢
  by_cases he : st.raw.isEmpty = true
  · rw [if_pos he]
    have : st.raw = [] := by simpa using he
    simp [this]
  · rw [if_neg he] at h ⊢
    rw [flushInput_plain cfg _ _ h]
    simp [evTagged]

theorem flushBlock_snd (cfg : Cfg) (st : LState) :
    (flushBlock cfg st).2.raw = [] ∧ (flushBlock cfg st).2.blockCounter = st.blockCounter + 1 ∧
    (flushBlock cfg st).2.blockType =
      (if cfg.firstBlock.value + (st.blockCounter + 1) < 3 then BlockType.ofValue (cfg.firstBlock.value + (st.blockCounter + 1))
       else st.blockType) := ⟨rfl, rfl, rfl⟩

theorem flushBlock_fst_nil (cfg : Cfg) (st : LState) (h : st.raw = []) : (flushBlock cfg st).1 = [] := by
  have hfst : (flushBlock cfg st).1 = if st.raw.isEmpty then [] else flushInput cfg st.blockType st.raw := rfl
  rw [hfst, h]
  rfl

/-- the outcome of `stepData` on a plain run: the line is appended to the pending lines -/
theorem stepData_plain (cfg : Cfg) (st : LState) (line : Str) (c : Bool) (evs1 : List Event) (raw1 : List Str)
    (h : Plain (stepData cfg st line c evs1 raw1).1) :
    (stepData cfg st line c evs1 raw1).1.flatMap evTagged = evs1.flatMap evTagged ∧
    (stepData cfg st line c evs1 raw1).2.raw = raw1 ++ [rstrip (line.take cfg.lineLength)] ∧
    (stepData cfg st line c evs1 raw1).2.blockCounter = st.blockCounter ∧
    (stepData cfg st line c evs1 raw1).2.blockType = st.blockType ∧
    Plain evs1 := by
  unfold stepData at h ⊢
  by_cases h1 : hasRaise evs1 = true
  · rw [if_pos h1] at h
    have := Plain.noRaise h
    rw [h1] at this
    exact absurd this (by simp)
  · rw [if_neg h1] at h ⊢
    by_cases h2 : (startsWith (lstrip (line.take Gen.blankSpaceContinue)) ['#'] && !c) = true
    · rw [if_pos h2] at h
      have := h (.raise .unsupported) (by simp)
      simp [Event.plain] at this
    · rw [if_neg h2] at h ⊢
      refine ⟨?_, rfl, rfl, rfl, Plain.append_left h⟩
      rw [List.flatMap_append]
      by_cases h3 : ((line.take cfg.lineLength).length != line.length) = true
      · rw [if_pos h3]; simp [evTagged]
      · rw [if_neg h3]; simp

theorem goLines_cons (cfg : Cfg) (st : LState) (l : Str) (ls : List Str) :
    goLines cfg st (l :: ls) =
      if hasRaise (stepLine cfg st l).1 then (stepLine cfg st l).1
      else if stopsAfter cfg l (stepLine cfg st l).2 then
        (stepLine cfg st l).1 ++ (flushBlock cfg (stepLine cfg st l).2).1
      else (stepLine cfg st l).1 ++ goLines cfg (stepLine cfg st l).2 ls := by
  rw [goLines]

theorem stepLine_blank (cfg : Cfg) (st : LState) (l : Str) (hb : isBlank l = true) :
    stepLine cfg st l = ((flushBlock cfg st).1, { (flushBlock cfg st).2 with hasNonComments := false }) := by
  unfold stepLine
  have : (strip (expandtabs Gen.tabSize l)).isEmpty = true := hb
  simp only [this, if_true]

theorem stopsAfter_eq (cfg : Cfg) (l : Str) (st' : LState) :
    stopsAfter cfg l st' = (isBlank l && decide (cfg.firstBlock.value + st'.blockCounter ≥ 3)) := rfl

/-- one iteration on a plain run, blank line -/
theorem step_blank (cfg : Cfg) (st : LState) (l : Str) (hb : isBlank l = true) (h : Plain (stepLine cfg st l).1) :
    (stepLine cfg st l).1.flatMap evTagged = st.raw.map (fun x => (st.blockType, x)) ∧
    (stepLine cfg st l).2.raw = [] ∧ (stepLine cfg st l).2.blockCounter = st.blockCounter + 1 ∧
    (stepLine cfg st l).2.blockType =
      (if cfg.firstBlock.value + (st.blockCounter + 1) < 3 then BlockType.ofValue (cfg.firstBlock.value + (st.blockCounter + 1))
       else st.blockType) := by
  rw [stepLine_blank cfg st l hb] at h ⊢
  exact ⟨flushBlock_fst_tagged cfg st h, rfl, rfl, rfl⟩

/-- one iteration on a plain run, line with content: emitted lines and pending lines together grow by this line -/
theorem step_content (cfg : Cfg) (st : LState) (l : Str) (hb : isBlank l = false) (h : Plain (stepLine cfg st l).1) :
    (stepLine cfg st l).1.flatMap evTagged ++ (stepLine cfg st l).2.raw.map (fun x => (st.blockType, x)) =
      st.raw.map (fun x => (st.blockType, x)) ++ [(st.blockType, stored cfg l)] ∧
    (stepLine cfg st l).2.blockCounter = st.blockCounter ∧ (stepLine cfg st l).2.blockType = st.blockType := by
  have hb' : (strip (expandtabs Gen.tabSize l)).isEmpty = false := hb
  by_cases hn : startsNew st (expandtabs Gen.tabSize l) (isComment (expandtabs Gen.tabSize l)) = true
  · have hstep : stepLine cfg st l =
        stepData cfg st (expandtabs Gen.tabSize l) (isComment (expandtabs Gen.tabSize l))
          (flushInput cfg st.blockType st.raw) [] := by
      unfold stepLine
      simp only [hb', hn, if_true, Bool.false_eq_true, if_false]
    rw [hstep] at h ⊢
    obtain ⟨e1, e2, e3, e4, e5⟩ := stepData_plain cfg st _ _ _ _ h
    rw [e1, e2, e3, e4, flushInput_plain cfg _ _ e5]
    simp [evTagged, stored]
  · have hstep : stepLine cfg st l =
        stepData cfg st (expandtabs Gen.tabSize l) (isComment (expandtabs Gen.tabSize l)) [] st.raw := by
      unfold stepLine
      simp only [hb', hn, Bool.false_eq_true, if_false]
    rw [hstep] at h ⊢
    obtain ⟨e1, e2, e3, e4, _⟩ := stepData_plain cfg st _ _ _ _ h
    rw [e1, e2, e3, e4]
    simp [stored]

/-- **C19_reader_partition** — `read_data` loses, duplicates and reorders no line (every file, every state). -/
theorem C19_reader_partition (cfg : Cfg) : ∀ (ls : List Str) (st : LState), Plain (goLines cfg st ls) →
    (goLines cfg st ls).flatMap evTagged =
      st.raw.map (fun l => (st.blockType, l)) ++ kept cfg st.blockCounter st.blockType ls := by
  intro ls
  induction ls with
  | nil =>
    intro st h
    have hg : goLines cfg st [] = (flushBlock cfg st).1 := by rw [goLines]
    rw [hg] at h ⊢
    rw [flushBlock_fst_tagged cfg st h]
    simp [kept]
  | cons l ls ih =>
    intro st h
    rw [goLines_cons] at h ⊢
    by_cases hr : hasRaise (stepLine cfg st l).1 = true
    · rw [if_pos hr] at h
      have := Plain.noRaise h
      rw [hr] at this
      exact absurd this (by simp)
    · rw [if_neg hr] at h ⊢
      by_cases hb : isBlank l = true
      · by_cases hs : stopsAfter cfg l (stepLine cfg st l).2 = true
        · rw [if_pos hs] at h ⊢
          obtain ⟨e1, e2, e3, _⟩ := step_blank cfg st l hb (Plain.append_left h)
          rw [List.flatMap_append, e1, flushBlock_fst_nil cfg _ e2]
          rw [stopsAfter_eq, hb, e3] at hs
          have hs' : cfg.firstBlock.value + (st.blockCounter + 1) ≥ 3 := by simpa using hs
          simp [kept, hb, hs']
        · rw [if_neg hs] at h ⊢
          obtain ⟨e1, e2, e3, e4⟩ := step_blank cfg st l hb (Plain.append_left h)
          rw [List.flatMap_append, e1, ih _ (Plain.append_right h), e2, e3, e4]
          rw [stopsAfter_eq, hb, e3] at hs
          have hs' : ¬ cfg.firstBlock.value + (st.blockCounter + 1) ≥ 3 := by simpa using hs
          have hlt : cfg.firstBlock.value + (st.blockCounter + 1) < 3 := by omega
          simp [kept, hb, hs', hlt]
      · have hb' : isBlank l = false := by simpa using hb
        have hs : stopsAfter cfg l (stepLine cfg st l).2 = false := by rw [stopsAfter_eq, hb']; rfl
        rw [hs] at h ⊢
        simp only [Bool.false_eq_true, if_false] at h ⊢
        obtain ⟨e1, e2, e3⟩ := step_content cfg st l hb' (Plain.append_left h)
        rw [List.flatMap_append, ih _ (Plain.append_right h), e2, e3, ← List.append_assoc, e1]
        simp [kept, hb']

/-! ## what the writer lays out -/

/-- a line as `write_to_file` hands it to the file (before the `"\n"`): tab-free, right-stripped, not blank,
    within the column limit -/
structure Writable (cfg : Cfg) (l : Str) : Prop where
  noTab : ∀ c ∈ l, c ≠ '\t' ∧ c ≠ '\n' ∧ c ≠ '\r'
  fits : l.length ≤ cfg.lineLength
  stripped : rstrip l = l
  notBlank : (strip l).isEmpty = false

theorem expandtabsAux_noTab (tab : Nat) : ∀ (l : Str) (col : Nat), (∀ c ∈ l, c ≠ '\t' ∧ c ≠ '\n' ∧ c ≠ '\r') →
    expandtabsAux tab col (l ++ ['\n']) = l ++ ['\n'] := by
  intro l
  induction l with
  | nil => intro col _; simp [expandtabsAux]
  | cons c t ih =>
    intro col h
    have hc := h c (by simp)
    have ht := ih (col + 1) (fun d hd => h d (List.mem_cons_of_mem _ hd))
    simp only [List.cons_append, expandtabsAux]
    have h1 : (c == '\t') = false := by simpa using hc.1
    have h2 : (c == '\n' || c == '\r') = false := by simp [hc.2.1, hc.2.2]
    simp only [h1, h2, Bool.false_eq_true, if_false]
    rw [ht]

theorem rstrip_snoc_newline (l : Str) : rstrip (l ++ ['\n']) = rstrip l := by
  unfold rstrip
  simp [List.dropWhile, pyIsSpace]

theorem rstrip_take_snoc (l : Str) (n : Nat) (h : l.length ≤ n) : rstrip ((l ++ ['\n']).take n) = rstrip l := by
  by_cases he : l.length = n
  · have : (l ++ ['\n']).take n = l := by
      rw [List.take_append_of_le_length (by omega)]
      rw [← he, List.take_length]
    rw [this]
  · have : (l ++ ['\n']).take n = l ++ ['\n'] := by
      apply List.take_of_length_le
      simp
      omega
    rw [this, rstrip_snoc_newline]

theorem stored_written (cfg : Cfg) (l : Str) (h : Writable cfg l) : stored cfg (l ++ ['\n']) = l := by
  unfold stored expandtabs
  rw [expandtabsAux_noTab _ l 0 h.noTab, rstrip_take_snoc l _ h.fits, h.stripped]

theorem strip_snoc_newline (l : Str) : strip (l ++ ['\n']) = strip l := by
  unfold strip
  rw [rstrip_snoc_newline]

theorem isBlank_written (cfg : Cfg) (l : Str) (h : Writable cfg l) : isBlank (l ++ ['\n']) = false := by
  unfold isBlank expandtabs
  rw [expandtabsAux_noTab _ l 0 h.noTab, strip_snoc_newline]
  exact h.notBlank

theorem isBlank_empty : isBlank ['\n'] = true := by decide

/-- the lines of one block followed by the empty line that ends it, as they stand in the file -/
def blockText (ls : List Str) : List Str := (ls ++ [[]]).map (fun l => l ++ ['\n'])

theorem kept_block (cfg : Cfg) (ls : List Str) (h : ∀ l ∈ ls, Writable cfg l) (n : Nat) (bt : BlockType)
    (rest : List Str) :
    kept cfg n bt (blockText ls ++ rest) =
      ls.map (fun l => (bt, l)) ++
        (if cfg.firstBlock.value + (n + 1) ≥ 3 then []
         else kept cfg (n + 1) (BlockType.ofValue (cfg.firstBlock.value + (n + 1))) rest) := by
  induction ls with
  | nil =>
    simp only [blockText, List.nil_append, List.map_cons, List.map_nil, List.cons_append, kept, isBlank_empty, if_true]
  | cons l t ih =>
    have hl := h l (by simp)
    have ht := ih (fun d hd => h d (List.mem_cons_of_mem _ hd))
    simp only [blockText, List.cons_append, List.map_cons] at ht ⊢
    simp only [kept, isBlank_written cfg l hl, Bool.false_eq_true, if_false, stored_written cfg l hl]
    rw [ht]

/-- the body of a written file: cell, surface and data lines, each block closed by one empty line -/
def bodyText (c s d : List Str) : List Str := blockText c ++ blockText s ++ blockText d

/-- **C19_written_body_read** — every written line is filed in the block it was written in, once, in order;
    what follows the blank line that ends the data block is not read. -/
theorem C19_written_body_read (cfg : Cfg) (hf : cfg.firstBlock = .cell) (c s d extra : List Str)
    (hc : ∀ l ∈ c, Writable cfg l) (hs : ∀ l ∈ s, Writable cfg l) (hd : ∀ l ∈ d, Writable cfg l) :
    kept cfg 0 .cell (bodyText c s d ++ extra) =
      c.map (fun l => (BlockType.cell, l)) ++ s.map (fun l => (BlockType.surface, l)) ++
        d.map (fun l => (BlockType.data, l)) := by
  unfold bodyText
  rw [List.append_assoc, List.append_assoc, kept_block cfg c hc]
  simp only [hf, BlockType.value, Nat.zero_add, show ¬ (0 + 1 ≥ 3) by omega, if_false, BlockType.ofValue]
  rw [kept_block cfg s hs]
  simp only [hf, BlockType.value, Nat.zero_add, show ¬ (1 + 1 ≥ 3) by omega, if_false, BlockType.ofValue]
  rw [kept_block cfg d hd]
  simp [hf, BlockType.value]

/-! ## the fixed point -/

/-- the lines of block `b` when every input read is formatted again (`fmt (parse bt raw)`) -/
def regenBlock (fmt : α → List Str) (parse : BlockType → List Str → α) (b : BlockType) (evs : List Event) : List Str :=
  evs.flatMap (fun e => match e with
    | .input bt raw => if bt = b then fmt (parse bt raw) else []
    | _ => [])

/-- the body written from what was read -/
def regen (fmt : α → List Str) (parse : BlockType → List Str → α) (evs : List Event) : List Str :=
  bodyText (regenBlock fmt parse .cell evs) (regenBlock fmt parse .surface evs) (regenBlock fmt parse .data evs)

/-- every input formats back to the lines it was read from (the lossless syntax tree; observed, not proved) -/
def Echo (fmt : α → List Str) (parse : BlockType → List Str → α) (evs : List Event) : Prop :=
  ∀ bt raw, Event.input bt raw ∈ evs → fmt (parse bt raw) = raw

theorem regenBlock_echo (fmt : α → List Str) (parse : BlockType → List Str → α) (b : BlockType) :
    ∀ (evs : List Event), Echo fmt parse evs →
      regenBlock fmt parse b evs = ((evs.flatMap evTagged).filter (fun x => x.1 = b)).map (·.2) := by
  intro evs
  induction evs with
  | nil => intro _; rfl
  | cons e t ih =>
    intro h
    have ht := ih (fun bt raw hm => h bt raw (List.mem_cons_of_mem _ hm))
    unfold regenBlock at ht ⊢
    simp only [List.flatMap_cons, List.filter_append, List.map_append]
    rw [ht]
    congr 1
    cases e with
    | input bt raw =>
      simp only [evTagged]
      by_cases hb : bt = b
      · simp only [hb, if_true]
        rw [← hb, h bt raw (by simp)]
        simp only [List.filter_map, Function.comp_def, decide_true, List.map_map]
        have hft : ∀ (xs : List Str), xs.filter (fun _ => true) = xs := by
          intro xs; induction xs with
          | nil => rfl
          | cons x t ih => simp
        rw [hft]
        simp
      · simp only [hb, if_false]
        simp [List.filter_map, Function.comp_def, hb]
    | _ => simp [evTagged]

theorem filter_tag_same (b : BlockType) (ls : List Str) :
    ((ls.map (fun l => (b, l))).filter (fun x => x.1 = b)).map (·.2) = ls := by
  induction ls with
  | nil => rfl
  | cons l t ih => simp [ih]

theorem filter_tag_other (b b' : BlockType) (hne : b' ≠ b) (ls : List Str) :
    ((ls.map (fun l => (b', l))).filter (fun x => x.1 = b)).map (·.2) = [] := by
  induction ls with
  | nil => rfl
  | cons l t ih => simp [hne]

/-- the block-wise form of the hypothesis: the objects of a block, formatted in order, give the lines of the block's
    inputs in order.  Weaker than `Echo`: a comment card may leave the input the reader filed it with and be printed
    by the neighbouring object, and a material may print the MT input that follows it. -/
def EchoB (fmt : α → List Str) (parse : BlockType → List Str → α) (evs : List Event) : Prop :=
  ∀ b, regenBlock fmt parse b evs = ((evs.flatMap evTagged).filter (fun x => x.1 = b)).map (·.2)

theorem Echo.toEchoB {fmt : α → List Str} {parse : BlockType → List Str → α} {evs : List Event}
    (h : Echo fmt parse evs) : EchoB fmt parse evs := fun b => regenBlock_echo fmt parse b evs h

/-- **C19_generation** — reading the body of a file `write_to_file` wrote and formatting what was read gives
    the same body again, line for line, whatever follows it (`extra`), for every list of written lines. -/
theorem C19_generation (fmt : α → List Str) (parse : BlockType → List Str → α) (cfg : Cfg)
    (hf : cfg.firstBlock = .cell) (c s d extra : List Str)
    (hc : ∀ l ∈ c, Writable cfg l) (hs : ∀ l ∈ s, Writable cfg l) (hd : ∀ l ∈ d, Writable cfg l)
    (hplain : Plain (readData cfg (bodyText c s d ++ extra)))
    (hecho : EchoB fmt parse (readData cfg (bodyText c s d ++ extra))) :
    regen fmt parse (readData cfg (bodyText c s d ++ extra)) = bodyText c s d := by
  have hpart := C19_reader_partition cfg (bodyText c s d ++ extra) (initState cfg) hplain
  have hinit : (initState cfg).raw = [] ∧ (initState cfg).blockCounter = 0 ∧ (initState cfg).blockType = .cell := by
    simp [initState, hf]
  rw [hinit.1, hinit.2.1, hinit.2.2, List.map_nil, List.nil_append,
    C19_written_body_read cfg hf c s d extra hc hs hd] at hpart
  unfold regen
  rw [hecho .cell, hecho .surface, hecho .data]
  unfold readData
  rw [hpart]
  simp only [List.filter_append, List.map_append]
  rw [filter_tag_same, filter_tag_same, filter_tag_same,
    filter_tag_other _ _ (by decide), filter_tag_other _ _ (by decide), filter_tag_other _ _ (by decide),
    filter_tag_other _ _ (by decide), filter_tag_other _ _ (by decide), filter_tag_other _ _ (by decide)]
  simp

/-! ### Non-vacuity: a concrete written body meets every hypothesis -/

def exCfg : Cfg := { lineLength := 128, firstBlock := .cell, path := "a.i".toList, chain := ["a.i".toList] }
def exC : List Str := ["c leading comment".toList, "1 0 -1 &".toList, "c inside".toList, "imp:n=1 $ note".toList,
  "2 0 1".toList, "     imp:n=0".toList]
def exS : List Str := ["1 so 1.5".toList]
def exD : List Str := ["mode n".toList, "c between".toList, "nps 10".toList]

theorem exWritable : ∀ l ∈ exC ++ exS ++ exD, Writable exCfg l := by
  intro l hl
  simp only [exC, exS, exD, List.cons_append, List.nil_append, List.mem_cons, List.not_mem_nil, or_false] at hl
  rcases hl with rfl | rfl | rfl | rfl | rfl | rfl | rfl | rfl | rfl | rfl <;>
    exact ⟨by decide, by decide, by decide, by decide⟩

example : Plain (readData exCfg (bodyText exC exS exD ++ ["not read".toList])) := by decide

/-- the reader makes five inputs of the ten lines (a comment card travels with the input it follows or leads) … -/
example : (readData exCfg (bodyText exC exS exD ++ ["not read".toList])).length = 5 := by decide

/-- … and with formatters that echo, the regenerated body is the written body, the line after it is ignored -/
example : regen (fun (x : List Str) => x) (fun _ raw => raw)
    (readData exCfg (bodyText exC exS exD ++ ["not read".toList])) = bodyText exC exS exD :=
  C19_generation _ _ exCfg rfl exC exS exD _
    (fun l hl => exWritable l (by simp [hl])) (fun l hl => exWritable l (by simp [hl]))
    (fun l hl => exWritable l (by simp [hl])) (by decide) (Echo.toEchoB (fun _ _ _ => rfl))

end MontePyVerif.Reader
