import MontePyVerif.Gen.Reader
import MontePyVerif.Lemmas.Queue
import MontePyVerif.Lemmas.Paths
import MontePyVerif.Lemmas.Flatten
import MontePyVerif.Lemmas.Finite
/-!
# C20 — files pulled in by read cards are merged exactly once, in the right block

Part 1 (this section): the queue mechanics of the model, for **every** file system, top-level file and nesting.
`readAll` is `read_input_syntax` consumed to the end; `serve` is one turn of `while reading_queue:`;
`gens` serves generation after generation.  Part 2 (below) lifts this to the Spec (`Spec.flatten`).
-/
namespace MontePyVerif.C20
open MontePyVerif.Reader

/-- **C20_tables**: the facts of the source that the model builds in, as the translator finds them in the working
    tree now (`Gen/Reader.lean`, `tools/extractors/reader.py`): the members of `BlockType` and their values are the
    model's (`read_data` computes `BlockType(first_block + block_counter)`), `read` and `file` are lexer keywords
    (the read parser's `KEYWORD` rule), and `read_input` defaults to `replace=True` (the only mode modelled). -/
theorem C20_tables :
    Gen.blockTypes = [("CELL", BlockType.cell.value), ("SURFACE", BlockType.surface.value), ("DATA", BlockType.data.value)] ∧
    (Gen.blockTypes.map (fun p => (BlockType.ofValue p.2).value)) = Gen.blockTypes.map (·.2) ∧
    Gen.readIsKeyword = true ∧ Gen.fileIsKeyword = true ∧ Gen.readInputReplaceDefault = true := by decide

/-- the events of the top-level file after its front matter -/
def mainEvents (ll : Nat) (main : Str) (bytes : List Nat) : List Event :=
  readData ⟨ll, .cell, main, [main]⟩ (readFrontMatters (fileLines bytes)).2

/-- message block and title -/
def frontEvents (bytes : List Nat) : List Event := (readFrontMatters (fileLines bytes)).1

/-- read cards are nested at most `d` deep below the top-level file (the generation `d` levels down is empty) -/
def Nesting (ll : Nat) (fs : FS) (main : Str) (bytes : List Nat) (d : Nat) : Prop :=
  DiesOut ll fs (dirname main) d (enqueued (mainEvents ll main bytes))

/-- the read cards that get served, in the order they are served -/
def servedCards (ll : Nat) (fs : FS) (main : Str) (bytes : List Nat) (d : Nat) : List QEntry :=
  served ll fs (dirname main) d (enqueued (mainEvents ll main bytes))

/-- fuel that suffices: the number of read cards served -/
def enoughFuel (ll : Nat) (fs : FS) (main : Str) (bytes : List Nat) (d : Nat) : Nat :=
  (servedCards ll fs main bytes d).length

/-- **C20_queue**: the first-in-first-out queue is generation-wise merging: the top-level file, then the files
    named in it in the order of the cards, then the files named in those, …; everything stops at the first raise. -/
theorem C20_queue (ll : Nat) (fs : FS) (main : Str) (bytes : List Nat) (d extra : Nat)
    (hm : fs main = some bytes) (hd : Nesting ll fs main bytes d) :
    readAll ll (extra + enoughFuel ll fs main bytes d) fs main =
      .openFile main :: (frontEvents bytes ++
        cut (mainEvents ll main bytes ++ serveAll ll fs (dirname main) (servedCards ll fs main bytes d))) := by
  unfold readAll
  rw [hm]
  simp only
  have hq := queueLoop_gens ll fs (dirname main) d (enqueued (mainEvents ll main bytes)) extra hd
  unfold enoughFuel servedCards
  unfold fuelFor at hq
  unfold mainEvents at hq ⊢
  unfold frontEvents
  cases hfm : readFrontMatters (fileLines bytes) with
  | mk front rest =>
    simp only [hfm] at hq ⊢
    congr 2
    rw [cut_append, hq, gens_eq_served]
    split
    · rename_i h; rw [cut_readData]
    · rfl

/-- **C20_term** (fuel sufficiency): any fuel beyond the number of cards served gives the same run, and the run
    does not end for lack of fuel. -/
theorem C20_term (ll : Nat) (fs : FS) (main : Str) (bytes : List Nat) (d extra : Nat)
    (hm : fs main = some bytes) (hd : Nesting ll fs main bytes d) :
    readAll ll (extra + enoughFuel ll fs main bytes d) fs main =
      readAll ll (enoughFuel ll fs main bytes d) fs main := by
  have h0 := C20_queue ll fs main bytes d 0 hm hd
  rw [Nat.zero_add] at h0
  rw [C20_queue ll fs main bytes d extra hm hd, h0]

/-- **C20_once**: in a run without error, the files read after the top-level file are exactly the read cards met
    during the whole run — each served once, in the order they were met, and nothing else is served. -/
theorem C20_once (ll : Nat) (fs : FS) (main : Str) (bytes : List Nat) (d extra : Nat)
    (hm : fs main = some bytes) (hd : Nesting ll fs main bytes d)
    (hok : hasRaise (readAll ll (extra + enoughFuel ll fs main bytes d) fs main) = false) :
    ∃ S : List QEntry,
      readAll ll (extra + enoughFuel ll fs main bytes d) fs main =
        .openFile main :: (frontEvents bytes ++ (mainEvents ll main bytes ++ serveAll ll fs (dirname main) S))
      ∧ S = enqueued (mainEvents ll main bytes ++ serveAll ll fs (dirname main) S) := by
  refine ⟨servedCards ll fs main bytes d, ?_, ?_⟩
  · have h := C20_queue ll fs main bytes d extra hm hd
    rw [h] at hok ⊢
    rw [hasRaise_cons, hasRaise_append, hasRaise_cut] at hok
    have : hasRaise (mainEvents ll main bytes ++ serveAll ll fs (dirname main) (servedCards ll fs main bytes d)) = false := by
      cases hh : hasRaise (mainEvents ll main bytes ++ serveAll ll fs (dirname main) (servedCards ll fs main bytes d)) <;> simp_all
    rw [cut_of_noRaise this]
  · unfold servedCards
    rw [enqueued_append, ← gens_eq_served, ← served_eq_enqueued _ _ _ _ _ hd]

/-- **C20_paths**: the files opened are the top-level file and, for every card served, `join(dirname(top), name)`:
    the working directory does not enter. -/
theorem C20_paths (ll : Nat) (fs : FS) (main : Str) (bytes : List Nat) (d extra : Nat)
    (hm : fs main = some bytes) (hd : Nesting ll fs main bytes d) :
    opened (readAll ll (extra + enoughFuel ll fs main bytes d) fs main) <+:
      main :: (servedCards ll fs main bytes d).map (fun e => joinPath (dirname main) e.name) := by
  rw [C20_queue ll fs main bytes d extra hm hd]
  have hfront : opened (frontEvents bytes) = [] := by
    unfold frontEvents readFrontMatters
    cases fileLines bytes with
    | nil => rfl
    | cons l0 rest =>
      simp only
      split
      · generalize [rstrip l0] = raw
        generalize [List.drop 9 l0] = ls
        induction rest generalizing raw ls with
        | nil => rfl
        | cons l rest ih =>
          unfold messageLoop
          split
          · exact ih _ _
          · cases rest <;> rfl
      · rfl
  simp only [opened, opened_append, hfront, List.nil_append]
  refine List.prefix_cons_inj main |>.mpr ?_
  refine (opened_cut_prefix _).trans ?_
  rw [opened_append, opened_serveAll]
  unfold mainEvents
  rw [opened_readData]
  exact List.prefix_refl _

/-- **C20_missing**: a read card that is served and names a file that does not exist makes the run end in an
    error — never silence. -/
theorem C20_missing (ll : Nat) (fs : FS) (main : Str) (bytes : List Nat) (d extra : Nat)
    (hm : fs main = some bytes) (hd : Nesting ll fs main bytes d)
    (e : QEntry) (he : e ∈ servedCards ll fs main bytes d) (habs : fs (joinPath (dirname main) e.name) = none) :
    hasRaise (readAll ll (extra + enoughFuel ll fs main bytes d) fs main) = true := by
  rw [C20_queue ll fs main bytes d extra hm hd, hasRaise_cons, hasRaise_append, hasRaise_cut, hasRaise_append]
  have : hasRaise (serveAll ll fs (dirname main) (servedCards ll fs main bytes d)) = true := by
    unfold serveAll hasRaise
    rw [List.any_flatMap]
    apply List.any_eq_true.mpr
    exact ⟨e, he, by rw [serve_missing _ _ _ _ habs]; rfl⟩
  simp [this]

/-- … and when it is the first thing that goes wrong, the error is `FileNotFoundError`. -/
theorem C20_missing_error (ll : Nat) (fs : FS) (main : Str) (bytes : List Nat) (d extra : Nat)
    (hm : fs main = some bytes) (hd : Nesting ll fs main bytes d)
    (pre post : List QEntry) (e : QEntry) (hs : servedCards ll fs main bytes d = pre ++ e :: post)
    (habs : fs (joinPath (dirname main) e.name) = none)
    (hfront : firstRaise (frontEvents bytes) = none)
    (hpre : hasRaise (mainEvents ll main bytes ++ serveAll ll fs (dirname main) pre) = false) :
    firstRaise (readAll ll (extra + enoughFuel ll fs main bytes d) fs main) = some .fileNotFound := by
  rw [C20_queue ll fs main bytes d extra hm hd, hs]
  have h1 : serveAll ll fs (dirname main) (pre ++ e :: post) =
      serveAll ll fs (dirname main) pre ++ (serve ll fs (dirname main) e ++ serveAll ll fs (dirname main) post) := by
    simp [serveAll]
  rw [h1, ← List.append_assoc]
  have hp := (firstRaise_none_iff _).mpr hpre
  rw [firstRaise_append] at hp
  simp only [firstRaise, firstRaise_append, hfront, firstRaise_cut]
  rw [hp, serve_missing _ _ _ _ habs]
  rfl

/-! ## Part 2: the merged problem is the Spec's flattening -/

open MontePyVerif.Refine MontePyVerif.Flatten in
theorem proj_frontEvents (bytes : List Nat) : proj (frontEvents bytes) = [] := by
  unfold frontEvents readFrontMatters
  cases fileLines bytes with
  | nil => rfl
  | cons l0 rest =>
    simp only
    split
    · generalize [rstrip l0] = raw
      generalize [List.drop 9 l0] = ls
      induction rest generalizing raw ls with
      | nil => rfl
      | cons l rest ih =>
        unfold messageLoop
        split
        · exact ih _ _
        · cases rest <;> rfl
    · rfl

/-! ## termination on every finite file system -/

open MontePyVerif.Finite in
/-- **C20_term_always** (with fix 8561374): on a file system with finitely many files (`support` lists them) read
    cards are never nested deeper than the number of files — a card naming a file that is being read is refused —,
    so the queue always empties: from some fuel on the run is always the same and never ends for lack of fuel.
    A cycle is a deliberate error (`MalformedInputError`), never a hang. -/
theorem C20_term_always (ll : Nat) (fs : FS) (main : Str) (bytes : List Nat) (support : List Str)
    (hsup : ∀ p, fs p ≠ none → p ∈ support) (hm : fs main = some bytes) :
    Nesting ll fs main bytes support.length ∧
    ∃ fuel0, ∀ extra, readAll ll (extra + fuel0) fs main = readAll ll fuel0 fs main ∧
      Event.raise .outOfFuel ∉ readAll ll fuel0 fs main := by
  have hd : Nesting ll fs main bytes support.length := by
    unfold Nesting
    apply diesOut_of_finite ll fs support hsup main support.length _ 1 (by omega)
    intro e he
    have hchain := MontePyVerif.Flatten.enq_goLines ⟨ll, .cell, main, [main]⟩ _ _ e he
    have hchk := chk_goLines ⟨ll, .cell, main, [main]⟩ _ _ e he
    simp only at hchain hchk
    refine ⟨⟨?_, ?_, ?_, ?_⟩, ?_⟩
    · rw [hchain]; rfl
    · rw [hchain]; simp
    · rw [hchain]; intro p hp; simp at hp; subst hp; exact hsup _ (by rw [hm]; simp)
    · rw [hchain]
      have htop : (⟨ll, .cell, main, [main]⟩ : Cfg).topDir = dirname main := rfl
      rw [htop, List.contains_eq_mem, decide_eq_false_iff_not] at hchk
      exact hchk
    · rw [hchain]; simp
  refine ⟨hd, enoughFuel ll fs main bytes support.length, fun extra => ⟨C20_term ll fs main bytes _ extra hm hd, ?_⟩⟩
  have h0 := C20_queue ll fs main bytes support.length 0 hm hd
  rw [Nat.zero_add] at h0
  rw [h0]
  intro hmem
  rcases List.mem_cons.mp hmem with h | h
  · simp at h
  · rcases List.mem_append.mp h with h1 | h1
    · -- front matter: only message / title events
      have : ∀ ev ∈ frontEvents bytes, ev.isRaise = false := by
        intro ev hev
        have hp : hasRaise (frontEvents bytes) = false := by
          have := MontePyVerif.Flatten.any_isErr_proj (frontEvents bytes)
          rw [proj_frontEvents] at this
          exact this.symm
        unfold hasRaise at hp
        rw [List.any_eq_false] at hp
        simpa using hp ev hev
      have := this _ h1
      simp [Event.isRaise] at this
    · have h2 := mem_cut _ _ h1
      rcases List.mem_append.mp h2 with h3 | h3
      · exact nf_goLines _ _ _ h3
      · exact nf_serveAll _ _ _ _ h3

open MontePyVerif.Refine MontePyVerif.Flatten in
/-- **C20_flatten**: for every file system, top-level file and nesting depth — provided the top-level file's body and
    every file that gets served consist of lines on which the code's rules and MCNP's coincide (`FileOK`, `EntryOK`:
    the named, decidable exclusions of `Refine.GoodLine` and `wellTerminated`) — what `read_input_syntax` yields,
    seen through `proj` (block and words of every input, read cards, errors), is exactly the Spec's flattened
    problem: the top file's inputs, then generation by generation the inputs of the files named by the read cards,
    each in the block of its card, in the order the cards are met, cut at the first error (malformed read card,
    missing file, cycle).  No acyclicity or presence hypothesis is needed: a cycle and a missing file are errors
    on both sides. -/
theorem C20_flatten (ll : Nat) (fs : FS) (files : Spec.Files) (main : Str) (bytes : List Nat) (d extra : Nat)
    (hm : fs main = some bytes) (hd : Nesting ll fs main bytes d)
    (body : List Spec.Line)
    (hmain : FileOK ll 0 (readFrontMatters (fileLines bytes)).2 body)
    (hserved : ∀ e ∈ servedCards ll fs main bytes d, EntryOK ll fs files (dirname main) e) :
    proj (readAll ll (extra + enoughFuel ll fs main bytes d) fs main) =
      Spec.cutS (Spec.fileStream ll (joinPath (dirname main)) [main] 0 body ++
        Spec.gensS ll files (joinPath (dirname main)) d
          (Spec.cards (Spec.fileStream ll (joinPath (dirname main)) [main] 0 body))) := by
  rw [C20_queue ll fs main bytes d extra hm hd]
  simp only [proj_cons, proj_append, projEv, proj_frontEvents, List.nil_append]
  rw [proj_cut, proj_append]
  have hM : proj (mainEvents ll main bytes) =
      Spec.cutS (Spec.fileStream ll (joinPath (dirname main)) [main] 0 body) := by
    have := fileStream_ok ⟨ll, .cell, main, [main]⟩ rfl _ body hmain
    exact this
  generalize hs : Spec.fileStream ll (joinPath (dirname main)) [main] 0 body = sMain at *
  unfold servedCards at hserved ⊢
  rw [← gens_eq_served, hM]
  cases herr : sMain.any isErr
  · rw [cutS_of_noErr _ herr, cutS_append_noErr _ _ herr, cutS_append_noErr _ _ herr]
    congr 1
    have hcards : Spec.cards sMain = (enqueued (mainEvents ll main bytes)).map toP := by
      rw [← cards_proj, hM, cutS_of_noErr _ herr]
    rw [hcards]
    apply gens_refines ll fs files main d _ _ hserved
    intro e he
    have := enq_goLines ⟨ll, .cell, main, [main]⟩ _ _ e he
    rw [this]; rfl
  · rw [cutS_cutS_append, cutS_append_err _ _ herr, cutS_append_err _ _ herr]

/-- … and therefore equals `Spec.flatten`, whenever the Spec finds the same body behind the front matter
    (message block and title) of the top-level file. -/
theorem C20_flatten_spec (ll : Nat) (fs : FS) (files : Spec.Files) (main : Str) (bytes : List Nat) (d extra : Nat)
    (hm : fs main = some bytes) (hd : Nesting ll fs main bytes d)
    (lines body : List Spec.Line) (hfiles : files main = some lines)
    (hfront : (Spec.logicalInputs ll lines).inputs = Spec.inputsFrom ll 0 body)
    (hmain : MontePyVerif.Flatten.FileOK ll 0 (readFrontMatters (fileLines bytes)).2 body)
    (hserved : ∀ e ∈ servedCards ll fs main bytes d, MontePyVerif.Flatten.EntryOK ll fs files (dirname main) e) :
    MontePyVerif.Refine.proj (readAll ll (extra + enoughFuel ll fs main bytes d) fs main) =
      (Spec.flatten ll files (joinPath (dirname main)) d main).outs := by
  rw [C20_flatten ll fs files main bytes d extra hm hd body hmain hserved]
  unfold Spec.flatten
  rw [hfiles]
  simp only [hfront]
  rfl

/-- `open(path)` as the operating system resolves it from the working directory `cwd`, on a disk whose files
    are known by absolute path -/
def fsFrom (disk : FS) (cwd : Str) : FS := fun p => if isAbs p then disk p else disk (joinPath cwd p)

/-- **C20_paths_cwd**: for a top-level file given by absolute path the whole run — which files are opened and what
    is read — is the same from every working directory (sub-files are looked up next to the top-level file). -/
theorem C20_paths_cwd (ll fuel : Nat) (disk : FS) (cwd1 cwd2 main : Str) (h : isAbs main = true) :
    readAll ll fuel (fsFrom disk cwd1) main = readAll ll fuel (fsFrom disk cwd2) main := by
  unfold readAll
  have hm : fsFrom disk cwd1 main = fsFrom disk cwd2 main := by simp [fsFrom, h]
  rw [hm]
  cases fsFrom disk cwd2 main with
  | none => rfl
  | some bytes =>
    simp only
    rw [queueLoop_congr ll (fsFrom disk cwd1) (fsFrom disk cwd2) (dirname main) (isAbs_dirname main h)
      (fun p hp => by simp [fsFrom, hp])]

/-! ### non-vacuity: a concrete tree of files (top-level `d/m`: title, a read card, a cell; `d/a` reads `d/b`) -/

/-- `"t\nread file=a\n2 0\n"` -/
def exMain : List Nat := [116, 10, 114, 101, 97, 100, 32, 102, 105, 108, 101, 61, 97, 10, 50, 32, 48, 10]
/-- `"1 0\nREAD FILE b\n"` -/
def exA : List Nat := [49, 32, 48, 10, 82, 69, 65, 68, 32, 70, 73, 76, 69, 32, 98, 10]
/-- `"3 0\n"` -/
def exB : List Nat := [51, 32, 48, 10]
def exFs : FS := fun p =>
  if p = ['d', '/', 'm'] then some exMain else if p = ['d', '/', 'a'] then some exA
  else if p = ['d', '/', 'b'] then some exB else none
/-- the same tree with `d/b` missing -/
def exFsMissing : FS := fun p => if p = ['d', '/', 'b'] then none else exFs p

example : Nesting 128 exFs ['d', '/', 'm'] exMain 2 := by unfold Nesting; decide
example : ¬ Nesting 128 exFs ['d', '/', 'm'] exMain 1 := by unfold Nesting; decide
example : (servedCards 128 exFs ['d', '/', 'm'] exMain 3).map (·.name) = [['a'], ['b']] := by decide
example : hasRaise (readAll 128 2 exFs ['d', '/', 'm']) = false := by decide
/-- the merged order: own inputs of the top file, then `a`'s, then `b`'s — all in the cell block -/
example : (readAll 128 2 exFs ['d', '/', 'm']).filterMap (fun | .input bt ls => some (bt, ls) | _ => none) =
    [(.cell, [['2', ' ', '0']]), (.cell, [['1', ' ', '0']]), (.cell, [['3', ' ', '0']])] := by decide
example : opened (readAll 128 2 exFs ['d', '/', 'm']) = [['d', '/', 'm'], ['d', '/', 'a'], ['d', '/', 'b']] := by decide
example : Nesting 128 exFsMissing ['d', '/', 'm'] exMain 3 := by unfold Nesting; decide
example : firstRaise (readAll 128 2 exFsMissing ['d', '/', 'm']) = some .fileNotFound := by decide
/-- `exFs` has three files; a tree in which `d/a` reads the top-level file back ends in the deliberate error -/
example : ∀ p, exFs p ≠ none → p ∈ [['d', '/', 'm'], ['d', '/', 'a'], ['d', '/', 'b']] := by
  intro p h
  unfold exFs at h
  by_cases h1 : p = ['d', '/', 'm']
  · simp [h1]
  · by_cases h2 : p = ['d', '/', 'a']
    · simp [h2]
    · by_cases h3 : p = ['d', '/', 'b']
      · simp [h3]
      · simp [h1, h2, h3] at h
/-- `"1 0\nread file=m\n"`: `d/a` names the top-level file -/
def exACycle : List Nat := [49, 32, 48, 10, 114, 101, 97, 100, 32, 102, 105, 108, 101, 61, 109, 10]
def exFsCycle : FS := fun p => if p = ['d', '/', 'a'] then some exACycle else exFs p
example : firstRaise (readAll 128 5 exFsCycle ['d', '/', 'm']) = some .malformed := by decide
/-- too little fuel is visible as such (and `C20_term` says when it cannot happen) -/
example : firstRaise (readAll 128 1 exFs ['d', '/', 'm']) = some .outOfFuel := by decide

/-! ### non-vacuity of the hypotheses of `C20_flatten`: the tree `exFs` above satisfies them -/

/-- the Spec's view of the same tree -/
def exFiles : Spec.Files := fun p =>
  if p = ['d', '/', 'm'] then some [['t'], "read file=a".toList, "2 0".toList]
  else if p = ['d', '/', 'a'] then some ["1 0".toList, "READ FILE b".toList]
  else if p = ['d', '/', 'b'] then some ["3 0".toList] else none

open MontePyVerif.Refine MontePyVerif.Flatten in
example : FileOK 128 0 (readFrontMatters (fileLines exMain)).2 ["read file=a".toList, "2 0".toList] := by
  have h : (readFrontMatters (fileLines exMain)).2 = fileLines [114, 101, 97, 100, 32, 102, 105, 108, 101, 61, 97, 10, 50, 32, 48, 10] := by decide
  rw [h]
  exact MontePyVerif.Flatten.exFileOK 0 (by decide) _ _ (by decide) (by decide)

open MontePyVerif.Refine MontePyVerif.Flatten in
example : ∀ e ∈ servedCards 128 exFs ['d', '/', 'm'] exMain 2, EntryOK 128 exFs exFiles (dirname ['d', '/', 'm']) e := by
  have hs : servedCards 128 exFs ['d', '/', 'm'] exMain 2 =
      [⟨.cell, ['a'], ['d', '/', 'm'], [['d', '/', 'm']]⟩,
       ⟨.cell, ['b'], ['d', '/', 'a'], [['d', '/', 'm'], ['d', '/', 'a']]⟩] := by decide
  rw [hs]
  intro e he
  simp only [List.mem_cons, List.not_mem_nil, or_false] at he
  rcases he with rfl | rfl
  · refine ⟨["1 0".toList, "READ FILE b".toList], by decide, ?_⟩
    exact MontePyVerif.Flatten.exFileOK 0 (by decide) _ exA (by decide) (by decide)
  · refine ⟨["3 0".toList], by decide, ?_⟩
    exact MontePyVerif.Flatten.exFileOK 0 (by decide) _ exB (by decide) (by decide)

/-- and the flattening the theorem speaks of is the expected one: 2, then 1 (from `a`), then 3 (from `b`) -/
example : Spec.inputsOf (Spec.flatten 128 exFiles (joinPath (dirname ['d', '/', 'm'])) 2 ['d', '/', 'm']).outs =
    [⟨0, [['2'], ['0']]⟩, ⟨0, [['1'], ['0']]⟩, ⟨0, [['3'], ['0']]⟩] := by decide

end MontePyVerif.C20
