import MontePyVerif.Model.Reader
import MontePyVerif.Spec.Text
/-! # C20 — files pulled in by read cards are merged exactly once, in the right block -/
namespace MontePyVerif.C20
open MontePyVerif.Reader

theorem C20_stub : readAll 128 0 (fun _ => none) [] = [.openFile [], .raise .fileNotFound] := rfl

end MontePyVerif.C20
