import MontePyVerif.Spec.File
/-!
# Sanity theorems of the independent MCNP-rules reader (`Spec/File.lean`)

The Spec is part of the trusted base: it is a reading of the MCNP manual.  These theorems pin down the
rules the property oracles rely on, so that an error in the Spec is not silently inherited.
-/
namespace MontePyVerif.Spec.File

/-- Whatever follows the blank line that terminates the data block is not read. -/
theorem after_terminator_ignored (r : RS) (ls : List Str) (h : r.block ≥ 3) : ls.foldl stepLine r = r := by
  induction ls with
  | nil => rfl
  | cons l t ih =>
    have : stepLine r l = r := by simp [stepLine, h]
    simp [List.foldl_cons, this, ih]

theorem closeCur_block (r : RS) : (closeCur r).block = r.block := by
  unfold closeCur; split <;> rfl

/-- The block counter never decreases, and only a blank line advances it. -/
theorem stepLine_block (r : RS) (ln : Str) :
    (stepLine r ln).block = r.block ∨ (isBlankLine ln = true ∧ (stepLine r ln).block = r.block + 1) := by
  unfold stepLine
  split
  · exact Or.inl rfl
  · split
    · rename_i hb
      exact Or.inr ⟨hb, by simp [closeCur_block]⟩
    · left
      split
      · split
        · rfl
        · simp [closeCur_block]
      · split <;> rfl

/-- A comment card never contributes data: it leaves the text of the open card and the finished cards alone. -/
theorem comment_card_no_data (r : RS) (ln : Str) (hb : r.block < 3) (hnb : isBlankLine ln = false)
    (hc : isCommentCard ln = true) :
    (stepLine r ln).done = r.done ∧ (stepLine r ln).cur.map (·.text) = r.cur.map (·.text) := by
  unfold stepLine
  have h3 : ¬ r.block ≥ 3 := by omega
  simp only [h3, if_false, hnb, hc, if_true, Bool.false_eq_true, Bool.true_or]
  split
  · rename_i c hcur
    simp [hcur, contStep, hc]
  · rename_i hcur
    simp [hcur]

/-- `nR` repeats its predecessor n times: `x nR` expands to n+1 copies. -/
theorem expand_repeat (q : Q) (n : Nat) :
    expandAux [.num q, .rep n] [] none = List.replicate (n + 1) (Val.num q) := by
  simp only [expandAux]
  rw [List.reverse_eq_iff]
  simp only [List.reverse_replicate]
  rw [show List.replicate n (Val.num q) ++ [Val.num q] = List.replicate (n + 1) (Val.num q) from
    (List.replicate_succ' ..).symm]

/-- `nJ` is n jumps. -/
theorem expand_jump (n : Nat) : expandAux [.jump n] [] none = List.replicate n Val.jump := by
  simp [expandAux]

/-- `x yM` is `x, x*y`. -/
theorem expand_multiply (x y : Q) : expandAux [.num x, .mul y] [] none = [Val.num x, Val.num (qMul x y)] := by
  simp [expandAux, lastNum]

/-- `a nI b` yields `a`, n values, `b` : n + 2 entries, the ends unchanged. -/
theorem expand_interp_length (a b : Q) (n : Nat) (lg : Bool) :
    (expandAux [.num a, .interp n lg, .num b] [] none).length = n + 2 := by
  simp [expandAux, lastNum]

example : parseNumber "1.5-2".toList = some ⟨15, 1000⟩ := by decide
example : parseNumber "-.5E+1".toList = some ⟨-5, 1⟩ := by decide
example : parseNumber "+3".toList = some ⟨3, 1⟩ := by decide
example : parseNumber "1e".toList = none := by decide
example : parseNumber "abc".toList = none := by decide
example : isCommentCard "    c hello".toList = true := by decide
example : isCommentCard "     c hello".toList = false := by decide   -- column 6: a continuation, not a comment
example : isCommentCard "cx 5".toList = false := by decide

end MontePyVerif.Spec.File
