/-!
# Spec: how MCNP divides an input file into blocks (MCNP 6.2 manual, section 2.5 "Input file format")

Written from MCNP's rules, sharing no code with the model of MontePy's writer:

* an optional *message block* comes first: it is present iff the first line starts with `MESSAGE:`
  (columns 1–8, any case) and it ends at the first blank line (the *blank line delimiter*);
* the next line is the *title card* (one line, whatever it contains);
* then the *cell cards*, a blank line delimiter, the *surface cards*, a blank line delimiter, the
  *data cards*, and a blank line terminator;
* "MCNP stops reading at the blank line terminator": whatever follows it is ignored.

A line is blank when it consists of blanks only.  One pass, no look-ahead, structural recursion.
-/

namespace MontePyVerif.Spec.Blocks

/-- a blank line delimiter: nothing but blanks (a tab counts as blanks, MCNP expands it) -/
def isBlank (l : String) : Bool := l.toList.all (fun c => c = ' ' || c = '\t')

/-- the first line announces a message block -/
def startsMessage (l : String) : Bool :=
  (l.toList.take 8).map Char.toUpper = "MESSAGE:".toList

/-- lines before the first blank line, and the lines after it (`none`: there is no blank line) -/
def splitAtBlank : List String → List String × Option (List String)
  | [] => ([], none)
  | l :: t =>
    if isBlank l then ([], some t)
    else
      let r := splitAtBlank t
      (l :: r.1, r.2)

structure Blocks where
  /-- lines of the message block without its delimiter -/
  message  : List String
  title    : Option String
  cells    : List String
  surfaces : List String
  data     : List String
  /-- number of blank line delimiters found after the title (3 in a complete file) -/
  delimiters : Nat
  /-- lines after the terminator of the data block: MCNP never reads them -/
  ignored  : List String
  deriving DecidableEq, Repr

/-- title card and the three blocks -/
def readBody : List String → Blocks
  | [] => ⟨[], none, [], [], [], 0, []⟩
  | title :: rest =>
    match splitAtBlank rest with
    | (cells, none) => ⟨[], some title, cells, [], [], 0, []⟩
    | (cells, some r1) =>
      match splitAtBlank r1 with
      | (surfs, none) => ⟨[], some title, cells, surfs, [], 1, []⟩
      | (surfs, some r2) =>
        match splitAtBlank r2 with
        | (data, none) => ⟨[], some title, cells, surfs, data, 2, []⟩
        | (data, some r3) => ⟨[], some title, cells, surfs, data, 3, r3⟩

/-- MCNP's reading of a file as blocks of lines -/
def readBlocks : List String → Blocks
  | [] => readBody []
  | l :: t =>
    if startsMessage l then
      match splitAtBlank (l :: t) with
      | (msg, none) => { readBody [] with message := msg }
      | (msg, some rest) => { readBody rest with message := msg }
    else readBody (l :: t)

/-- the lines MCNP ignores although they are not blank: cards lost behind the terminator -/
def lostLines (b : Blocks) : List String := b.ignored.filter (fun l => !isBlank l)

end MontePyVerif.Spec.Blocks
