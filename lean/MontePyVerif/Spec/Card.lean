/-! # Spec.Card — the core grammar G of DESIGN.md section 5.2 as Lean data

Written from section 5.2 (which is written from the MCNP 6.2 manual), sharing no code with the model of
MontePy.  Three things live here:

* the **pinned terminal sets** (keywords, particles, the 40 surface mnemonics with their arities, the cell
  keywords, the data-card names).  They are literals: deleting a keyword from MontePy's tables shrinks what
  MontePy accepts, not what G generates;
* G's card families as **inductive types with a well-formedness predicate** (`Geom`, `Entry`, `CellCard`,
  `SurfaceCard`, `DataCard` …), each with `render` (the words of the sentence, section 5.2 is defined on words)
  and `classes` (the sentence as a string of token classes and literals, with the padding tokens of the layout
  of section 5.3 made explicit: `Gap`);
* small sanity theorems about the tables.

Token classes are the vocabulary in which MCNP's own lexical rules are usually stated (number, zero, jump,
repeat …); the names are spelled the way SLY spells them so that the class strings can be compared with what
the real lexer emits (correspondence unit U-lexclass) and consumed by the context-free theorem `C12_cfg`.
-/
namespace MontePyVerif.Spec.Card

/-! ## Pinned terminal sets -/

/-- keywords G uses in key position (lower case): the 18 cell parameters, the material keys, VOL's NO, the SDEF keys -/
def pinnedKeywords : List String :=
  ["imp", "vol", "u", "lat", "fill", "trcl", "tmp", "pwt", "cosy", "bflcl", "nonu", "ext", "fcl", "elpt", "unc",
   "wwn", "dxc", "pd",
   "nlib", "plib", "pnlib", "elib", "hlib", "alib", "slib", "tlib", "dlib",
   "gas", "estep", "hstep", "cond", "refi", "refc", "refs",
   "no",
   "cel", "sur", "erg", "tme", "dir", "vec", "nrm", "pos", "rad", "ext", "axs", "x", "y", "z", "ccc", "ara",
   "wgt", "tr", "eff", "par"]

/-- the letter particle designators of MCNP 6.2 table 2-2 (the special-character ones are excluded from G) -/
def pinnedParticles : List String :=
  ["n", "p", "e", "q", "u", "v", "f", "h", "l", "x", "y", "o", "g", "z", "k", "b", "c", "w", "d", "t", "s", "a"]

/-- the 40 surface mnemonics with the constant counts section 5.2 allows -/
def pinnedSurfaceArities : List (String × List Nat) :=
  [("p", [4, 9]), ("px", [1]), ("py", [1]), ("pz", [1]),
   ("so", [1]), ("s", [4]), ("sx", [2]), ("sy", [2]), ("sz", [2]),
   ("c/x", [3]), ("c/y", [3]), ("c/z", [3]), ("cx", [1]), ("cy", [1]), ("cz", [1]),
   ("k/x", [4, 5]), ("k/y", [4, 5]), ("k/z", [4, 5]), ("kx", [2, 3]), ("ky", [2, 3]), ("kz", [2, 3]),
   ("sq", [10]), ("gq", [10]), ("tx", [6]), ("ty", [6]), ("tz", [6]),
   ("x", [2, 4, 6]), ("y", [2, 4, 6]), ("z", [2, 4, 6]),
   ("box", [9, 12]), ("rpp", [6]), ("sph", [4]), ("rcc", [7]), ("rhp", [9, 15]), ("hex", [9, 15]),
   ("rec", [10, 12]), ("trc", [8]), ("ell", [7]), ("wed", [12]), ("arb", [30])]

def pinnedSurfaceTypes : List String := pinnedSurfaceArities.map (·.1)

/-- the cell parameters of G, as MCNP spells them -/
def pinnedCellKeywords : List String :=
  ["IMP", "VOL", "U", "LAT", "FILL", "TRCL", "TMP", "PWT", "COSY", "BFLCL", "NONU", "EXT", "FCL", "ELPT", "UNC",
   "WWN", "DXC", "PD"]

/-- the data-card mnemonics of G (lower case) -/
def pinnedDataNames : List String :=
  ["m", "mt", "tr", "mode", "imp", "vol", "u", "lat", "fill",
   "f", "fm", "sd", "e", "t", "c", "em", "tm", "cm", "de", "df", "fs", "fc",
   "sdef", "si", "sp", "sb", "ds", "sc", "ksrc", "kcode",
   "nps", "ctme", "print", "prdmp", "phys", "cut", "dbcn", "void", "totnu", "nonu", "area", "tmp", "thtme",
   "wwe", "wwn", "wwp", "esplt", "ext", "dxt", "pwt", "fcl", "bbrem", "lost", "idum", "rdum", "elpt", "pd", "dxc"]

/-- material library keys and numeric keys of G -/
def pinnedLibKeys : List String := ["nlib", "plib", "pnlib", "elib", "hlib", "alib", "slib", "tlib", "dlib"]
def pinnedNumKeys : List String := ["gas", "estep", "hstep", "cond", "refi", "refc", "refs"]
def pinnedSdefKeys : List String :=
  ["cel", "sur", "erg", "tme", "dir", "vec", "nrm", "pos", "rad", "ext", "axs", "x", "y", "z", "ccc", "ara",
   "wgt", "tr", "eff", "par"]

/-- mnemonics and keywords compare case-insensitively (ASCII) -/
def lowerAscii (s : String) : String := String.ofList (s.toList.map Char.toLower)

/-- allowed constant counts of a mnemonic (lower case); `[]` for a word that is no mnemonic of G -/
def arities (m : String) : List Nat :=
  match pinnedSurfaceArities.find? (·.1 == m) with
  | some (_, a) => a
  | none => []

def arityAllowed (m : String) (n : Nat) : Bool := (arities m).contains n

theorem pinnedSurfaceTypes_length : pinnedSurfaceTypes.length = 40 := by decide
theorem pinnedCellKeywords_length : pinnedCellKeywords.length = 18 := by decide
theorem every_mnemonic_has_an_arity : ∀ m ∈ pinnedSurfaceTypes, arities m ≠ [] := by decide

/-! ## Layout: what may stand in a gap between two words (section 5.3) -/

/-- one padding token: blanks (including a line break with its continuation blanks), a `$` comment, a `C`
    comment line, a continuation `&` -/
inductive PadTok
  | space | dollar | comment | amp
  deriving DecidableEq, Repr

def PadTok.cls : PadTok → String
  | .space => "SPACE" | .dollar => "DOLLAR_COMMENT" | .comment => "COMMENT" | .amp => "&"

/-- a gap is a (possibly empty) run of padding tokens; `&` cannot come first (it follows blanks) -/
abbrev Gap := List PadTok

def Gap.ok (g : Gap) : Bool := g.head? != some PadTok.amp
def Gap.cls (g : Gap) : List String := g.map PadTok.cls
/-- a gap that MCNP requires to be non-empty (between two words that would otherwise run together) -/
def Gap.req (g : Gap) : Bool := g.ok && !g.isEmpty

/-! ## Numbers -/

/-- a `Real`/`Int` word of G and whether its value is zero (MCNP reads a zero like any number; lexers of the
    SLY kind give it a class of its own, so the class string records it) -/
structure Num where
  text : String
  zero : Bool
  deriving DecidableEq, Repr

def Num.cls (n : Num) : String := if n.zero then "NULL" else "NUMBER"

/-! ## Geometry:  Union ::= Inter {":" Inter};  Inter ::= Factor {Factor};
    Factor ::= Atom | "#" CellNo | "#" "(" Union ")";  Atom ::= [sign] SurfNo | "(" Union ")"  -/

inductive Geom
  /-- `[+|-] SurfNo` -/
  | surf (text : String)
  /-- `"(" gap Union gap ")"` -/
  | paren (g1 : Gap) (e : Geom) (g2 : Gap)
  /-- `"#" CellNo` or `"#" "(" Union ")"`: the operand directly follows the `#` -/
  | compl (e : Geom)
  /-- juxtaposition -/
  | inter (l : Geom) (gap : Gap) (r : Geom)
  /-- `l gap ":" gap r` -/
  | union (l : Geom) (g1 g2 : Gap) (r : Geom)
  deriving Repr

namespace Geom

/-- 0 = Factor, 1 = Inter (two or more factors), 2 = Union (two or more intersections) -/
def level : Geom → Nat
  | surf _ => 0 | paren .. => 0 | compl _ => 0 | inter .. => 1 | union .. => 2

/-- what may directly follow `#`, and what may be juxtaposed without a blank -/
def isAtom : Geom → Bool
  | surf _ => true | paren .. => true | _ => false

def isCompl : Geom → Bool
  | compl _ => true | _ => false

def startsParen : Geom → Bool
  | paren .. => true | inter l _ _ => l.startsParen | union l _ _ _ => l.startsParen | _ => false

def endsParen : Geom → Bool
  | paren .. => true | compl e => e.endsParen | inter _ _ r => r.endsParen | union _ _ _ r => r.endsParen | _ => false

/-- well-formedness = membership in G: operands at the right grammar level, gaps legal, a blank between
    factors unless a parenthesis separates them -/
def WF : Geom → Bool
  | surf _ => true
  | paren g1 e g2 => g1.ok && g2.ok && e.WF
  | compl e => e.isAtom && e.WF
  | inter l gap r =>
      l.WF && r.WF && decide (l.level ≤ 1) && decide (r.level = 0) && gap.ok &&
      (!gap.isEmpty || (r.isAtom && (l.endsParen || r.startsParen)) || (r.isCompl && l.endsParen))
  | union l g1 g2 r => l.WF && r.WF && decide (r.level ≤ 1) && g1.ok && g2.ok

def render : Geom → List String
  | surf t => [t]
  | paren _ e _ => ["("] ++ e.render ++ [")"]
  | compl e => ["#"] ++ e.render
  | inter l _ r => l.render ++ r.render
  | union l _ _ r => l.render ++ [":"] ++ r.render

def classes : Geom → List String
  | surf _ => ["NUMBER"]
  | paren g1 e g2 => ["("] ++ g1.cls ++ e.classes ++ g2.cls ++ [")"]
  | compl e => ["COMPLEMENT"] ++ e.classes
  | inter l gap r => l.classes ++ gap.cls ++ r.classes
  | union l g1 g2 r => l.classes ++ g1.cls ++ [":"] ++ g2.cls ++ r.classes

/-- number of surface / cell leaves -/
def leaves : Geom → Nat
  | surf _ => 1 | paren _ e _ => e.leaves | compl e => e.leaves
  | inter l _ r => l.leaves + r.leaves | union l _ _ r => l.leaves + r.leaves

end Geom

/-! ## Entries:  Entry ::= Real | Jump | Real Repeat | Real Multiply | Real Interp Real -/

inductive Entry
  | real (n : Num)
  /-- `[N] "J"` -/
  | jump (text : String) (counted : Bool)
  /-- `Real gap [N] "R"` -/
  | rep (n : Num) (gap : Gap) (text : String) (counted : Bool)
  /-- `Real gap Real"M"` -/
  | mul (n : Num) (gap : Gap) (text : String)
  /-- `Real gap [N] ("I"|"ILOG") gap Real` -/
  | interp (a : Num) (g1 : Gap) (text : String) (counted log : Bool) (g2 : Gap) (b : Num)
  deriving Repr

namespace Entry

def WF : Entry → Bool
  | real _ => true
  | jump _ _ => true
  | rep _ gap _ _ => gap.req
  | mul _ gap _ => gap.req
  | interp _ g1 _ _ _ g2 _ => g1.req && g2.req

def render : Entry → List String
  | real n => [n.text]
  | jump t _ => [t]
  | rep n _ t _ => [n.text, t]
  | mul n _ t => [n.text, t]
  | interp a _ t _ _ _ b => [a.text, t, b.text]

def classes : Entry → List String
  | real n => [n.cls]
  | jump _ c => [if c then "NUM_JUMP" else "JUMP"]
  | rep n gap _ c => [n.cls] ++ gap.cls ++ [if c then "NUM_REPEAT" else "REPEAT"]
  | mul n gap _ => [n.cls] ++ gap.cls ++ ["NUM_MULTIPLY"]
  | interp a g1 _ c lg g2 b =>
      [a.cls] ++ g1.cls ++
      [match c, lg with
        | true, true => "NUM_LOG_INTERPOLATE" | false, true => "LOG_INTERPOLATE"
        | true, false => "NUM_INTERPOLATE" | false, false => "INTERPOLATE"] ++ g2.cls ++ [b.cls]

/-- the end value of an interpolation is a number different from zero.  Until MontePy e8e6f87 this was the
    excluded class of `C12_cfg_partial` (the grammar had no production for `a nI 0`); it is no hypothesis of any
    theorem any more and only classifies sentences for the generator's coverage counters. -/
def interpEndNonzero : Entry → Bool
  | interp _ _ _ _ _ _ b => !b.zero
  | _ => true

end Entry

/-- a sequence of entries, each followed by its gap -/
abbrev Entries := List (Entry × Gap)

namespace Entries
def WF (es : Entries) : Bool := es.all (fun eg => eg.1.WF && eg.2.ok)
/-- G additionally needs a blank between two entries (not needed for derivability) -/
def separated : Entries → Bool
  | [] => true
  | [_] => true
  | (_, g) :: rest => !g.isEmpty && separated rest
def render (es : Entries) : List String := es.flatMap (fun eg => eg.1.render)
def classes (es : Entries) : List String := es.flatMap (fun eg => eg.1.classes ++ eg.2.cls)
def interpEndNonzero (es : Entries) : Bool := es.all (fun eg => eg.1.interpEndNonzero)
end Entries

/-! ## Classifiers and key/value separators -/

/-- the first word of a data card or of a parameter: `["*"] Name [Number] [":" PL]`.
    `nameCls` is the class of the mnemonic: a keyword, a particle letter (`f`, `e`, `t`, `c` …) or other text. -/
structure Classifier where
  star : Bool
  /-- the class of the `*`: a literal in a cell card; the data-card lexer has a class for special characters -/
  starCls : String := "*"
  name : String
  nameCls : String
  number : Option String
  particles : List String
  deriving Repr

namespace Classifier
def WF (c : Classifier) : Bool :=
  ["TEXT", "KEYWORD", "PARTICLE"].contains c.nameCls && ["*", "PARTICLE_SPECIAL"].contains c.starCls
def particleClasses : List String → List String
  | [] => []
  | _ :: rest => [":", "PARTICLE"] ++ rest.flatMap (fun _ => [",", "PARTICLE"])
def numberClasses : Option String → List String
  | some _ => ["NUMBER"]
  | none => []
def classes (c : Classifier) : List String :=
  (if c.star then [c.starCls] else []) ++ [c.nameCls] ++ numberClasses c.number ++ particleClasses c.particles
def render (c : Classifier) : List String :=
  [(if c.star then "*" else "") ++ c.name ++ (c.number.getD "") ++
    (match c.particles with | [] => "" | p :: ps => ":" ++ p ++ String.join (ps.map ("," ++ ·)))]
end Classifier

/-- `sep`: blank(s), `=`, or both -/
structure Sep where
  before : Gap
  eq : Bool
  after : Gap
  deriving Repr

namespace Sep
def WF (s : Sep) : Bool := s.before.ok && s.after.ok && (s.eq || !s.before.isEmpty) && (s.eq || s.after.isEmpty)
def classes (s : Sep) : List String := s.before.cls ++ (if s.eq then ["="] else []) ++ s.after.cls
end Sep

/-! ## Cell cards -/

/-- the value of a cell parameter -/
inductive PVal
  /-- one or more entries: `IMP:N=1`, `U=-2`, `FILL=3`, `TRCL=5` … -/
  | nums (es : Entries)
  /-- `FILL = UnivNo "(" … ")" gap` -/
  | numsParen (es : Entries) (opened : Gap) (inner : Entries) (after : Gap)
  /-- `TRCL = "(" … ")" gap` -/
  | paren (opened : Gap) (inner : Entries) (after : Gap)
  /-- `FILL = i:j k:l m:n UnivNo+`: three ranges (each `Int ":" Int gap`), then the universes -/
  | lattice (r1a : Num) (r1b : Num) (g1 : Gap) (r2a : Num) (r2b : Num) (g2 : Gap) (r3a : Num) (r3b : Num) (g3 : Gap)
      (us : Entries)
  deriving Repr

namespace PVal
def WF : PVal → Bool
  | nums es => es.WF && !es.isEmpty
  | numsParen es opened inner after => es.WF && !es.isEmpty && opened.ok && inner.WF && !inner.isEmpty && after.ok
  | paren opened inner after => opened.ok && inner.WF && !inner.isEmpty && after.ok
  | lattice _ _ g1 _ _ g2 _ _ g3 us => g1.req && g2.req && g3.req && us.WF && !us.isEmpty
def render : PVal → List String
  | nums es => es.render
  | numsParen es _ inner _ => es.render ++ ["("] ++ inner.render ++ [")"]
  | paren _ inner _ => ["("] ++ inner.render ++ [")"]
  | lattice a b _ c d _ e f _ us =>
      [a.text, ":", b.text, c.text, ":", d.text, e.text, ":", f.text] ++ us.render
def classes : PVal → List String
  | nums es => es.classes
  | numsParen es opened inner after => es.classes ++ ["("] ++ opened.cls ++ inner.classes ++ [")"] ++ after.cls
  | paren opened inner after => ["("] ++ opened.cls ++ inner.classes ++ [")"] ++ after.cls
  | lattice a b g1 c d g2 e f g3 us =>
      [a.cls, ":", b.cls] ++ g1.cls ++ [c.cls, ":", d.cls] ++ g2.cls ++ [e.cls, ":", f.cls] ++ g3.cls ++ us.classes
def interpEndNonzero : PVal → Bool
  | nums es => es.interpEndNonzero
  | numsParen es _ inner _ => es.interpEndNonzero && inner.interpEndNonzero
  | paren _ inner _ => inner.interpEndNonzero
  | lattice _ _ _ _ _ _ _ _ _ us => us.interpEndNonzero
end PVal

structure CellParam where
  key : Classifier
  sep : Sep
  val : PVal
  deriving Repr

namespace CellParam
def WF (p : CellParam) : Bool := p.key.WF && p.sep.WF && p.val.WF
def render (p : CellParam) : List String := p.key.render ++ p.val.render
def classes (p : CellParam) : List String := p.key.classes ++ p.sep.classes ++ p.val.classes
end CellParam

/-- `Cell ::= CellNo Mat Geometry {CellParam}` with `Mat ::= "0" | MatNo Density` -/
structure CellCard where
  lead : Gap
  number : String
  g0 : Gap
  /-- `none` = void (`0`); `some (matNo, gap, density)` -/
  material : Option (String × Gap × String)
  matZero : String := "0"
  g1 : Gap
  geometry : Geom
  /-- the gap between the geometry and the first parameter (or the end of the card) -/
  g2 : Gap
  params : List CellParam
  deriving Repr

namespace CellCard
def WF (c : CellCard) : Bool :=
  c.lead.ok && c.g0.req && c.g1.req && c.g2.ok && c.geometry.WF &&
  (match c.material with | some (_, g, _) => g.req | none => true) &&
  c.params.all CellParam.WF && (c.params.isEmpty || !c.g2.isEmpty)
def render (c : CellCard) : List String :=
  [c.number] ++ (match c.material with | some (m, _, d) => [m, d] | none => [c.matZero]) ++ c.geometry.render ++
    c.params.flatMap CellParam.render
def classes (c : CellCard) : List String :=
  c.lead.cls ++ ["NUMBER"] ++ c.g0.cls ++
    (match c.material with | some (_, g, _) => ["NUMBER"] ++ g.cls ++ ["NUMBER"] | none => ["NULL"]) ++ c.g1.cls ++
    c.geometry.classes ++ c.g2.cls ++ c.params.flatMap CellParam.classes
def interpEndNonzero (c : CellCard) : Bool := c.params.all (fun p => p.val.interpEndNonzero)
end CellCard

/-! ## Surface cards:  Surface ::= ["*"|"+"] SurfNo [ ["-"] PosInt ] Mnemonic Constants -/

structure SurfaceCard where
  lead : Gap
  /-- `"*"` is a token of its own; a `+` belongs to the number word -/
  star : Bool
  number : String
  g0 : Gap
  pointer : Option (String × Gap)
  mnemonic : String
  g1 : Gap
  constants : Entries
  deriving Repr

namespace SurfaceCard
def WF (s : SurfaceCard) : Bool :=
  s.lead.ok && s.g0.req && s.g1.req && (match s.pointer with | some (_, g) => g.req | none => true) &&
  s.constants.WF && !s.constants.isEmpty && pinnedSurfaceTypes.contains (lowerAscii s.mnemonic)
def render (s : SurfaceCard) : List String :=
  [(if s.star then "*" else "") ++ s.number] ++ (match s.pointer with | some (p, _) => [p] | none => []) ++
    [s.mnemonic] ++ s.constants.render
def classes (s : SurfaceCard) : List String :=
  s.lead.cls ++ (if s.star then ["*"] else []) ++ ["NUMBER"] ++ s.g0.cls ++
    (match s.pointer with | some (_, g) => ["NUMBER"] ++ g.cls | none => []) ++ ["SURFACE_TYPE"] ++ s.g1.cls ++
    s.constants.classes
end SurfaceCard

/-! ## Data cards (the families whose derivability is proved; tallies and SDEF are validated only) -/

/-- a material parameter: `LibKey sep LibId` (a number directly followed by letters) or `NumKey sep Real+` -/
inductive MatParamVal
  | lib (text : String) (after : Gap)
  | nums (es : Entries)
  deriving Repr

structure MatParam where
  key : Classifier
  sep : Sep
  val : MatParamVal
  deriving Repr

namespace MatParam
def WF (p : MatParam) : Bool :=
  p.key.WF && p.sep.WF && (match p.val with | .lib _ a => a.ok | .nums es => es.WF && !es.isEmpty)
def render (p : MatParam) : List String :=
  p.key.render ++ (match p.val with | .lib t _ => [t] | .nums es => es.render)
def classes (p : MatParam) : List String :=
  p.key.classes ++ p.sep.classes ++ (match p.val with | .lib _ a => ["NUMBER_WORD"] ++ a.cls | .nums es => es.classes)
end MatParam

inductive DataBody
  /-- `GenericEntries`, data-block IMP/VOL/U/LAT/FILL, TR, KCODE, KSRC, E/T/C/… bins: numbers, jumps, shortcuts
      (possibly none), optionally preceded by a keyword (`VOL NO`) -/
  | numbers (keyword : Option (String × Gap)) (es : Entries)
  /-- `M`: `(Zaid Real)+ {param}`; each fraction is `(zaid, gap, fraction, gap)` with a library-qualified ZAID -/
  | material (fractions : List (String × Gap × Num × Gap)) (params : List MatParam)
  /-- `MT`: `Law+` -/
  | thermal (laws : List (String × Gap))
  /-- `MODE`: `Particle+` -/
  | mode (particles : List (String × Gap))
  deriving Repr

structure DataCard where
  lead : Gap
  classifier : Classifier
  g0 : Gap
  body : DataBody
  deriving Repr

namespace DataCard
def WF (d : DataCard) : Bool :=
  d.lead.ok && d.g0.ok && d.classifier.WF &&
  (match d.body with
   | .numbers kw es => es.WF && (match kw with | some (_, g) => g.req && !d.g0.isEmpty | none => true) &&
        (es.isEmpty || !d.g0.isEmpty)
   | .material fr ps => !fr.isEmpty && !d.g0.isEmpty && fr.all (fun f => f.2.1.req && f.2.2.2.ok && !f.2.2.1.zero) &&
        ps.all MatParam.WF
   | .thermal laws => !laws.isEmpty && !d.g0.isEmpty && laws.all (fun l => l.2.ok)
   | .mode ps => !ps.isEmpty && !d.g0.isEmpty && ps.all (fun p => p.2.ok))
def render (d : DataCard) : List String :=
  d.classifier.render ++
  (match d.body with
   | .numbers kw es => (match kw with | some (k, _) => [k] | none => []) ++ es.render
   | .material fr ps => fr.flatMap (fun f => [f.1, f.2.2.1.text]) ++ ps.flatMap MatParam.render
   | .thermal laws => laws.map (·.1)
   | .mode ps => ps.map (·.1))
def classes (d : DataCard) : List String :=
  d.lead.cls ++ d.classifier.classes ++ d.g0.cls ++
  (match d.body with
   | .numbers kw es => (match kw with | some (_, g) => ["KEYWORD"] ++ g.cls | none => []) ++ es.classes
   | .material fr ps =>
       fr.flatMap (fun f => ["ZAID"] ++ f.2.1.cls ++ ["NUMBER"] ++ f.2.2.2.cls) ++ ps.flatMap MatParam.classes
   | .thermal laws => laws.flatMap (fun l => ["THERMAL_LAW"] ++ l.2.cls)
   | .mode ps => ps.flatMap (fun p => ["PARTICLE"] ++ p.2.cls))
def interpEndNonzero (d : DataCard) : Bool :=
  match d.body with
  | .numbers _ es => es.interpEndNonzero
  | .material _ ps => ps.all (fun p => match p.val with | .nums es => es.interpEndNonzero | _ => true)
  | _ => true
end DataCard

/-! ## Tally, FS, SDEF and SI/SP/SB/DS cards (section 5.2: Tally, Source)

    Tally  ::= ["*"] "F" TallyNo ":" PL TallyBins          TallyBins ::= { PosInt | "(" PosInt+ ")" }+ ["T"]
             | "FS" PosInt {["-"] PosInt} ["T"]
    Source ::= "SDEF" { SdefKey sep (Real{1|3} | "D" PosInt | Particle) }
             | ("SI"|"SP"|"SB"|"DS") PosInt OptLetter GenericEntries

  A single letter (`t`, `d`, an option letter, a particle) is a word of its own; every such letter of G is a
  particle designator of table 2-2, so its class is PARTICLE (`d1` is the two tokens PARTICLE NUMBER). -/

inductive TallyItem
  /-- bins outside a group: one or more entries -/
  | bins (es : Entries)
  /-- `"(" gap PosInt+ ")" gap` -/
  | group (opened : Gap) (es : Entries) (after : Gap)
  deriving Repr

namespace TallyItem
def WF : TallyItem → Bool
  | bins es => es.WF && !es.isEmpty
  | group opened es after => opened.ok && es.WF && !es.isEmpty && after.ok
def render : TallyItem → List String
  | bins es => es.render
  | group _ es _ => ["("] ++ es.render ++ [")"]
def classes : TallyItem → List String
  | bins es => es.classes
  | group opened es after => ["("] ++ opened.cls ++ es.classes ++ [")"] ++ after.cls
end TallyItem

inductive SdefVal
  | nums (es : Entries)
  /-- `"D" PosInt`: the letter and the number are two tokens -/
  | dist (letter : String) (number : String) (after : Gap)
  | particle (word : String) (after : Gap)
  deriving Repr

def SdefVal.classes : SdefVal → List String
  | .nums es => es.classes
  | .dist _ _ after => ["PARTICLE", "NUMBER"] ++ after.cls
  | .particle _ after => ["PARTICLE"] ++ after.cls
def SdefVal.WF : SdefVal → Bool
  | .nums es => es.WF && !es.isEmpty
  | .dist _ _ after => after.ok
  | .particle _ after => after.ok

structure SdefParam where
  key : String
  sep : Sep
  val : SdefVal
  deriving Repr

namespace SdefParam
def WF (p : SdefParam) : Bool := p.sep.WF && p.val.WF
def render (p : SdefParam) : List String :=
  [p.key] ++ (match p.val with | .nums es => es.render | .dist l n _ => [l ++ n] | .particle w _ => [w])
def classes (p : SdefParam) : List String :=
  ["KEYWORD"] ++ p.sep.classes ++ p.val.classes
end SdefParam

inductive XBody
  /-- F: bins and groups, optional total `T` -/
  | tally (items : List TallyItem) (total : Option (String × Gap))
  /-- FS: segments, optional `T` -/
  | segments (es : Entries) (total : Option (String × Gap))
  /-- SDEF: key/value pairs (possibly none) -/
  | sdef (params : List SdefParam)
  /-- SI / SP / SB / DS with an option letter -/
  | lettered (letter : String) (g : Gap) (es : Entries)
  deriving Repr

structure XCard where
  lead : Gap
  classifier : Classifier
  g0 : Gap
  body : XBody
  deriving Repr

namespace XCard
def totalWF : Option (String × Gap) → Bool
  | some (_, g) => g.ok
  | none => true
def totalClasses : Option (String × Gap) → List String
  | some (_, g) => ["PARTICLE"] ++ g.cls
  | none => []
def totalRender : Option (String × Gap) → List String
  | some (t, _) => [t]
  | none => []
def WF (d : XCard) : Bool :=
  d.lead.ok && d.g0.ok && d.classifier.WF &&
  (match d.body with
   | .tally items total => !items.isEmpty && !d.g0.isEmpty && items.all TallyItem.WF && totalWF total
   | .segments es total => es.WF && !es.isEmpty && !d.g0.isEmpty && totalWF total
   | .sdef ps => ps.all SdefParam.WF && (ps.isEmpty || !d.g0.isEmpty)
   | .lettered _ g es => g.req && es.WF && !es.isEmpty && !d.g0.isEmpty)
def render (d : XCard) : List String :=
  d.classifier.render ++
  (match d.body with
   | .tally items total => items.flatMap TallyItem.render ++ totalRender total
   | .segments es total => es.render ++ totalRender total
   | .sdef ps => ps.flatMap SdefParam.render
   | .lettered l _ es => [l] ++ es.render)
def classes (d : XCard) : List String :=
  d.lead.cls ++ d.classifier.classes ++ d.g0.cls ++
  (match d.body with
   | .tally items total => items.flatMap TallyItem.classes ++ totalClasses total
   | .segments es total => es.classes ++ totalClasses total
   | .sdef ps => ps.flatMap SdefParam.classes
   | .lettered _ g es => ["PARTICLE"] ++ g.cls ++ es.classes)
end XCard

/-! ## Sanity examples (the readings the manual gives) -/

example : (Geom.union (.inter (.surf "1") [.space] (.surf "-2")) [] [] (.compl (.paren [] (.surf "3") []))).render
    = ["1", "-2", ":", "#", "(", "3", ")"] := by decide
example : (Geom.inter (.paren [] (.union (.surf "1") [] [] (.surf "2")) []) [] (.paren [] (.surf "3") [])).WF = true := by
  decide
/-- `(1:2)#3`: a parenthesis separates, no blank needed; `1#3` needs one -/
example : (Geom.inter (.paren [] (.union (.surf "1") [] [] (.surf "2")) []) [] (.compl (.surf "3"))).WF = true := by decide
example : (Geom.inter (.surf "1") [] (.compl (.surf "3"))).WF = false := by decide
/-- `1 -2` without the blank is not a sentence -/
example : (Geom.inter (.surf "1") [] (.surf "-2")).WF = false := by decide
/-- an intersection under a union needs no parentheses, a union under an intersection does -/
example : (Geom.inter (.union (.surf "1") [] [] (.surf "2")) [.space] (.surf "3")).WF = false := by decide
example : arityAllowed "k/x" 5 = true ∧ arityAllowed "k/x" 6 = false ∧ arityAllowed "nosuch" 1 = false := by decide

end MontePyVerif.Spec.Card
