/-!
# Spec.CellData — how MCNP itself assigns per-cell data (IMP per particle, VOL, U, LAT, FILL)

Reference semantics written from MCNP's input rules (LA-UR-17-29981 §2.x file format, §3.2 cell cards,
§3.3.x cell-parameter data cards), at the abstraction level of *cards*: a file is a list of items
(cards and blank lines).  It shares no code with the model of MontePy.

Rules:
* the file is cut at blank lines: first block = cell cards, second = surface cards, third = data cards;
  whatever follows the blank line that ends the third block is **not read**;
* a cell parameter `KEY=value` (`IMP:n,p=1`, `VOL=3`, `U=-2`, `LAT=1`, `FILL=7`) on a cell card belongs to
  that cell; an `IMP` entry applies to every particle its designator lists;
* a cell-parameter data card (`IMP:n 1 1 0`, `VOL 2J 3`, …) lists one entry per cell **in the order of the
  cell cards**: entry `i` belongs to the `i`-th cell card; a jump (`J`) or an omitted trailing entry gives
  nothing (the default stays);
* a card that lists more entries than there are cells is an error.

No imports (used by the compiled driver).
-/
namespace MontePyVerif.Spec.CellData

/-- particle designator, as a code -/
abbrev P := Nat

/-- the five kinds of per-cell data -/
inductive K where
  | imp | vol | u | lat | fill
  deriving DecidableEq, Repr, Inhabited

/-- `KEY=value` on a cell card; `ps` = the particle designators of an `IMP` entry (empty otherwise) -/
structure Param where
  k : K
  ps : List P
  v : Rat
  deriving Repr, DecidableEq

/-- a cell-parameter card of the data block, entries expanded; `none` = jump -/
structure DataCard where
  k : K
  ps : List P
  vec : List (Option Rat)
  deriving Repr, DecidableEq

inductive Item where
  | cell (number : Nat) (params : List Param)
  | data (c : DataCard)
  | other              -- any other card (surface cards, other data cards)
  | blank              -- a blank line
  deriving Repr, DecidableEq

inductive Blk where
  | cell | data
  deriving DecidableEq, Repr

def Item.isBlank : Item → Bool
  | .blank => true
  | _ => false

/-- cut at the first blank line: (what is before it, what is after it) -/
def splitBlank : List Item → List Item × List Item
  | [] => ([], [])
  | x :: t => if x.isBlank then ([], t) else ((splitBlank t).1 |> (x :: ·), (splitBlank t).2)

/-- the three blocks MCNP reads; the rest of the file is ignored -/
def blocks (items : List Item) : List Item × List Item × List Item :=
  let a := splitBlank items
  let b := splitBlank a.2
  let c := splitBlank b.2
  (a.1, b.1, c.1)

def Item.cell? : Item → Option (Nat × List Param)
  | .cell n ps => some (n, ps)
  | _ => none

def Item.card? : Item → Option DataCard
  | .data c => some c
  | _ => none

/-- the cell cards MCNP reads: those of the first block -/
def cellCards (items : List Item) : List (Nat × List Param) :=
  (blocks items).1.filterMap Item.cell?

/-- the cell-parameter data cards MCNP reads: those of the third block -/
def dataCards (items : List Item) : List DataCard :=
  (blocks items).2.2.filterMap Item.card?

/-- does an entry with key `k'` and designators `ps` give datum `(k, p)`? -/
def applies (k' : K) (ps : List P) (k : K) (p : P) : Bool :=
  k' == k && (k != K.imp || ps.contains p)

def cellEntries (params : List Param) (k : K) (p : P) : List Rat :=
  (params.filter (fun q => applies q.k q.ps k p)).map (·.v)

def cardEntry (c : DataCard) (i : Nat) (k : K) (p : P) : Option Rat :=
  if applies c.k c.ps k p then (c.vec[i]?).join else none

def dataEntries (cards : List DataCard) (i : Nat) (k : K) (p : P) : List Rat :=
  cards.filterMap (fun c => cardEntry c i k p)

/-- every place where the file gives datum `(k, p)` of the `i`-th cell, with the value given there -/
def table (items : List Item) (i : Nat) (k : K) (p : P) : List (Blk × Rat) :=
  (match (cellCards items)[i]? with
   | some c => (cellEntries c.2 k p).map (fun v => (Blk.cell, v))
   | none => [])
  ++ (dataEntries (dataCards items) i k p).map (fun v => (Blk.data, v))

/-- no cell-parameter data card lists more entries than there are cells -/
def fits (items : List Item) : Bool :=
  (dataCards items).all (fun c => c.vec.length ≤ (cellCards items).length)

/-- every cell-parameter card that the file contains is inside the data block proper -/
def allDataCardsRead (items : List Item) : Bool :=
  items.filterMap Item.card? == dataCards items

end MontePyVerif.Spec.CellData
