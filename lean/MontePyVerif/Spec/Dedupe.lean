import MontePyVerif.Model.Dedupe
/-!
# Spec.Dedupe — what property C18 itself says, independent of the modelled algorithms

Only the *data types* of `Model.Dedupe` are used (surface records, geometry trees); none of its functions.

* `dup tol a b` — "surfaces of the same type, transform and boundary condition whose constants differ by less than the
  tolerance", neither being periodic (MCNP: a periodic surface is tied to its partner and is not interchangeable).
* `eval ρ κ g` — MCNP's reading of a cell geometry: a leaf `±n` is the positive / negative sense of surface `n`,
  blank is intersection, `:` union, `#` complement; `ρ n` says on which side of surface `n` the point lies,
  `κ c` whether it lies inside cell `c` (the `#c` form).
-/
namespace MontePyVerif.Spec.Dedupe
open MontePyVerif.Dedupe (Surface Transform HS)

/-- distance of two numbers -/
def dist (x y : Rat) : Rat := if x ≤ y then y - x else x - y

/-- two numbers differ by less than the tolerance -/
def within (tol x y : Rat) : Bool := decide (dist x y < tol)

/-- lists of the same length whose entries pairwise differ by less than the tolerance -/
def allWithin (tol : Rat) : List Rat → List Rat → Bool
  | [], [] => true
  | x :: xs, y :: ys => within tol x y && allWithin tol xs ys
  | _, _ => false

/-- the same transformation up to the tolerance: same units, same direction, displacement and rotation entries
    pairwise within the tolerance, as many rotation entries on either side -/
def sameTransform (tol : Rat) : Option Transform → Option Transform → Bool
  | none, none => true
  | some a, some b =>
    a.inDegrees == b.inDegrees && a.mainToAux == b.mainToAux
      && allWithin tol [a.disp.1, a.disp.2.1, a.disp.2.2] [b.disp.1, b.disp.2.1, b.disp.2.2]
      && allWithin tol a.rot b.rot
  | _, _ => false

/-- C18's duplicate relation -/
def dup (tol : Rat) (a b : Surface) : Bool :=
  a.stype == b.stype && a.reflecting == b.reflecting && a.white == b.white
    && a.periodic.isNone && b.periodic.isNone
    && sameTransform tol a.transform b.transform
    && allWithin tol a.consts b.consts

/-- the region of a geometry tree as a Boolean function of the point's position relative to every surface and cell -/
def eval (ρ : Nat → Bool) (κ : Nat → Bool) : HS → Bool
  | .leaf n side => ρ n == side
  | .cellLeaf c => κ c
  | .compl l => !(eval ρ κ l)
  | .inter l r => eval ρ κ l && eval ρ κ r
  | .union l r => eval ρ κ l || eval ρ κ r

end MontePyVerif.Spec.Dedupe
