/-!
# Spec.File — an independent reader of MCNP input files, written from MCNP's own input rules

This is the reference semantics ("what does MCNP itself read in this file?") used as the oracle of
the whole-file properties (C01, C03, C04, C07, C09, C19).  It shares no code and no parsing
technology with MontePy: it is a hand-written, total, one-pass reader over characters.

Rules implemented (MCNP 6.2 manual, LA-UR-17-29981, sections 2.x "input file", 3.2, 3.3, 2.8.1):
* optional message block (`MESSAGE:` in columns 1-8 of line 1) up to a blank line; one title line;
  then cell cards, blank line, surface cards, blank line, data cards, blank line; whatever follows
  the blank line that terminates the data block is **not read**.
* a line is cut at the column limit (80 or 128); tabs advance to the next multiple of 8.
* comment card: `c`/`C` within columns 1-5, preceded only by blanks, followed by a blank or the end
  of the line.  `$` starts a comment that runs to the end of the line.
* continuation: a line with blanks in columns 1-5 continues the current card; a line whose data ends
  in `&` is continued by the next non-comment line whatever its indentation.
* words are separated by blanks; `=` is a separator; upper/lower case are equivalent.
  In cell geometry `( ) : #` are words by themselves.
* numbers in Fortran list-directed style: `1`, `-1.5`, `.5`, `1.`, `1e3`, `1.5E-2`, `1.5-2`, `+3`.
* shortcuts `nR`, `nI`, `nILOG`, `xM`, `nJ` in data lists.

No imports (used by the compiled driver `drv_spec`).
-/
namespace MontePyVerif.Spec.File

abbrev Str := List Char

def isBlankC (c : Char) : Bool := c = ' ' || c = '\t'

def lower (c : Char) : Char := if 'A' ≤ c ∧ c ≤ 'Z' then Char.ofNat (c.toNat + 32) else c
def lowerS (s : Str) : Str := s.map lower

/-- expand tabs to the next multiple of 8 columns -/
def expandTabs : Nat → Str → Str
  | _, [] => []
  | col, c :: t =>
    if c = '\t' then
      let n := 8 - col % 8
      List.replicate n ' ' ++ expandTabs (col + n) t
    else c :: expandTabs (col + 1) t

def rstrip (s : Str) : Str := (s.reverse.dropWhile isBlankC).reverse
def lstrip (s : Str) : Str := s.dropWhile isBlankC
def isBlankLine (s : Str) : Bool := s.all isBlankC

/-- physical line as MCNP sees it: CR removed, tabs expanded, cut at the column limit -/
def physical (limit : Nat) (s : Str) : Str :=
  (expandTabs 0 (s.filter (fun c => c ≠ '\r' ∧ c ≠ '\n'))).take limit

/-- comment card: only blanks before a `c`/`C` that sits within columns 1-5 and is followed by a blank or nothing -/
def isCommentCard (s : Str) : Bool :=
  let lead := (s.takeWhile (· = ' ')).length
  if lead ≥ 5 then false
  else match s.drop lead with
    | c :: rest => (c = 'c' || c = 'C') && (match rest with | [] => true | d :: _ => d = ' ')
    | [] => false

/-- split a line at the first `$`: (data part, comment text without the `$`) -/
def splitDollar : Str → Str × Option Str
  | [] => ([], none)
  | c :: t => if c = '$' then ([], some t) else
      let r := splitDollar t
      (c :: r.1, r.2)

/-- is the line a continuation by indentation (blank columns 1-5, something after)? -/
def isIndented (s : Str) : Bool := (s.takeWhile (· = ' ')).length ≥ 5

/-- data part ends with `&` (after trailing blanks): returns the data without the `&` -/
def stripAmp (s : Str) : Str × Bool :=
  let r := rstrip s
  match r.reverse with
  | '&' :: rest => (rest.reverse, true)
  | _ => (s, false)

/-- One logical card: its data text (lines joined by a blank), the `$` comments met inside it and the
    comment cards that follow its first line (up to the next card). -/
structure Card where
  text : Str
  dollar : List Str
  ccomments : List Str
  deriving Repr

structure Blocks where
  message : List Str          -- lines of the message block (without the blank delimiter)
  title : Str
  head : List Str             -- comment cards before the first card of the cell block
  cells : List Card
  surfaces : List Card
  data : List Card
  surfHead : List Str
  dataHead : List Str
  deriving Repr

/-- reader state of the one-pass fold over physical lines (after message block and title) -/
structure RS where
  block : Nat                 -- 0 cells, 1 surfaces, 2 data, 3 finished
  cur : Option Card           -- the open card
  amp : Bool                  -- the open card's last data line ended in `&`
  done : List (Nat × Card)    -- finished cards, newest first
  heads : List (Nat × Str)    -- comment cards met while no card is open in that block, newest first

def closeCur (r : RS) : RS :=
  match r.cur with
  | none => r
  | some c => { r with cur := none, amp := false, done := (r.block, c) :: r.done }

/-- a data line that starts a card: (card so far, does its data end in `&`?) -/
def startCard (ln : Str) : Card × Bool :=
  let dc := splitDollar ln
  let da := stripAmp dc.1
  (⟨da.1, (match dc.2 with | some t => [rstrip (lstrip t)] | none => []), []⟩, da.2)

/-- text of a comment card without its `c` -/
def commentText (ln : Str) : Str := lstrip (rstrip ((lstrip ln).drop 1))

/-- a further line of an open card: a comment card is kept as such, a data line is appended -/
def contStep (k : Card × Bool) (ln : Str) : Card × Bool :=
  if isCommentCard ln then ({ k.1 with ccomments := k.1.ccomments ++ [commentText ln] }, k.2)
  else
    let n := startCard ln
    ({ k.1 with text := k.1.text ++ ' ' :: n.1.text, dollar := k.1.dollar ++ n.1.dollar }, n.2)

def stepLine (r : RS) (ln : Str) : RS :=
  if r.block ≥ 3 then r
  else if isBlankLine ln then
    let r := closeCur r
    { r with block := r.block + 1 }
  else
    match r.cur with
    | some c =>
      if isCommentCard ln || r.amp || isIndented ln then
        let k := contStep (c, r.amp) ln
        { r with cur := some k.1, amp := k.2 }
      else
        let r := closeCur r
        let k := startCard ln
        { r with cur := some k.1, amp := k.2 }
    | none =>
      if isCommentCard ln then { r with heads := (r.block, commentText ln) :: r.heads }
      else
        let k := startCard ln
        { r with cur := some k.1, amp := k.2 }

def startsWithMessage (s : Str) : Bool := lowerS (s.take 8) = "message:".toList

def splitMessage : List Str → List Str × List Str
  | [] => ([], [])
  | l :: t => if isBlankLine l then ([], t) else
      let r := splitMessage t
      (l :: r.1, r.2)

/-- message block (if any), title line, body -/
def splitFront (ls : List Str) : List Str × Str × List Str :=
  let mr : List Str × List Str := match ls with
    | l :: _ => if startsWithMessage l then splitMessage ls else ([], ls)
    | [] => ([], [])
  match mr.2 with
  | t :: b => (mr.1, t, b)
  | [] => (mr.1, [], [])

def rs0 : RS := ⟨0, none, false, [], []⟩

/-- the one-pass fold over the body lines -/
def readBody (body : List Str) : RS := closeCur (body.foldl stepLine rs0)

def tagged (k : Nat) (xs : List (Nat × α)) : List α := (xs.filter (fun x => x.1 = k)).map (·.2)

def ofRS (msg : List Str) (title : Str) (r : RS) : Blocks :=
  { message := msg.map rstrip, title := rstrip title,
    head := tagged 0 r.heads.reverse, surfHead := tagged 1 r.heads.reverse, dataHead := tagged 2 r.heads.reverse,
    cells := tagged 0 r.done.reverse, surfaces := tagged 1 r.done.reverse, data := tagged 2 r.done.reverse }

def blocks (limit : Nat) (raw : List Str) : Blocks :=
  let f := splitFront (raw.map (physical limit))
  ofRS f.1 f.2.1 (readBody f.2.2)

/-! ## words -/

def isSep (c : Char) : Bool := c = ' ' || c = '='

/-- split into words at blanks and `=`; parentheses are always words by themselves; when `geo` so are `:` and `#` -/
def wordsAux (geo : Bool) : Str → Str → List Str → List Str
  | [], cur, acc => (if cur.isEmpty then acc else cur.reverse :: acc).reverse
  | c :: t, cur, acc =>
    if isSep c then wordsAux geo t [] (if cur.isEmpty then acc else cur.reverse :: acc)
    else if (c = '(' || c = ')') || (geo && (c = ':' || c = '#')) then
      wordsAux geo t [] ([c] :: (if cur.isEmpty then acc else cur.reverse :: acc))
    else wordsAux geo t (c :: cur) acc

def words (s : Str) : List Str := wordsAux false s [] []

/-! ## numbers (Fortran list-directed reading), as exact rationals `num / den` -/

def isDigit (c : Char) : Bool := '0' ≤ c && c ≤ '9'
def digitsVal (ds : Str) : Nat := ds.foldl (fun a c => a * 10 + (c.toNat - '0'.toNat)) 0

structure Q where
  num : Int
  den : Nat
  deriving Repr, DecidableEq

def pow10 (n : Nat) : Nat := 10 ^ n

/-- parse `[sign] digits [. digits] [ (e|E|d|D) [sign] digits | sign digits ]`, at least one digit in the significand -/
def parseNumber (w : Str) : Option Q :=
  let (neg, r) := match w with
    | '-' :: t => (true, t)
    | '+' :: t => (false, t)
    | _ => (false, w)
  let ip := r.takeWhile isDigit
  let r1 := r.dropWhile isDigit
  let (fp, r2, hasDot) := match r1 with
    | '.' :: t => (t.takeWhile isDigit, t.dropWhile isDigit, true)
    | _ => ([], r1, false)
  if ip.isEmpty && fp.isEmpty then none
  else
    let mant : Nat := digitsVal (ip ++ fp)
    let scale : Nat := fp.length
    let expo : Option Int :=
      match r2 with
      | [] => some 0
      | c :: t =>
        let (eneg, ds, ok) :=
          if c = 'e' || c = 'E' || c = 'd' || c = 'D' then
            match t with
            | '-' :: u => (true, u, true)
            | '+' :: u => (false, u, true)
            | _ => (false, t, true)
          else if c = '-' then (true, t, hasDot || true)
          else if c = '+' then (false, t, hasDot || true)
          else (false, [], false)
        if ok && !ds.isEmpty && ds.all isDigit then
          some (if eneg then -(digitsVal ds : Int) else (digitsVal ds : Int))
        else none
    match expo with
    | none => none
    | some e =>
      let e' : Int := e - scale
      let m : Int := if neg then -(mant : Int) else (mant : Int)
      if e' ≥ 0 then some ⟨m * (pow10 e'.toNat : Int), 1⟩
      else some ⟨m, pow10 (-e').toNat⟩

def parseInt (w : Str) : Option Int :=
  let (neg, r) := match w with
    | '-' :: t => (true, t)
    | '+' :: t => (false, t)
    | _ => (false, w)
  if !r.isEmpty && r.all isDigit then some (if neg then -(digitsVal r : Int) else digitsVal r) else none

/-! ## data entries and shortcuts -/

inductive Entry
  | num (q : Q)
  | jump (n : Nat)
  | rep (n : Nat)
  | mul (q : Q)
  | interp (n : Nat) (log : Bool)
  | word (w : Str)            -- anything else (keywords, library ids, particle lists, parentheses…)
  deriving Repr

def suffixCount (w : Str) (suf : Str) : Option Nat :=
  let lw := lowerS w
  if lw.length ≥ suf.length && lw.drop (lw.length - suf.length) = suf then
    let pre := lw.take (lw.length - suf.length)
    if pre.isEmpty then some 1 else if pre.all isDigit then some (digitsVal pre) else none
  else none

def classify (w : Str) : Entry :=
  match parseNumber w with
  | some q => .num q
  | none =>
    match suffixCount w "ilog".toList with
    | some n => .interp n true
    | none =>
    match suffixCount w "log".toList with
    | some n => .interp n true
    | none =>
    match suffixCount w ['j'] with
    | some n => .jump n
    | none =>
    match suffixCount w ['r'] with
    | some n => .rep n
    | none =>
    match suffixCount w ['i'] with
    | some n => .interp n false
    | none =>
      let lw := lowerS w
      if lw.length ≥ 2 && lw.getLast? = some 'm' then
        match parseNumber (lw.take (lw.length - 1)) with
        | some q => .mul q
        | none => .word lw
      else .word lw

/-- an expanded value: a number, a jump (default), a log-interpolated value given by its defining
    relation `x^(n+1) = a^(n+1-k) * b^k`, or an uninterpreted word -/
inductive Val
  | num (q : Q)
  | jump
  | logI (a b : Q) (k n : Nat)
  | word (w : Str)
  | bad (why : String)
  deriving Repr

def qAdd (a b : Q) : Q := ⟨a.num * b.den + b.num * a.den, a.den * b.den⟩
def qSub (a b : Q) : Q := ⟨a.num * b.den - b.num * a.den, a.den * b.den⟩
def qMul (a b : Q) : Q := ⟨a.num * b.num, a.den * b.den⟩
def qDivNat (a : Q) (n : Nat) : Q := ⟨a.num, a.den * n⟩
def qMulNat (a : Q) (n : Nat) : Q := ⟨a.num * n, a.den⟩

def lastNum : List Val → Option Q
  | [] => none
  | v :: _ => match v with | .num q => some q | _ => none

/-- expansion as a one-pass fold; `acc` is newest-first; a pending interpolation waits for its right end -/
def expandAux : List Entry → List Val → Option (Nat × Bool) → List Val
  | [], acc, pend => (match pend with | some _ => Val.bad "interpolation without right end" :: acc | none => acc).reverse
  | e :: t, acc, pend =>
    match pend, e with
    | some (n, lg), .num b =>
      match lastNum acc with
      | some a =>
        let mids : List Val := (List.range n).map (fun i =>
          if lg then Val.logI a b (i + 1) n
          else Val.num (qAdd a (qDivNat (qMulNat (qSub b a) (i + 1)) (n + 1))))
        expandAux t (Val.num b :: (mids.reverse ++ acc)) none
      | none => expandAux t (Val.num b :: Val.bad "interpolation without left end" :: acc) none
    | some _, _ => expandAux t (Val.bad "interpolation not followed by a number" :: acc) none
    | none, .num q => expandAux t (Val.num q :: acc) none
    | none, .jump n => expandAux t (List.replicate n Val.jump ++ acc) none
    | none, .rep n =>
      match acc with
      | v :: _ => expandAux t (List.replicate n v ++ acc) none
      | [] => expandAux t (Val.bad "repeat without predecessor" :: acc) none
    | none, .mul q =>
      match lastNum acc with
      | some a => expandAux t (Val.num (qMul a q) :: acc) none
      | none => expandAux t (Val.bad "multiply without numeric predecessor" :: acc) none
    | none, .interp n lg => expandAux t acc (some (n, lg))
    | none, .word w => expandAux t (Val.word w :: acc) none

def expand (ws : List Str) : List Val := expandAux (ws.map classify) [] none

/-! ## cards -/

structure CellD where
  number : Option Int
  material : Option Int
  density : Option Q
  like : Bool
  geometry : List Str               -- geometry words: signed numbers, `(`, `)`, `:`, `#`
  params : List (Str × List Val)    -- keyword (lower case, with particle designator) ↦ expanded values
  dollar : List Str
  ccomments : List Str
  deriving Repr

/-- a keyword starts with a letter or `*` and is not one of the bare shortcut words (`j`, `r`, `i`, `ilog`) -/
def isKeywordStart (w : Str) : Bool :=
  match w with
  | c :: _ => (c.isAlpha || c = '*') && (match classify w with | .word _ => true | _ => false)
  | [] => false

/-- group `key v v v key v …` into parameters (one-pass fold; `acc` newest first) -/
def groupParamsAux : List Str → Option (Str × List Str) → List (Str × List Str) → List (Str × List Str)
  | [], cur, acc => (match cur with | some (k, vs) => (k, vs.reverse) :: acc | none => acc).reverse
  | w :: t, cur, acc =>
    if isKeywordStart w then
      groupParamsAux t (some (lowerS w, [])) (match cur with | some (k, vs) => (k, vs.reverse) :: acc | none => acc)
    else
      match cur with
      | some (k, vs) => groupParamsAux t (some (k, w :: vs)) acc
      | none => groupParamsAux t none acc

def groupParams (ws : List Str) : List (Str × List Str) := groupParamsAux ws none []

def cellOf (c : Card) : CellD :=
  let ws := words c.text
  match ws with
  | [] => ⟨none, none, none, false, [], [], c.dollar, c.ccomments⟩
  | n :: rest =>
    let number := parseInt n
    match rest with
    | [] => ⟨number, none, none, false, [], [], c.dollar, c.ccomments⟩
    | m :: rest2 =>
      if lowerS m = "like".toList then ⟨number, none, none, true, [], [], c.dollar, c.ccomments⟩
      else
        let mat := parseInt m
        let (dens, rest3) :=
          if mat = some 0 then (none, rest2)
          else match rest2 with
            | d :: r => (parseNumber d, r)
            | [] => (none, [])
        -- re-tokenise the remainder with geometry punctuation; the geometry runs to the first keyword
        let remText : Str := (rest3.map (fun w => w ++ [' '])).flatten
        -- `=` was already a separator; split again so that `(`, `)`, `:`, `#` are words in the geometry part
        let gws := wordsAux true remText [] []
        let geo := gws.takeWhile (fun x => !isKeywordStart x)
        -- parameters are re-read from the plain words (parentheses and colons stay inside values)
        let pws := rest3.dropWhile (fun x => !isKeywordStart x)
        let params := (groupParams pws).map (fun kv => (kv.1, expand kv.2))
        ⟨number, mat, dens, false, geo, params, c.dollar, c.ccomments⟩

structure SurfD where
  number : Option Int
  modifier : Str                    -- "", "*" or "+"
  pointer : Option Int              -- transform (>0) or periodic partner (<0)
  mnemonic : Str
  constants : List Val
  dollar : List Str
  ccomments : List Str
  deriving Repr

def surfOf (c : Card) : SurfD :=
  let ws := words c.text
  match ws with
  | [] => ⟨none, [], none, [], [], c.dollar, c.ccomments⟩
  | n :: rest =>
    let (modf, nn) := match n with
      | '*' :: t => (['*'], t)
      | '+' :: t => (['+'], t)
      | _ => ([], n)
    let number := parseInt nn
    match rest with
    | [] => ⟨number, modf, none, [], [], c.dollar, c.ccomments⟩
    | w :: rest2 =>
      match parseInt w with
      | some p =>
        (match rest2 with
         | mn :: cs => ⟨number, modf, some p, lowerS mn, expand cs, c.dollar, c.ccomments⟩
         | [] => ⟨number, modf, some p, [], [], c.dollar, c.ccomments⟩)
      | none => ⟨number, modf, none, lowerS w, expand rest2, c.dollar, c.ccomments⟩

structure DataD where
  name : Str                        -- first word, lower case (`m1`, `imp:n,p`, `*tr5`, `mode` …)
  entries : List Val
  dollar : List Str
  ccomments : List Str
  deriving Repr

def dataOf (c : Card) : DataD :=
  match words c.text with
  | [] => ⟨[], [], c.dollar, c.ccomments⟩
  | n :: rest => ⟨lowerS n, expand rest, c.dollar, c.ccomments⟩

structure Problem where
  message : List Str
  title : Str
  head : List Str
  surfHead : List Str
  dataHead : List Str
  cells : List CellD
  surfaces : List SurfD
  data : List DataD
  deriving Repr

/-- the denotation of a file -/
def denote (limit : Nat) (raw : List Str) : Problem :=
  let b := blocks limit raw
  { message := b.message, title := b.title, head := b.head, surfHead := b.surfHead, dataHead := b.dataHead,
    cells := b.cells.map cellOf, surfaces := b.surfaces.map surfOf, data := b.data.map dataOf }

end MontePyVerif.Spec.File
