import MontePyVerif.Spec.File
/-!
# Spec.GeomEval — MCNP cell geometry as a Boolean function (used to compare two written geometries)

One-pass, lookahead-free stack evaluator: complement (`#`) binds tighter than intersection
(juxtaposition), intersection tighter than union (`:`); parentheses override.  `#n` is the
complement of cell n, `#( … )` the complement of a region.  Two word lists denote the same region
iff their truth tables over the surfaces and cells they mention agree (`sameRegion`, decidable by
enumeration of all assignments).
-/
namespace MontePyVerif.Spec.GeomEval
open MontePyVerif.Spec.File

inductive E where
  | leaf (n : Nat) (neg : Bool)
  | cell (n : Nat)
  | compl (e : E)
  | inter (a b : E)
  | union (a b : E)
  deriving Repr

/-- `ρ (n, false)` = point is on the positive side of surface n; `ρ (n, true)` = point is inside cell n -/
def E.eval (ρ : Nat × Bool → Bool) : E → Bool
  | .leaf n neg => ρ (n, false) != neg
  | .cell n => !(ρ (n, true))
  | .compl e => !(e.eval ρ)
  | .inter a b => a.eval ρ && b.eval ρ
  | .union a b => a.eval ρ || b.eval ρ

inductive Tok where
  | num (n : Nat) (neg : Bool) | hash | lp | rp | colon
  deriving Repr

def tokOf (w : Str) : Option Tok :=
  match w with
  | ['('] => some .lp
  | [')'] => some .rp
  | [':'] => some .colon
  | ['#'] => some .hash
  | _ => match parseInt w with
    | some n => if n = 0 then none else some (.num n.natAbs (n < 0))
    | none => none

structure Frame where
  u : Option E
  i : Option E
  c : Bool

structure St where
  top : Frame
  rest : List Frame
  hash : Bool

def andO : Option E → E → E
  | none, v => v
  | some a, v => .inter a v
def orO : Option E → E → E
  | none, v => v
  | some a, v => .union a v

def step : Option St → Tok → Option St
  | none, _ => none
  | some s, .num n neg =>
      if s.hash then (if neg then none else some { s with top := { s.top with i := some (andO s.top.i (.cell n)) }, hash := false })
      else some { s with top := { s.top with i := some (andO s.top.i (.leaf n neg)) } }
  | some s, .hash => if s.hash then none else some { s with hash := true }
  | some s, .lp => some { top := ⟨none, none, s.hash⟩, rest := s.top :: s.rest, hash := false }
  | some s, .colon =>
      if s.hash then none else
      match s.top.i with
      | none => none
      | some t => some { s with top := { s.top with u := some (orO s.top.u t), i := none } }
  | some s, .rp =>
      if s.hash then none else
      match s.top.i, s.rest with
      | some t, p :: ps =>
          let v := orO s.top.u t
          let v := if s.top.c then E.compl v else v
          some { top := { p with i := some (andO p.i v) }, rest := ps, hash := false }
      | _, _ => none

def parse (ts : List Tok) : Option E :=
  match ts.foldl step (some ⟨⟨none, none, false⟩, [], false⟩) with
  | some ⟨⟨u, some t, _⟩, [], false⟩ => some (orO u t)
  | _ => none

def parseWords (ws : List Str) : Option E :=
  match ws.mapM tokOf with
  | some ts => parse ts
  | none => none

def E.atoms : E → List (Nat × Bool)
  | .leaf n _ => [(n, false)]
  | .cell n => [(n, true)]
  | .compl e => e.atoms
  | .inter a b => a.atoms ++ b.atoms
  | .union a b => a.atoms ++ b.atoms

def assignments : List (Nat × Bool) → List (List ((Nat × Bool) × Bool))
  | [] => [[]]
  | a :: t => (assignments t).flatMap (fun r => [((a, false) :: r), ((a, true) :: r)])

def lookup (r : List ((Nat × Bool) × Bool)) (k : Nat × Bool) : Bool :=
  match r.find? (fun p => p.1 == k) with
  | some p => p.2
  | none => false

/-- same Boolean function over the union of their atoms (none if either does not parse or there are too many atoms) -/
def sameRegion (a b : List Str) : Option Bool :=
  match parseWords a, parseWords b with
  | some ea, some eb =>
    let atoms := (ea.atoms ++ eb.atoms).eraseDups
    if atoms.length > 14 then none
    else some ((assignments atoms).all (fun r => ea.eval (lookup r) == eb.eval (lookup r)))
  | _, _ => none

end MontePyVerif.Spec.GeomEval
