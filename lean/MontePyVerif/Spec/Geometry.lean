/-! # Spec.Geometry — how MCNP reads the geometry field of a cell card

Independent reference semantics written from MCNP's rules (manual §3.2 "cell cards"):
surface numbers with an optional sense sign, `#n` (complement of cell `n`), `#( … )` (complement of a
region), juxtaposition = intersection, `:` = union, complement binds tighter than intersection,
intersection tighter than union, parentheses override; a `$` comment hides the rest of its line.

It shares no code with the model of MontePy.  Both readers are one-pass and lookahead-free:
`lexAux` walks the characters once with (pending lexeme, inside-comment) as its only state, `run` folds
`step` over the tokens with an explicit stack of open groups.  No imports. -/
namespace MontePyVerif.Spec.Geometry

/-- The characters of a geometry field, abstracted to what matters to MCNP.
    `cmt` is the *start* of a comment (`$ …` or a `c …` line); it hides everything up to the next `nl`.
    `amp` is the `&` continuation mark (a separator). -/
inductive GCh where
  | digit (d : Nat) | plus | minus | hash | lp | rp | colon | sp | nl | amp | cmt
  deriving DecidableEq, Repr, Inhabited

/-- Tokens: a signed surface number, `#n`, `(`, `#(`, `)`, `:`. -/
inductive Tok where
  | num (n : Nat) (neg : Bool) | cell (n : Nat) | lp | clp | rp | colon
  deriving DecidableEq, Repr

/-- The lexeme being read. -/
inductive Pend where
  | none | sign (neg : Bool) | digits (neg : Bool) (v : Nat) | hash | hdigits (v : Nat)
  deriving DecidableEq, Repr

/-- Tokens produced when the pending lexeme ends here; a lone sign or a lone `#` is an error. -/
def flush : Pend → Option (List Tok)
  | .none => some []
  | .sign _ => Option.none
  | .digits neg v => some [.num v neg]
  | .hash => Option.none
  | .hdigits v => some [.cell v]

/-- `flush p` followed by `t` followed by the rest. -/
def emit (p : Pend) (t : List Tok) (rest : Option (List Tok)) : Option (List Tok) :=
  match flush p, rest with
  | some a, some b => some (a ++ t ++ b)
  | _, _ => Option.none

/-- One pass over the characters.  Second argument: inside a comment.
    Strict where MCNP is strict: a sign must be followed by a digit, `#` must be followed at once by a
    number or `(`, a number directly followed by `#`, `+` or `-` is an error, two numbers need a separator
    (adjacent digits are *one* number). -/
def lexAux : Pend → Bool → List GCh → Option (List Tok)
  | p, false, [] => flush p
  | _, true, [] => some []
  | _, true, c :: cs => if c = .nl then lexAux .none false cs else lexAux .none true cs
  | p, false, .digit d :: cs =>
      match p with
      | .none => lexAux (.digits false d) false cs
      | .sign neg => lexAux (.digits neg d) false cs
      | .digits neg v => lexAux (.digits neg (10 * v + d)) false cs
      | .hash => lexAux (.hdigits d) false cs
      | .hdigits v => lexAux (.hdigits (10 * v + d)) false cs
  | p, false, .plus :: cs => if p = .none then lexAux (.sign false) false cs else Option.none
  | p, false, .minus :: cs => if p = .none then lexAux (.sign true) false cs else Option.none
  | p, false, .hash :: cs => if p = .none then lexAux .hash false cs else Option.none
  | p, false, .lp :: cs =>
      if p = .hash then emit .none [.clp] (lexAux .none false cs) else emit p [.lp] (lexAux .none false cs)
  | p, false, .rp :: cs => emit p [.rp] (lexAux .none false cs)
  | p, false, .colon :: cs => emit p [.colon] (lexAux .none false cs)
  | p, false, .sp :: cs => emit p [] (lexAux .none false cs)
  | p, false, .nl :: cs => emit p [] (lexAux .none false cs)
  | p, false, .amp :: cs => emit p [] (lexAux .none false cs)
  | p, false, .cmt :: cs => emit p [] (lexAux .none true cs)

def lex (cs : List GCh) : Option (List Tok) := lexAux .none false cs

/-- Truth assignment: `ρ false n` = "the point is on the positive side of surface `n`",
    `ρ true n` = "the point is inside cell `n`". -/
abbrev Env := Bool → Nat → Bool

/-- Region expressions. -/
inductive E where
  | leaf (n : Nat) (neg : Bool)
  | cell (n : Nat)
  | compl (e : E)
  | inter (a b : E)
  | union (a b : E)
  deriving Repr

def E.eval (ρ : Env) : E → Bool
  | .leaf n neg => ρ false n != neg
  | .cell n => !(ρ true n)
  | .compl e => !(e.eval ρ)
  | .inter a b => a.eval ρ && b.eval ρ
  | .union a b => a.eval ρ || b.eval ρ

/-- An open group: union of the finished terms, intersection of the factors of the current term,
    and whether the group was opened by `#(`. -/
structure Frame where
  u : Option E
  i : Option E
  c : Bool

structure St where
  top : Frame
  rest : List Frame

def andO : Option E → E → E
  | none, v => v
  | some a, v => .inter a v
def orO : Option E → E → E
  | none, v => v
  | some a, v => .union a v

/-- Stack evaluator, one token at a time, no lookahead. -/
def step : Option St → Tok → Option St
  | none, _ => none
  | some s, .num n neg => some { s with top := { s.top with i := some (andO s.top.i (.leaf n neg)) } }
  | some s, .cell n => some { s with top := { s.top with i := some (andO s.top.i (.cell n)) } }
  | some s, .lp => some { top := ⟨none, none, false⟩, rest := s.top :: s.rest }
  | some s, .clp => some { top := ⟨none, none, true⟩, rest := s.top :: s.rest }
  | some s, .colon =>
      match s.top.i with
      | none => none
      | some t => some { s with top := { s.top with u := some (orO s.top.u t), i := none } }
  | some s, .rp =>
      match s.top.i, s.rest with
      | some t, p :: ps =>
          let v := orO s.top.u t
          let v := if s.top.c then E.compl v else v
          some { top := { p with i := some (andO p.i v) }, rest := ps }
      | _, _ => none

def run (ts : List Tok) (s : Option St) : Option St := ts.foldl step s

def parse (ts : List Tok) : Option E :=
  match run ts (some ⟨⟨none, none, false⟩, []⟩) with
  | some ⟨⟨u, some t, _⟩, []⟩ => some (orO u t)
  | _ => none

/-- The region a geometry text denotes, if it is well formed. -/
def denote (cs : List GCh) : Option E := (lex cs).bind parse

/-! ## truth tables (used by the driver as the oracle's evaluator) -/

/-- variables of a token list, in order of first occurrence: `(isCell, number)` -/
def varsOf : List Tok → List (Bool × Nat)
  | [] => []
  | .num n _ :: ts => let r := varsOf ts; if r.contains (false, n) then r else (false, n) :: r
  | .cell n :: ts => let r := varsOf ts; if r.contains (true, n) then r else (true, n) :: r
  | _ :: ts => varsOf ts

/-- the assignment number `k` over the variable list `vs` (bit `j` of `k` is the value of `vs[j]`) -/
def envOf (vs : List (Bool × Nat)) (k : Nat) : Env := fun c n =>
  match vs.findIdx? (· == (c, n)) with
  | some j => k.testBit j
  | none => false

/-- all `2^|vs|` rows -/
def table (e : E) (vs : List (Bool × Nat)) : List Bool :=
  (List.range (2 ^ vs.length)).map (fun k => e.eval (envOf vs k))

end MontePyVerif.Spec.Geometry
