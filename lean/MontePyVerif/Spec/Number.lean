import MontePyVerif.Gen.Constants
/-!
# Spec: how MCNP reads a number (reference semantics, independent of MontePy)

MCNP reads numeric items with Fortran real editing (MCNP 6.2 manual §2.8 "Input file format":
items are separated by blanks; a real may be written as an integer, with a decimal point, with an
exponent introduced by `E`/`e` (or `D`/`d`), or with an exponent that is only a signed integer:
`1.5-2` is `1.5E-2`; a leading `+` is allowed).  A `$` ends the data of a line, `&` continues it.

The reader is a one-pass, lookahead-free fold over the characters with an explicit state (the design
rule of DESIGN.md §3.2); it shares no code with `Model/ValueFormat.lean`.
-/

namespace MontePyVerif.Spec

/-- where the reader is inside a number -/
inductive NPh
  | start      -- nothing read
  | signed     -- after the leading sign
  | int        -- inside the integer digits
  | frac       -- after the decimal point
  | expLetter  -- after `E`/`D`
  | expSigned  -- after the sign of the exponent
  | exp        -- inside the exponent digits
  | bad
  deriving DecidableEq, Repr

structure NSt where
  ph : NPh := .start
  neg : Bool := false
  /-- significand digits read so far, as one number -/
  mant : Nat := 0
  /-- how many of them came after the point -/
  scale : Nat := 0
  /-- how many significand digits were read -/
  digits : Nat := 0
  eneg : Bool := false
  ex : Nat := 0
  deriving Repr

def isExpLetter (c : Char) : Bool := c = 'e' || c = 'E' || c = 'd' || c = 'D'

def nstep (s : NSt) (c : Char) : NSt :=
  if c.isDigit then
    let v := c.toNat - 48
    match s.ph with
    | .start | .signed | .int => { s with ph := .int, mant := 10 * s.mant + v, digits := s.digits + 1 }
    | .frac => { s with mant := 10 * s.mant + v, scale := s.scale + 1, digits := s.digits + 1 }
    | .expLetter | .expSigned | .exp => { s with ph := .exp, ex := 10 * s.ex + v }
    | .bad => s
  else if c = '+' || c = '-' then
    match s.ph with
    | .start => { s with ph := .signed, neg := c = '-' }
    | .int | .frac => if s.digits = 0 then { s with ph := .bad } else { s with ph := .expSigned, eneg := c = '-' }
    | .expLetter => { s with ph := .expSigned, eneg := c = '-' }
    | _ => { s with ph := .bad }
  else if c = '.' then
    match s.ph with
    | .start | .signed | .int => { s with ph := .frac }
    | _ => { s with ph := .bad }
  else if isExpLetter c then
    match s.ph with
    | .int | .frac => if s.digits = 0 then { s with ph := .bad } else { s with ph := .expLetter }
    | _ => { s with ph := .bad }
  else { s with ph := .bad }

/-- `10^k`, `k` any integer -/
def tenPow (k : Int) : Rat := if 0 ≤ k then ((10 ^ k.toNat : Nat) : Rat) else 1 / ((10 ^ (-k).toNat : Nat) : Rat)

def NSt.value (s : NSt) : Option Rat :=
  let ok := match s.ph with
    | .int | .frac => decide (s.digits ≠ 0)
    | .exp => true
    | _ => false
  if ok then
    let e : Int := if s.eneg then -(s.ex : Int) else (s.ex : Int)
    let q := (s.mant : Rat) * tenPow (e - (s.scale : Int))
    some (if s.neg then -q else q)
  else none

/-- the value MCNP reads from one word (`none`: not a number) -/
def parseChars (t : List Char) : Option Rat := (t.foldl nstep {}).value

def parseNumber (s : String) : Option Rat := parseChars s.toList

/-- the first blank-delimited word of a piece of an input line (what MCNP reads first) -/
def firstWord (t : List Char) : List Char :=
  (t.dropWhile (· = ' ')).takeWhile (fun c => !(c = ' ' || c = '\n' || c = '$' || c = '&'))

def relTol : Rat := (Gen.relTolNum : Rat) / (Gen.relTolDen : Rat)
def absTol : Rat := (Gen.absTolNum : Rat) / (Gen.absTolDen : Rat)

def absR (q : Rat) : Rat := if 0 ≤ q then q else -q

/-- `y` is `x` to within the library's tolerance: `|y − x| ≤ max (relTol · max |x| |y|) absTol` -/
def isClose (y x : Rat) : Prop := absR (y - x) ≤ max (relTol * max (absR x) (absR y)) absTol

instance (y x : Rat) : Decidable (isClose y x) := by unfold isClose; infer_instance

end MontePyVerif.Spec
