/-!
# Spec.Refs — what the numbers in an MCNP input file refer to (MCNP's own rules)

The *numbers-only* view of a file: the numbers cards carry and the numbers written at the places where
MCNP reads a reference to another card (manual LA-UR-17-29981: 3.2 cell cards — material number, surface
numbers and `#n` cell complements in the geometry, `U`, `FILL` with an optional transformation number in
parentheses; 3.3 surface cards — entry 2 positive = transformation `TRn`, negative = periodic with
surface `n`; `MTn` belongs to material `Mn`; data-block `U` / `FILL` cards have one entry per cell in
cell-card order).  `resolve` is MCNP's look-up of a number among the cards of a block; a universe has
no card: it *is* the set of cells that carry its number.

Written from MCNP's rules; shares no code with the model of MontePy (the model imports the data types
only: the file is the interface between the two).  No imports.
-/
namespace MontePyVerif.Spec.Refs

structure WCell where
  number : Int
  /-- material number, 0 = void -/
  mat : Int
  /-- geometry leaves: (is `#n` complement, written number) -/
  geom : List (Bool × Int)
  /-- `U=` entry in the cell block (`none`: not written there) -/
  u : Option Int
  /-- universe numbers of the `FILL=` entry in the cell block (`[]`: not written there) -/
  fill : List Int
  /-- transform number inside `FILL=u (n)` -/
  fillTr : Option Int
  deriving DecidableEq, Repr

structure WSurf where
  number : Int
  tr : Option Int
  per : Option Int
  deriving DecidableEq, Repr

structure WMat where
  number : Int
  /-- number of the MT card written behind the material -/
  mt : Option Int
  deriving DecidableEq, Repr

structure WFile where
  cells : List WCell
  surfs : List WSurf
  mats : List WMat
  trs : List Int
  /-- data-block `U` card: one entry per cell, 0 = jump (real world) -/
  uCard : Option (List Int)
  /-- data-block `FILL` card: one entry per cell, `none` = jump -/
  fillCard : Option (List (Option Int))
  deriving DecidableEq, Repr


/-- blocks of numbered cards -/
inductive CardKind | cell | surf | mat | tr
  deriving DecidableEq, Repr

/-- the numbers of the cards of a block, in file order -/
def WFile.numbers (wf : WFile) : CardKind → List Int
  | .cell => wf.cells.map (·.number)
  | .surf => wf.surfs.map (·.number)
  | .mat => wf.mats.map (·.number)
  | .tr => wf.trs

/-- MCNP's look-up: the index of the one card of the block that carries the number
    (no card, or several cards with the number — a fatal error in MCNP — resolve to nothing) -/
def resolve (wf : WFile) (k : CardKind) (n : Int) : Option Nat :=
  if (wf.numbers k).count n = 1 then some ((wf.numbers k).idxOf n) else none

/-- places where a card refers to another card by number -/
inductive Site
  /-- `i`-th surface / `#n` entry of the geometry of cell card `c` -/
  | geom (c i : Nat)
  /-- material number of cell card `c` -/
  | cellMat (c : Nat)
  /-- the MT card of material card `m` -/
  | mt (m : Nat)
  /-- transformation number of surface card `s` -/
  | surfTr (s : Nat)
  /-- periodic-surface number of surface card `s` -/
  | surfPer (s : Nat)
  /-- transformation number inside `FILL=u (n)` of cell card `c` -/
  | fillTr (c : Nat)
  deriving DecidableEq, Repr

/-- what is written at a site: the block it refers into and the number (material 0 is void: no reference) -/
def WFile.at (wf : WFile) : Site → Option (CardKind × Int)
  | .geom c i => (wf.cells[c]?).bind (fun x => x.geom[i]?.map (fun l => (if l.1 then CardKind.cell else CardKind.surf, l.2)))
  | .cellMat c => (wf.cells[c]?).bind (fun x => if x.mat = 0 then none else some (CardKind.mat, x.mat))
  | .mt m => (wf.mats[m]?).bind (fun x => x.mt.map (fun n => (CardKind.mat, n)))
  | .surfTr s => (wf.surfs[s]?).bind (fun x => x.tr.map (fun n => (CardKind.tr, n)))
  | .surfPer s => (wf.surfs[s]?).bind (fun x => x.per.map (fun n => (CardKind.surf, n)))
  | .fillTr c => (wf.cells[c]?).bind (fun x => x.fillTr.map (fun n => (CardKind.tr, n)))

/-- the universe cell card `i` is in: its `U=` entry, else entry `i` of the data-block `U` card, else 0 (the real world) -/
def WFile.effU (wf : WFile) (i : Nat) : Int :=
  match (wf.cells[i]?).bind (·.u) with
  | some n => n
  | none => match wf.uCard with
    | some l => l.getD i 0
    | none => 0

/-- the universes cell card `i` is filled with: its `FILL=` entry, else entry `i` of the data-block `FILL` card -/
def WFile.effFill (wf : WFile) (i : Nat) : List Int :=
  match wf.cells[i]? with
  | none => []
  | some c =>
    if c.fill ≠ [] then c.fill
    else match wf.fillCard with
      | some l => (match l[i]? with | some (some n) => [n] | _ => [])
      | none => []

/-- a universe is the set of cells that carry its number: the indices of the cell cards in universe `n` -/
def WFile.cellsIn (wf : WFile) (n : Int) : List Nat :=
  (List.range wf.cells.length).filter (fun i => wf.effU i = n)

/-! ## Well-formedness of a problem, as a decision procedure (DESIGN 5.2: "well-formedness constraints") -/

def optIn (o : Option Int) (l : List Int) : Bool :=
  match o with
  | none => true
  | some n => decide (n ∈ l)

/-- every number written at a reference site is carried by a card of the block it refers into -/
def WFile.refsOK (wf : WFile) : Bool :=
  wf.cells.all (fun c =>
    (decide (c.mat = 0) || decide (c.mat ∈ wf.numbers .mat)) &&
    c.geom.all (fun l => decide (l.2 ∈ wf.numbers (if l.1 then CardKind.cell else CardKind.surf))) &&
    optIn c.fillTr (wf.numbers .tr)) &&
  wf.surfs.all (fun s => optIn s.tr (wf.numbers .tr) && optIn s.per (wf.numbers .surf)) &&
  wf.mats.all (fun m => optIn m.mt (wf.numbers .mat))

/-- every universe a cell is filled with (single entry or matrix entry) has at least one cell -/
def WFile.fillOK (wf : WFile) : Bool :=
  (List.range wf.cells.length).all (fun c =>
    (wf.effFill c).all (fun u => (List.range wf.cells.length).any (fun c' => decide (wf.effU c' = u))))

/-- The file is a well-formed problem: card numbers unique per block; material numbers not 0; every
    reference exists; filled universes exist; a per-cell datum (U, FILL) is given in one block only; a
    surface card has one pointer entry; a transformation number in a FILL stands in a cell-block FILL. -/
def WFile.wellFormedB (wf : WFile) : Bool :=
  decide ((wf.numbers .cell).Nodup) && decide ((wf.numbers .surf).Nodup) &&
  decide ((wf.numbers .mat).Nodup) && decide ((wf.numbers .tr).Nodup) &&
  wf.mats.all (fun m => decide (m.number ≠ 0)) &&
  wf.refsOK && wf.fillOK &&
  (!wf.uCard.isSome || wf.cells.all (fun c => c.u.isNone)) &&
  (!wf.fillCard.isSome || wf.cells.all (fun c => c.fill.isEmpty)) &&
  wf.surfs.all (fun s => s.tr.isNone || s.per.isNone) &&
  wf.cells.all (fun c => c.fillTr.isNone || !c.fill.isEmpty)

end MontePyVerif.Spec.Refs
