import MontePyVerif.Gen.Constants
/-!
# Spec: how MCNP reads the five shortcuts (MCNP 6.2 manual, LA-UR-17-29981, section 2.8.1)

* `nR`    repeat the immediately preceding entry `n` times (`R` = `1R`);
* `nI`    insert `n` linear interpolates between the preceding and the following entry (`I` = `1I`);
* `nILOG` (also `nLOG`) insert `n` logarithmic interpolates between the two neighbours;
* `xM`    the entry is the preceding entry multiplied by `x`;
* `nJ`    jump over `n` entries, which keep their default value (`J` = `1J`).

`nR`, `xM` and `nI`/`nILOG` must be preceded by a number (also one produced by a previous `R`, `M` or by the
closing number of an interpolation), never by a jump; `nI`/`nILOG` must be followed by a number.

The reader is a one-pass fold over the entries with an explicit state (output so far, previous number,
pending interpolation).  It shares no code with `Model/Shortcut.lean`.

ILOG without logarithms: the `k`-th of `n` values between `a` and `b` is the positive `x` with
`x^(n+1) = a^(n+1-k) * b^k`.  The reader emits the symbolic value `logv a b n k`; `Val.matches` decides whether a
rational is that value within the library tolerance (on the power relation, tolerance scaled by the power).
-/
namespace MontePyVerif.Spec.Shortcut

/-- one word of a numeric list -/
inductive Entry
  | num (x : Rat)
  | rep (n : Option Nat)
  | mul (x : Rat)
  | jmp (n : Option Nat)
  | lin (n : Option Nat)
  | log (n : Option Nat)
  deriving Repr, DecidableEq

/-- one expanded position -/
inductive Val
  | num (x : Rat)
  | jump
  /-- the `k`-th (1-based) of `n` logarithmic interpolates between `a` and `b` -/
  | logv (a b : Rat) (n k : Nat)
  /-- the `k`-th (1-based) of `n` linear interpolates between `a` and `b`: `a + (b-a)·k/(n+1)`; kept symbolic because
      "the same number" for an interpolate is judged on the scale of its interpolation (an interpolate may be 0) -/
  | linv (a b : Rat) (n k : Nat)
  deriving Repr, DecidableEq

def relTol : Rat := mkRat Gen.relTolNum Gen.relTolDen
def absTol : Rat := mkRat Gen.absTolNum Gen.absTolDen

def abs (x : Rat) : Rat := if x < 0 then -x else x

/-- `|a-b| <= max (|relTol * a|, |relTol * b|, absTol)`, the library's notion of "the same number" (`math.isclose`) -/
def isClose (a b : Rat) : Bool :=
  let d := abs (a - b)
  decide (d ≤ abs (relTol * a)) || decide (d ≤ abs (relTol * b)) || decide (d ≤ absTol)

/-- the value of the `k`-th of `n` linear interpolates between `a` and `b` -/
def linValue (a b : Rat) (n k : Nat) : Rat := a + (b - a) * (k : Rat) / ((n + 1 : Nat) : Rat)

/-- does the reported value `got` (`none` = jump / default) agree with what MCNP reads at this position? -/
def Val.matches : Val → Option Rat → Bool
  | .num x, some y => isClose x y
  | .jump, none => true
  | .linv a b n k, some y =>
    -- within the library tolerance of the value, or within that tolerance of the interpolation's scale
    -- (a double computation of `a + (b-a)k/(n+1)` cannot do better near 0)
    let x := linValue a b n k
    isClose x y || decide (abs (x - y) ≤ relTol * (if abs a < abs b then abs b else abs a))
  | .logv a b n k, some y =>
    let t := a ^ (n + 1 - k) * b ^ k
    let p := y ^ (n + 1)
    decide (0 < y) && decide (abs (p - t) ≤ ((n + 1 : Nat) : Rat) * relTol * (if p < t then t else p))
  | _, _ => false

structure St where
  out : List Val
  /-- the preceding entry, when it is a number -/
  prev : Option Rat
  /-- an interpolation waiting for its closing number: start, count, logarithmic? -/
  pend : Option (Rat × Nat × Bool)
  deriving Repr

def St.init : St := ⟨[], none, none⟩

/-- the `n` interpolates strictly between `a` and `b` -/
def between (a b : Rat) (n : Nat) (isLog : Bool) : List Val :=
  (List.range n).map fun i =>
    if isLog then Val.logv a b n (i + 1) else Val.linv a b n (i + 1)

def step (s : St) : Entry → Option St
  | .num x =>
    match s.pend with
    | none => some ⟨s.out ++ [Val.num x], some x, none⟩
    | some (a, n, isLog) =>
      if isLog && (decide (a ≤ 0) || decide (x ≤ 0)) then none
      else some ⟨s.out ++ between a x n isLog ++ [Val.num x], some x, none⟩
  | .rep n =>
    match s.pend, s.prev with
    | none, some a => some ⟨s.out ++ List.replicate (n.getD 1) (Val.num a), some a, none⟩
    | _, _ => none
  | .mul x =>
    match s.pend, s.prev with
    | none, some a => some ⟨s.out ++ [Val.num (a * x)], some (a * x), none⟩
    | _, _ => none
  | .jmp n =>
    match s.pend with
    | none => some ⟨s.out ++ List.replicate (n.getD 1) Val.jump, none, none⟩
    | some _ => none
  | .lin n =>
    match s.pend, s.prev with
    | none, some a => some ⟨s.out, some a, some (a, n.getD 1, false)⟩
    | _, _ => none
  | .log n =>
    match s.pend, s.prev with
    | none, some a => some ⟨s.out, some a, some (a, n.getD 1, true)⟩
    | _, _ => none

def run : List Entry → St → Option St
  | [], s => some s
  | e :: es, s => match step s e with
    | none => none
    | some s' => run es s'

/-- the value sequence a list of words denotes; `none` = not a valid MCNP list -/
def expand (es : List Entry) : Option (List Val) :=
  match run es St.init with
  | some s => if s.pend.isNone then some s.out else none
  | none => none

/-- position by position; a list may stop early when only jumps (defaults) are left out, but never be longer -/
def matchesAll : List Val → List (Option Rat) → Bool
  | [], ys => ys.all (·.isNone)
  | v :: vs, y :: ys => v.matches y && matchesAll vs ys
  | _ :: _, [] => false  -- more entries written than there are values (even jumps): the list is too long

end MontePyVerif.Spec.Shortcut

/-! ## Words: from the characters of a written list to entries (MCNP's free-field format) -/
namespace MontePyVerif.Spec.Shortcut

/-- words are maximal runs of non-blank characters -/
def isBlank (c : Char) : Bool := c == ' ' || c == '\n' || c == '\t' || c == '\r'

def wordsAux : List Char → List Char → List String → List String
  | [], cur, acc => (if cur.isEmpty then acc else String.ofList cur.reverse :: acc).reverse
  | c :: cs, cur, acc =>
    if isBlank c then wordsAux cs [] (if cur.isEmpty then acc else String.ofList cur.reverse :: acc)
    else wordsAux cs (c :: cur) acc

def words (s : String) : List String := wordsAux s.toList [] []

def digitsVal (cs : List Char) : Option Nat :=
  if cs.isEmpty || !cs.all Char.isDigit then none
  else some (cs.foldl (fun acc c => acc * 10 + (c.toNat - '0'.toNat)) 0)

def pow10 (e : Int) : Rat := if e ≥ 0 then ((10 ^ e.toNat : Nat) : Rat) else 1 / ((10 ^ (-e).toNat : Nat) : Rat)

/-- Fortran-style number: `[+-] (d+ [. d*] | . d+) [ (e|E) [+-] d+ | (+|-) d+ ]` -/
def parseNumber (w : String) : Option Rat :=
  let cs := w.toList
  let (neg, cs) := match cs with
    | '-' :: t => (true, t)
    | '+' :: t => (false, t)
    | _ => (false, cs)
  let ip := cs.takeWhile Char.isDigit
  let r1 := cs.dropWhile Char.isDigit
  let (fp, r2, hasDot) := match r1 with
    | '.' :: t => (t.takeWhile Char.isDigit, t.dropWhile Char.isDigit, true)
    | _ => ([], r1, false)
  if ip.isEmpty && fp.isEmpty then none else
  let mant : Nat := (ip ++ fp).foldl (fun acc c => acc * 10 + (c.toNat - '0'.toNat)) 0
  let expo : Option Int := match r2 with
    | [] => some 0
    | 'e' :: '-' :: t | 'E' :: '-' :: t => (digitsVal t).map (fun n => -(n : Int))
    | 'e' :: '+' :: t | 'E' :: '+' :: t => (digitsVal t).map (fun n => (n : Int))
    | 'e' :: t | 'E' :: t => (digitsVal t).map (fun n => (n : Int))
    | '-' :: t => if hasDot || true then (digitsVal t).map (fun n => -(n : Int)) else none
    | '+' :: t => (digitsVal t).map (fun n => (n : Int))
    | _ => none
  match expo with
  | none => none
  | some e =>
    let v : Rat := (mant : Rat) * pow10 (e - fp.length)
    some (if neg then -v else v)

def optCount (cs : List Char) : Option (Option Nat) :=
  if cs.isEmpty then some none else (digitsVal cs).map some

def parseWord (w0 : String) : Option Entry :=
  let w := w0.toLower
  let cs := w.toList
  let n := cs.length
  let endsWith (suf : String) : Option (List Char) :=
    let k := suf.length
    if k ≤ n && cs.drop (n - k) == suf.toList then some (cs.take (n - k)) else none
  match endsWith "ilog" with
  | some pre => (optCount pre).map Entry.log
  | none =>
  match endsWith "log" with
  | some pre => (optCount pre).map Entry.log
  | none =>
  match endsWith "r" with
  | some pre => (optCount pre).map Entry.rep
  | none =>
  match endsWith "j" with
  | some pre => (optCount pre).map Entry.jmp
  | none =>
  match endsWith "i" with
  | some pre => (optCount pre).map Entry.lin
  | none =>
  match endsWith "m" with
  | some pre => (parseNumber (String.ofList pre)).map Entry.mul
  | none => (parseNumber w).map Entry.num

/-- split into lines -/
def linesOf : List Char → List Char → List (List Char) → List (List Char)
  | [], cur, acc => (cur.reverse :: acc).reverse
  | c :: cs, cur, acc => if c == '\n' then linesOf cs [] (cur.reverse :: acc) else linesOf cs (c :: cur) acc

/-- a comment line: within the first five columns a lone `c` followed by a blank or the end of the line -/
def isCommentLine (cs : List Char) : Bool :=
  let lead := cs.takeWhile (· == ' ')
  lead.length ≤ 4 &&
    match cs.dropWhile (· == ' ') with
    | c :: r => (c == 'c' || c == 'C') && (match r with | [] => true | d :: _ => d == ' ')
    | [] => false

/-- MCNP's comments inside the text of one input: `$` to the end of the line; comment lines (not the first line,
    which starts with the input's own first word) -/
def decomment (s : String) : String :=
  let ls := linesOf s.toList [] []
  let kept := (ls.zipIdx).filterMap fun (l, k) =>
    if k > 0 && isCommentLine l then none else some (l.takeWhile (· != '$'))
  String.ofList (List.intercalate ['\n'] kept)

/-- the values a written list denotes -/
def readText (s : String) : Option (List Val) :=
  match (words (decomment s)).mapM parseWord with
  | none => none
  | some es => expand es

end MontePyVerif.Spec.Shortcut
