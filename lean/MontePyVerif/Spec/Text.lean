/-!
# Spec.Text — MCNP's physical-line rules (reference semantics, independent of MontePy)

Written from the MCNP manual's input-file format rules (MCNP 6.2 manual, LA-UR-17-29981, section 2.x):

* a line is at most `limit` columns (80 up to MCNP 6.1, 128 from 6.2); what is beyond is not read;
* a *blank line* (blanks only) ends a block;
* a *comment line* has `c` or `C` somewhere in columns 1–5, only blanks before it, and a blank or the end of
  the line after it; it can stand anywhere and carries no data;
* on any other line a `$` starts a comment that runs to the end of the line;
* a line whose columns 1–5 are blank *continues* the input of the previous data line; so does the line after a
  line whose data end with `&`;
* the data of an input are its *words*: maximal runs of non-blank characters.

`logicalInputs` is a one-pass fold over the physical lines with an explicit state.  It shares no code with
`Model/Wrap.lean` (it does not import it).
-/
namespace MontePyVerif.Spec.Text

abbrev Str := List Char

/-- a line of blanks only -/
def isBlankLine (l : Str) : Bool := l.all (· == ' ')

/-- `c`/`C` within the first `n` columns, blanks before, blank or end of line after -/
def commentWithin : Nat → Str → Bool
  | 0, _ => false
  | _ + 1, [] => false
  | n + 1, c :: rest =>
    if c == ' ' then commentWithin n rest
    else (c == 'c' || c == 'C') && (match rest with | [] => true | d :: _ => d == ' ')

def isCommentLine (l : Str) : Bool := commentWithin 5 l

/-- the text of a comment line after its `c` -/
def commentLineText : Str → Str
  | [] => []
  | c :: rest => if c == ' ' then commentLineText rest else rest

/-- columns 1–5 exist and are blank -/
def isContinuation (l : Str) : Bool := decide (5 ≤ l.length) && (l.take 5).all (· == ' ')

/-- data before the first `$`, and the comment text after it (if there is a `$`) -/
def splitDollar : Str → Str × Option Str
  | [] => ([], none)
  | c :: rest =>
    if c == '$' then ([], some rest)
    else let r := splitDollar rest; (c :: r.1, r.2)

/-- words: maximal runs of non-blank characters. `cur` is the word being read, reversed. -/
def wordsAux : Str → Str → List Str
  | [], cur => if cur.isEmpty then [] else [cur.reverse]
  | c :: rest, cur =>
    if c == ' ' then (if cur.isEmpty then wordsAux rest [] else cur.reverse :: wordsAux rest [])
    else wordsAux rest (c :: cur)

def words (l : Str) : List Str := wordsAux l []

/-- what is left of comment text when layout is disregarded: its non-blank characters -/
def squeeze (l : Str) : Str := l.filter (· != ' ')

/-- one physical line, classified -/
inductive Line where
  | blank
  | comment (text : Str)                                     -- a `C` comment line
  | data (continuation : Bool) (words : List Str) (comment : Str)   -- comment: squeezed text behind `$`
  deriving Repr, DecidableEq

def classify (limit : Nat) (raw : Str) : Line :=
  let l := raw.take limit
  if isBlankLine l then .blank
  else if isCommentLine l then .comment (squeeze (commentLineText l))
  else
    let p := splitDollar l
    .data (isContinuation l) (words p.1) (match p.2 with | some t => squeeze t | none => [])

/-- a logical input: its data words, and all comment text found inside or in front of it -/
structure Input where
  words : List Str
  comment : Str
  deriving Repr, DecidableEq

/-- reader state: finished inputs (most recent first), the open input, "the last data line ended with &" -/
structure St where
  done : List Input
  cur : Option Input
  amp : Bool
  deriving Repr, DecidableEq

def St.init : St := ⟨[], none, false⟩

/-- data words of a line without a final `&` word, and whether there was one -/
def stripAmp (ws : List Str) : List Str × Bool :=
  match ws.getLast? with
  | some ['&'] => (ws.dropLast, true)
  | _ => (ws, false)

def step (limit : Nat) (st : St) (raw : Str) : St :=
  match classify limit raw with
  | .blank =>
    -- ends the block: whatever is open is finished
    match st.cur with
    | some i => ⟨i :: st.done, none, false⟩
    | none => ⟨st.done, none, false⟩
  | .comment t =>
    match st.cur with
    | some i => ⟨st.done, some ⟨i.words, i.comment ++ t⟩, st.amp⟩
    | none => ⟨st.done, some ⟨[], t⟩, st.amp⟩
  | .data cont ws c =>
    let a := stripAmp ws
    -- a line without data words (only a `$` comment) does not interrupt an `&` continuation
    let amp' := if ws.isEmpty then st.amp else a.2
    match st.cur with
    | some i =>
      if cont || st.amp || i.words.isEmpty then
        -- continues the open input (an open input without words holds only leading comments)
        ⟨st.done, some ⟨i.words ++ a.1, i.comment ++ c⟩, amp'⟩
      else ⟨i :: st.done, some ⟨a.1, c⟩, amp'⟩
    | none => ⟨st.done, some ⟨a.1, c⟩, amp'⟩

def finish (st : St) : List Input :=
  (match st.cur with | some i => i :: st.done | none => st.done).reverse

/-- the logical inputs of a sequence of physical lines read under column limit `limit` -/
def logicalInputs (limit : Nat) (lines : List Str) : List Input :=
  finish (lines.foldl (step limit) St.init)

/-- the one composition lemma a printer-correctness proof needs -/
theorem foldl_step_append (limit : Nat) (st : St) (xs ys : List Str) :
    (xs ++ ys).foldl (step limit) st = ys.foldl (step limit) (xs.foldl (step limit) st) :=
  List.foldl_append ..

/-! sanity examples -/
example : isCommentLine "c hello".toList = true := by decide
example : isCommentLine "    C".toList = true := by decide
example : isCommentLine "     c hello".toList = false := by decide
example : isCommentLine "cc hello".toList = false := by decide
example : words "1 0  -1 ".toList = ["1".toList, "0".toList, "-1".toList] := by decide
example : logicalInputs 80 ["1 0 -1 $ a b".toList, "     imp:n=1".toList, "c x".toList, "2 0 1".toList]
    = [⟨["1".toList, "0".toList, "-1".toList, "imp:n=1".toList], "abx".toList⟩,
       ⟨["2".toList, "0".toList, "1".toList], []⟩] := by decide

end MontePyVerif.Spec.Text
