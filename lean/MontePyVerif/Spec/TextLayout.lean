/-!
# Spec.Text — how MCNP itself reads the lines of an input file (reference semantics, C11 / C20)

Written from the MCNP 6.2 manual's rules for the card format (LA-UR-17-29981, "INP file", "Card format"):

* a line is read up to the column limit (80, or 128 from 6.2 on); a tab moves to the next multiple of 8;
* a **comment line** has a `C`/`c` anywhere in columns 1-5 followed by at least one blank (or the line end);
  it is ignored wherever it stands;
* a `$` ends the data of a line: the rest of the line is a comment;
* an input (card) begins on a line with a non-blank in columns 1-5; a line whose first five columns are blank
  **continues** the input before it; an `&` preceded by a blank at the end of the data of a line says that
  the *next* line continues the input wherever that line begins;
* a **blank line** ends a block: cells, surfaces, data; whatever follows the blank line that ends the data
  block is ignored;
* an optional **message block** (first line begins `MESSAGE:`) runs up to its blank-line terminator; the next
  line is the **title**;
* a `READ FILE=name` input pulls the inputs of another file into the block it stands in.

This file shares no code with `Model/Reader.lean`.  The reader is a one-pass, lookahead-free fold over the
lines with an explicit state (block counter, open input, "previous data line ended in &").
-/
namespace MontePyVerif.Spec

abbrev Line := List Char
abbrev Word := List Char

/-! ## one line -/

/-- tab stops every 8 columns -/
def expandTabsFrom : Nat → Line → Line
  | _, [] => []
  | col, c :: t =>
    if c = '\t' then
      let n := 8 - col % 8
      List.replicate n ' ' ++ expandTabsFrom (col + n) t
    else c :: expandTabsFrom (col + 1) t

/-- what MCNP sees of a physical line: tabs expanded, cut at the column limit -/
def physical (limit : Nat) (l : Line) : Line := (expandTabsFrom 0 l).take limit

def isBlankLine (l : Line) : Bool := l.all (· = ' ')

def isC (c : Char) : Bool := c = 'c' || c = 'C'

/-- `C` in columns 1-5 followed by a blank or the end of the line -/
def isCommentLine (l : Line) : Bool :=
  let rest := l.dropWhile (· = ' ')
  decide (l.length - rest.length < 5) &&
    match rest with
    | [] => false
    | [c] => isC c
    | c :: d :: _ => isC c && d = ' '

/-- the data of a line: everything in front of the first `$` -/
def dataPart (l : Line) : Line := l.takeWhile (· ≠ '$')

/-- a non-blank in columns 1-5 -/
def startsInput (l : Line) : Bool := (l.take 5).any (· ≠ ' ')

/-- maximal runs of non-blank characters (`cur` is the open word, reversed) -/
def wordsAux : Line → Word → List Word
  | [], cur => if cur.isEmpty then [] else [cur.reverse]
  | c :: t, cur =>
    if c = ' ' then (if cur.isEmpty then wordsAux t [] else cur.reverse :: wordsAux t [])
    else wordsAux t (c :: cur)

def splitWords (l : Line) : List Word := wordsAux l []

/-- the data end in an `&` that is preceded by a blank -/
def endsAmp (d : Line) : Bool :=
  match d.reverse.dropWhile (· = ' ') with
  | '&' :: ' ' :: _ => true
  | _ => false

inductive Kind
  | blank
  /-- a C comment line, or a line that holds nothing but a `$` comment -/
  | comment
  /-- a data line: begins in columns 1-5?, its words (without the `&`), ends in `&`? -/
  | data (col : Bool) (ws : List Word) (amp : Bool)
  deriving DecidableEq, Repr

/-- words of the data of a (physical, non-blank, non-comment) line; the continuation mark is not a word -/
def lineWords (p : Line) : List Word :=
  let ws := splitWords (dataPart p)
  if endsAmp (dataPart p) then ws.dropLast else ws

def classifyPhysical (p : Line) : Kind :=
  if isBlankLine p then .blank
  else if isCommentLine p then .comment
  else if (splitWords (dataPart p)).isEmpty then .comment
  else .data (startsInput p) (lineWords p) (endsAmp (dataPart p))

def classify (limit : Nat) (l : Line) : Kind := classifyPhysical (physical limit l)

/-! ## the blocks of a file -/

/-- a logical input: the block it belongs to (0 cells, 1 surfaces, 2 data) and its words -/
structure Inp where
  block : Nat
  words : List Word
  deriving DecidableEq, Repr

structure St where
  /-- 0, 1, 2; 3 and more: the data block has been terminated, the rest is ignored -/
  block : Nat
  /-- the open input -/
  cur : Option (List Word)
  /-- the last data line ended in `&` -/
  amp : Bool
  deriving DecidableEq, Repr

def close (s : St) : List Inp :=
  match s.cur with
  | some ws => if s.block < 3 then [⟨s.block, ws⟩] else []
  | none => []

def step (s : St) (k : Kind) : List Inp × St :=
  if s.block ≥ 3 then ([], s)
  else match k with
    | .blank => (close s, { block := s.block + 1, cur := none, amp := false })
    | .comment => ([], s)
    | .data col ws amp =>
      match s.cur with
      | none => ([], { s with cur := some ws, amp := amp })
      | some cw =>
        if col && !s.amp then ([⟨s.block, cw⟩], { s with cur := some ws, amp := amp })
        else ([], { s with cur := some (cw ++ ws), amp := amp })

def run : St → List Kind → List Inp
  | s, [] => close s
  | s, k :: ks => (step s k).1 ++ run (step s k).2 ks

/-- the inputs of a sequence of lines that starts inside block `start` (a file pulled in by a read card
    starts in the block of the card; the top-level file starts, after its title, in block 0) -/
def inputsFrom (limit : Nat) (start : Nat) (lines : List Line) : List Inp :=
  run { block := start, cur := none, amp := false } (lines.map (classify limit))

structure Blocks where
  message : Option (List Line)
  title : Option Line
  inputs : List Inp
  deriving DecidableEq, Repr

def isMessageStart (l : Line) : Bool :=
  (l.take 8).map Char.toUpper = ['M', 'E', 'S', 'S', 'A', 'G', 'E', ':']

/-- message lines up to the blank terminator, and what follows -/
def takeMessage : List Line → List Line × List Line
  | [] => ([], [])
  | l :: rest => if isBlankLine l then ([], rest) else
    let r := takeMessage rest
    (l :: r.1, r.2)

/-- **the reference reader**: message block, title, then three blocks of inputs -/
def logicalInputs (limit : Nat) (lines : List Line) : Blocks :=
  match lines with
  | [] => ⟨none, none, []⟩
  | l0 :: rest =>
    if isMessageStart l0 then
      let m := takeMessage (l0 :: rest)
      match m.2 with
      | [] => ⟨some m.1, none, []⟩
      | t :: body => ⟨some m.1, some t, inputsFrom limit 0 body⟩
    else ⟨none, some l0, inputsFrom limit 0 rest⟩

/-! ## read cards -/

def lowerEq (w : Word) (s : List Char) : Bool := w.map Char.toLower = s

/-- split a word at `=` (in key/value position `=` is equivalent to a blank) -/
def splitEq (w : Word) : List Word := splitWords (w.map (fun c => if c = '=' then ' ' else c))

inductive Card
  | notRead
  /-- `READ FILE=name` -/
  | read (name : Word)
  /-- first word `READ` but not of the form above -/
  | badRead
  deriving DecidableEq, Repr

/-- an input is a read card when its first word is `READ`; the rest must be `FILE` and a name,
    where `=` is equivalent to a blank -/
def cardOf (ws : List Word) : Card :=
  match ws with
  | [] => .notRead
  | r :: rest =>
    if lowerEq r ['r', 'e', 'a', 'd'] then
      match rest.flatMap splitEq with
      | [f, n] => if lowerEq f ['f', 'i', 'l', 'e'] then .read n else .badRead
      | _ => .badRead
    else .notRead

/-- a read card waiting to be served: the block it stood in, the file it names, and the files that are
    being read on the way to it (top-level file first, the file holding the card last) -/
structure Pending where
  block : Nat
  name : Word
  chain : List (List Char)
  deriving DecidableEq, Repr

inductive SErr
  /-- an input that begins `READ` but is not `READ FILE=name` -/
  | badRead
  /-- the file named is one of the files being read -/
  | cycle
  /-- the file named does not exist -/
  | missing
  deriving DecidableEq, Repr

/-- what reading produces, in order -/
inductive SOut
  | inp (i : Inp)
  | card (p : Pending)
  | err (e : SErr)
  deriving DecidableEq, Repr

/-- files as MCNP sees them: a path names a sequence of lines, or nothing -/
abbrev Files := List Char → Option (List Line)

/-- the directory part of the top-level file's path, with its final `/` -/
def dirPrefix (top : List Char) : List Char := (top.reverse.dropWhile (· ≠ '/')).reverse

/-- a relative name is resolved against the directory of the **top-level** file -/
def resolveAgainst (top : List Char) (name : Word) : List Char :=
  match name with
  | '/' :: _ => name
  | _ => dirPrefix top ++ name

def outOf (resolve : Word → List Char) (chain : List (List Char)) (i : Inp) : SOut :=
  match cardOf i.words with
  | .notRead => .inp i
  | .badRead => .err .badRead
  | .read n => if chain.contains (resolve n) then .err .cycle else .card ⟨i.block, n, chain⟩

/-- the inputs and read cards of one file, in order -/
def fileStream (limit : Nat) (resolve : Word → List Char) (chain : List (List Char)) (start : Nat)
    (lines : List Line) : List SOut :=
  (inputsFrom limit start lines).map (outOf resolve chain)

def cards : List SOut → List Pending
  | [] => []
  | .card p :: t => p :: cards t
  | _ :: t => cards t

def inputsOf : List SOut → List Inp
  | [] => []
  | .inp i :: t => i :: inputsOf t
  | _ :: t => inputsOf t

def errorOf : List SOut → Option SErr
  | [] => none
  | .err e :: _ => some e
  | _ :: t => errorOf t

/-- everything up to and including the first error -/
def cutS : List SOut → List SOut
  | [] => []
  | .err e :: _ => [.err e]
  | o :: t => o :: cutS t

/-- serving one read card: the stream of the file it names, read in the block of the card -/
def serveS (limit : Nat) (files : Files) (resolve : Word → List Char) (p : Pending) : List SOut :=
  match files (resolve p.name) with
  | none => [.err .missing]
  | some ls => fileStream limit resolve (p.chain ++ [resolve p.name]) p.block ls

/-- one generation of read cards after the other: the files named by the pending cards, in the order of the
    cards, then the cards met while reading those files -/
def gensS (limit : Nat) (files : Files) (resolve : Word → List Char) : Nat → List Pending → List SOut
  | 0, _ => []
  | _ + 1, [] => []
  | d + 1, ps =>
    let s := ps.flatMap (serveS limit files resolve)
    s ++ gensS limit files resolve d (cards s)

structure Flat where
  message : Option (List Line)
  title : Option Line
  outs : List SOut
  deriving DecidableEq, Repr

/-- **the flattened problem**: the top file's own inputs, then — generation by generation, in the order the
    read cards are met — the inputs of the files they name, every card served exactly once; reading stops at
    the first error (a malformed read card, a missing file, a file that reads a file being read).
    `depth` bounds the nesting of read cards that is followed. -/
def flatten (limit : Nat) (files : Files) (resolve : Word → List Char) (depth : Nat) (main : List Char) : Flat :=
  match files main with
  | none => ⟨none, none, [.err .missing]⟩
  | some lines =>
    let b := logicalInputs limit lines
    let s := b.inputs.map (outOf resolve [main])
    ⟨b.message, b.title, cutS (s ++ gensS limit files resolve depth (cards s))⟩

/-- block `k` of the flattened problem: the single-file problem that the property compares with -/
def Flat.block (f : Flat) (k : Nat) : List (List Word) := ((inputsOf f.outs).filter (·.block = k)).map (·.words)

/-- the inputs of block `k`, in order -/
def blockOf (k : Nat) (is : List Inp) : List (List Word) := (is.filter (·.block = k)).map (·.words)

/-! ## layouts (DESIGN 5.3): how words are laid out into lines -/

/-- what stands between two consecutive words of an input -/
inductive Gap
  /-- `n + 1` blanks -/
  | blanks (n : Nat)
  /-- end the line, then `5 + n` blanks -/
  | newline (n : Nat)
  /-- blank(s), `&`, `t` trailing blanks, end the line, C comment lines (possibly none: MCNP ignores comment lines
      wherever they stand, also between an `&` line and its continuation), then `n` blanks (any number: behind `&`
      the continuation may begin in columns 1-5) -/
  | amp (pre t : Nat) (cs : List (Nat × Line)) (n : Nat)
  /-- blank(s), a `$` comment, end the line, then `5 + n` blanks -/
  | dollar (pre : Nat) (text : Line) (n : Nat)
  /-- end the line, C comment lines, then `5 + n` blanks -/
  | comments (cs : List (Nat × Line)) (n : Nat)
  deriving DecidableEq, Repr

/-- the layout of one input: leading blanks (< 5), C comment lines in front of it, one gap after each word
    but the last, and the trailing blanks / `$` comment of its last line -/
structure InputLayout where
  pre : List (Nat × Line)
  lead : Nat
  gaps : List Gap
  trail : Nat
  trailDollar : Option Line
  deriving DecidableEq, Repr

/-- a C comment line: `ind` blanks (< 5), `c`, and — if there is a text — a blank and the text -/
def commentLine (c : Nat × Line) : Line :=
  List.replicate c.1 ' ' ++ (if c.2.isEmpty then ['c'] else 'c' :: ' ' :: c.2)

/-- how a data line ends -/
inductive Tail
  /-- `t` trailing blanks and, possibly, a `$` comment -/
  | plain (t : Nat) (dollar : Option Line)
  /-- blank(s), `&`, `t` trailing blanks -/
  | amp (pre t : Nat)
  /-- blank(s), a `$` comment -/
  | dollar (pre : Nat) (text : Line)
  deriving DecidableEq, Repr

/-- a data line of a layout: indentation, first word, further words each behind `n + 1` blanks, the line end -/
structure DLine where
  indent : Nat
  first : Word
  rest : List (Nat × Word)
  tail : Tail
  deriving DecidableEq, Repr

/-- a physical line of a layout -/
inductive PLine
  | data (d : DLine)
  | comment (c : Nat × Line)
  deriving DecidableEq, Repr

def tailStr : Tail → Line
  | .plain t none => List.replicate t ' '
  | .plain t (some x) => List.replicate t ' ' ++ ' ' :: '$' :: x
  | .amp pre t => List.replicate (pre + 1) ' ' ++ '&' :: List.replicate t ' '
  | .dollar pre text => List.replicate (pre + 1) ' ' ++ '$' :: text

def bodyStr (first : Word) (rest : List (Nat × Word)) : Line :=
  first ++ rest.flatMap (fun p => List.replicate (p.1 + 1) ' ' ++ p.2)

def DLine.str (d : DLine) : Line := List.replicate d.indent ' ' ++ bodyStr d.first d.rest ++ tailStr d.tail

def PLine.str : PLine → Line
  | .data d => d.str
  | .comment c => commentLine c

/-- lay out the remaining words with the given gaps; `(indent, first, rest)` is the line under construction -/
def layWords (indent : Nat) (first : Word) (rest : List (Nat × Word)) :
    List Word → List Gap → Nat → Option Line → List PLine
  | [], _, trail, td => [.data ⟨indent, first, rest, .plain trail td⟩]
  | w' :: ws, [], trail, td => layWords indent first (rest ++ [(0, w')]) ws [] trail td
  | w' :: ws, g :: gs, trail, td =>
    match g with
    | .blanks n => layWords indent first (rest ++ [(n, w')]) ws gs trail td
    | .newline n => .data ⟨indent, first, rest, .plain 0 none⟩ :: layWords (5 + n) w' [] ws gs trail td
    | .amp pre t cs n =>
      .data ⟨indent, first, rest, .amp pre t⟩ :: (cs.map .comment ++ layWords n w' [] ws gs trail td)
    | .dollar pre text n => .data ⟨indent, first, rest, .dollar pre text⟩ :: layWords (5 + n) w' [] ws gs trail td
    | .comments cs n =>
      .data ⟨indent, first, rest, .plain 0 none⟩ :: (cs.map .comment ++ layWords (5 + n) w' [] ws gs trail td)

/-- the physical lines of one input -/
def layInput (L : InputLayout) (ws : List Word) : List PLine :=
  match ws with
  | [] => []
  | w :: rest => L.pre.map .comment ++ layWords L.lead w [] rest L.gaps L.trail L.trailDollar

def renderInput (L : InputLayout) (ws : List Word) : List Line := (layInput L ws).map PLine.str

/-- the lines of a sequence of inputs (one block, or the body of a file pulled in by a read card) -/
def renderInputs : List (InputLayout × List Word) → List Line
  | [] => []
  | (L, ws) :: t => renderInput L ws ++ renderInputs t

end MontePyVerif.Spec
