/-!
# Spec: the numbers of a TR / *TR card

MCNP 6.2 manual, 3.3.1.3 (TRn: coordinate transformation).  A TR card holds up to 12 numbers (positions 0-2 the
displacement vector, 3-11 the rotation matrix, row by row) and the direction flag M.  An entry that is jumped over
(`j`, `nJ`) or left off with everything behind it takes its default: no displacement and no rotation.  "No rotation"
is spelled in the unit of the card: direction cosines `1 0 0 0 1 0 0 0 1` for `TRn`, angles in degrees
`0 90 90 90 0 90 90 90 0` for `*TRn`.  No MontePy code is mirrored here.
-/
namespace MontePyVerif.Spec

/-- the 12 numbers of the transformation that does nothing, in the unit of the card (`true` = `*TR`, degrees) -/
def trDefaults : Bool → List Rat
  | false => [0, 0, 0, 1, 0, 0, 0, 1, 0, 0, 0, 1]
  | true => [0, 0, 0, 0, 90, 90, 90, 0, 90, 90, 90, 0]

/-- what MCNP takes for a jumped-over entry at position `pos` of a card in the given unit -/
def trDefault (inDegrees : Bool) (pos : Nat) : Rat := (trDefaults inDegrees).getD pos 0

/-- the numbers MCNP takes for the entries of a TR card from position `k` on (`none` = a jump) -/
def trReadFrom (inDegrees : Bool) : Nat → List (Option Rat) → List Rat
  | _, [] => []
  | k, e :: es => e.getD (trDefault inDegrees k) :: trReadFrom inDegrees (k + 1) es

/-- the first `n` numbers MCNP takes for a TR card: entries left off at the end are what jumps are -/
def trRead (inDegrees : Bool) (n : Nat) (entries : List (Option Rat)) : List Rat :=
  trReadFrom inDegrees 0 (entries ++ List.replicate (n - entries.length) none)

end MontePyVerif.Spec
