"""./check <Cxx> [--tier quick|thorough] [--seed N] [--replay FILE]"""
import argparse
import importlib
import os
import sys

sys.path.insert(0, os.path.dirname(os.path.abspath(__file__)))


def main():
    ap = argparse.ArgumentParser()
    ap.add_argument("prop")
    ap.add_argument("--tier", default=os.environ.get("VERIF_TIER", "quick"), choices=["quick", "thorough"])
    ap.add_argument("--seed", type=int, default=int(os.environ.get("VERIF_SEED", "0")))
    ap.add_argument("--replay", default=None)
    a = ap.parse_args()
    tier = os.environ.get("VERIF_TIER", a.tier) if a.tier is None else a.tier
    from vlib import core

    try:
        module = importlib.import_module(f"props.{a.prop.lower()}")
    except ModuleNotFoundError as e:
        sys.stderr.write(f"no check for {a.prop}: {e}\n")
        return 2
    except core.MachineryError as e:
        sys.stderr.write(f"[{a.prop}] machinery error: {e}\n")
        return 2
    return core.run_check(a.prop.upper(), tier, a.seed, a.replay, module)


if __name__ == "__main__":
    sys.exit(main())
