"""./check <Cxx> [--tier quick|thorough] [--seed N] [--replay FILE]"""
import argparse
import importlib
import os
import sys

sys.path.insert(0, os.path.dirname(os.path.abspath(__file__)))


def main():
    ap = argparse.ArgumentParser()
    ap.add_argument("prop")
    ap.add_argument("--tier", default=os.environ.get("VERIF_TIER", "quick"), choices=["quick", "thorough"])
    ap.add_argument("--seed", type=int, default=int(os.environ.get("VERIF_SEED", "0")))
    ap.add_argument("--replay", default=None)
    a = ap.parse_args()
    # Python's set/dict order of str-keyed and enum-keyed containers depends on the hash seed: pin it to the run's
    # seed so that a run (and a replay of one of its cases) is repeatable, and different seeds see different orders
    want = str(a.seed % 4294967295)
    if a.replay:
        try:
            import json

            want = str(json.load(open(a.replay)).get("hashseed", want))
        except Exception:
            pass
    if os.environ.get("PYTHONHASHSEED") != want:
        os.environ["PYTHONHASHSEED"] = want
        os.execv(sys.executable, [sys.executable] + sys.argv)
    tier = os.environ.get("VERIF_TIER", a.tier) if a.tier is None else a.tier
    from vlib import core

    try:
        module = importlib.import_module(f"props.{a.prop.lower()}")
    except ModuleNotFoundError as e:
        sys.stderr.write(f"no check for {a.prop}: {e}\n")
        return 2
    except core.MachineryError as e:
        sys.stderr.write(f"[{a.prop}] machinery error: {e}\n")
        return 2
    return core.run_check(a.prop.upper(), tier, a.seed, a.replay, module)


if __name__ == "__main__":
    sys.exit(main())
