"""Translator plug-in for C09: the per-cell data registry of the code.

Gen/CellData.lean gets `Cell._INPUTS_TO_PROPERTY` (class name, attribute, cant_repeat) in dict order, each
class's `_class_prefix()`, the value `CellDataPrintController()[prefix]` reports when nothing was set (the
default placement), and the attributes `Cells` treats as "always update".  The C09 theorems quantify over
this list, so adding / removing / renaming a per-cell class re-opens the proofs.  It also gets the lexer's keyword
table (`CellLexer._KEYWORDS`): `C09_cell_keywords` is about which of them contain a class prefix as a substring.
"""
import ast
import inspect
import json
import textwrap


def observe_always_pushed(montepy):
    """-> (sorted attributes, "") or (None, why): whose push_to_cells runs when a problem without data-level cell
    modifiers is read"""
    import os
    import shutil
    import tempfile
    import warnings

    calls = []
    saved = []
    tmp = tempfile.mkdtemp()
    try:
        for cls, (attr, _) in montepy.Cell._INPUTS_TO_PROPERTY.items():
            orig = cls.__dict__.get("push_to_cells")
            inherited = orig is None
            func = getattr(cls, "push_to_cells")

            def recorder(self, *a, _f=func, _attr=attr, **k):
                calls.append(_attr)
                return _f(self, *a, **k)

            saved.append((cls, inherited, orig))
            cls.push_to_cells = recorder
        path = os.path.join(tmp, "probe.imcnp")
        with open(path, "w") as fh:
            fh.write("probe\n1 0 -1\n\n1 so 1\n\nnps 1\n")
        with warnings.catch_warnings():
            warnings.simplefilter("ignore")
            montepy.read_input(path)
        return sorted(set(calls)), ""
    except Exception as e:  # noqa: BLE001
        return None, f"not observed: {type(e).__name__}: {e}"[:200]
    finally:
        for cls, inherited, orig in saved:
            if inherited:
                try:
                    delattr(cls, "push_to_cells")
                except Exception:  # noqa: BLE001
                    pass
            else:
                cls.push_to_cells = orig
        shutil.rmtree(tmp, ignore_errors=True)


def always_update_names(module, name="inputs_to_always_update"):
    """-> (sorted attribute names, note): the strings of the collection assigned to `name` anywhere in the module"""
    try:
        tree = ast.parse(textwrap.dedent(inspect.getsource(module)))
    except Exception as e:  # noqa: BLE001
        return [], f"source not available: {type(e).__name__}"
    assigns = {}
    for node in ast.walk(tree):
        targets, value = [], None
        if isinstance(node, ast.Assign):
            targets, value = node.targets, node.value
        elif isinstance(node, ast.AnnAssign) and node.value is not None:
            targets, value = [node.target], node.value
        for t in targets:
            key = t.id if isinstance(t, ast.Name) else t.attr if isinstance(t, ast.Attribute) else None
            if key:
                assigns.setdefault(key, []).append(value)

    def strings(value, depth=0):
        if depth > 5:
            return None
        if isinstance(value, ast.Call) and isinstance(value.func, ast.Name) \
                and value.func.id in ("set", "frozenset", "tuple", "list", "sorted") and not value.keywords:
            return [] if not value.args else strings(value.args[0], depth + 1) if len(value.args) == 1 else None
        if isinstance(value, (ast.Name, ast.Attribute)):
            key = value.id if isinstance(value, ast.Name) else value.attr
            found = [strings(v, depth + 1) for v in assigns.get(key, [])]
            return found[0] if len(found) == 1 else None
        try:
            got = ast.literal_eval(value)
        except Exception:  # noqa: BLE001
            return None
        if isinstance(got, (set, frozenset, tuple, list)) and all(isinstance(x, str) for x in got):
            return list(got)
        return None

    values = assigns.get(name, [])
    if not values:
        return [], f"no assignment to {name} in {module.__name__}"
    out = set()
    for v in values:
        got = strings(v)
        if got is None:
            return [], f"an assignment to {name} in {module.__name__} is not a collection of string constants"
        out.update(got)
    return sorted(out), ""


def generate(write):
    import montepy
    from montepy._cell_data_control import CellDataPrintController

    ctl = CellDataPrintController()
    rows = []
    for cls, (attr, cant_repeat) in montepy.Cell._INPUTS_TO_PROPERTY.items():
        prefix = cls._class_prefix()
        rows.append((cls.__name__, attr, bool(cant_repeat), prefix, bool(ctl[prefix])))
    # the per-cell attributes whose data-level object is pushed to the cells even when no input of the class was read
    # (`inputs_to_always_update` of cells.py).  Round 7: OBSERVED (a file without any data-level cell modifier is
    # read while every class's push_to_cells is recorded); the first version took the set literal from the AST of
    # Cells.update_pointers, where the name is only a left-over, and raised on a right-hand side that is not a
    # literal.  If the observation fails the assignment is looked for in the whole module (any function, the class
    # body, the module; a name on the right-hand side is followed; set()/frozenset()/... are looked through); an
    # unexpected shape gives the empty list and a note, never an exception of the translator.  No theorem consumes it.
    always, always_note = observe_always_pushed(montepy)
    if always is None:
        always, note2 = always_update_names(montepy.cells)
        always_note = always_note + "; " + note2 if note2 else always_note + "; taken from the source text"
    body = "namespace MontePyVerif.Gen\n\n"
    body += "/-- `cell.py: Cell._INPUTS_TO_PROPERTY` in dict order: (class, attribute, cant_repeat, `_class_prefix()`,\n"
    body += "    `CellDataPrintController()[prefix]` when nothing was set) -/\n"
    body += "def cellDataClasses : List (String × String × Bool × String × Bool) := [" + ", ".join(
        f"({json.dumps(n)}, {json.dumps(a)}, {'true' if c else 'false'}, {json.dumps(p)}, {'true' if d else 'false'})"
        for n, a, c, p, d in rows
    ) + "]\n"
    body += "/-- `cells.py: inputs_to_always_update`: attributes pushed to the cells although no input of the class was read (observed) -/\n"
    body += "def cellDataAlwaysUpdate : List String := [" + ", ".join(json.dumps(a) for a in always) + "]\n"
    if always_note:
        body += "-- not read: " + json.dumps(always_note) + "\n"
    # the keyword table of the lexer that reads cell cards: the prefix of every parameter a cell card can carry
    try:
        from montepy.input_parser.tokens import CellLexer

        kws = sorted(str(k).lower() for k in CellLexer._KEYWORDS)
    except Exception as e:  # noqa: BLE001  (unknown: only C09_cell_keywords fails, not the translator)
        kws = []
        body += "-- not read: " + json.dumps(f"CellLexer._KEYWORDS: {type(e).__name__}: {e}"[:200]) + "\n"
    body += "/-- `input_parser/tokens.py: CellLexer._KEYWORDS` (sorted): every word that can be the prefix of a cell parameter -/\n"
    body += "def cellLexerKeywords : List String := [" + ", ".join(json.dumps(k) for k in kws) + "]\n"
    body += "\nend MontePyVerif.Gen\n"
    write("CellData.lean", body)
