"""Translator plug-in for C09: the per-cell data registry of the code.

Gen/CellData.lean gets `Cell._INPUTS_TO_PROPERTY` (class name, attribute, cant_repeat) in dict order, each
class's `_class_prefix()`, the value `CellDataPrintController()[prefix]` reports when nothing was set (the
default placement), and the attributes `Cells` treats as "always update".  The C09 theorems quantify over
this list, so adding / removing / renaming a per-cell class re-opens the proofs.  It also gets the lexer's keyword
table (`CellLexer._KEYWORDS`): `C09_cell_keywords` is about which of them contain a class prefix as a substring.
"""
import ast
import inspect
import json
import textwrap


def generate(write):
    import montepy
    from montepy._cell_data_control import CellDataPrintController

    ctl = CellDataPrintController()
    rows = []
    for cls, (attr, cant_repeat) in montepy.Cell._INPUTS_TO_PROPERTY.items():
        prefix = cls._class_prefix()
        rows.append((cls.__name__, attr, bool(cant_repeat), prefix, bool(ctl[prefix])))
    # the set literal `inputs_to_always_update` of Cells.update_pointers (from the AST)
    always = []
    src = textwrap.dedent(inspect.getsource(montepy.cells.Cells.update_pointers))
    for node in ast.walk(ast.parse(src)):
        if isinstance(node, ast.Assign) and getattr(node.targets[0], "id", "") == "inputs_to_always_update":
            always = sorted(ast.literal_eval(node.value))
    body = "namespace MontePyVerif.Gen\n\n"
    body += "/-- `cell.py: Cell._INPUTS_TO_PROPERTY` in dict order: (class, attribute, cant_repeat, `_class_prefix()`,\n"
    body += "    `CellDataPrintController()[prefix]` when nothing was set) -/\n"
    body += "def cellDataClasses : List (String × String × Bool × String × Bool) := [" + ", ".join(
        f"({json.dumps(n)}, {json.dumps(a)}, {'true' if c else 'false'}, {json.dumps(p)}, {'true' if d else 'false'})"
        for n, a, c, p, d in rows
    ) + "]\n"
    body += "/-- `cells.py: Cells.update_pointers: inputs_to_always_update` -/\n"
    body += "def cellDataAlwaysUpdate : List String := [" + ", ".join(json.dumps(a) for a in always) + "]\n"
    # the keyword table of the lexer that reads cell cards: the prefix of every parameter a cell card can carry
    from montepy.input_parser.tokens import CellLexer

    kws = sorted(str(k).lower() for k in CellLexer._KEYWORDS)
    body += "/-- `input_parser/tokens.py: CellLexer._KEYWORDS` (sorted): every word that can be the prefix of a cell parameter -/\n"
    body += "def cellLexerKeywords : List String := [" + ", ".join(json.dumps(k) for k in kws) + "]\n"
    body += "\nend MontePyVerif.Gen\n"
    write("CellData.lean", body)
