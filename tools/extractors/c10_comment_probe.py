"""Translator plug-in for C10: ties MCNP_Object._is_comment_line to the model BY BEHAVIOUR.

The working tree's `_is_comment_line` (the test that decides whether an over-long line is continued as `c ` comment
lines or as data lines) is run on a fixed probe list: every word of the look-alike family (comment markers `c`/`C`
and data mnemonics that merely begin with c: cosine bins, cell flagging, cut, ctme ...) x 0..5 leading blanks x
followed by nothing / a blank / a blank and data / a letter / a digit.  `C10_comment_probe` (Props/C10.lean) demands
that the model's `isCommentLine` gives the same answer on every probe; lines are written as character lists so that
the kernel evaluates them without unpacking string literals."""

WORDS = ["c", "C", "c14", "C14", "*c14", "cf4", "CF4", "cm4", "cut:n", "CUT:p", "ctme", "cosy", "cc", "c1", "c-1", "x", "1"]
FOLLOW = ["", " ", " 1 2", "a", "1"]


def probes():
    seen, out = set(), []
    for w in WORDS:
        for lead in range(6):
            for f in FOLLOW:
                line = " " * lead + w + f
                if line not in seen:
                    seen.add(line)
                    out.append(line)
    return out


def chars(s):
    esc = {"'": "\\'", "\\": "\\\\"}
    return "[" + ", ".join("'" + esc.get(c, c) + "'" for c in s) + "]"


def generate(write):
    from montepy.mcnp_object import MCNP_Object

    fn = getattr(MCNP_Object, "_is_comment_line", None)
    body = "namespace MontePyVerif.Gen\n\n"
    body += "/-- (line, MCNP_Object._is_comment_line(line)) measured on the working tree -/\n"
    body += "def commentLineProbes : List (List Char × Bool) := [\n"
    rows = []
    for line in probes():
        try:
            val = bool(fn(line)) if fn is not None else False
        except Exception:  # noqa: BLE001 - a probe that raises is recorded as "not a comment line"
            val = False
        rows.append(f"  ({chars(line)}, {'true' if val else 'false'})")
    body += ",\n".join(rows) + "]\n"
    body += "\nend MontePyVerif.Gen\n"
    write("CommentProbe.lean", body)
