"""Translator plug-in for C12: lexer tables, SLY productions, dispatch registries.

generate(write) emits
  Gen/Tokens.lean    per lexer class: token names, literals, _KEYWORDS, _PARTICLES, _SURFACE_TYPES, the
                     (token, regex source) rules in master-regex order, the _EXPRESSIONS shortcut patterns
  Gen/Grammar.lean   per parser class: start symbol, productions (lhs, rhs), precedence, S/R and R/R conflict counts
  Gen/Registry.lean  Cell._ALLOWED_KEYWORDS, Cell._INPUTS_TO_PROPERTY, PREFIX_MATCHES, DataInput's parser map,
                     SurfaceType / Particle / Lattice values, surface_builder's class table and each class's
                     accepted constant counts

Everything is read from the imported objects or, for the tables that only exist as code (the parser of a catch-all
data card, surface_builder's class choice, the constant-count tests), OBSERVED by running the working tree's code on
probe cards; never from a copy kept here, never from the shape of a function's source.  Sets are sorted so that PYTHONHASHSEED does not change the output.
"""

import ast
import inspect
import json
import textwrap


def lstr(s):
    out = ['"']
    for ch in s:
        o = ord(ch)
        if ch == '"':
            out.append('\\"')
        elif ch == "\\":
            out.append("\\\\")
        elif ch == "\n":
            out.append("\\n")
        elif ch == "\t":
            out.append("\\t")
        elif 32 <= o < 127:
            out.append(ch)
        else:
            out.append("\\u{%x}" % o)
    out.append('"')
    return "".join(out)


def llist(items, per_line=8, indent="  "):
    items = list(items)
    if not items:
        return "[]"
    if len(items) <= per_line and sum(len(i) for i in items) < 90:
        return "[" + ", ".join(items) + "]"
    lines = []
    for i in range(0, len(items), per_line):
        lines.append(indent + ", ".join(items[i : i + per_line]))
    return "[\n" + ",\n".join(lines) + "]"


def strs(xs, **kw):
    return llist([lstr(x) for x in xs], **kw)


def lname(cls_name):
    return cls_name[0].lower() + cls_name[1:]


# ----------------------------------------------------------------------------- Tokens
def gen_tokens():
    from montepy.input_parser import tokens as T

    body = "namespace MontePyVerif.Gen.Tokens\n\n"
    classes = [T.MCNP_Lexer, T.ParticleLexer, T.CellLexer, T.DataLexer, T.SurfaceLexer]
    for L in classes:
        n = lname(L.__name__).replace("_", "")
        body += f"/-- tokens.py:{L.__name__} -/\n"
        body += f"def {n}TokenNames : List String := {strs(sorted(L._token_names))}\n"
        body += f"def {n}Literals : List String := {strs(sorted(L.literals))}\n"
        body += f"def {n}Keywords : List String := {strs(sorted(L._KEYWORDS))}\n"
        if hasattr(L, "_PARTICLES"):
            body += f"def {n}Particles : List String := {strs(sorted(L._PARTICLES))}\n"
        if hasattr(L, "_SURFACE_TYPES"):
            body += f"def {n}SurfaceTypes : List String := {strs(sorted(L._SURFACE_TYPES))}\n"
        rules = []
        for name, pat in L._rules:
            if callable(pat):
                pats = getattr(pat, "pattern", None)
                if pats is None:
                    pats = "<function>"
            else:
                pats = pat
            rules.append(f"({lstr(name)}, {lstr(str(pats))})")
        body += f"/-- (token, regular expression) in the order SLY tries them (the master regex is their alternation) -/\n"
        body += f"def {n}Rules : List (String × String) := {llist(rules, per_line=1)}\n"
        body += f"def {n}Reflags : Nat := {int(L.reflags)}\n\n"
    body += "/-- tokens.py:MCNP_Lexer._EXPRESSIONS (shortcut recognisers, tried in this order) -/\n"
    body += "def shortcutExpressions : List (String × String) := " + llist(
        [f"({lstr(k)}, {lstr(v.pattern)})" for k, v in T.MCNP_Lexer._EXPRESSIONS.items()], per_line=1
    ) + "\n"
    body += "\nend MontePyVerif.Gen.Tokens\n"
    return body


# ----------------------------------------------------------------------------- Grammar
def parser_classes():
    from montepy.input_parser.cell_parser import CellParser
    from montepy.input_parser.surface_parser import SurfaceParser
    from montepy.input_parser.data_parser import DataParser, ClassifierParser, ParamOnlyDataParser
    from montepy.input_parser.material_parser import MaterialParser
    from montepy.input_parser.thermal_parser import ThermalParser
    from montepy.input_parser.tally_parser import TallyParser
    from montepy.input_parser.tally_seg_parser import TallySegmentParser
    from montepy.input_parser.read_parser import ReadParser

    return [
        CellParser,
        SurfaceParser,
        DataParser,
        ClassifierParser,
        ParamOnlyDataParser,
        MaterialParser,
        ThermalParser,
        TallyParser,
        TallySegmentParser,
        ReadParser,
    ]


def gen_grammar():
    body = "namespace MontePyVerif.Gen.Grammar\n\n"
    body += "/-- what the translator dumps of one SLY parser class -/\n"
    body += "structure ParserTable where\n  name : String\n  start : String\n  productions : List (String × List String)\n"
    body += "  terminals : List String\n  precedence : List (String × String × Nat)\n  srConflicts : Nat\n  rrConflicts : Nat\n\n"
    for P in parser_classes():
        g = P._grammar
        lr = P._lrtable
        prods = []
        for p in g.Productions[1:]:  # production 0 is SLY's augmented S' -> start
            prods.append(f"({lstr(p.name)}, {strs(list(p.prod), per_line=12)})")
        prec = [f"({lstr(t)}, {lstr(a)}, {lvl})" for t, (a, lvl) in sorted(g.Precedence.items())]
        n = lname(P.__name__)
        body += f"/-- {P.__module__}.{P.__name__}: `Parser._grammar.Productions`, `_lrtable` -/\n"
        body += f"def {n} : ParserTable where\n"
        body += f"  name := {lstr(P.__name__)}\n"
        body += f"  start := {lstr(g.Start)}\n"
        body += f"  productions := {llist(prods, per_line=1, indent='    ')}\n"
        body += f"  terminals := {strs(sorted(t for t in g.Terminals if t != 'error'), per_line=10, indent='    ')}\n"
        body += f"  precedence := {llist(prec)}\n"
        body += f"  srConflicts := {len(lr.sr_conflicts)}\n"
        body += f"  rrConflicts := {len(lr.rr_conflicts)}\n\n"
    body += "end MontePyVerif.Gen.Grammar\n"
    return body


# ----------------------------------------------------------------------------- Registry
# Data-card names probed for a special parser.  The list is only a floor: every short word that appears as a string
# constant anywhere in data_input.py, every PREFIX_MATCHES prefix and every DataLexer keyword is probed as well, so a
# prefix the code newly treats specially is found wherever and however the code spells its table.
_DATA_NAME_FLOOR = """m mt mx tr trcl mode imp vol area u lat fill nps ctme f fc e t c fq fm de df em tm cm cf sf fs sd
fu ft tf sdef si sp sb ds sc ksrc kcode phys cut elpt tmp thtme mgopt nonu awtab xs void pikmt dbcn lost idum rdum
prdmp ptrac mplot histp rand stop print talnp notrn totnu burn act ext vect fcl wwe wwn wwp wwg wwge mesh esplt tsplt
pwt dxt dd pd dxc bbrem spabi dm drxs mphys fmesh fmult embed embee embeb embem embtb embtm embde embdf tmesh rmesh
cmesh smesh cora corb corc ergsh mshmf var unc cosy bfld bflcl field ssw ssr kopts ksen hsrc read""".split()


def _data_name_candidates():
    import re

    from montepy.data_inputs import data_input as di
    from montepy.data_inputs.data_parser import PREFIX_MATCHES
    from montepy.input_parser import tokens as T

    cands = set(_DATA_NAME_FLOOR)
    try:
        for node in ast.walk(ast.parse(inspect.getsource(di))):
            if isinstance(node, ast.Constant) and isinstance(node.value, str):
                cands.add(node.value)
    except Exception:  # noqa: BLE001  (no source: the floor and the registries remain)
        pass
    for c in PREFIX_MATCHES:
        try:
            cands.add(c._class_prefix())
        except Exception:  # noqa: BLE001
            pass
    cands |= set(getattr(T.DataLexer, "_KEYWORDS", ()))
    return sorted({c.lower() for c in cands if isinstance(c, str) and re.fullmatch(r"[A-Za-z*][A-Za-z]{0,7}", c)})


def _observed_parser(prefix):
    """The parser class a catch-all DataInput with this prefix uses, OBSERVED: `DataInput(prefix=p)` is what
    parse_data builds (without a card nothing is parsed, the parser is only chosen)."""
    from montepy.data_inputs.data_input import DataInput

    try:
        return type(DataInput(prefix=prefix)._parser).__name__
    except Exception:  # noqa: BLE001
        pass
    try:  # the constructor changed: ask the chooser itself
        o = DataInput.__new__(DataInput)
        o._load_correct_parser(prefix)
        return type(o._parser).__name__
    except Exception as e:  # noqa: BLE001
        return "unknown:" + type(e).__name__


def _parser_prefix_map(default):
    """(prefix, parser class) for every probed prefix whose catch-all DataInput does NOT use the default parser.
    Observed on probe objects (since round 7; the first version read a dict literal named PARSER_PREFIX_MAP from the
    AST of DataInput._load_correct_parser and lost the table when the dict became an if/elif dispatch)."""
    table = []
    for p in _data_name_candidates():
        got = _observed_parser(p)
        if got != default:
            table.append((p, got))
    return table


_SURFACE_PROBE_MAX = 20


def _surface_observations():
    """surface_builder OBSERVED on a probe card `1 <mnemonic> 1 2 .. n` for every SurfaceType member and every
    n in 1.._SURFACE_PROBE_MAX: {mnemonic value: {n: class name | None}} (None = the card was refused)."""
    from montepy.input_parser.block_type import BlockType
    from montepy.input_parser.mcnp_input import Input
    from montepy.surfaces import surface_builder as sb
    from montepy.surfaces.surface_type import SurfaceType

    obs = {}
    for m in SurfaceType:
        row = {}
        for n in range(1, _SURFACE_PROBE_MAX + 1):
            try:
                o = sb.surface_builder(Input([f"1 {m.value} " + " ".join(str(i + 1) for i in range(n))], BlockType.SURFACE))
                row[n] = type(o).__name__
            except Exception:  # noqa: BLE001
                row[n] = None
        obs[m.value] = row
    return obs


def _surface_tables(default):
    """From the observations: (rows, counts).
    rows   [(mnemonic values, class)] for the classes other than `default`, grouped by class in SurfaceType order
           (the groups are disjoint, so the order of the code's tests cannot be seen and does not matter);
           a mnemonic that never built, or built two classes, goes to the class "unknown".
    counts [(class, accepted counts)]; [] = every probed count is accepted (no count test).  Mnemonics of one class
           that disagree give the impossible count [0] (no card has zero constants), which no theorem accepts."""
    obs = _surface_observations()
    cls_of = {}
    for mv, row in obs.items():
        seen = {c for c in row.values() if c is not None}
        cls_of[mv] = seen.pop() if len(seen) == 1 else "unknown"
    groups = {}
    for mv in obs:
        groups.setdefault(cls_of[mv], []).append(mv)
    rows = [(ms, c) for c, ms in groups.items() if c != default]
    counts = []
    for c in sorted(groups):
        per = {tuple(n for n, got in obs[mv].items() if got is not None) for mv in groups[c]}
        if len(per) != 1:
            counts.append((c, [0]))
            continue
        acc = list(per.pop())
        if len(acc) == _SURFACE_PROBE_MAX:
            if c != default:
                counts.append((c, []))
        else:
            counts.append((c, acc if acc else [0]))
    return rows, counts


def gen_registry():
    import montepy
    from montepy.cell import Cell
    from montepy.data_inputs.data_parser import PREFIX_MATCHES
    from montepy.surfaces.surface_type import SurfaceType
    from montepy.particle import Particle
    from montepy.data_inputs.lattice import Lattice
    from montepy.surfaces import surface_builder as sb

    body = "namespace MontePyVerif.Gen.Registry\n\n"
    body += "/-- cell.py:Cell._ALLOWED_KEYWORDS -/\n"
    body += f"def allowedCellKeywords : List String := {strs(sorted(Cell._ALLOWED_KEYWORDS))}\n\n"
    body += "/-- cell.py:Cell._INPUTS_TO_PROPERTY as (class name, attribute, cant_repeat), in dict order -/\n"
    rows = [
        f"({lstr(c.__name__)}, {lstr(attr)}, {'true' if ban else 'false'})" for c, (attr, ban) in Cell._INPUTS_TO_PROPERTY.items()
    ]
    body += f"def inputsToProperty : List (String × String × Bool) := {llist(rows, per_line=1)}\n\n"
    body += "/-- data_inputs/data_parser.py:PREFIX_MATCHES as (class name, _class_prefix(), _has_number(), _has_classifier());\n"
    body += "    a Python set: sorted by class name here, the code's iteration order is unspecified -/\n"
    rows = [
        f"({lstr(c.__name__)}, {lstr(c._class_prefix())}, {'true' if c._has_number() else 'false'}, {int(c._has_classifier())})"
        for c in sorted(PREFIX_MATCHES, key=lambda c: c.__name__)
    ]
    body += f"def prefixMatches : List (String × String × Bool × Nat) := {llist(rows, per_line=1)}\n\n"
    from montepy.data_inputs.data_input import DataInputAbstract

    default_parser = type(DataInputAbstract._parser).__name__
    body += "/-- data_inputs/data_input.py:DataInput (catch-all): (prefix, parser class) for every probed prefix whose\n"
    body += "    `DataInput(prefix=p)` does not use the default parser; OBSERVED on probe objects, sorted by prefix -/\n"
    rows = [f"({lstr(k)}, {lstr(v)})" for k, v in _parser_prefix_map(default_parser)]
    body += f"def parserPrefixMap : List (String × String) := {llist(rows, per_line=1)}\n"
    body += "/-- the parser of DataInputAbstract (`_parser = DataParser()`) and of the specialised classes -/\n"
    body += f"def defaultDataParser : String := {lstr(default_parser)}\n"
    rows = [
        f"({lstr(c.__name__)}, {lstr(type(c._parser).__name__)})" for c in sorted(PREFIX_MATCHES, key=lambda c: c.__name__)
    ]
    body += f"def classParser : List (String × String) := {llist(rows, per_line=1)}\n\n"
    body += "/-- surfaces/surface_type.py:SurfaceType values -/\n"
    body += f"def surfaceTypeValues : List String := {strs([m.value for m in SurfaceType])}\n"
    body += "/-- (member name, value) -/\n"
    body += "def surfaceTypeMembers : List (String × String) := " + llist(
        [f"({lstr(m.name)}, {lstr(m.value)})" for m in SurfaceType], per_line=6
    ) + "\n"
    body += "/-- particle.py:Particle values -/\n"
    body += f"def particleValues : List String := {strs([m.value for m in Particle])}\n"
    body += "/-- data_inputs/lattice.py:Lattice values -/\n"
    body += f"def latticeValues : List Nat := {llist([str(int(m.value)) for m in Lattice])}\n\n"
    from montepy.surfaces.surface import Surface

    default = Surface.__name__
    rows, counts = _surface_tables(default)
    body += "/-- surfaces/surface_builder.py:surface_builder OBSERVED on a probe card per mnemonic and constant count:\n"
    body += "    (SurfaceType values, class built) for every class other than the base class; disjoint groups -/\n"
    body += "def surfaceBuilderTable : List (List String × String) := " + llist(
        [f"({strs(ms)}, {lstr(cls)})" for ms, cls in rows], per_line=1
    ) + "\n"
    body += "/-- surfaces/surface.py:Surface, what every other mnemonic is built as -/\n"
    body += f"def surfaceBuilderDefault : String := {lstr(default)}\n"
    body += f"/-- constant counts (probed 1..{_SURFACE_PROBE_MAX}) with which a card of the class builds; a class that takes every probed\n"
    body += "    count is listed with [] (the base class: not listed) -/\n"
    crow = [f"({lstr(c)}, {llist([str(n) for n in cnt])})" for c, cnt in counts]
    body += f"def surfaceClassCounts : List (String × List Nat) := {llist(crow, per_line=1)}\n"
    body += "\nend MontePyVerif.Gen.Registry\n"
    return body


def generate(write):
    write("Tokens.lean", gen_tokens())
    write("Grammar.lean", gen_grammar())
    write("Registry.lean", gen_registry())
