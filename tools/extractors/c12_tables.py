"""Translator plug-in for C12: lexer tables, SLY productions, dispatch registries.

generate(write) emits
  Gen/Tokens.lean    per lexer class: token names, literals, _KEYWORDS, _PARTICLES, _SURFACE_TYPES, the
                     (token, regex source) rules in master-regex order, the _EXPRESSIONS shortcut patterns
  Gen/Grammar.lean   per parser class: start symbol, productions (lhs, rhs), precedence, S/R and R/R conflict counts
  Gen/Registry.lean  Cell._ALLOWED_KEYWORDS, Cell._INPUTS_TO_PROPERTY, PREFIX_MATCHES, DataInput's parser map,
                     SurfaceType / Particle / Lattice values, surface_builder's class table and each class's
                     accepted constant counts

Everything is read from the imported objects (or, for the two tables that only exist as code, from the AST of the
function), never from a copy kept here.  Sets are sorted so that PYTHONHASHSEED does not change the output.
"""

import ast
import inspect
import json
import textwrap


def lstr(s):
    out = ['"']
    for ch in s:
        o = ord(ch)
        if ch == '"':
            out.append('\\"')
        elif ch == "\\":
            out.append("\\\\")
        elif ch == "\n":
            out.append("\\n")
        elif ch == "\t":
            out.append("\\t")
        elif 32 <= o < 127:
            out.append(ch)
        else:
            out.append("\\u{%x}" % o)
    out.append('"')
    return "".join(out)


def llist(items, per_line=8, indent="  "):
    items = list(items)
    if not items:
        return "[]"
    if len(items) <= per_line and sum(len(i) for i in items) < 90:
        return "[" + ", ".join(items) + "]"
    lines = []
    for i in range(0, len(items), per_line):
        lines.append(indent + ", ".join(items[i : i + per_line]))
    return "[\n" + ",\n".join(lines) + "]"


def strs(xs, **kw):
    return llist([lstr(x) for x in xs], **kw)


def lname(cls_name):
    return cls_name[0].lower() + cls_name[1:]


# ----------------------------------------------------------------------------- Tokens
def gen_tokens():
    from montepy.input_parser import tokens as T

    body = "namespace MontePyVerif.Gen.Tokens\n\n"
    classes = [T.MCNP_Lexer, T.ParticleLexer, T.CellLexer, T.DataLexer, T.SurfaceLexer]
    for L in classes:
        n = lname(L.__name__).replace("_", "")
        body += f"/-- tokens.py:{L.__name__} -/\n"
        body += f"def {n}TokenNames : List String := {strs(sorted(L._token_names))}\n"
        body += f"def {n}Literals : List String := {strs(sorted(L.literals))}\n"
        body += f"def {n}Keywords : List String := {strs(sorted(L._KEYWORDS))}\n"
        if hasattr(L, "_PARTICLES"):
            body += f"def {n}Particles : List String := {strs(sorted(L._PARTICLES))}\n"
        if hasattr(L, "_SURFACE_TYPES"):
            body += f"def {n}SurfaceTypes : List String := {strs(sorted(L._SURFACE_TYPES))}\n"
        rules = []
        for name, pat in L._rules:
            if callable(pat):
                pats = getattr(pat, "pattern", None)
                if pats is None:
                    pats = "<function>"
            else:
                pats = pat
            rules.append(f"({lstr(name)}, {lstr(str(pats))})")
        body += f"/-- (token, regular expression) in the order SLY tries them (the master regex is their alternation) -/\n"
        body += f"def {n}Rules : List (String × String) := {llist(rules, per_line=1)}\n"
        body += f"def {n}Reflags : Nat := {int(L.reflags)}\n\n"
    body += "/-- tokens.py:MCNP_Lexer._EXPRESSIONS (shortcut recognisers, tried in this order) -/\n"
    body += "def shortcutExpressions : List (String × String) := " + llist(
        [f"({lstr(k)}, {lstr(v.pattern)})" for k, v in T.MCNP_Lexer._EXPRESSIONS.items()], per_line=1
    ) + "\n"
    body += "\nend MontePyVerif.Gen.Tokens\n"
    return body


# ----------------------------------------------------------------------------- Grammar
def parser_classes():
    from montepy.input_parser.cell_parser import CellParser
    from montepy.input_parser.surface_parser import SurfaceParser
    from montepy.input_parser.data_parser import DataParser, ClassifierParser, ParamOnlyDataParser
    from montepy.input_parser.material_parser import MaterialParser
    from montepy.input_parser.thermal_parser import ThermalParser
    from montepy.input_parser.tally_parser import TallyParser
    from montepy.input_parser.tally_seg_parser import TallySegmentParser
    from montepy.input_parser.read_parser import ReadParser

    return [
        CellParser,
        SurfaceParser,
        DataParser,
        ClassifierParser,
        ParamOnlyDataParser,
        MaterialParser,
        ThermalParser,
        TallyParser,
        TallySegmentParser,
        ReadParser,
    ]


def gen_grammar():
    body = "namespace MontePyVerif.Gen.Grammar\n\n"
    body += "/-- what the translator dumps of one SLY parser class -/\n"
    body += "structure ParserTable where\n  name : String\n  start : String\n  productions : List (String × List String)\n"
    body += "  terminals : List String\n  precedence : List (String × String × Nat)\n  srConflicts : Nat\n  rrConflicts : Nat\n\n"
    for P in parser_classes():
        g = P._grammar
        lr = P._lrtable
        prods = []
        for p in g.Productions[1:]:  # production 0 is SLY's augmented S' -> start
            prods.append(f"({lstr(p.name)}, {strs(list(p.prod), per_line=12)})")
        prec = [f"({lstr(t)}, {lstr(a)}, {lvl})" for t, (a, lvl) in sorted(g.Precedence.items())]
        n = lname(P.__name__)
        body += f"/-- {P.__module__}.{P.__name__}: `Parser._grammar.Productions`, `_lrtable` -/\n"
        body += f"def {n} : ParserTable where\n"
        body += f"  name := {lstr(P.__name__)}\n"
        body += f"  start := {lstr(g.Start)}\n"
        body += f"  productions := {llist(prods, per_line=1, indent='    ')}\n"
        body += f"  terminals := {strs(sorted(t for t in g.Terminals if t != 'error'), per_line=10, indent='    ')}\n"
        body += f"  precedence := {llist(prec)}\n"
        body += f"  srConflicts := {len(lr.sr_conflicts)}\n"
        body += f"  rrConflicts := {len(lr.rr_conflicts)}\n\n"
    body += "end MontePyVerif.Gen.Grammar\n"
    return body


# ----------------------------------------------------------------------------- Registry
def _parser_prefix_map():
    """DataInput._load_correct_parser builds PARSER_PREFIX_MAP inside the function: read it from the AST."""
    from montepy.data_inputs.data_input import DataInput

    src = textwrap.dedent(inspect.getsource(DataInput._load_correct_parser))
    tree = ast.parse(src)
    names = {}
    table = []
    for node in ast.walk(tree):
        if isinstance(node, ast.Assign) and len(node.targets) == 1 and isinstance(node.targets[0], ast.Name):
            tgt = node.targets[0].id
            if isinstance(node.value, ast.Dict) and tgt == "PARSER_PREFIX_MAP":
                for k, v in zip(node.value.keys, node.value.values):
                    key = ast.literal_eval(k)
                    if isinstance(v, ast.Name):
                        val = names.get(v.id, v.id)
                    else:
                        val = ast.unparse(v).split(".")[-1]
                    table.append((key, val))
            else:
                names[tgt] = ast.unparse(node.value).split(".")[-1]
    return table


def _surface_builder_table():
    """surface_builder is an if/elif chain over SurfaceType members: read (member list, class) from the AST."""
    from montepy.surfaces import surface_builder as sb

    src = textwrap.dedent(inspect.getsource(sb.surface_builder))
    fn = ast.parse(src).body[0]
    rows = []
    default = None

    def members(test):
        comp = test.comparators[0]
        elts = comp.elts if isinstance(comp, (ast.List, ast.Tuple, ast.Set)) else [comp]
        return [e.attr for e in elts]

    def walk_if(node):
        nonlocal default
        cls = node.body[0].value.func.id
        rows.append((members(node.test), cls))
        if len(node.orelse) == 1 and isinstance(node.orelse[0], ast.If):
            walk_if(node.orelse[0])
        elif node.orelse:
            v = node.orelse[0].value
            default = v.id if isinstance(v, ast.Name) else ast.unparse(v)

    for st in fn.body:
        if isinstance(st, ast.If):
            walk_if(st)
    return rows, default


def _accepted_counts(cls):
    """The constant-count test of a Surface subclass' __init__ (`len(self.surface_constants) != n` /
    `not in {..}`), from the AST."""
    src = textwrap.dedent(inspect.getsource(cls.__init__))
    for node in ast.walk(ast.parse(src)):
        if isinstance(node, ast.Compare) and isinstance(node.left, ast.Call) and getattr(node.left.func, "id", "") == "len":
            arg = ast.unparse(node.left.args[0])
            if "surface_constants" not in arg:
                continue
            op = node.ops[0]
            comp = node.comparators[0]
            if isinstance(op, ast.NotEq):
                return [ast.literal_eval(comp)]
            if isinstance(op, ast.NotIn):
                return sorted(ast.literal_eval(comp))
    return None


def gen_registry():
    import montepy
    from montepy.cell import Cell
    from montepy.data_inputs.data_parser import PREFIX_MATCHES
    from montepy.surfaces.surface_type import SurfaceType
    from montepy.particle import Particle
    from montepy.data_inputs.lattice import Lattice
    from montepy.surfaces import surface_builder as sb

    body = "namespace MontePyVerif.Gen.Registry\n\n"
    body += "/-- cell.py:Cell._ALLOWED_KEYWORDS -/\n"
    body += f"def allowedCellKeywords : List String := {strs(sorted(Cell._ALLOWED_KEYWORDS))}\n\n"
    body += "/-- cell.py:Cell._INPUTS_TO_PROPERTY as (class name, attribute, cant_repeat), in dict order -/\n"
    rows = [
        f"({lstr(c.__name__)}, {lstr(attr)}, {'true' if ban else 'false'})" for c, (attr, ban) in Cell._INPUTS_TO_PROPERTY.items()
    ]
    body += f"def inputsToProperty : List (String × String × Bool) := {llist(rows, per_line=1)}\n\n"
    body += "/-- data_inputs/data_parser.py:PREFIX_MATCHES as (class name, _class_prefix(), _has_number(), _has_classifier());\n"
    body += "    a Python set: sorted by class name here, the code's iteration order is unspecified -/\n"
    rows = [
        f"({lstr(c.__name__)}, {lstr(c._class_prefix())}, {'true' if c._has_number() else 'false'}, {int(c._has_classifier())})"
        for c in sorted(PREFIX_MATCHES, key=lambda c: c.__name__)
    ]
    body += f"def prefixMatches : List (String × String × Bool × Nat) := {llist(rows, per_line=1)}\n\n"
    body += "/-- data_inputs/data_input.py:DataInput._load_correct_parser PARSER_PREFIX_MAP (prefix, parser class) -/\n"
    rows = [f"({lstr(k)}, {lstr(v)})" for k, v in _parser_prefix_map()]
    body += f"def parserPrefixMap : List (String × String) := {llist(rows, per_line=1)}\n"
    body += "/-- the parser of DataInputAbstract (`_parser = DataParser()`) and of the specialised classes -/\n"
    from montepy.data_inputs.data_input import DataInputAbstract

    body += f"def defaultDataParser : String := {lstr(type(DataInputAbstract._parser).__name__)}\n"
    rows = [
        f"({lstr(c.__name__)}, {lstr(type(c._parser).__name__)})" for c in sorted(PREFIX_MATCHES, key=lambda c: c.__name__)
    ]
    body += f"def classParser : List (String × String) := {llist(rows, per_line=1)}\n\n"
    body += "/-- surfaces/surface_type.py:SurfaceType values -/\n"
    body += f"def surfaceTypeValues : List String := {strs([m.value for m in SurfaceType])}\n"
    body += "/-- (member name, value) -/\n"
    body += "def surfaceTypeMembers : List (String × String) := " + llist(
        [f"({lstr(m.name)}, {lstr(m.value)})" for m in SurfaceType], per_line=6
    ) + "\n"
    body += "/-- particle.py:Particle values -/\n"
    body += f"def particleValues : List String := {strs([m.value for m in Particle])}\n"
    body += "/-- data_inputs/lattice.py:Lattice values -/\n"
    body += f"def latticeValues : List Nat := {llist([str(int(m.value)) for m in Lattice])}\n\n"
    rows, default = _surface_builder_table()
    body += "/-- surfaces/surface_builder.py:surface_builder: (SurfaceType members, class), in if/elif order; else → default -/\n"
    body += "def surfaceBuilderTable : List (List String × String) := " + llist(
        [f"({strs([SurfaceType[m].value for m in ms])}, {lstr(cls)})" for ms, cls in rows], per_line=1
    ) + "\n"
    body += f"def surfaceBuilderDefault : String := {lstr('Surface' if default == 'buffer_surface' else str(default))}\n"
    body += "/-- constant counts each class' __init__ accepts (none = no count test) -/\n"
    crow = []
    for cname in sorted({c for _, c in rows}):
        cls = getattr(sb, cname)
        cnt = _accepted_counts(cls)
        crow.append(f"({lstr(cname)}, {llist([str(c) for c in cnt]) if cnt is not None else '[]'})")
    body += f"def surfaceClassCounts : List (String × List Nat) := {llist(crow, per_line=1)}\n"
    body += "\nend MontePyVerif.Gen.Registry\n"
    return body


def generate(write):
    write("Tokens.lean", gen_tokens())
    write("Grammar.lean", gen_grammar())
    write("Registry.lean", gen_registry())
