"""Translator plug-in for C13: Gen/Errors.lean.

(a) the exception classes of montepy/errors.py plus the runtime/library classes the error policy talks about, as an
    enumeration `Cls`, with the subclass relation taken from the LIVE classes (`issubclass`);
(b) for every guarded region of the read path the classes the region takes, OBSERVED on the working tree: the callee
    the region guards is replaced (inside this process only) by one that raises an instance of class K, a tiny
    problem is read through the public entry point (`MCNP_Problem.parse_input`, both modes) and what comes out is
    recorded (warning and go on / raised as which class).  The list written to the table is the set of most general
    classes of the observed set; it is written only if the `except`-clause semantics over the live hierarchy
    reproduce every single observation.  The AST reading of the `except` clauses is kept as a fall-back (whole
    module, helpers included) for a region whose probe cannot be run; a region neither can read is written as the
    empty list and named in `unknownFacts` (then `C13_tables_known` and `C13_mapping` fail: obligations of C13 only);
(c) for every function of the linking stage the classes of its explicit `raise` statements (AST: inherently
    syntactic; the function and the helpers of its module it calls, transitively), so that a new `raise` inside a
    guarded loop re-opens `C13_handled_ok`;
(d) the pairing step of Material.__init__, OBSERVED on material cards with 1..6 entries.
The translator never raises on an unexpected shape: it writes "unknown" for that fact.
"""
import ast
import builtins
import importlib
import inspect
import os

import montepy
import montepy.errors as E

REPO = os.path.dirname(os.path.dirname(os.path.abspath(montepy.__file__)))

# runtime / library classes the policy is stated against (property text + DESIGN 4.1)
RUNTIME = [
    "Exception", "ValueError", "TypeError", "NotImplementedError", "Warning", "UserWarning", "AttributeError",
    "KeyError", "IndexError", "LookupError", "AssertionError", "ZeroDivisionError", "OSError", "FileNotFoundError",
    "UnicodeDecodeError", "RecursionError", "StopIteration",
]


def _src(rel):
    with open(os.path.join(REPO, rel)) as fh:
        return ast.parse(fh.read())


def _func(tree, qual):
    """find a (possibly nested) function by dotted path, e.g. 'MCNP_Problem.parse_input' or 'read_data.flush_input'"""
    node = tree
    for part in qual.split("."):
        found = None
        for ch in ast.walk(node):
            if ch is not node and isinstance(ch, (ast.FunctionDef, ast.ClassDef)) and ch.name == part:
                found = ch
                break
        if found is None:
            raise RuntimeError(f"c13_errors: {qual}: {part} not found")
        node = found
    return node


def _tries(fn):
    """try statements of fn in document order, not descending into nested function definitions"""
    out = []

    def rec(n):
        for ch in ast.iter_child_nodes(n):
            if isinstance(ch, (ast.FunctionDef, ast.AsyncFunctionDef, ast.Lambda, ast.ClassDef)):
                continue
            if isinstance(ch, ast.Try):
                out.append(ch)
            rec(ch)

    rec(fn)
    return out


def _name(n):
    if isinstance(n, ast.Name):
        return n.id
    if isinstance(n, ast.Attribute):
        return n.attr
    raise RuntimeError("c13_errors: except clause names something that is not a class name: " + ast.dump(n))


def _handlers(t):
    names = []
    for h in t.handlers:
        if h.type is None:
            names.append("BaseException")
        elif isinstance(h.type, ast.Tuple):
            names += [_name(e) for e in h.type.elts]
        else:
            names.append(_name(h.type))
    return names


def _contains_call(t, attr):
    for n in ast.walk(ast.Module(body=t.body, type_ignores=[])):
        if isinstance(n, ast.Call):
            f = n.func
            if (isinstance(f, ast.Attribute) and f.attr == attr) or (isinstance(f, ast.Name) and f.id == attr):
                return True
    return False


def _contains_raise(t, cls):
    for n in ast.walk(ast.Module(body=t.body, type_ignores=[])):
        if isinstance(n, ast.Raise) and n.exc is not None:
            e = n.exc.func if isinstance(n.exc, ast.Call) else n.exc
            if _name(e) == cls:
                return True
    return False


def _pick(tries, what, pred):
    c = [t for t in tries if pred(t)]
    if len(c) != 1:
        raise RuntimeError(f"c13_errors: region {what}: expected exactly one matching try statement, found {len(c)}")
    return c[0]


class _Unknown(Exception):
    pass


def _modfuncs(tree):
    """every function of the module (methods and nested functions included)"""
    return [n for n in ast.walk(tree) if isinstance(n, (ast.FunctionDef, ast.AsyncFunctionDef))]


def _alltries(tree):
    return [n for n in ast.walk(tree) if isinstance(n, ast.Try)]


def _norm_handlers(t):
    """the classes a try statement TAKES, equivalent spellings identified: `except A: raise` before `except B: ...`
    and `except B as e: if isinstance(e, A): raise e` both read [B] (the exclusion of A is the model's business:
    Model.Errors.flushInput), duplicates removed"""
    names = []
    for h in t.handlers:
        hs = ["BaseException"] if h.type is None else ([_name(e) for e in h.type.elts] if isinstance(h.type, ast.Tuple) else [_name(h.type)])
        only_reraise = len(h.body) == 1 and isinstance(h.body[0], ast.Raise) and (h.body[0].exc is None or (isinstance(h.body[0].exc, ast.Name) and h.body[0].exc.id == h.name))
        if only_reraise and h is not t.handlers[-1]:
            continue
        for n in hs:
            if n not in names:
                names.append(n)
    return names


def regions_ast():
    """region name -> list of class names in its except clauses (None where the shape is not recognised).  Fall-back
    and cross-check of `regions()`; searches the whole module, so a try statement moved into a helper is found."""
    out = {}

    def one(key, fn):
        try:
            out[key] = fn()
        except Exception:  # any unexpected shape: unknown, never a failure of the translator
            out[key] = None

    def pick(tries, pred):
        c = []
        for t in tries:
            try:
                if pred(t):
                    c.append(t)
            except Exception:
                pass
        # the same clause list found twice (a helper and its caller) is one fact
        lists = []
        for t in c:
            h = _norm_handlers(t)
            if h not in lists:
                lists.append(h)
        if len(lists) != 1:
            raise _Unknown()
        return c[0]

    try:
        prob = _alltries(_src("montepy/mcnp_problem.py"))
    except Exception:
        prob = []
    try:
        cells = _alltries(_src("montepy/cells.py"))
    except Exception:
        cells = []
    try:
        obj = _alltries(_src("montepy/mcnp_object.py"))
    except Exception:
        obj = []
    try:
        rd = _alltries(_src("montepy/input_parser/input_syntax_reader.py"))
    except Exception:
        rd = []

    def direct_call(t, attr):
        """the try body calls attr, not counting try statements nested in the body"""
        return _contains_call(t, attr)

    def construct():
        cands = [t for t in prob if any(isinstance(n, ast.Raise) and n.exc is None for h in t.handlers for n in ast.walk(h))
                 and any(isinstance(n, ast.Raise) and isinstance(n.exc, ast.Call) and _name(n.exc.func) == "MalformedInputError" for h in t.handlers for n in ast.walk(h))]
        if len(cands) != 1:
            raise _Unknown()
        keep, remap = [], []
        for h in cands[0].handlers:
            names = [_name(e) for e in h.type.elts] if isinstance(h.type, ast.Tuple) else [_name(h.type)]
            bare = any(isinstance(n, ast.Raise) and n.exc is None for n in ast.walk(h))
            if bare:
                if remap:
                    raise _Unknown()
                keep += names
            else:
                remap += names
        return keep, remap

    one("parseInputConstructKeep", lambda: construct()[0])
    one("parseInputConstructMap", lambda: construct()[1])
    one("parseInputInner", lambda: _norm_handlers(pick(prob, lambda t: _contains_call(t, "link_to_problem") and not _contains_call(t, "read_input_syntax") and not _contains_call(t, "push_to_cells"))))
    one("parseInputOuter", lambda: _norm_handlers(pick(prob, lambda t: _contains_call(t, "read_input_syntax"))))
    surf = lambda t: any(isinstance(a, ast.Attribute) and a.attr == "surfaces" for n in ast.walk(ast.Module(body=t.body, type_ignores=[])) if isinstance(n, ast.Call) for a in n.args)
    one("uipLoadData", lambda: _norm_handlers(pick(prob, lambda t: _contains_call(t, "__load_data_inputs_to_object"))))
    one("uipSurfaceLoop", lambda: _norm_handlers(pick(prob, lambda t: _contains_call(t, "update_pointers") and surf(t) and not _contains_call(t, "read_input_syntax"))))
    one("uipDataLoop", lambda: _norm_handlers(pick(prob, lambda t: _contains_call(t, "update_pointers") and not surf(t) and not _contains_call(t, "read_input_syntax"))))
    one("cellsModifierOnce", lambda: _norm_handlers(pick(cells, lambda t: _contains_raise(t, "MalformedInputError"))))
    one("cellsModifierMerge", lambda: _norm_handlers(pick(cells, lambda t: _contains_call(t, "merge"))))
    one("cellsCellLoop", lambda: _norm_handlers(pick(cells, lambda t: _contains_call(t, "update_pointers"))))
    one("cellsBlankModifiers", lambda: _norm_handlers(pick(cells, lambda t: _contains_call(t, "push_to_cells"))))
    one("objectInit", lambda: _norm_handlers(pick(obj, lambda t: _contains_call(t, "parse") and _norm_handlers(t) != ["AttributeError"])))
    one("flushInput", lambda: _norm_handlers(pick(rd, lambda t: _contains_call(t, "ReadInput"))))
    return out


# ---------------------------------------------------------------------------------------------- observation
PROBE_TEXT = "probe\n1 1 -1.0 -1\n2 0 1\n\n1 so 1\n\nmode n p\nm1 1001.80c 1\nimp:n 1 0\nimp:p 1 0\nvol 1 1\n"
PROBE_ONCE = "probe\n1 1 -1.0 -1\n2 0 1\n\n1 so 1\n\nmode n\nm1 1001.80c 1\nimp:n 1 0\nvol 1 1\nvol 2 2\n"
NOT_PROBED = ("StopIteration",)  # PEP 479: turned into RuntimeError inside a generator by Python itself


def _mk(name, live):
    """an instance of the class, or None if this plug-in does not know how to build one"""
    K = live[name]
    try:
        if name == "MalformedInputError":
            return K(None, "probe")
        if name == "ParsingError":
            return K(None, "probe", [])
        if name == "BrokenObjectLinkError":
            return K("A", 1, "B", 2)
        if name == "RedundantParameterSpecification":
            return K("k", "v")
        if name == "LexError":
            return K("probe", "t", 0)
        if name == "UnicodeDecodeError":
            return K("utf-8", b"x", 0, 1, "probe")
        e = K("probe")
        if not hasattr(e, "message"):
            try:
                e.message = "probe"  # handle_error of the linking stage formats `e.message`
            except Exception:
                pass
        return e
    except Exception:
        return None


class _Patched:
    """setattr on a class / module for the duration of a with block (this process only)"""

    def __init__(self, owner, name, value):
        self.owner, self.name, self.value = owner, name, value

    def __enter__(self):
        self.had = self.name in vars(self.owner)
        self.old = vars(self.owner).get(self.name)
        setattr(self.owner, self.name, self.value)

    def __exit__(self, *a):
        if self.had:
            setattr(self.owner, self.name, self.old)
        else:
            delattr(self.owner, self.name)


def _owner(cls, name):
    """the class of the MRO that defines the method"""
    for k in cls.__mro__:
        if name in vars(k):
            return k
    return cls


def _private(cls, suffix):
    """name-mangled private method of cls by its written name, None if there is none"""
    c = [n for n in vars(cls) if n.endswith(suffix) and n.startswith("_")]
    return c[0] if len(c) == 1 else None


def _read(path, check):
    """parse_input through the public entry point -> (class raised or None, warning class names, problem)"""
    import warnings

    problem = montepy.MCNP_Problem(path)
    with warnings.catch_warnings(record=True) as w:
        warnings.simplefilter("always")
        try:
            problem.parse_input(check_input=check)
            exc = None
        except Exception as e:
            exc = type(e)
    return exc, [str(x.message).split(":")[0] for x in w], problem


def observe(names, live):
    """region -> list of handler classes (most general classes of the observed set), None (probe not possible: the
    AST reading is used) or False (the probes ran and the observations are not those of an except clause: unknown, no
    fall-back).  See the module text."""
    import shutil
    import tempfile

    out = {}
    d = tempfile.mkdtemp(prefix="c13obs_")
    rev = {}
    for n in names:
        rev.setdefault(live[n], n)
    probed = [n for n in names if n not in NOT_PROBED and _mk(n, live) is not None]

    def sub(a, b):
        return issubclass(live[a], live[b])

    def gens(S):
        return [n for n in names if n in S and not any(m != n and m in S and sub(n, m) and live[m] is not live[n] for m in S)]

    def closed(G, n):
        return any(sub(n, g) for g in G)

    try:
        path = os.path.join(d, "probe.imcnp")
        with open(path, "w") as fh:
            fh.write(PROBE_TEXT)
        once = os.path.join(d, "once.imcnp")
        with open(once, "w") as fh:
            fh.write(PROBE_ONCE)
        exc, warns, clean = _read(path, False)
        if exc is not None or warns or len(clean.cells) != 2 or len(clean.materials) != 1:
            return {}
        n_data = len(clean.data_inputs)
        cell_t, surf_t = type(list(clean.cells)[0]), type(list(clean.surfaces)[0])
        mat_t = type(list(clean.materials)[0])
        from montepy.data_inputs.mode import Mode
        from montepy.data_inputs.importance import Importance
        from montepy.data_inputs.volume import Volume
        from montepy.input_parser.input_file import MCNP_InputFile
        from montepy.input_parser.mcnp_input import Input, ReadInput
        from montepy.input_parser.block_type import BlockType

        def boom(name):
            def f(*a, **k):
                raise _mk(name, live)

            return f

        def standard(key, owner, meth, continued=None, file=path):
            """a region of the shape `try: callee() except (...) as e: warn-or-raise`: handled = check mode returns with
            a warning of the class (and, for a loop, goes on); validated: normal mode raises K itself, an unhandled K
            comes out as K in check mode too"""
            if owner is None or meth is None:
                out[key] = None
                return
            S, ok = set(), True
            for n in probed:
                with _Patched(owner, meth, boom(n)):
                    en, wn, pn = _read(file, False)
                    ec, wc, pc = _read(file, True)
                if en is not live[n]:
                    ok = False  # normal mode does not hand the class through: not what Model.Errors.outcome says
                if ec is None and n in wc and (continued is None or continued(pc)):
                    S.add(n)
                elif ec is None:
                    S.discard(n)  # taken by a region further out (no continuation): not this region's
                elif ec is not live[n]:
                    ok = False
            out[key] = gens(S) if ok else False

        # --- parse_input: construction (keep / map): the constructor of the `mode` input raises K; normal mode shows
        #     the class after the mapping (every layer further out hands a class through unchanged in normal mode)
        cm, ok, G, Gk = {}, True, [], []
        mode_init = Mode.__init__

        def ctor(name):
            def f(self, input=None, *a, **k):
                if input is None:  # MCNP_Problem.__init__ builds a blank Mode
                    return mode_init(self, input, *a, **k)
                raise _mk(name, live)

            return f

        for n in probed:
            with _Patched(Mode, "__init__", ctor(n)):
                en, _, _ = _read(path, False)
            cm[n] = rev.get(en)
            if cm[n] is None:
                ok = False
        if ok:
            mapped = {n for n in probed if cm[n] != n}
            G = gens(mapped)
            keep = {n for n in probed if cm[n] == n and closed(G, n)}
            Gk = gens(keep)
            for n in probed:
                want = n if closed(Gk, n) else ("MalformedInputError" if closed(G, n) else n)
                if cm[n] != want:
                    ok = False
        out["parseInputConstructKeep"] = Gk if ok else False
        out["parseInputConstructMap"] = G if ok else False
        # --- parse_input: per-input handler (link_to_problem of the `mode` input raises; goes on = the material after
        #     it is read) and the reader's handler (opening the file raises; nothing is read)
        standard("parseInputInner", Mode, "link_to_problem", continued=lambda p: len(p.materials) == 1)
        standard("parseInputOuter", MCNP_InputFile, "open", continued=lambda p: len(p.cells) == 0)
        # --- linking stage
        standard("uipLoadData", type(clean), _private(type(clean), "__load_data_inputs_to_object"))
        standard("uipSurfaceLoop", _owner(surf_t, "update_pointers"), "update_pointers")
        standard("uipDataLoop", _owner(mat_t, "update_pointers"), "update_pointers")
        # the only class that can arise in the `once` region is the MalformedInputError it raises itself: observed on
        # a data block with two VOL inputs
        en, _, _ = _read(once, False)
        ec, wc, _ = _read(once, True)
        out["cellsModifierOnce"] = ["MalformedInputError"] if (en is live["MalformedInputError"] and ec is None and "MalformedInputError" in wc) else False
        standard("cellsModifierMerge", _owner(Importance, "merge"), "merge")
        standard("cellsCellLoop", _owner(cell_t, "update_pointers"), "update_pointers")
        standard("cellsBlankModifiers", _owner(Volume, "push_to_cells"), "push_to_cells")
        # --- MCNP_Object.__init__: the token stream raises K inside `parser.parse`; the constructor is called directly
        def tok(name):
            def f(self, *a, **k):
                raise _mk(name, live)
                yield  # a generator, like Input.tokenize: raises at the first token

            return f

        om, ok, G = {}, True, []
        for n in probed:
            with _Patched(Input, "tokenize", tok(n)):
                try:
                    Mode(Input(["mode n"], BlockType.DATA))
                    om[n] = None
                except Exception as e:
                    om[n] = rev.get(type(e))
            if om[n] is None:
                ok = False
        if ok:
            G = gens({n for n in probed if om[n] != n})
            ok = all(om[n] == ("MalformedInputError" if closed(G, n) else n) for n in probed)
        out["objectInit"] = G if ok else False
        # --- flush_input: ReadInput(...) raises K for every input; taken = the input is yielded (the file reads as if
        #     nothing happened); a ParsingError is re-raised (Model.Errors.flushInput), anything else comes out as K
        fm, ok, G = {}, True, []
        for n in probed:
            with _Patched(ReadInput, "__init__", boom(n)):
                en, _, pn = _read(path, False)
            if en is None and len(pn.cells) == 2 and len(pn.data_inputs) == n_data:
                fm[n] = "yield"
            elif en is live[n]:
                fm[n] = "raise"
            else:
                ok = False
        if ok:
            G = gens({n for n in probed if fm[n] == "yield"})
            ok = all(fm[n] == ("yield" if closed(G, n) and not sub(n, "ParsingError") else "raise") for n in probed)
        out["flushInput"] = G if ok else False
    except Exception:
        if os.environ.get('C13_EXTRACT_DEBUG'):
            import traceback

            traceback.print_exc()
        # whatever was not observed stays unknown
    finally:
        shutil.rmtree(d, ignore_errors=True)
    return out


REGIONS = ["parseInputConstructKeep", "parseInputConstructMap", "parseInputInner", "parseInputOuter", "uipLoadData",
           "uipSurfaceLoop", "uipDataLoop", "cellsModifierOnce", "cellsModifierMerge", "cellsCellLoop",
           "cellsBlankModifiers", "objectInit", "flushInput"]


def class_names():
    """the enumeration Cls: classes of errors.py, the runtime classes of the policy, every class an except clause or a
    raise statement of the read path names"""
    own = [n for n, c in vars(E).items() if inspect.isclass(c) and c.__module__ == E.__name__ and issubclass(c, BaseException)]
    names = list(own)
    extra = []
    for lst in list(regions_ast().values()) + list(raise_sites().values()):
        extra += lst or []
    for n in RUNTIME + ["LexError"] + extra:
        if n not in names:
            try:
                _resolve(n)
            except Exception:
                continue
            names.append(n)
    return own, names


def regions_with_source():
    """region -> (class names, 'observed' | 'ast' | 'unknown')"""
    own, names = class_names()
    live = {n: _resolve(n) for n in names}
    obs = observe(names, live)
    syn = regions_ast()
    out = {}
    for r in REGIONS:
        if obs.get(r) is False:
            # the probes ran and what came out is not what an except clause of Model.Errors does (normal mode hands
            # another class through, a class comes out changed ...): a behaviour the AST must not paper over
            out[r] = ([], "unknown")
        elif obs.get(r) is not None:
            out[r] = (obs[r], "observed")
        elif syn.get(r) is not None and all(n in names for n in syn[r]):
            out[r] = (syn[r], "ast")
        else:
            out[r] = ([], "unknown")
    return out


def regions():
    """region name -> list of class names the region takes (used by tools/props/c13.py too)"""
    return {r: v[0] for r, v in regions_with_source().items()}


# functions of the linking stage whose explicit raise statements are enumerated (region they run in is fixed by hand
# in Model/Errors.lean: `raisedIn`)
RAISE_SITES = {
    "cellUpdatePointers": ("montepy/cell.py", "Cell.update_pointers"),
    "halfSpaceUpdatePointers": ("montepy/surfaces/half_space.py", "HalfSpace.update_pointers"),
    "unitHalfSpaceUpdatePointers": ("montepy/surfaces/half_space.py", "UnitHalfSpace.update_pointers"),
    "surfaceUpdatePointers": ("montepy/surfaces/surface.py", "Surface.update_pointers"),
    "materialUpdatePointers": ("montepy/data_inputs/material.py", "Material.update_pointers"),
    "thermalUpdatePointers": ("montepy/data_inputs/thermal_scattering.py", "ThermalScatteringLaw.update_pointers"),
    "dataInputUpdatePointers": ("montepy/data_inputs/data_input.py", "DataInputAbstract.update_pointers"),
    "loadDataInputsToObject": ("montepy/mcnp_problem.py", "MCNP_Problem.__load_data_inputs_to_object"),
    "cellModifierMerge": None,  # filled below from every cell modifier class
    "cellModifierPush": None,
    "readData": ("montepy/input_parser/input_syntax_reader.py", "read_data"),
    "readInputInit": ("montepy/input_parser/mcnp_input.py", "ReadInput.__init__"),
    "numberedAppend": ("montepy/numbered_object_collection.py", "NumberedObjectCollection.append"),
}


def _raises(fn, nested=True):
    names = []
    for n in ast.walk(fn):
        if isinstance(n, ast.Raise) and n.exc is not None:
            e = n.exc.func if isinstance(n.exc, ast.Call) else n.exc
            try:
                nm = _name(e)
            except RuntimeError:
                continue
            if nm in ("e", "err", "error", "exc", "ex"):
                continue  # re-raise of a caught exception: class decided by the handler, modelled there
            if nm not in names:
                names.append(nm)
    return names


def _find(tree, qual):
    """the function by dotted path; if it is not there, the only function of the module with that last name"""
    try:
        return _func(tree, qual)
    except RuntimeError:
        last = qual.split(".")[-1]
        c = [f for f in _modfuncs(tree) if f.name == last]
        return c[0] if len(c) == 1 else None


def _with_helpers(tree, fn):
    """fn and the functions of the same module it calls (by bare name, or as an attribute: self.helper(...),
    self.__helper(...), Class.helper(...)), transitively.  `update_pointers`-like dispatch to other objects is not
    followed: those are sites of their own."""
    funcs = {}
    for f in _modfuncs(tree):
        funcs.setdefault(f.name, []).append(f)
    seen, todo = [], [fn]
    while todo:
        f = todo.pop()
        if any(f is g for g in seen):
            continue
        seen.append(f)
        for n in ast.walk(f):
            if isinstance(n, ast.Call):
                c = n.func
                nm = None
                if isinstance(c, ast.Name):
                    nm = c.id
                elif isinstance(c, ast.Attribute) and isinstance(c.value, ast.Name) and (c.value.id in ("self", "cls") or c.value.id[:1].isupper()):
                    nm = c.attr
                if nm in funcs and len(funcs[nm]) == 1 and nm != fn.name and (nm.startswith("_") or isinstance(c, ast.Name)):
                    todo.append(funcs[nm][0])
    return seen


def raise_sites():
    """site -> class names of its raise statements (None: the function was not found)"""
    out = {}
    for key, spec in RAISE_SITES.items():
        if spec is None:
            continue
        rel, qual = spec
        try:
            tree = _src(rel)
            fn = _find(tree, qual)
            if fn is None:
                out[key] = None
                continue
            names = []
            for f in _with_helpers(tree, fn):
                for nm in _raises(f):
                    if nm not in names:
                        names.append(nm)
            out[key] = names
        except Exception:
            out[key] = None
    for key, meths in (
        ("cellModifierMerge", ("merge",)),
        ("cellModifierPush", ("push_to_cells", "_clear_data", "_check_redundant_definitions", "_check_particle_in_problem", "__setitem__")),
    ):
        names = []
        found = False
        for rel, cls in [
            ("montepy/data_inputs/cell_modifier.py", "CellModifierInput"),
            ("montepy/data_inputs/importance.py", "Importance"),
            ("montepy/data_inputs/volume.py", "Volume"),
            ("montepy/data_inputs/universe_input.py", "UniverseInput"),
            ("montepy/data_inputs/lattice_input.py", "LatticeInput"),
            ("montepy/data_inputs/fill.py", "Fill"),
        ]:
            try:
                tree = _src(rel)
            except Exception:
                continue
            for meth in meths:
                try:
                    fn = _func(tree, f"{cls}.{meth}")
                except RuntimeError:
                    continue
                found = True
                for f in _with_helpers(tree, fn):
                    for nm in _raises(f):
                        if nm not in names:
                            names.append(nm)
        out[key] = names if found else None
    return out


def material_pairing():
    """How Material.__init__ pairs the flat entry list of a material (nuclides written without a library suffix),
    OBSERVED: material cards with 1..6 entries are built.  -> batchedUnpack (strict pairing: every even list gives the
    pairs in order, every odd list raises ValueError itself, not a subclass -- what batches of two unpacked into two
    names, or zip(..., strict=True), do), zipTruncating (an odd list is built with the leftover entry DROPPED),
    unknown (anything else: the obligation C13_pairing stays open until somebody looks)."""
    try:
        from montepy.data_inputs.material import Material
        from montepy.input_parser.mcnp_input import Input
        from montepy.input_parser.block_type import BlockType

        zaids = [1001, 8016, 6012]
        fracs = ["0.5", "0.25", "0.125"]
        res = []
        for n in range(1, 7):
            ent = []
            for i in range(n):
                ent.append(str(zaids[i // 2]) if i % 2 == 0 else fracs[i // 2])
            try:
                m = Material(Input(["m1 " + " ".join(ent)], BlockType.DATA))
                got = [(iso.ZAID, comp.fraction) for iso, comp in m.material_components.items()]
                good = got == [(str(zaids[i]), float(fracs[i])) for i in range(n // 2)]
                res.append("pairs" if good else "other")
            except Exception as e:
                res.append("ValueError" if type(e) is ValueError else "other")
        odd, even = res[0::2], res[1::2]
        if all(x == "pairs" for x in even) and all(x == "ValueError" for x in odd):
            return "batchedUnpack"
        if all(x == "pairs" for x in res):
            return "zipTruncating"
        return "unknown"
    except Exception:
        return "unknown"


def probe_data_loop():
    """BEHAVIOUR probe of the data-input loop of __update_internal_pointers (no monkeypatching): tiny problems whose
    data block is every order of `mt1, m1, mt7, m2` (mt7 has no material; mt1 may stand before m1) and two orders with
    a duplicated MT are linked in check mode; recorded: the cards (kind, number) and how many MalformedInputError
    warnings the linking stage gave.  Whether the loop visits every input shows in these numbers: a loop that runs
    over the shrinking list itself skips the input after a material that removed an earlier MT."""
    import itertools
    import shutil
    import tempfile
    import warnings

    cards = {"mt1": ("mt1 lwtr.23t", (1, 1)), "m1": ("m1 1001.80c 2 8016.80c 1", (0, 1)), "mt7": ("mt7 grph.20t", (1, 7)),
             "m2": ("m2 6000.80c 1", (0, 2)), "mt1b": ("mt1 h-zr.20t", (1, 1))}
    orders = [list(p) for p in itertools.permutations(["mt1", "m1", "mt7", "m2"])]
    orders += [["mt1", "mt1b", "m1", "mt7", "m2"], ["m1", "mt1", "mt1b", "m2", "mt7"], ["mt1", "m1", "mt1b", "mt7", "m2"]]
    out = []
    d = tempfile.mkdtemp(prefix="c13probe_")
    try:
        for k, order in enumerate(orders):
            text = "probe\n1 1 -1.0 -1 imp:n=1\n2 2 -1.0 1 imp:n=0\n\n1 so 1\n\nmode n\n" + "\n".join(cards[c][0] for c in order) + "\n"
            path = os.path.join(d, f"p{k}.imcnp")
            with open(path, "w") as fh:
                fh.write(text)
            with warnings.catch_warnings(record=True) as w:
                warnings.simplefilter("always")
                problem = montepy.MCNP_Problem(path)
                problem.parse_input(check_input=True)
            n = sum(1 for x in w if str(x.message).startswith("MalformedInputError"))
            out.append(([(2, 0)] + [cards[c][1] for c in order], n))
    finally:
        shutil.rmtree(d, ignore_errors=True)
    return out


def _callname(c):
    f = c.func
    if isinstance(f, ast.Name):
        return f.id
    if isinstance(f, ast.Attribute):
        return f.attr
    return None


def _resolve(name):
    if hasattr(E, name) and inspect.isclass(getattr(E, name)):
        return getattr(E, name)
    if hasattr(builtins, name) and inspect.isclass(getattr(builtins, name)):
        return getattr(builtins, name)
    if name == "LexError":
        return importlib.import_module("sly.lex").LexError
    raise RuntimeError(f"c13_errors: cannot resolve exception class {name}")


def generate(write):
    own, names = class_names()
    rws = regions_with_source()
    regs = {r: v[0] for r, v in rws.items()}
    sites_raw = raise_sites()
    unknown = ["region " + r for r, v in rws.items() if v[1] == "unknown"]
    sites = {}
    for k, lst in sites_raw.items():
        if lst is None or any(n not in names for n in lst):
            unknown.append("site " + k)
            sites[k] = []
        else:
            sites[k] = sorted(lst, key=names.index)  # the order of the raise statements in the file is no fact
    pairing = material_pairing()
    if pairing == "unknown":
        unknown.append("materialPairing")
    live = {n: _resolve(n) for n in names}
    body = "namespace MontePyVerif.Gen.Errors\n\n"
    body += "/-- exception classes: those defined in montepy/errors.py first, then runtime/library classes -/\n"
    body += "inductive Cls\n" + "".join(f"  | {n}\n" for n in names) + "  deriving DecidableEq, Repr, Inhabited\n\n"
    body += "def Cls.all : List Cls := [" + ", ".join("." + n for n in names) + "]\n\n"
    body += "/-- classes defined in montepy/errors.py -/\n"
    body += "def Cls.own : List Cls := [" + ", ".join("." + n for n in own) + "]\n\n"
    body += "def Cls.name : Cls → String\n" + "".join(f"  | .{n} => \"{n}\"\n" for n in names) + "\n"
    body += "/-- `issubclass(c, d)` on the live classes: the proper-or-equal bases of `c` among `Cls` -/\n"
    body += "def Cls.bases : Cls → List Cls\n"
    for n in names:
        bs = [m for m in names if issubclass(live[n], live[m])]
        body += f"  | .{n} => [" + ", ".join("." + m for m in bs) + "]\n"
    body += "\ndef isSubclass (c d : Cls) : Bool := (Cls.bases c).contains d\n\n"
    body += "/-- guarded regions of the read path -/\n"
    body += "inductive Region\n" + "".join(f"  | {r}\n" for r in regs) + "  deriving DecidableEq, Repr\n\n"
    body += "def Region.all : List Region := [" + ", ".join("." + r for r in regs) + "]\n\n"
    body += "/-- the classes the region takes (Python's `except` semantics: a class is taken iff it is a subclass of a listed\n    one).  `observed`: the most general classes of the set observed by raising every class of `Cls` inside the region\n    on the working tree (tools/extractors/c13_errors.py: observe); `ast`: the except clauses as written (probe not\n    possible); `unknown`: neither (listed in `unknownFacts`) -/\n"
    body += "def handlers : Region → List Cls\n"
    for r, lst in regs.items():
        body += f"  | .{r} => [" + ", ".join("." + n for n in lst) + f"]  -- {rws[r][1]}\n"
    body += "\n/-- facts the translator could neither observe nor read (must be empty: `C13_tables_known`) -/\n"
    body += "def unknownFacts : List String := [" + ", ".join('"' + u + '"' for u in unknown) + "]\n"
    body += "\n/-- functions whose explicit `raise` statements are enumerated (from the AST) -/\n"
    body += "inductive Site\n" + "".join(f"  | {s}\n" for s in sites) + "  deriving DecidableEq, Repr\n\n"
    body += "def Site.all : List Site := [" + ", ".join("." + s for s in sites) + "]\n\n"
    body += "def raises : Site → List Cls\n"
    for s, lst in sites.items():
        body += f"  | .{s} => [" + ", ".join("." + n for n in lst) + "]\n"
    body += "\n/-- how Material.__init__ pairs the flat (nuclide, fraction) list of a material written without library\n    suffixes, OBSERVED on cards with 1..6 entries (batchedUnpack: strict, a leftover entry raises ValueError;\n    zipTruncating: a leftover entry is dropped; zipStrict is no longer told apart from batchedUnpack) -/\n"
    body += "inductive Pairing\n  | batchedUnpack\n  | zipStrict\n  | zipTruncating\n  | unknown\n  deriving DecidableEq, Repr\n\n"
    body += f"def materialPairing : Pairing := .{pairing}\n"
    body += "\n/-- behaviour probe of the data-input loop of __update_internal_pointers: data blocks as (kind, number) with kind\n    0 = M, 1 = MT, 2 = other, and the number of MalformedInputError warnings the linking stage gave in check mode -/\n"
    body += "def probeDataLoop : List (List (Nat × Nat) × Nat) := [\n" + ",\n".join(
        "  ([" + ", ".join(f"({a}, {b})" for a, b in cs) + f"], {n})" for cs, n in probe_data_loop()
    ) + "]\n"
    body += "\nend MontePyVerif.Gen.Errors\n"
    write("Errors.lean", body)
