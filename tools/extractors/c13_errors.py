"""Translator plug-in for C13: Gen/Errors.lean.

(a) the exception classes of montepy/errors.py plus the runtime/library classes the error policy talks about, as an
    enumeration `Cls`, with the subclass relation taken from the LIVE classes (`issubclass`);
(b) for every guarded region of the read path the classes named in its `except` clauses, in order, taken from the
    AST of the source file (not from the running code);
(c) for every function of the linking stage the classes of its explicit `raise` statements (AST), so that a new
    `raise` inside a guarded loop re-opens `C13_handled_ok`.
A structural change (a region that no longer exists, an except clause naming something that is not a class name)
makes the translator fail: the check then stops with a machinery error instead of judging a stale table.
"""
import ast
import builtins
import importlib
import inspect
import os

import montepy
import montepy.errors as E

REPO = os.path.dirname(os.path.dirname(os.path.abspath(montepy.__file__)))

# runtime / library classes the policy is stated against (property text + DESIGN 4.1)
RUNTIME = [
    "Exception", "ValueError", "TypeError", "NotImplementedError", "Warning", "UserWarning", "AttributeError",
    "KeyError", "IndexError", "LookupError", "AssertionError", "ZeroDivisionError", "OSError", "FileNotFoundError",
    "UnicodeDecodeError", "RecursionError", "StopIteration",
]


def _src(rel):
    with open(os.path.join(REPO, rel)) as fh:
        return ast.parse(fh.read())


def _func(tree, qual):
    """find a (possibly nested) function by dotted path, e.g. 'MCNP_Problem.parse_input' or 'read_data.flush_input'"""
    node = tree
    for part in qual.split("."):
        found = None
        for ch in ast.walk(node):
            if ch is not node and isinstance(ch, (ast.FunctionDef, ast.ClassDef)) and ch.name == part:
                found = ch
                break
        if found is None:
            raise RuntimeError(f"c13_errors: {qual}: {part} not found")
        node = found
    return node


def _tries(fn):
    """try statements of fn in document order, not descending into nested function definitions"""
    out = []

    def rec(n):
        for ch in ast.iter_child_nodes(n):
            if isinstance(ch, (ast.FunctionDef, ast.AsyncFunctionDef, ast.Lambda, ast.ClassDef)):
                continue
            if isinstance(ch, ast.Try):
                out.append(ch)
            rec(ch)

    rec(fn)
    return out


def _name(n):
    if isinstance(n, ast.Name):
        return n.id
    if isinstance(n, ast.Attribute):
        return n.attr
    raise RuntimeError("c13_errors: except clause names something that is not a class name: " + ast.dump(n))


def _handlers(t):
    names = []
    for h in t.handlers:
        if h.type is None:
            names.append("BaseException")
        elif isinstance(h.type, ast.Tuple):
            names += [_name(e) for e in h.type.elts]
        else:
            names.append(_name(h.type))
    return names


def _contains_call(t, attr):
    for n in ast.walk(ast.Module(body=t.body, type_ignores=[])):
        if isinstance(n, ast.Call):
            f = n.func
            if (isinstance(f, ast.Attribute) and f.attr == attr) or (isinstance(f, ast.Name) and f.id == attr):
                return True
    return False


def _contains_raise(t, cls):
    for n in ast.walk(ast.Module(body=t.body, type_ignores=[])):
        if isinstance(n, ast.Raise) and n.exc is not None:
            e = n.exc.func if isinstance(n.exc, ast.Call) else n.exc
            if _name(e) == cls:
                return True
    return False


def _pick(tries, what, pred):
    c = [t for t in tries if pred(t)]
    if len(c) != 1:
        raise RuntimeError(f"c13_errors: region {what}: expected exactly one matching try statement, found {len(c)}")
    return c[0]


def regions():
    """region name -> ordered list of class names in its except clauses"""
    out = {}
    prob = _src("montepy/mcnp_problem.py")
    pi = _tries(_func(prob, "MCNP_Problem.parse_input"))
    construct = _pick(pi, "parseInputConstruct", lambda t: _contains_call(t, "obj_parser") and not _contains_call(t, "link_to_problem"))
    inner = _pick(pi, "parseInputInner", lambda t: _contains_call(t, "obj_parser") and _contains_call(t, "link_to_problem") and not _contains_call(t, "read_input_syntax"))
    outer = _pick(pi, "parseInputOuter", lambda t: _contains_call(t, "read_input_syntax"))
    # clauses of the construction try: a bare `raise` keeps the class, a clause raising MalformedInputError maps it
    keep, remap = [], []
    for h in construct.handlers:
        names = [_name(e) for e in h.type.elts] if isinstance(h.type, ast.Tuple) else [_name(h.type)]
        bare = any(isinstance(n, ast.Raise) and n.exc is None for n in ast.walk(h))
        mapped = any(
            isinstance(n, ast.Raise) and n.exc is not None and isinstance(n.exc, ast.Call) and _name(n.exc.func) == "MalformedInputError"
            for n in ast.walk(h)
        )
        if bare and not mapped:
            keep += names
        elif mapped and not bare:
            if keep is None:
                raise RuntimeError("c13_errors: parseInputConstruct: unexpected clause order")
            remap += names
        else:
            raise RuntimeError("c13_errors: parseInputConstruct: a clause that neither re-raises nor maps to MalformedInputError")
    if [n for h in construct.handlers for n in ([_name(e) for e in h.type.elts] if isinstance(h.type, ast.Tuple) else [_name(h.type)])] != keep + remap:
        raise RuntimeError("c13_errors: parseInputConstruct: keep clauses must come before mapping clauses")
    out["parseInputConstructKeep"] = keep
    out["parseInputConstructMap"] = remap
    out["parseInputInner"] = _handlers(inner)
    out["parseInputOuter"] = _handlers(outer)
    uip = _tries(_func(prob, "MCNP_Problem.__update_internal_pointers"))
    out["uipLoadData"] = _handlers(_pick(uip, "uipLoadData", lambda t: _contains_call(t, "__load_data_inputs_to_object")))
    out["uipSurfaceLoop"] = _handlers(_pick(uip, "uipSurfaceLoop", lambda t: _contains_call(t, "update_pointers") and any(isinstance(a, ast.Attribute) and a.attr == "surfaces" for n in ast.walk(ast.Module(body=t.body, type_ignores=[])) if isinstance(n, ast.Call) for a in n.args)))
    out["uipDataLoop"] = _handlers(_pick(uip, "uipDataLoop", lambda t: _contains_call(t, "update_pointers") and not any(isinstance(a, ast.Attribute) and a.attr == "surfaces" for n in ast.walk(ast.Module(body=t.body, type_ignores=[])) if isinstance(n, ast.Call) for a in n.args)))
    cells = _src("montepy/cells.py")
    up = _tries(_func(cells, "Cells.update_pointers"))
    out["cellsModifierOnce"] = _handlers(_pick(up, "cellsModifierOnce", lambda t: _contains_raise(t, "MalformedInputError")))
    out["cellsModifierMerge"] = _handlers(_pick(up, "cellsModifierMerge", lambda t: _contains_call(t, "merge")))
    out["cellsCellLoop"] = _handlers(_pick(up, "cellsCellLoop", lambda t: _contains_call(t, "update_pointers")))
    sb = _tries(_func(cells, "Cells.__setup_blank_cell_modifiers"))
    out["cellsBlankModifiers"] = _handlers(_pick(sb, "cellsBlankModifiers", lambda t: _contains_call(t, "push_to_cells")))
    obj = _src("montepy/mcnp_object.py")
    oi = _tries(_func(obj, "MCNP_Object.__init__"))
    out["objectInit"] = _handlers(_pick(oi, "objectInit", lambda t: _contains_call(t, "parse") and not _handlers(t) == ["AttributeError"]))
    rd = _src("montepy/input_parser/input_syntax_reader.py")
    fi = _tries(_func(rd, "read_data.flush_input"))
    out["flushInput"] = _handlers(_pick(fi, "flushInput", lambda t: _contains_call(t, "ReadInput")))
    return out


# functions of the linking stage whose explicit raise statements are enumerated (region they run in is fixed by hand
# in Model/Errors.lean: `raisedIn`)
RAISE_SITES = {
    "cellUpdatePointers": ("montepy/cell.py", "Cell.update_pointers"),
    "halfSpaceUpdatePointers": ("montepy/surfaces/half_space.py", "HalfSpace.update_pointers"),
    "unitHalfSpaceUpdatePointers": ("montepy/surfaces/half_space.py", "UnitHalfSpace.update_pointers"),
    "surfaceUpdatePointers": ("montepy/surfaces/surface.py", "Surface.update_pointers"),
    "materialUpdatePointers": ("montepy/data_inputs/material.py", "Material.update_pointers"),
    "thermalUpdatePointers": ("montepy/data_inputs/thermal_scattering.py", "ThermalScatteringLaw.update_pointers"),
    "dataInputUpdatePointers": ("montepy/data_inputs/data_input.py", "DataInputAbstract.update_pointers"),
    "loadDataInputsToObject": ("montepy/mcnp_problem.py", "MCNP_Problem.__load_data_inputs_to_object"),
    "cellModifierMerge": None,  # filled below from every cell modifier class
    "cellModifierPush": None,
    "readData": ("montepy/input_parser/input_syntax_reader.py", "read_data"),
    "readInputInit": ("montepy/input_parser/mcnp_input.py", "ReadInput.__init__"),
    "numberedAppend": ("montepy/numbered_object_collection.py", "NumberedObjectCollection.append"),
}


def _raises(fn, nested=True):
    names = []
    for n in ast.walk(fn):
        if isinstance(n, ast.Raise) and n.exc is not None:
            e = n.exc.func if isinstance(n.exc, ast.Call) else n.exc
            nm = _name(e)
            if nm in ("e", "err", "error"):
                continue  # re-raise of a caught exception: class decided by the handler, modelled there
            if nm not in names:
                names.append(nm)
    return names


def raise_sites():
    out = {}
    for key, spec in RAISE_SITES.items():
        if spec is None:
            continue
        rel, qual = spec
        out[key] = _raises(_func(_src(rel), qual))
    for key, meths in (
        ("cellModifierMerge", ("merge",)),
        ("cellModifierPush", ("push_to_cells", "_clear_data", "_check_redundant_definitions", "_check_particle_in_problem", "__setitem__")),
    ):
        names = []
        for rel, cls in [
            ("montepy/data_inputs/cell_modifier.py", "CellModifierInput"),
            ("montepy/data_inputs/importance.py", "Importance"),
            ("montepy/data_inputs/volume.py", "Volume"),
            ("montepy/data_inputs/universe_input.py", "UniverseInput"),
            ("montepy/data_inputs/lattice_input.py", "LatticeInput"),
            ("montepy/data_inputs/fill.py", "Fill"),
        ]:
            tree = _src(rel)
            for meth in meths:
                try:
                    fn = _func(tree, f"{cls}.{meth}")
                except RuntimeError:
                    continue
                for nm in _raises(fn):
                    if nm not in names:
                        names.append(nm)
        out[key] = names
    return out


def material_pairing():
    """How Material.__init__ pairs the flat entry list of a material (the ListNode branch: nuclides written without a
    library suffix), read off the AST.  -> one of batchedUnpack (batches of two, the loop unpacks `a, b`: a leftover
    entry raises ValueError), zipStrict (zip(..., strict=True): raises ValueError), zipTruncating (plain zip: a
    leftover entry is DROPPED silently), unknown (an idiom this plug-in does not know: the obligation C13_pairing
    stays open until somebody looks)."""
    fn = _func(_src("montepy/data_inputs/material.py"), "Material.__init__")
    branch = None
    for n in ast.walk(fn):
        if isinstance(n, ast.If) and isinstance(n.test, ast.Call) and _callname(n.test) == "isinstance" and len(n.test.args) == 2 and _name(n.test.args[1]) == "ListNode":
            branch = n
            break
    if branch is None:
        return "unknown"
    body = ast.Module(body=branch.body, type_ignores=[])
    calls = [c for c in ast.walk(body) if isinstance(c, ast.Call)]
    names = [_callname(c) for c in calls]
    # the consumer: `for a, b in iterator:` unpacks every batch into exactly two names
    unpacks = any(
        isinstance(n, ast.For) and isinstance(n.target, ast.Tuple) and len(n.target.elts) == 2 and isinstance(n.iter, ast.Name) and n.iter.id == "iterator"
        for n in ast.walk(fn)
    )
    if "zip" in names:
        z = [c for c in calls if _callname(c) == "zip"][0]
        strict = any(k.arg == "strict" and isinstance(k.value, ast.Constant) and k.value.value is True for k in z.keywords)
        return "zipStrict" if strict else "zipTruncating"
    if "batched" in names or ("islice" in names and any(_callname(c) == "islice" and len(c.args) == 2 and isinstance(c.args[1], ast.Constant) and c.args[1].value == 2 for c in calls)):
        return "batchedUnpack" if unpacks else "unknown"
    return "unknown"


def probe_data_loop():
    """BEHAVIOUR probe of the data-input loop of __update_internal_pointers (no monkeypatching): tiny problems whose
    data block is every order of `mt1, m1, mt7, m2` (mt7 has no material; mt1 may stand before m1) and two orders with
    a duplicated MT are linked in check mode; recorded: the cards (kind, number) and how many MalformedInputError
    warnings the linking stage gave.  Whether the loop visits every input shows in these numbers: a loop that runs
    over the shrinking list itself skips the input after a material that removed an earlier MT."""
    import itertools
    import shutil
    import tempfile
    import warnings

    cards = {"mt1": ("mt1 lwtr.23t", (1, 1)), "m1": ("m1 1001.80c 2 8016.80c 1", (0, 1)), "mt7": ("mt7 grph.20t", (1, 7)),
             "m2": ("m2 6000.80c 1", (0, 2)), "mt1b": ("mt1 h-zr.20t", (1, 1))}
    orders = [list(p) for p in itertools.permutations(["mt1", "m1", "mt7", "m2"])]
    orders += [["mt1", "mt1b", "m1", "mt7", "m2"], ["m1", "mt1", "mt1b", "m2", "mt7"], ["mt1", "m1", "mt1b", "mt7", "m2"]]
    out = []
    d = tempfile.mkdtemp(prefix="c13probe_")
    try:
        for k, order in enumerate(orders):
            text = "probe\n1 1 -1.0 -1 imp:n=1\n2 2 -1.0 1 imp:n=0\n\n1 so 1\n\nmode n\n" + "\n".join(cards[c][0] for c in order) + "\n"
            path = os.path.join(d, f"p{k}.imcnp")
            with open(path, "w") as fh:
                fh.write(text)
            with warnings.catch_warnings(record=True) as w:
                warnings.simplefilter("always")
                problem = montepy.MCNP_Problem(path)
                problem.parse_input(check_input=True)
            n = sum(1 for x in w if str(x.message).startswith("MalformedInputError"))
            out.append(([(2, 0)] + [cards[c][1] for c in order], n))
    finally:
        shutil.rmtree(d, ignore_errors=True)
    return out


def _callname(c):
    f = c.func
    if isinstance(f, ast.Name):
        return f.id
    if isinstance(f, ast.Attribute):
        return f.attr
    return None


def _resolve(name):
    if hasattr(E, name) and inspect.isclass(getattr(E, name)):
        return getattr(E, name)
    if hasattr(builtins, name) and inspect.isclass(getattr(builtins, name)):
        return getattr(builtins, name)
    if name == "LexError":
        return importlib.import_module("sly.lex").LexError
    raise RuntimeError(f"c13_errors: cannot resolve exception class {name}")


def generate(write):
    own = [n for n, c in vars(E).items() if inspect.isclass(c) and c.__module__ == E.__name__ and issubclass(c, BaseException)]
    regs = regions()
    sites = raise_sites()
    names = list(own)
    for n in RUNTIME + ["LexError"]:
        if n not in names:
            names.append(n)
    for lst in list(regs.values()) + list(sites.values()):
        for n in lst:
            if n not in names:
                names.append(n)
    live = {n: _resolve(n) for n in names}
    body = "namespace MontePyVerif.Gen.Errors\n\n"
    body += "/-- exception classes: those defined in montepy/errors.py first, then runtime/library classes -/\n"
    body += "inductive Cls\n" + "".join(f"  | {n}\n" for n in names) + "  deriving DecidableEq, Repr, Inhabited\n\n"
    body += "def Cls.all : List Cls := [" + ", ".join("." + n for n in names) + "]\n\n"
    body += "/-- classes defined in montepy/errors.py -/\n"
    body += "def Cls.own : List Cls := [" + ", ".join("." + n for n in own) + "]\n\n"
    body += "def Cls.name : Cls → String\n" + "".join(f"  | .{n} => \"{n}\"\n" for n in names) + "\n"
    body += "/-- `issubclass(c, d)` on the live classes: the proper-or-equal bases of `c` among `Cls` -/\n"
    body += "def Cls.bases : Cls → List Cls\n"
    for n in names:
        bs = [m for m in names if issubclass(live[n], live[m])]
        body += f"  | .{n} => [" + ", ".join("." + m for m in bs) + "]\n"
    body += "\ndef isSubclass (c d : Cls) : Bool := (Cls.bases c).contains d\n\n"
    body += "/-- guarded regions of the read path -/\n"
    body += "inductive Region\n" + "".join(f"  | {r}\n" for r in regs) + "  deriving DecidableEq, Repr\n\n"
    body += "def Region.all : List Region := [" + ", ".join("." + r for r in regs) + "]\n\n"
    body += "/-- classes named in the `except` clauses of the region, in source order (from the AST) -/\n"
    body += "def handlers : Region → List Cls\n"
    for r, lst in regs.items():
        body += f"  | .{r} => [" + ", ".join("." + n for n in lst) + "]\n"
    body += "\n/-- functions whose explicit `raise` statements are enumerated (from the AST) -/\n"
    body += "inductive Site\n" + "".join(f"  | {s}\n" for s in sites) + "  deriving DecidableEq, Repr\n\n"
    body += "def Site.all : List Site := [" + ", ".join("." + s for s in sites) + "]\n\n"
    body += "def raises : Site → List Cls\n"
    for s, lst in sites.items():
        body += f"  | .{s} => [" + ", ".join("." + n for n in lst) + "]\n"
    body += "\n/-- how Material.__init__ pairs the flat (nuclide, fraction) list of a material written without library\n    suffixes (from the AST of the ListNode branch) -/\n"
    body += "inductive Pairing\n  | batchedUnpack\n  | zipStrict\n  | zipTruncating\n  | unknown\n  deriving DecidableEq, Repr\n\n"
    body += f"def materialPairing : Pairing := .{material_pairing()}\n"
    body += "\n/-- behaviour probe of the data-input loop of __update_internal_pointers: data blocks as (kind, number) with kind\n    0 = M, 1 = MT, 2 = other, and the number of MalformedInputError warnings the linking stage gave in check mode -/\n"
    body += "def probeDataLoop : List (List (Nat × Nat) × Nat) := [\n" + ",\n".join(
        "  ([" + ", ".join(f"({a}, {b})" for a, b in cs) + f"], {n})" for cs, n in probe_data_loop()
    ) + "]\n"
    body += "\nend MontePyVerif.Gen.Errors\n"
    write("Errors.lean", body)
