"""Translator plug-in for C14: the geometry validator observed on probes.

`HalfSpace._add_new_children_to_cell` (the validator behind the `Cell.geometry` setter, the
`HalfSpace.left/right` setters and `&=` / `|=`) is hand-written, so its *shape* cannot be read off a
template.  Instead of matching its AST (which would alarm on harmless rewrites) the translator RUNS the
public setter `cell.geometry = g` of the working tree on a few free-standing probes and writes what it
observed (exception class, `cell.complements` and `cell.surfaces` afterwards) into Gen/GeometryProbe.lean.
Theorem `C14_geometry_probes` (Props/C14.lean) states that the model `addNewChildren` predicts exactly these
observations; a validator that commits one container before it has checked the other changes the generated
file and re-opens the proof.
"""
import os
import sys
import warnings

REPO = os.environ.get("VERIF_REPO", "/repo")
if sys.path[0] != REPO:
    sys.path.insert(0, REPO)
warnings.filterwarnings("ignore")
import montepy  # noqa: E402
from montepy.input_parser.block_type import BlockType  # noqa: E402
from montepy.input_parser.mcnp_input import Input  # noqa: E402
from montepy.surfaces.half_space import HalfSpace, UnitHalfSpace  # noqa: E402
from montepy.surfaces.surface import Surface  # noqa: E402
from montepy.surfaces.surface_builder import surface_builder  # noqa: E402


def surf(text):
    return surface_builder(Input([text], BlockType.SURFACE))


def cell(n):
    c = montepy.Cell()
    c.number = n
    return c


def leaves_of(g):
    """the leaves of a tree through the public attributes, left to right"""
    if isinstance(g, UnitHalfSpace):
        return [g]
    out = leaves_of(g.left)
    if g.right is not None:
        out += leaves_of(g.right)
    return out


def probes():
    """name -> (complements before, surfaces before, geometry) built from fresh objects each time"""

    def p1():  # a new complement, and a copy of a member surface that was never renumbered
        c1, s2, clash = cell(1), surf("2 SO 2.0"), surf("2 SO 5.0")
        return [], [s2], ~c1 & +clash

    def p2():  # a new surface, and the complement of another cell with the number of a member complement
        c1, c1b, s7 = cell(1), cell(1), surf("7 PZ 1.0")
        return [c1], [], +s7 & ~c1b

    def p3():  # a new complement, then a cell used as the divider of a surface half-space
        c1, c2 = cell(1), cell(2)
        return [], [], ~c1 & UnitHalfSpace(c2, True, False)

    def p4():  # all valid: one new complement, one member surface, one new surface
        c1, s2, s7 = cell(1), surf("2 SO 2.0"), surf("7 PZ 1.0")
        return [], [s2], ~c1 & -s2 & +s7

    def p5():  # a new complement, then two new surfaces sharing a number
        c1, s7, s7b = cell(1), surf("7 PZ 1.0"), surf("7 PZ 3.0")
        return [], [], ~c1 & +s7 & -s7b

    def p6():  # a new complement and a new surface, then an unresolved int divider
        c1, s7 = cell(1), surf("7 PZ 1.0")
        return [], [], ~c1 & +s7 & UnitHalfSpace(5, True, False)

    def p7():  # the same new surface on both sides: one divider
        c1, s7 = cell(1), surf("7 PZ 1.0")
        return [], [], ~c1 & +s7 & -s7

    def p8():  # a surface used as the divider of a cell half-space, after a new complement
        c1, s7 = cell(1), surf("7 PZ 1.0")
        return [], [], ~c1 & UnitHalfSpace(s7, True, True)

    return [p1, p2, p3, p4, p5, p6, p7, p8]


def observe(make):
    comps, surfs, g = make()
    owner = cell(9)
    for c in comps:
        owner.complements.append(c)
    for s in surfs:
        owner.surfaces.append(s)
    leaves = []
    seen = []
    for leaf in leaves_of(g):
        d = leaf.divider
        as_cell = bool(leaf.is_cell)
        kind = 0 if isinstance(d, montepy.Cell) else 1 if isinstance(d, Surface) else 2
        num = d if isinstance(d, int) else d.number
        parent = owner.complements if as_cell else owner.surfaces
        member = (d in parent) if kind != 2 else False
        oid = next((i for i, o in enumerate(seen) if o is d), len(seen))
        if oid == len(seen):
            seen.append(d)
        leaves.append((as_cell, kind, num, member, oid))
    before = ([c.number for c in owner.complements], [s.number for s in owner.surfaces])
    try:
        owner.geometry = g
        outcome = 0
    except TypeError:
        outcome = 1
    except montepy.errors.NumberConflictError:
        outcome = 2
    except Exception:  # noqa: BLE001
        outcome = 3
    after = ([c.number for c in owner.complements], [s.number for s in owner.surfaces])
    return before, leaves, outcome, after


def lints(xs):
    return "[" + ", ".join(str(int(x)) for x in xs) + "]"


def generate(write):
    body = "namespace MontePyVerif.Gen\n\n"
    body += "/-- one observation of `cell.geometry = g` on the working tree (tools/extractors/c14_geometry_probe.py) -/\n"
    body += "structure GeomProbe where\n  complements : List Int\n  surfaces : List Int\n"
    body += "  /-- per leaf, left to right: (is_cell flag, divider kind 0 cell / 1 surface / 2 other, number,\n      divider in the container the flag selects, identity of the divider) -/\n"
    body += "  leaves : List (Bool × Nat × Int × Bool × Nat)\n"
    body += "  /-- 0 accepted, 1 TypeError, 2 NumberConflictError, 3 anything else -/\n  outcome : Nat\n"
    body += "  complementsAfter : List Int\n  surfacesAfter : List Int\n\n"
    rows = []
    for make in probes():
        before, leaves, outcome, after = observe(make)
        ls = ", ".join(
            "(%s, %d, %d, %s, %d)" % ("true" if a else "false", k, n, "true" if m else "false", o) for a, k, n, m, o in leaves
        )
        rows.append(
            "  -- %s\n  { complements := %s, surfaces := %s, leaves := [%s], outcome := %d, complementsAfter := %s, surfacesAfter := %s }"
            % ((make.__doc__ or make.__name__), lints(before[0]), lints(before[1]), ls, outcome, lints(after[0]), lints(after[1]))
        )
    body += "def geomProbes : List GeomProbe := [\n" + ",\n".join(rows) + "\n]\n\nend MontePyVerif.Gen\n"
    write("GeometryProbe.lean", body)


if __name__ == "__main__":
    for make in probes():
        print(make.__name__, observe(make))
