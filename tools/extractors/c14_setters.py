"""Translator plug-in for C14: the generated property setters of MontePy.

Writes Gen/SetterDecls.lean from the AST of the working tree (VERIF_REPO):
  * every property created with make_prop_val_node / make_prop_pointer in montepy/**.py
    (class, property, hidden_param, whether `types` is absent / the empty tuple / given, the names in
    `types`, base_type, validator, deletable);
  * the ORDER of the statements of both setter templates in montepy/utilities.py as step tags.
Theorem C14_generated (Props/C14.lean) is stated over these step lists, so a source edit that assigns
before validating changes this file and re-opens the proof.
"""
import ast
import json
import os

REPO = os.environ.get("VERIF_REPO", "/repo")
MAKERS = ("make_prop_val_node", "make_prop_pointer")


def _name(node):
    """flatten a `types` / base_type / validator expression to simple class names"""
    if node is None:
        return []
    if isinstance(node, ast.Tuple):
        out = []
        for e in node.elts:
            out += _name(e)
        return out
    if isinstance(node, ast.Call) and isinstance(node.func, ast.Name) and node.func.id == "type":
        a = node.args[0] if node.args else None
        if isinstance(a, ast.Constant) and a.value is None:
            return ["NoneType"]
        return ["type(" + ast.unparse(a) + ")"]
    if isinstance(node, ast.Attribute):
        return [node.attr]
    if isinstance(node, ast.Name):
        return [node.id]
    return [ast.unparse(node)]


def _maker_call(dec):
    if isinstance(dec, ast.Call):
        f = dec.func
        n = f.id if isinstance(f, ast.Name) else (f.attr if isinstance(f, ast.Attribute) else None)
        if n in MAKERS:
            return n
    return None


def collect_decls():
    decls = []
    root = os.path.join(REPO, "montepy")
    for dirpath, _, files in sorted(os.walk(root)):
        for fn in sorted(files):
            if not fn.endswith(".py"):
                continue
            path = os.path.join(dirpath, fn)
            rel = os.path.relpath(path, REPO)
            with open(path) as fh:
                tree = ast.parse(fh.read())
            for cls in [n for n in ast.walk(tree) if isinstance(n, ast.ClassDef)]:
                for item in cls.body:
                    if not isinstance(item, ast.FunctionDef):
                        continue
                    for dec in item.decorator_list:
                        maker = _maker_call(dec)
                        if not maker:
                            continue
                        params = ["hidden_param", "types", "base_type", "validator", "deletable"]
                        args = dict(zip(params, dec.args))
                        for kw in dec.keywords:
                            args[kw.arg] = kw.value
                        t = args.get("types")
                        if t is None or (isinstance(t, ast.Constant) and t.value is None):
                            tkind = "absent"
                        elif isinstance(t, ast.Tuple) and not t.elts:
                            tkind = "emptyTuple"
                        else:
                            tkind = "given"
                        hp = args.get("hidden_param")
                        dl = args.get("deletable")
                        decls.append(
                            {
                                "file": rel,
                                "cls": cls.name,
                                "prop": item.name,
                                "pointer": maker == "make_prop_pointer",
                                "hidden": hp.value if isinstance(hp, ast.Constant) else ast.unparse(hp),
                                "types": tkind,
                                "typeNames": _name(t) if tkind == "given" else [],
                                "baseType": (_name(args.get("base_type")) or [None])[0]
                                if not (isinstance(args.get("base_type"), ast.Constant) and args["base_type"].value is None)
                                else None,
                                "validator": (_name(args.get("validator")) or [None])[0]
                                if not (isinstance(args.get("validator"), ast.Constant) and args["validator"].value is None)
                                else None,
                                "deletable": bool(isinstance(dl, ast.Constant) and dl.value),
                            }
                        )
    return decls


def _contains(node, pred):
    return any(pred(n) for n in ast.walk(node))


def classify(stmt):
    """one statement of a setter template -> step tag"""
    is_call_to = lambda n, name: isinstance(n, ast.Call) and isinstance(n.func, ast.Name) and n.func.id == name
    if isinstance(stmt, ast.Nonlocal):
        return None  # a declaration, not a step
    if isinstance(stmt, ast.Expr) and isinstance(stmt.value, ast.Constant):
        return None  # docstring
    if isinstance(stmt, ast.If):
        if _contains(stmt, lambda n: isinstance(n, ast.Raise)):
            if len(stmt.body) == 1 and isinstance(stmt.body[0], ast.Raise) and _contains(
                stmt.test, lambda n: is_call_to(n, "isinstance")
            ):
                return "isinstance"
            return "other"
        if len(stmt.body) == 1 and not stmt.orelse:
            b = stmt.body[0]
            if isinstance(b, ast.Assign) and len(b.targets) == 1 and isinstance(b.targets[0], ast.Name):
                tgt = b.targets[0].id
                if tgt == "types":
                    return "latchTypes"  # assignment to the closure variable shared by all instances
                if tgt == "value" and is_call_to(b.value, "base_type"):
                    return "convert"
                if tgt != "value" and _contains(b.value, lambda n: is_call_to(n, "type")):
                    return "resolveTypes"  # a local variable: no state change
            if isinstance(b, ast.Expr) and is_call_to(b.value, "validator"):
                return "validate"
        return "other"
    if isinstance(stmt, ast.Assign) and len(stmt.targets) == 1:
        tgt = stmt.targets[0]
        if isinstance(tgt, ast.Name):
            if is_call_to(stmt.value, "getattr"):
                return "fetch"
            if isinstance(stmt.value, ast.Name) and tgt.id != "types":
                return "resolveTypes"  # local alias such as accepted_types = types
            return "other"
        if isinstance(tgt, ast.Attribute) and tgt.attr == "value":
            return "assign"
        return "other"
    if isinstance(stmt, ast.Expr) and is_call_to(stmt.value, "setattr"):
        return "assign"
    return "other"


def template_steps(maker):
    with open(os.path.join(REPO, "montepy", "utilities.py")) as fh:
        tree = ast.parse(fh.read())
    for fn in tree.body:
        if isinstance(fn, ast.FunctionDef) and fn.name == maker:
            for sub in ast.walk(fn):
                if isinstance(sub, ast.FunctionDef) and sub.name == "setter":
                    nonlocal_types = any(isinstance(s, ast.Nonlocal) and "types" in s.names for s in sub.body)
                    steps = [classify(s) for s in sub.body]
                    steps = [s for s in steps if s]
                    if not nonlocal_types:
                        # without `nonlocal types` an assignment to `types` would be a local: not a latch
                        steps = ["resolveTypes" if s == "latchTypes" else s for s in steps]
                    return steps
    return ["other"]


def lstr(s):
    return json.dumps(s, ensure_ascii=True)


def generate(write):
    decls = collect_decls()
    body = "namespace MontePyVerif.Gen\n\n"
    body += "/-- one statement of a generated setter (montepy/utilities.py), in source order -/\n"
    body += "inductive SetterStep\n  | resolveTypes | latchTypes | isinstance | convert | validate | fetch | assign | other\n"
    body += "  deriving DecidableEq, Repr\n\n"
    body += "inductive TypesArg | absent | emptyTuple | given\n  deriving DecidableEq, Repr\n\n"
    body += "structure SetterDecl where\n  file : String\n  cls : String\n  prop : String\n  pointer : Bool\n  hidden : String\n"
    body += "  types : TypesArg\n  typeNames : List String\n  baseType : Option String\n  validator : Option String\n  deletable : Bool\n"
    body += "  deriving Repr\n\n"
    for maker, lean in (("make_prop_val_node", "valNodeSteps"), ("make_prop_pointer", "pointerSteps")):
        body += f"/-- utilities.py:{maker}.<locals>.setter -/\n"
        body += f"def {lean} : List SetterStep := [" + ", ".join("." + s for s in template_steps(maker)) + "]\n"
    body += "\n/-- every property made by make_prop_val_node / make_prop_pointer -/\ndef setterDecls : List SetterDecl := [\n"
    rows = []
    for d in decls:
        opt = lambda v: "none" if v is None else f"some {lstr(v)}"
        rows.append(
            "  { file := %s, cls := %s, prop := %s, pointer := %s, hidden := %s, types := .%s, typeNames := [%s], baseType := %s, validator := %s, deletable := %s }"
            % (
                lstr(d["file"]),
                lstr(d["cls"]),
                lstr(d["prop"]),
                "true" if d["pointer"] else "false",
                lstr(d["hidden"]),
                d["types"],
                ", ".join(lstr(t) for t in d["typeNames"]),
                opt(d["baseType"]),
                opt(d["validator"]),
                "true" if d["deletable"] else "false",
            )
        )
    body += ",\n".join(rows) + "\n]\n\nend MontePyVerif.Gen\n"
    write("SetterDecls.lean", body)


if __name__ == "__main__":
    print(json.dumps({"valNodeSteps": template_steps("make_prop_val_node"), "pointerSteps": template_steps("make_prop_pointer"), "decls": collect_decls()}, indent=1))
