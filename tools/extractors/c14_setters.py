"""Translator plug-in for C14: the generated property setters of MontePy.

Writes Gen/SetterDecls.lean from the AST of the working tree (VERIF_REPO):
  * every property created with make_prop_val_node / make_prop_pointer in montepy/**.py
    (class, property, hidden_param, whether `types` is absent / the empty tuple / given, the names in
    `types`, base_type, validator, deletable);
  * the ORDER of the observable effects of both setter templates in montepy/utilities.py as step tags, OBSERVED by
    running the generated setter on a probe object (since round 7; the first version classified the statements of
    the AST and raised a no-failing-input-found alarm on a behaviour-preserving rewrite that moved the resolution
    of the empty `types` tuple into a helper function).
Theorem C14_generated (Props/C14.lean) is stated over these step lists, so a source edit that assigns
before validating changes this file and re-opens the proof.
"""
import ast
import json
import os

REPO = os.environ.get("VERIF_REPO", "/repo")
MAKERS = ("make_prop_val_node", "make_prop_pointer")


def _name(node):
    """flatten a `types` / base_type / validator expression to simple class names"""
    if node is None:
        return []
    if isinstance(node, ast.Tuple):
        out = []
        for e in node.elts:
            out += _name(e)
        return out
    if isinstance(node, ast.Call) and isinstance(node.func, ast.Name) and node.func.id == "type":
        a = node.args[0] if node.args else None
        if isinstance(a, ast.Constant) and a.value is None:
            return ["NoneType"]
        return ["type(" + ast.unparse(a) + ")"]
    if isinstance(node, ast.Attribute):
        return [node.attr]
    if isinstance(node, ast.Name):
        return [node.id]
    return [ast.unparse(node)]


def _maker_call(dec):
    if isinstance(dec, ast.Call):
        f = dec.func
        n = f.id if isinstance(f, ast.Name) else (f.attr if isinstance(f, ast.Attribute) else None)
        if n in MAKERS:
            return n
    return None


def collect_decls():
    decls = []
    root = os.path.join(REPO, "montepy")
    for dirpath, _, files in sorted(os.walk(root)):
        for fn in sorted(files):
            if not fn.endswith(".py"):
                continue
            path = os.path.join(dirpath, fn)
            rel = os.path.relpath(path, REPO)
            with open(path) as fh:
                tree = ast.parse(fh.read())
            for cls in [n for n in ast.walk(tree) if isinstance(n, ast.ClassDef)]:
                for item in cls.body:
                    if not isinstance(item, ast.FunctionDef):
                        continue
                    for dec in item.decorator_list:
                        maker = _maker_call(dec)
                        if not maker:
                            continue
                        params = ["hidden_param", "types", "base_type", "validator", "deletable"]
                        args = dict(zip(params, dec.args))
                        for kw in dec.keywords:
                            args[kw.arg] = kw.value
                        t = args.get("types")
                        if t is None or (isinstance(t, ast.Constant) and t.value is None):
                            tkind = "absent"
                        elif isinstance(t, ast.Tuple) and not t.elts:
                            tkind = "emptyTuple"
                        else:
                            tkind = "given"
                        hp = args.get("hidden_param")
                        dl = args.get("deletable")
                        decls.append(
                            {
                                "file": rel,
                                "cls": cls.name,
                                "prop": item.name,
                                "pointer": maker == "make_prop_pointer",
                                "hidden": hp.value if isinstance(hp, ast.Constant) else ast.unparse(hp),
                                "types": tkind,
                                "typeNames": _name(t) if tkind == "given" else [],
                                "baseType": (_name(args.get("base_type")) or [None])[0]
                                if not (isinstance(args.get("base_type"), ast.Constant) and args["base_type"].value is None)
                                else None,
                                "validator": (_name(args.get("validator")) or [None])[0]
                                if not (isinstance(args.get("validator"), ast.Constant) and args["validator"].value is None)
                                else None,
                                "deletable": bool(isinstance(dl, ast.Constant) and dl.value),
                            }
                        )
    return decls


def template_steps(maker):
    """The order of the observable effects of a setter template, OBSERVED by running the setter the working tree
    generates on a probe object (not parsed: a harmless rewrite of utilities.py - a helper function, renamed locals,
    a restructured condition - leaves it unchanged, a reordering of validation and assignment changes it).

    Events: `isinstance` (the type check consults `types`), `convert` (base_type is called), `validate` (the
    validator is called), `assign` (the hidden node's value / the hidden attribute is written).  `latchTypes` is
    reported in front when an empty `types` tuple is resolved once and kept for later instances (observed by
    setting the property on an instance of a second subclass)."""
    import importlib
    import sys

    if REPO not in sys.path:
        sys.path.insert(0, REPO)
    try:
        make = getattr(importlib.import_module("montepy.utilities"), maker)
        log = []

        class LogMeta(type):
            def __instancecheck__(cls, inst):
                log.append("isinstance")
                return isinstance(inst, (Raw, Converted))

        class Accepted(metaclass=LogMeta):
            pass

        class Raw:
            pass

        class Converted:
            def __init__(self, raw):
                log.append("convert")

        def validator(self, value):
            log.append("validate")

        class Node:
            def __init__(self):
                self._v = None

            @property
            def value(self):
                return self._v

            @value.setter
            def value(self, v):
                log.append("assign")
                self._v = v

        class Probe:
            def __init__(self):
                object.__setattr__(self, "_x", Node())

            def __setattr__(self, k, v):
                if k == "_x":
                    log.append("assign")
                object.__setattr__(self, k, v)

            @make("_x", Accepted, Converted, validator)
            def x(self):
                pass

        Probe().x = Raw()
        steps = []
        for ev in log:
            if not steps or steps[-1] != ev:
                steps.append(ev)

        # an empty `types` tuple stands for type(self) of each call: is it latched by the first call?
        class Base:
            def __init__(self):
                object.__setattr__(self, "_y", Node())

            @make("_y", ())
            def y(self):
                pass

        class A(Base):
            pass

        class B(Base):
            pass

        A().y = A()
        try:
            B().y = B()
        except TypeError:
            steps = ["latchTypes"] + steps
        return steps or ["other"]
    except Exception:  # the probe itself failed: nothing is known about the order
        return ["other"]


def lstr(s):
    return json.dumps(s, ensure_ascii=True)


def generate(write):
    decls = collect_decls()
    body = "namespace MontePyVerif.Gen\n\n"
    body += "/-- one statement of a generated setter (montepy/utilities.py), in source order -/\n"
    body += "inductive SetterStep\n  | resolveTypes | latchTypes | isinstance | convert | validate | fetch | assign | other\n"
    body += "  deriving DecidableEq, Repr\n\n"
    body += "inductive TypesArg | absent | emptyTuple | given\n  deriving DecidableEq, Repr\n\n"
    body += "structure SetterDecl where\n  file : String\n  cls : String\n  prop : String\n  pointer : Bool\n  hidden : String\n"
    body += "  types : TypesArg\n  typeNames : List String\n  baseType : Option String\n  validator : Option String\n  deletable : Bool\n"
    body += "  deriving Repr\n\n"
    for maker, lean in (("make_prop_val_node", "valNodeSteps"), ("make_prop_pointer", "pointerSteps")):
        body += f"/-- utilities.py:{maker}.<locals>.setter -/\n"
        body += f"def {lean} : List SetterStep := [" + ", ".join("." + s for s in template_steps(maker)) + "]\n"
    body += "\n/-- every property made by make_prop_val_node / make_prop_pointer -/\ndef setterDecls : List SetterDecl := [\n"
    rows = []
    for d in decls:
        opt = lambda v: "none" if v is None else f"some {lstr(v)}"
        rows.append(
            "  { file := %s, cls := %s, prop := %s, pointer := %s, hidden := %s, types := .%s, typeNames := [%s], baseType := %s, validator := %s, deletable := %s }"
            % (
                lstr(d["file"]),
                lstr(d["cls"]),
                lstr(d["prop"]),
                "true" if d["pointer"] else "false",
                lstr(d["hidden"]),
                d["types"],
                ", ".join(lstr(t) for t in d["typeNames"]),
                opt(d["baseType"]),
                opt(d["validator"]),
                "true" if d["deletable"] else "false",
            )
        )
    body += ",\n".join(rows) + "\n]\n\nend MontePyVerif.Gen\n"
    write("SetterDecls.lean", body)


if __name__ == "__main__":
    print(json.dumps({"valNodeSteps": template_steps("make_prop_val_node"), "pointerSteps": template_steps("make_prop_pointer"), "decls": collect_decls()}, indent=1))
