"""Translator plug-in for C17: shared-state facts of the MontePy source, from its AST (never from running it).

Writes Gen/Setters.lean:
  * templates        — for make_prop_val_node / make_prop_pointer: does the generated `setter` rebind a closure
                        variable (a `nonlocal`/`global` statement, or an assignment to a name bound by the factory)?
  * decls            — every @make_prop_* declaration in montepy/ (file, class, property, template, the `types`
                        expression as text, and its kind: not settable / type(self) / explicit classes)
  * reader / parser  — does read_input_syntax reset the module-global queue before its first yield; does
                        MCNP_Parser.restart clear the shared log; does sly's Parser.parse call self.restart();
                        does MCNP_Object.__init__ restart before parsing; does ReadInput.__init__
  * globalsWritten   — every name under a `global` statement in montepy/ (module state written by functions)
  * classInstances   — class-level attributes bound to a call `Name()` (singletons shared by all instances)
  * processStateCalls — every call / store that sets INTERPRETER-wide state (sys.setrecursionlimit, sys.path, os.chdir,
                        os.environ, warnings filters outside catch_warnings, locale, numpy / decimal / random settings,
                        signal, atexit, gc ...), at module level and inside functions
"""
import ast
import json
import os

REPO = os.environ.get("VERIF_REPO", "/repo")
PKG = os.path.join(REPO, "montepy")
TEMPLATES = ("make_prop_val_node", "make_prop_pointer")
MUTATORS = {"append", "add", "update", "extend", "insert", "pop", "remove", "clear", "setdefault", "discard", "appendleft", "popleft"}


def lstr(s):
    return json.dumps(s, ensure_ascii=True)


def py_files():
    out = []
    for root, dirs, files in os.walk(PKG):
        dirs[:] = sorted(d for d in dirs if d != "__pycache__")
        for f in sorted(files):
            if f.endswith(".py"):
                out.append(os.path.join(root, f))
    return out


def parse(path):
    with open(path) as fh:
        return ast.parse(fh.read())


def bound_names(fn):
    a = fn.args
    names = [x.arg for x in a.posonlyargs + a.args + a.kwonlyargs]
    if a.vararg:
        names.append(a.vararg.arg)
    if a.kwarg:
        names.append(a.kwarg.arg)
    return set(names)


def assigned_names(fn):
    """names (re)bound inside fn's own body, not descending into nested functions"""
    out = set()

    def visit(node):
        for child in ast.iter_child_nodes(node):
            if isinstance(child, (ast.FunctionDef, ast.AsyncFunctionDef, ast.Lambda, ast.ClassDef)):
                continue
            if isinstance(child, ast.Name) and isinstance(child.ctx, (ast.Store, ast.Del)):
                out.add(child.id)
            visit(child)

    visit(fn)
    return out


def template_facts(tree):
    """(template, writesClosure, names) for the nested function `setter` of each factory"""
    facts = []
    for node in tree.body:
        if isinstance(node, ast.FunctionDef) and node.name in TEMPLATES:
            closure = set(bound_names(node))
            written = set()
            found = False
            for sub in ast.walk(node):
                if isinstance(sub, ast.FunctionDef) and sub is not node and sub.name != "setter":
                    closure |= bound_names(sub) if sub.name == "decorator" else set()
            for sub in ast.walk(node):
                if isinstance(sub, ast.FunctionDef) and sub.name in ("setter", "getter", "deleter"):
                    found = found or sub.name == "setter"
                    local = bound_names(sub) | assigned_names(sub)
                    for st in ast.walk(sub):
                        if isinstance(st, (ast.Nonlocal, ast.Global)):
                            written |= set(st.names)
                        # mutation of a captured object: captured[k] = v, captured.attr = v, captured.append(v) ...
                        if isinstance(st, (ast.Subscript, ast.Attribute)) and isinstance(st.ctx, (ast.Store, ast.Del)):
                            base = st.value
                            if isinstance(base, ast.Name) and base.id in closure and base.id not in local:
                                written.add(base.id)
                        if isinstance(st, ast.Call) and isinstance(st.func, ast.Attribute) and st.func.attr in MUTATORS:
                            base = st.func.value
                            if isinstance(base, ast.Name) and base.id in closure and base.id not in local:
                                written.add(base.id)
            facts.append((node.name, bool(written), sorted(written), found))
    return facts


def types_of(call):
    """(text, kind) of the `types` argument of a make_prop_* call"""
    expr = None
    if len(call.args) >= 2:
        expr = call.args[1]
    for kw in call.keywords:
        if kw.arg == "types":
            expr = kw.value
    if expr is None or (isinstance(expr, ast.Constant) and expr.value is None):
        return ("None", "notSettable")
    text = ast.unparse(expr)
    if isinstance(expr, ast.Tuple) and len(expr.elts) == 0:
        return (text, "selfType")
    return (text, "classes")


def decls():
    out = []
    for path in py_files():
        rel = os.path.relpath(path, REPO)
        tree = parse(path)
        for cls in ast.walk(tree):
            if not isinstance(cls, ast.ClassDef):
                continue
            for fn in cls.body:
                if not isinstance(fn, ast.FunctionDef):
                    continue
                for dec in fn.decorator_list:
                    if isinstance(dec, ast.Call) and getattr(dec.func, "id", getattr(dec.func, "attr", None)) in TEMPLATES:
                        name = getattr(dec.func, "id", getattr(dec.func, "attr", None))
                        text, kind = types_of(dec)
                        hidden = dec.args[0].value if dec.args and isinstance(dec.args[0], ast.Constant) else "?"
                        kws = {kw.arg for kw in dec.keywords}
                        has_base = len(dec.args) >= 3 or "base_type" in kws
                        has_val = len(dec.args) >= 4 or "validator" in kws
                        out.append((rel, cls.name, fn.name, name, hidden, text, kind, has_base, has_val))
    return out


def calls_method(fn, owner, method):
    """does fn contain a call  <owner>.<method>(...)  (owner given as dotted text)"""
    for node in ast.walk(fn):
        if isinstance(node, ast.Call) and isinstance(node.func, ast.Attribute) and node.func.attr == method:
            if ast.unparse(node.func.value) == owner:
                return True
    return False


def find_fn(tree, cls, name):
    for node in ast.walk(tree):
        if cls is None and isinstance(node, ast.FunctionDef) and node.name == name:
            return node
        if isinstance(node, ast.ClassDef) and node.name == cls:
            for fn in node.body:
                if isinstance(fn, ast.FunctionDef) and fn.name == name:
                    return fn
    return None


def reader_resets_queue():
    tree = parse(os.path.join(PKG, "input_parser", "input_syntax_reader.py"))
    fn = find_fn(tree, None, "read_input_syntax")
    if fn is None:
        return False
    is_global = False
    for st in fn.body:  # top-level statements of the generator, in order, up to the first one that yields
        if any(isinstance(x, (ast.Yield, ast.YieldFrom)) for x in ast.walk(st)):
            return False
        if isinstance(st, ast.Global) and "reading_queue" in st.names:
            is_global = True
        if isinstance(st, ast.Assign) and is_global:
            if any(isinstance(t, ast.Name) and t.id == "reading_queue" for t in st.targets):
                v = st.value
                empty_call = (
                    isinstance(v, ast.Call)
                    and not v.keywords
                    and ast.unparse(v.func) in ("deque", "list", "collections.deque")
                    and (not v.args or (len(v.args) == 1 and isinstance(v.args[0], (ast.List, ast.Tuple)) and not v.args[0].elts))
                )
                empty_list = isinstance(v, ast.List) and not v.elts
                if empty_call or empty_list:
                    return True
        if isinstance(st, ast.Expr) and is_global and isinstance(st.value, ast.Call) and ast.unparse(st.value.func) == "reading_queue.clear":
            return True
    return False


def observe_reader_resets_queue():
    """OBSERVED (round 7): something is left in the module's queue, a read of a probe file is started and advanced to
    its first yield; is the left-over gone?  -> True / False, or None when it cannot be observed (the queue is a
    mapping, the module or the probe cannot be used): then the syntactic reading `reader_resets_queue` is used.
    The first version only accepted the rebinding written as top-level statements of read_input_syntax itself and
    reported `false` (a failed obligation of C17) when a harmless rewrite moved them into a helper function."""
    import importlib
    import shutil
    import sys
    import tempfile
    import warnings

    tmp = tempfile.mkdtemp()
    try:
        if REPO not in sys.path:
            sys.path.insert(0, REPO)
        isr = importlib.import_module("montepy.input_parser.input_syntax_reader")
        from montepy.input_parser.input_file import MCNP_InputFile

        before = isr.reading_queue
        if isinstance(before, dict) or not hasattr(before, "append"):
            return None
        left_over = ("left over by an abandoned read",)
        path = os.path.join(tmp, "probe.imcnp")
        with open(path, "w") as fh:
            fh.write("probe\n1 0 -1\n\n1 so 1\n\nnps 1\n")
        try:
            before.append(left_over)
            with warnings.catch_warnings():
                warnings.simplefilter("ignore")
                gen = isr.read_input_syntax(MCNP_InputFile(path))
                next(gen)
                now = isr.reading_queue
                still = any(x is left_over for x in (now.values() if isinstance(now, dict) else now))
                gen.close()
            return not still
        finally:
            for q in (before, isr.reading_queue):
                try:
                    while left_over in q:
                        q.remove(left_over)
                except Exception:  # noqa: BLE001
                    pass
    except Exception:  # noqa: BLE001
        return None
    finally:
        shutil.rmtree(tmp, ignore_errors=True)


def safe(fn, default):
    """a fact that cannot be read is reported as `default` (the value no theorem accepts): never an exception"""
    try:
        return fn()
    except Exception:  # noqa: BLE001
        return default


def queue_per_path():
    """is the module-level `reading_queue` a mapping (one queue per key) rather than one queue?"""
    tree = parse(os.path.join(PKG, "input_parser", "input_syntax_reader.py"))
    for st in tree.body:
        if isinstance(st, (ast.Assign, ast.AnnAssign)) and st.value is not None:
            targets = st.targets if isinstance(st, ast.Assign) else [st.target]
            if any(isinstance(t, ast.Name) and t.id == "reading_queue" for t in targets):
                v = st.value
                if isinstance(v, (ast.Dict, ast.DictComp)):
                    return True
                if isinstance(v, ast.Call) and ast.unparse(v.func).split(".")[-1] in ("dict", "defaultdict", "OrderedDict", "WeakValueDictionary", "WeakKeyDictionary"):
                    return True
    for node in ast.walk(tree):  # used as a mapping anywhere: reading_queue[...] / .setdefault / .get
        if isinstance(node, ast.Subscript) and isinstance(node.value, ast.Name) and node.value.id == "reading_queue":
            return True
        if isinstance(node, ast.Call) and isinstance(node.func, ast.Attribute) and node.func.attr in ("setdefault", "get", "items", "keys"):
            if isinstance(node.func.value, ast.Name) and node.func.value.id == "reading_queue":
                return True
    return False


def restart_before_parse(fn, parser_text):
    """inside fn: is there a call parser.restart() positioned (in source order) before the first parser.parse(...)"""
    restart_at = parse_at = None
    for node in ast.walk(fn):
        if isinstance(node, ast.Call) and isinstance(node.func, ast.Attribute) and ast.unparse(node.func.value) == parser_text:
            pos = (node.lineno, node.col_offset)
            if node.func.attr == "restart":
                restart_at = pos if restart_at is None else min(restart_at, pos)
            if node.func.attr == "parse":
                parse_at = pos if parse_at is None else min(parse_at, pos)
    return restart_at is not None and parse_at is not None and restart_at < parse_at


def globals_written():
    out = []
    for path in py_files():
        rel = os.path.relpath(path, REPO)
        for node in ast.walk(parse(path)):
            if isinstance(node, ast.Global):
                for n in node.names:
                    if (rel, n) not in out:
                        out.append((rel, n))
    return out


def class_instances():
    out = []
    for path in py_files():
        rel = os.path.relpath(path, REPO)
        for cls in ast.walk(parse(path)):
            if isinstance(cls, ast.ClassDef):
                for st in cls.body:
                    if isinstance(st, ast.Assign) and isinstance(st.value, ast.Call) and not st.value.args and not st.value.keywords:
                        f = st.value.func
                        fname = ast.unparse(f)
                        if fname in ("set", "dict", "list", "deque") or (fname[:1].isupper() and fname.isidentifier()):
                            for t in st.targets:
                                if isinstance(t, ast.Name):
                                    out.append((rel, cls.name, t.id, fname))
    return out


# ----------------------------------------------------------------------------- runtime writes to shared state
MUTABLE_CTORS = {"list", "dict", "set", "deque", "defaultdict", "OrderedDict", "Counter", "collections.deque"}


def _is_mutable_value(v):
    if isinstance(v, (ast.List, ast.Dict, ast.Set, ast.ListComp, ast.DictComp, ast.SetComp)):
        return True
    if isinstance(v, ast.Call):
        name = ast.unparse(v.func)
        return name in MUTABLE_CTORS or (name.split(".")[-1][:1].isupper())  # an instance of some class
    return False


def package_inventory():
    """names of all classes, of mutable class-level attributes and of mutable module-level names in montepy/"""
    classes, class_mut, module_mut = set(), set(), {}
    for path in py_files():
        tree = parse(path)
        mm = set()
        for st in tree.body:
            if isinstance(st, (ast.Assign, ast.AnnAssign)) and st.value is not None and _is_mutable_value(st.value):
                for t in st.targets if isinstance(st, ast.Assign) else [st.target]:
                    if isinstance(t, ast.Name):
                        mm.add(t.id)
        module_mut[path] = mm
        for node in ast.walk(tree):
            if isinstance(node, ast.ClassDef):
                classes.add(node.name)
                for st in node.body:
                    if isinstance(st, (ast.Assign, ast.AnnAssign)) and st.value is not None and _is_mutable_value(st.value):
                        for t in st.targets if isinstance(st, ast.Assign) else [st.target]:
                            if isinstance(t, ast.Name):
                                class_mut.add(t.id)
    return classes, class_mut, module_mut


def runtime_shared_writes():
    """every statement inside a function body of montepy/ that writes state shared by the whole process:
    (file, kind, target text).  Kinds: class-attr-rebind / class-attr-del (`ClassName.x = `, `cls.x = `,
    `type(self).x = `, `self.__class__.x = `, augmented, `del`), setattr / delattr on a class or module,
    module-attr-rebind (`module.x = `), global-rebind / nonlocal-rebind (assignment to a name declared `global` /
    `nonlocal`: the latter is process-wide when the enclosing function is a decorator factory), item-store and
    mutating-call on a class attribute (also reached through `self.` when the attribute is a mutable class-level
    one) or on a module-level mutable name."""
    classes, class_mut, module_mut = package_inventory()
    all_module_mut = set().union(*module_mut.values()) if module_mut else set()
    out = []

    for path in py_files():
        rel = os.path.relpath(path, REPO)
        tree = parse(path)
        modules = set()  # names bound to modules in this file
        imported_names = set()
        for node in ast.walk(tree):
            if isinstance(node, ast.Import):
                for a in node.names:
                    modules.add((a.asname or a.name).split(".")[0])
            elif isinstance(node, ast.ImportFrom):
                for a in node.names:
                    imported_names.add(a.asname or a.name)
        shared_names_here = module_mut[path] | (imported_names & all_module_mut)

        def is_class_ref(e):
            if isinstance(e, ast.Name):
                return e.id in classes or e.id == "cls"
            if isinstance(e, ast.Call) and isinstance(e.func, ast.Name) and e.func.id == "type" and len(e.args) == 1:
                return True
            if isinstance(e, ast.Attribute) and e.attr == "__class__":
                return True
            if isinstance(e, ast.Attribute) and e.attr in classes:  # module.ClassName
                return True
            return False

        def is_module_ref(e):
            while isinstance(e, ast.Attribute):
                e = e.value
            return isinstance(e, ast.Name) and e.id in modules

        def visit_function(fn):
            local = bound_names(fn) | assigned_names(fn) if not isinstance(fn, ast.Lambda) else set()
            declared = set()
            body_nodes = []

            def collect(node):
                for child in ast.iter_child_nodes(node):
                    if isinstance(child, (ast.FunctionDef, ast.AsyncFunctionDef, ast.Lambda)):
                        visit_function(child)
                        continue
                    if isinstance(child, ast.ClassDef):
                        continue
                    body_nodes.append(child)
                    collect(child)

            collect(fn)
            nonlocals = set()
            for n in body_nodes:
                if isinstance(n, (ast.Global, ast.Nonlocal)):
                    declared |= set(n.names)
                if isinstance(n, ast.Nonlocal):
                    nonlocals |= set(n.names)
            local_only = local - declared

            def is_shared_container(e):
                if isinstance(e, ast.Attribute) and is_class_ref(e.value):
                    return True
                if isinstance(e, ast.Attribute) and isinstance(e.value, ast.Name) and e.value.id == "self" and e.attr in class_mut:
                    return True
                if isinstance(e, ast.Name) and e.id in shared_names_here and e.id not in local_only:
                    return True
                if isinstance(e, ast.Attribute) and is_module_ref(e.value) and e.attr in all_module_mut:
                    return True
                return False

            def target(t, deleting=False):
                if isinstance(t, (ast.Tuple, ast.List)):
                    for x in t.elts:
                        target(x, deleting)
                elif isinstance(t, ast.Starred):
                    target(t.value, deleting)
                elif isinstance(t, ast.Attribute):
                    if is_class_ref(t.value):
                        out.append((rel, "class-attr-del" if deleting else "class-attr-rebind", ast.unparse(t)))
                    elif is_module_ref(t.value) and not (isinstance(t.value, ast.Name) and t.value.id == "self"):
                        out.append((rel, "module-attr-rebind", ast.unparse(t)))
                elif isinstance(t, ast.Subscript):
                    if is_shared_container(t.value):
                        out.append((rel, "item-del" if deleting else "item-store", ast.unparse(t.value)))
                elif isinstance(t, ast.Name):
                    if t.id in declared:
                        out.append((rel, "nonlocal-rebind" if t.id in nonlocals else "global-rebind", t.id))

            for n in body_nodes:
                if isinstance(n, ast.Assign):
                    for t in n.targets:
                        target(t)
                elif isinstance(n, (ast.AugAssign, ast.AnnAssign)):
                    if not (isinstance(n, ast.AnnAssign) and n.value is None):
                        target(n.target)
                elif isinstance(n, ast.Delete):
                    for t in n.targets:
                        target(t, True)
                elif isinstance(n, (ast.For, ast.AsyncFor)):
                    target(n.target)
                elif isinstance(n, (ast.With, ast.AsyncWith)):
                    for item in n.items:
                        if item.optional_vars is not None:
                            target(item.optional_vars)
                elif isinstance(n, ast.NamedExpr):
                    target(n.target)
                elif isinstance(n, ast.Call):
                    f = n.func
                    if isinstance(f, ast.Name) and f.id in ("setattr", "delattr") and n.args:
                        if is_class_ref(n.args[0]) or is_module_ref(n.args[0]):
                            out.append((rel, f.id, ast.unparse(n.args[0])))
                    elif isinstance(f, ast.Attribute) and f.attr in MUTATORS and is_shared_container(f.value):
                        out.append((rel, "mutating-call", ast.unparse(f.value) + "." + f.attr))

        def top(node):
            for child in ast.iter_child_nodes(node):
                if isinstance(child, (ast.FunctionDef, ast.AsyncFunctionDef, ast.Lambda)):
                    visit_function(child)
                else:
                    top(child)

        top(tree)
    return sorted(set(out))


# ----------------------------------------------------------------------------- interpreter-wide settings
# Calls and stores that change state of the INTERPRETER (not of MontePy): what every later call of the process sees.
PROCESS_SETTERS = {
    "sys": {"setrecursionlimit", "setswitchinterval", "settrace", "setprofile", "setdlopenflags", "set_int_max_str_digits",
            "set_asyncgen_hooks", "set_coroutine_origin_tracking_depth", "setcheckinterval"},
    "os": {"chdir", "fchdir", "putenv", "unsetenv", "umask", "chroot", "setuid", "setgid", "nice", "setpriority"},
    "warnings": {"simplefilter", "filterwarnings", "resetwarnings"},
    "locale": {"setlocale"},
    "decimal": {"setcontext"},
    "random": {"seed", "setstate"},
    "numpy": {"seterr", "seterrcall", "set_printoptions", "set_string_function", "setbufsize"},
    "numpy.random": {"seed", "set_state"},
    "signal": {"signal", "alarm", "setitimer", "set_wakeup_fd"},
    "atexit": {"register", "unregister"},
    "gc": {"disable", "enable", "set_threshold", "set_debug", "freeze"},
    "threading": {"setprofile", "settrace", "stack_size", "excepthook"},
    "faulthandler": {"enable", "disable"},
    "logging": {"basicConfig", "disable", "setLoggerClass", "setLogRecordFactory", "captureWarnings"},
    "resource": {"setrlimit"},
    "tempfile": {"tempdir"},
    "time": {"tzset"},
    "importlib": {"invalidate_caches", "reload"},
    "socket": {"setdefaulttimeout"},
    "multiprocessing": {"set_start_method"},
    "builtins": set(),
}
# attributes of stdlib / numpy modules whose rebinding, item store or mutation is process-wide
PROCESS_ATTRS = {
    "sys": {"path", "modules", "meta_path", "path_hooks", "argv", "stdout", "stderr", "stdin", "excepthook", "displayhook",
            "tracebacklimit", "dont_write_bytecode", "warnoptions", "float_repr_style"},
    "os": {"environ", "environb", "linesep", "sep"},
    "warnings": {"filters", "showwarning", "formatwarning"},
    "tempfile": {"tempdir"},
    "builtins": None,  # anything stored on builtins
    "decimal": set(),
}
STD_MODULES = set(PROCESS_SETTERS) | set(PROCESS_ATTRS) | {"np"}


def process_state_calls():
    """every place in montepy/ (module level AND function bodies) that sets interpreter-wide state:
    (file, scope, what, guard).  `scope` is the dotted name of the enclosing function(s) or "<module>" (runs once, at
    import); `guard` is "catch_warnings" for a warnings.* call lexically inside `with warnings.catch_warnings(...)`
    (undone at the end of the block), else "".  Found through the module's import aliases (`import sys as s`,
    `from sys import setrecursionlimit as f`, `import numpy as np`); also `decimal.getcontext().prec = ...` style
    stores on the current context, and item stores / mutating calls on sys.path, sys.modules, os.environ ..."""
    out = []
    for path in py_files():
        rel = os.path.relpath(path, REPO)
        tree = parse(path)
        alias = {}  # local name -> canonical module ("sys", "numpy", "numpy.random" ...)
        func_alias = {}  # local name -> (module, function) for `from module import function`
        for node in ast.walk(tree):
            if isinstance(node, ast.Import):
                for a in node.names:
                    if a.asname:
                        alias[a.asname] = a.name
                    else:
                        alias[a.name.split(".")[0]] = a.name.split(".")[0]
            elif isinstance(node, ast.ImportFrom) and node.module and node.level == 0:
                for a in node.names:
                    full = node.module + "." + a.name
                    if full in PROCESS_SETTERS or a.name in PROCESS_SETTERS and node.module == "":
                        alias[a.asname or a.name] = full
                    elif node.module in PROCESS_SETTERS and a.name in PROCESS_SETTERS[node.module]:
                        func_alias[a.asname or a.name] = (node.module, a.name)
                    elif node.module in PROCESS_ATTRS and (PROCESS_ATTRS[node.module] is None or a.name in PROCESS_ATTRS[node.module]):
                        func_alias[a.asname or a.name] = (node.module, a.name)

        def module_of(e):
            """canonical dotted module an expression denotes, or None"""
            if isinstance(e, ast.Name):
                return alias.get(e.id)
            if isinstance(e, ast.Attribute):
                base = module_of(e.value)
                if base is not None and (base + "." + e.attr) in PROCESS_SETTERS:
                    return base + "." + e.attr
            return None

        def shared_attr(e):
            """(module, attribute) when e denotes a process-wide attribute like sys.path / os.environ"""
            if isinstance(e, ast.Attribute):
                m = module_of(e.value)
                if m in PROCESS_ATTRS and (PROCESS_ATTRS[m] is None or e.attr in PROCESS_ATTRS[m]):
                    return (m, e.attr)
            if isinstance(e, ast.Name) and e.id in func_alias and func_alias[e.id][0] in PROCESS_ATTRS:
                return func_alias[e.id]
            return None

        def visit(node, scope, guard):
            for child in ast.iter_child_nodes(node):
                sc, gd = scope, guard
                if isinstance(child, (ast.FunctionDef, ast.AsyncFunctionDef)):
                    sc = child.name if scope == "<module>" else scope + "." + child.name
                elif isinstance(child, ast.ClassDef):
                    sc = child.name if scope == "<module>" else scope + "." + child.name
                elif isinstance(child, (ast.With, ast.AsyncWith)):
                    for item in child.items:
                        c = item.context_expr
                        if isinstance(c, ast.Call) and ast.unparse(c.func).split(".")[-1] == "catch_warnings":
                            gd = "catch_warnings"
                        if isinstance(c, ast.Call) and ast.unparse(c.func).split(".")[-1] in ("localcontext", "errstate", "printoptions"):
                            gd = ast.unparse(c.func).split(".")[-1]
                if isinstance(child, ast.Call):
                    f = child.func
                    if isinstance(f, ast.Attribute):
                        m = module_of(f.value)
                        if m is not None:
                            m = "numpy" if m == "np" else m
                        if m in PROCESS_SETTERS and f.attr in PROCESS_SETTERS[m]:
                            out.append((rel, sc, f"{m}.{f.attr}", gd if m == "warnings" or gd != "catch_warnings" else ""))
                        elif f.attr in MUTATORS and shared_attr(f.value):
                            out.append((rel, sc, "%s.%s.%s" % (*shared_attr(f.value), f.attr), ""))
                    elif isinstance(f, ast.Name) and f.id in func_alias and func_alias[f.id][0] in PROCESS_SETTERS and func_alias[f.id][1] in PROCESS_SETTERS[func_alias[f.id][0]]:
                        out.append((rel, sc, "%s.%s" % func_alias[f.id], gd))
                    elif isinstance(f, ast.Name) and f.id in ("setattr", "delattr") and child.args and module_of(child.args[0]) in STD_MODULES:
                        out.append((rel, sc, f"{f.id}({module_of(child.args[0])})", ""))
                targets = []
                if isinstance(child, ast.Assign):
                    targets = child.targets
                elif isinstance(child, (ast.AugAssign, ast.AnnAssign)) and not (isinstance(child, ast.AnnAssign) and child.value is None):
                    targets = [child.target]
                elif isinstance(child, ast.Delete):
                    targets = child.targets
                for t in targets:
                    for x in ast.walk(t):
                        if isinstance(x, ast.Attribute) and isinstance(x.ctx, (ast.Store, ast.Del)):
                            if shared_attr(x):
                                out.append((rel, sc, "%s.%s =" % shared_attr(x), ""))
                            elif isinstance(x.value, ast.Call) and ast.unparse(x.value.func).split(".")[-1] in ("getcontext", "get_printoptions", "geterr"):
                                out.append((rel, sc, ast.unparse(x.value.func) + "()." + x.attr + " =", gd))
                        if isinstance(x, ast.Subscript) and isinstance(x.ctx, (ast.Store, ast.Del)) and shared_attr(x.value):
                            out.append((rel, sc, "%s.%s[...] =" % shared_attr(x.value), ""))
                visit(child, sc, gd)

        visit(tree, "<module>", "")
    return sorted(set(out))


def generate(write):
    import sly.yacc

    # every fact through `safe`: a file or function that is not where it was gives the value no theorem accepts
    # (a failed obligation of C17 only), never an exception of the translator (which would stop every check)
    def fn_of(path, cls, name):
        return safe(lambda: find_fn(parse(path), cls, name), None)

    facts = safe(lambda: template_facts(parse(os.path.join(PKG, "utilities.py"))), [])
    pb_path = os.path.join(PKG, "input_parser", "parser_base.py")
    restart = fn_of(pb_path, "MCNP_Parser", "restart")
    restart_clears = restart is not None and calls_method(restart, "self.log", "clear_queue")
    parse_fn = fn_of(pb_path, "MCNP_Parser", "parse")
    parse_checks_log = parse_fn is not None and any(
        isinstance(n, ast.Call) and ast.unparse(n) == "len(self.log)" for n in ast.walk(parse_fn)
    )
    sly_parse = fn_of(sly.yacc.__file__, "Parser", "parse")
    sly_restarts = sly_parse is not None and calls_method(sly_parse, "self", "restart")
    obj = fn_of(os.path.join(PKG, "mcnp_object.py"), "MCNP_Object", "__init__")
    obj_restarts = obj is not None and restart_before_parse(obj, "parser")
    ri = fn_of(os.path.join(PKG, "input_parser", "mcnp_input.py"), "ReadInput", "__init__")
    ri_restarts = ri is not None and restart_before_parse(ri, "self._parser")
    # is the log one object for every parser class?  (class attribute of MCNP_Parser only)
    log_owners = [c for (_, c, a, _) in class_instances() if a == "log"]

    b = lambda x: "true" if x else "false"
    body = "namespace MontePyVerif.Gen.Setters\n\n"
    body += "/-- how a `types` argument of make_prop_* is declared -/\n"
    body += "inductive TypesKind | notSettable | selfType | classes\n  deriving DecidableEq, Repr\n\n"
    body += "structure Decl where\n  file : String\n  cls : String\n  prop : String\n  template : String\n  hidden : String\n  typesText : String\n  kind : TypesKind\n  hasBaseType : Bool\n  hasValidator : Bool\n  deriving DecidableEq, Repr\n\n"
    body += "/-- utilities.py: (factory, the generated setter/getter/deleter rebinds a closure or global name, which names) -/\n"
    body += "def templates : List (String × Bool × List String) := [\n  " + ",\n  ".join(
        f"({lstr(n)}, {b(w)}, [{', '.join(lstr(x) for x in names)}])" for n, w, names, _ in facts
    ) + "]\n\n"
    body += "/-- true iff some generated accessor of some factory writes closure state -/\n"
    body += f"def templatesWriteClosure : Bool := {b(any(w for _, w, _, _ in facts))}\n"
    body += f"def templatesFound : Bool := {b(len(facts) == 2 and all(f for _, _, _, f in facts))}\n\n"
    ds = decls()
    body += f"/-- every @make_prop_* declaration in montepy/ ({len(ds)}) -/\n"
    body += "def decls : List Decl := [\n  " + ",\n  ".join(
        "{ file := %s, cls := %s, prop := %s, template := %s, hidden := %s, typesText := %s, kind := .%s, hasBaseType := %s, hasValidator := %s }"
        % (lstr(f), lstr(c), lstr(p), lstr(t), lstr(h), lstr(tx), k, b(hb), b(hv))
        for f, c, p, t, h, tx, k, hb, hv in ds
    ) + "]\n\n"
    body += "/-- input_syntax_reader.read_input_syntax: whatever an earlier read left in the module-global queue is gone at its first yield -/\n"
    observed = observe_reader_resets_queue()
    resets = observed if observed is not None else safe(reader_resets_queue, False)
    body += f"-- ({'observed on a probe read' if observed is not None else 'not observable: read from the statements of read_input_syntax'})\n"
    body += f"def readerResetsQueue : Bool := {b(resets)}\n"
    body += "/-- input_syntax_reader.reading_queue is a mapping (one queue per key, e.g. per path) rather than one queue -/\n"
    body += f"def queuePerPath : Bool := {b(safe(queue_per_path, True))}\n"
    body += "/-- parser_base.MCNP_Parser.restart calls self.log.clear_queue() -/\n"
    body += f"def restartClearsLog : Bool := {b(restart_clears)}\n"
    body += "/-- sly.yacc.Parser.parse calls self.restart() (so every parse() starts with restart) -/\n"
    body += f"def slyParseRestarts : Bool := {b(sly_restarts)}\n"
    body += "/-- parser_base.MCNP_Parser.parse tests len(self.log) after the parse -/\n"
    body += f"def parseChecksLog : Bool := {b(parse_checks_log)}\n"
    body += "/-- mcnp_object.MCNP_Object.__init__ calls parser.restart() before parser.parse(...) -/\n"
    body += f"def objectInitRestarts : Bool := {b(obj_restarts)}\n"
    body += "/-- mcnp_input.ReadInput.__init__ calls self._parser.restart() before self._parser.parse(...) -/\n"
    body += f"def readInputRestarts : Bool := {b(ri_restarts)}\n"
    body += "/-- classes that bind a class-level `log` object (one entry = one log shared by every parser class) -/\n"
    body += "def logOwners : List String := [" + ", ".join(lstr(c) for c in log_owners) + "]\n\n"
    body += "/-- every name under a `global` statement in montepy/ : (file, name) -/\n"
    body += "def globalsWritten : List (String × String) := [" + ", ".join(f"({lstr(f)}, {lstr(n)})" for f, n in globals_written()) + "]\n\n"
    body += "/-- class-level attributes bound to a fresh instance `Name()` : (file, class, attribute, constructor) -/\n"
    body += "def classInstances : List (String × String × String × String) := [\n  " + ",\n  ".join(
        f"({lstr(f)}, {lstr(c)}, {lstr(a)}, {lstr(k)})" for f, c, a, k in class_instances()
    ) + "]\n\n"
    body += "/-- every statement inside a function body of montepy/ that writes class-level or module-level state at run\n"
    body += "    time: (file, kind, target).  See tools/extractors/c17_setters.py:runtime_shared_writes for the kinds. -/\n"
    body += "def runtimeSharedWrites : List (String × String × String) := [\n  " + ",\n  ".join(
        f"({lstr(f)}, {lstr(k)}, {lstr(t)})" for f, k, t in runtime_shared_writes()
    ) + "]\n\n"
    psc = process_state_calls()
    body += "/-- every place in montepy/ (module level and function bodies) that sets INTERPRETER-wide state — sys.set*,\n"
    body += "    os.chdir/os.environ, warnings filters, locale, numpy/decimal/random settings, signal, atexit, gc, sys.path … :\n"
    body += "    (file, scope (`<module>` = once at import), what, guard (`catch_warnings` = undone at the end of the block)) -/\n"
    body += "def processStateCalls : List (String × String × String × String) := [" + (
        "\n  " + ",\n  ".join(f"({lstr(f)}, {lstr(sc)}, {lstr(w)}, {lstr(g)})" for f, sc, w, g in psc) if psc else ""
    ) + "]\n\n"
    body += "/-- some function of montepy/ calls sys.setrecursionlimit (the limit is interpreter-wide) -/\n"
    body += f"def setsRecursionLimit : Bool := {b(any(w == 'sys.setrecursionlimit' for _, _, w, _ in psc))}\n\n"
    body += "end MontePyVerif.Gen.Setters\n"
    write("Setters.lean", body)
