"""Translator plug-in for C18: which surface class each mnemonic is built as, how many constants that class
accepts, which classes override find_duplicate_surfaces, whose find_duplicate_surfaces every built class runs, and
what the base class's one does.  -> lean/MontePyVerif/Gen/Dedupe.lean

Everything is read from the imported code (surface_builder is *called* on a sample card for every SurfaceType and
every count of constants 1..12; the override list is read from the class dictionaries, the provider from the MRO;
what the base class's finder does is observed by calling it on probe surfaces of every class that runs it)."""
import ast
import inspect
import json
import textwrap
import warnings


def generate(write):
    import montepy
    from montepy.input_parser.mcnp_input import Input
    from montepy.input_parser.block_type import BlockType
    from montepy.surfaces.surface_builder import surface_builder
    from montepy.surfaces.surface_type import SurfaceType
    from montepy.surfaces.surface import Surface
    import montepy.surfaces as pkg

    rows = []
    built = {}
    with warnings.catch_warnings():
        warnings.simplefilter("ignore")
        for st in SurfaceType:
            accepted = []
            cls = None
            for n in range(1, 13):
                try:
                    s = surface_builder(Input([f"1 {st.value} " + " ".join(["1.0"] * n)], BlockType.SURFACE))
                except Exception:  # noqa: BLE001  (a class that refuses this number of constants)
                    continue
                accepted.append(n)
                cls = type(s).__name__
                built.setdefault(cls, type(s))
            rows.append((st.value, cls or "?", accepted))
    finders = set()
    seen = set()
    import pkgutil, importlib

    for m in pkgutil.iter_modules(pkg.__path__):
        mod = importlib.import_module(pkg.__name__ + "." + m.name)
        for _, c in inspect.getmembers(mod, inspect.isclass):
            if issubclass(c, Surface) and c is not Surface and c.__name__ not in seen:
                seen.add(c.__name__)
                if "find_duplicate_surfaces" in c.__dict__:
                    finders.add(c.__name__)
    # whose find_duplicate_surfaces a built class runs (first class of the MRO that defines it)
    providers = [
        (name, next(k.__name__ for k in c.__mro__ if "find_duplicate_surfaces" in k.__dict__))
        for name, c in built.items()
    ]
    # what the base class's finder DOES (observed since round 7; the first version compared the statements of
    # Surface.find_duplicate_surfaces, printed by ast.unparse, with the text "return []" and raised a
    # no-failing-input-found alarm when a behaviour-preserving rewrite named the empty list): every class that runs
    # the base finder is built for every mnemonic and number of constants it accepts and asked for the duplicates of
    # its first surface among: itself, an identical card, one whose last constant differs by 1e-9, the card with every
    # other accepted number of constants (same leading constants), a reflecting twin - under a tiny, a moderate
    # and a huge tolerance.  Reported: every call that did not return an empty list (or raised).
    base_runs = {name for name, prov in providers if prov == Surface.__name__}
    found = []
    probes = 0
    notes = []

    def card(num, t, n, last="1.0", mark=""):
        return Input([f"{mark}{num} {t} " + " ".join(["1.0"] * (n - 1) + [last])], BlockType.SURFACE)

    with warnings.catch_warnings():
        warnings.simplefilter("ignore")
        for t, cname, accepted in rows:
            if cname not in base_runs:
                continue
            for n in accepted:
                try:
                    group = [surface_builder(card(1, t, n)), surface_builder(card(2, t, n)),
                             surface_builder(card(3, t, n, "1.000000001"))]
                    for k, m in enumerate(x for x in accepted if x != n):
                        group.append(surface_builder(card(10 + k, t, m)))
                    group.append(surface_builder(card(40, t, n, mark="*")))
                    group.append(surface_builder(card(41, t, n, mark="*")))
                except Exception as e:  # noqa: BLE001
                    notes.append(f"{t}/{n}: probe not built: {type(e).__name__}")
                    continue
                for me in (group[0], group[-1]):
                    for tol in (1e-12, 1e-3, 1e9):
                        try:
                            got = me.find_duplicate_surfaces(group, tol)
                            probes += 1
                            if not (isinstance(got, list) and len(got) == 0):
                                try:
                                    shown = "[" + ", ".join(str(x.number) for x in got) + "]"
                                except Exception:  # noqa: BLE001
                                    shown = type(got).__name__
                                found.append((f"{t} with {n} constants, surface {me.number}, tolerance {tol:g}", shown))
                        except Exception as e:  # noqa: BLE001
                            probes += 1
                            found.append((f"{t} with {n} constants, surface {me.number}, tolerance {tol:g}",
                                          "raises " + type(e).__name__))
    total_found = len(found)
    found = found[:12]
    # for the reader only (no theorem consumes it): the statements of the base finder as ast.unparse prints them
    try:
        fn = ast.parse(textwrap.dedent(inspect.getsource(Surface.__dict__["find_duplicate_surfaces"]))).body[0]
        stmts = fn.body
        if stmts and isinstance(stmts[0], ast.Expr) and isinstance(getattr(stmts[0], "value", None), ast.Constant) \
                and isinstance(stmts[0].value.value, str):
            stmts = stmts[1:]
        base_body = "\n".join(ast.unparse(x) for x in stmts)
    except Exception as e:  # noqa: BLE001
        base_body = f"(source not available: {type(e).__name__})"
    if len(base_body) > 600:
        base_body = base_body[:600] + " ..."
    q = lambda s: json.dumps(s)  # noqa: E731
    body = "namespace MontePyVerif.Gen.Dedupe\n\n"
    body += "/-- per SurfaceType mnemonic: the class surface_builder constructs and the numbers of constants (1..12) it accepts -/\n"
    body += "def surfaceClassTable : List (String × String × List Nat) := [\n"
    body += ",\n".join(f"  ({q(t)}, {q(c)}, [{', '.join(map(str, ns))}])" for t, c, ns in rows)
    body += "]\n\n"
    body += "/-- subclasses of Surface that override find_duplicate_surfaces (the base class returns []) -/\n"
    body += "def finderClasses : List String := [" + ", ".join(q(c) for c in sorted(finders)) + "]\n"
    body += "\n/-- for every class surface_builder builds: the class (first of its MRO) whose find_duplicate_surfaces it runs -/\n"
    body += "def finderProviders : List (String × String) := [" + ", ".join(f"({q(a)}, {q(b)})" for a, b in providers) + "]\n"
    body += "\n/-- number of calls of the base class's finder (surface.py:Surface.find_duplicate_surfaces, run by the classes\n"
    body += "    of `finderProviders` with provider Surface) made on probe surfaces: every mnemonic and number of constants,\n"
    body += "    among identical / nearly equal / longer and shorter / reflecting cards, three tolerances -/\n"
    body += f"def baseFinderProbes : Nat := {probes}\n"
    body += "/-- the probe calls that did not return the empty list: (probe, the numbers returned or the exception); at most 12 shown -/\n"
    body += "def baseFinderFound : List (String × String) := [" + ", ".join(f"({q(a)}, {q(b)})" for a, b in found) + "]\n"
    body += f"def baseFinderFoundCount : Nat := {total_found}\n"
    for n in notes[:20]:
        body += "-- not observed: " + q(n) + "\n"
    if total_found or not probes:
        # for the reader of a failed obligation only (a table that depends on the spelling would be rebuilt for nothing)
        body += "-- the statements of the base finder: " + q(base_body) + "\n"
    body += "\nend MontePyVerif.Gen.Dedupe\n"
    write("Dedupe.lean", body)
