"""Translator plug-in for C18: which surface class each mnemonic is built as, how many constants that class
accepts, which classes override find_duplicate_surfaces, whose find_duplicate_surfaces every built class runs, and
what the base class's one does.  -> lean/MontePyVerif/Gen/Dedupe.lean

Everything is read from the imported code (surface_builder is *called* on a sample card for every SurfaceType and
every count of constants 1..12; the override list is read from the class dictionaries, the provider from the MRO,
the statements of Surface.find_duplicate_surfaces from its source through ast)."""
import ast
import inspect
import json
import textwrap
import warnings


def generate(write):
    import montepy
    from montepy.input_parser.mcnp_input import Input
    from montepy.input_parser.block_type import BlockType
    from montepy.surfaces.surface_builder import surface_builder
    from montepy.surfaces.surface_type import SurfaceType
    from montepy.surfaces.surface import Surface
    import montepy.surfaces as pkg

    rows = []
    built = {}
    with warnings.catch_warnings():
        warnings.simplefilter("ignore")
        for st in SurfaceType:
            accepted = []
            cls = None
            for n in range(1, 13):
                try:
                    s = surface_builder(Input([f"1 {st.value} " + " ".join(["1.0"] * n)], BlockType.SURFACE))
                except Exception:  # noqa: BLE001  (a class that refuses this number of constants)
                    continue
                accepted.append(n)
                cls = type(s).__name__
                built.setdefault(cls, type(s))
            rows.append((st.value, cls or "?", accepted))
    finders = set()
    seen = set()
    import pkgutil, importlib

    for m in pkgutil.iter_modules(pkg.__path__):
        mod = importlib.import_module(pkg.__name__ + "." + m.name)
        for _, c in inspect.getmembers(mod, inspect.isclass):
            if issubclass(c, Surface) and c is not Surface and c.__name__ not in seen:
                seen.add(c.__name__)
                if "find_duplicate_surfaces" in c.__dict__:
                    finders.add(c.__name__)
    # whose find_duplicate_surfaces a built class runs (first class of the MRO that defines it)
    providers = [
        (name, next(k.__name__ for k in c.__mro__ if "find_duplicate_surfaces" in k.__dict__))
        for name, c in built.items()
    ]
    # the statements of the base class's finder (docstring dropped), as ast.unparse prints them
    fn = ast.parse(textwrap.dedent(inspect.getsource(Surface.__dict__["find_duplicate_surfaces"]))).body[0]
    stmts = fn.body
    if stmts and isinstance(stmts[0], ast.Expr) and isinstance(getattr(stmts[0], "value", None), ast.Constant) \
            and isinstance(stmts[0].value.value, str):
        stmts = stmts[1:]
    base_body = "\n".join(ast.unparse(x) for x in stmts)
    if len(base_body) > 600:
        base_body = base_body[:600] + " ..."
    q = lambda s: json.dumps(s)  # noqa: E731
    body = "namespace MontePyVerif.Gen.Dedupe\n\n"
    body += "/-- per SurfaceType mnemonic: the class surface_builder constructs and the numbers of constants (1..12) it accepts -/\n"
    body += "def surfaceClassTable : List (String × String × List Nat) := [\n"
    body += ",\n".join(f"  ({q(t)}, {q(c)}, [{', '.join(map(str, ns))}])" for t, c, ns in rows)
    body += "]\n\n"
    body += "/-- subclasses of Surface that override find_duplicate_surfaces (the base class returns []) -/\n"
    body += "def finderClasses : List String := [" + ", ".join(q(c) for c in sorted(finders)) + "]\n"
    body += "\n/-- for every class surface_builder builds: the class (first of its MRO) whose find_duplicate_surfaces it runs -/\n"
    body += "def finderProviders : List (String × String) := [" + ", ".join(f"({q(a)}, {q(b)})" for a, b in providers) + "]\n"
    body += "\n/-- the statements of surface.py:Surface.find_duplicate_surfaces (the base class's; docstring dropped) -/\n"
    body += "def baseFinderBody : String := " + q(base_body) + "\n"
    body += "\nend MontePyVerif.Gen.Dedupe\n"
    write("Dedupe.lean", body)
