"""Translator plug-in for C18: which surface class each mnemonic is built as, how many constants that class
accepts, and which classes override find_duplicate_surfaces.  -> lean/MontePyVerif/Gen/Dedupe.lean

Everything is read from the imported code (surface_builder is *called* on a sample card for every SurfaceType and
every count of constants 1..12; the override list is read from the class dictionaries)."""
import inspect
import json
import warnings


def generate(write):
    import montepy
    from montepy.input_parser.mcnp_input import Input
    from montepy.input_parser.block_type import BlockType
    from montepy.surfaces.surface_builder import surface_builder
    from montepy.surfaces.surface_type import SurfaceType
    from montepy.surfaces.surface import Surface
    import montepy.surfaces as pkg

    rows = []
    with warnings.catch_warnings():
        warnings.simplefilter("ignore")
        for st in SurfaceType:
            accepted = []
            cls = None
            for n in range(1, 13):
                try:
                    s = surface_builder(Input([f"1 {st.value} " + " ".join(["1.0"] * n)], BlockType.SURFACE))
                except Exception:  # noqa: BLE001  (a class that refuses this number of constants)
                    continue
                accepted.append(n)
                cls = type(s).__name__
            rows.append((st.value, cls or "?", accepted))
    finders = set()
    seen = set()
    import pkgutil, importlib

    for m in pkgutil.iter_modules(pkg.__path__):
        mod = importlib.import_module(pkg.__name__ + "." + m.name)
        for _, c in inspect.getmembers(mod, inspect.isclass):
            if issubclass(c, Surface) and c is not Surface and c.__name__ not in seen:
                seen.add(c.__name__)
                if "find_duplicate_surfaces" in c.__dict__:
                    finders.add(c.__name__)
    q = lambda s: json.dumps(s)  # noqa: E731
    body = "namespace MontePyVerif.Gen.Dedupe\n\n"
    body += "/-- per SurfaceType mnemonic: the class surface_builder constructs and the numbers of constants (1..12) it accepts -/\n"
    body += "def surfaceClassTable : List (String × String × List Nat) := [\n"
    body += ",\n".join(f"  ({q(t)}, {q(c)}, [{', '.join(map(str, ns))}])" for t, c, ns in rows)
    body += "]\n\n"
    body += "/-- subclasses of Surface that override find_duplicate_surfaces (the base class returns []) -/\n"
    body += "def finderClasses : List String := [" + ", ".join(q(c) for c in sorted(finders)) + "]\n"
    body += "\nend MontePyVerif.Gen.Dedupe\n"
    write("Dedupe.lean", body)
