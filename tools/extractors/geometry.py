"""Translator plug-in for C02: the constants of the geometry code that the model and theorems consume.

* the values of `geometry_operators.Operator` (the symbols MontePy writes and looks for),
* the operator text `HalfSpace._ensure_has_nodes` gives to a new node, per operator (read from the AST of the
  function: the string constants assigned to `operator` under `self.operator == Operator.X`),
* the parenthesis tokens `HalfSpace._link_child` creates (the `PaddingNode("(")`, `PaddingNode(")")` constants).
"""
import ast
import inspect
import json
import textwrap


def lstr(s):
    return json.dumps(s, ensure_ascii=True)


def generate(write):
    from montepy.geometry_operators import Operator
    from montepy.surfaces.half_space import HalfSpace

    src = textwrap.dedent(inspect.getsource(HalfSpace._ensure_has_nodes))
    tree = ast.parse(src)
    new_text = []
    for node in ast.walk(tree):
        if isinstance(node, ast.If) and isinstance(node.test, ast.Compare):
            t = node.test
            # self.operator == Operator.X
            if (
                isinstance(t.left, ast.Attribute) and t.left.attr == "operator"
                and len(t.comparators) == 1 and isinstance(t.comparators[0], ast.Attribute)
                and isinstance(t.comparators[0].value, ast.Name) and t.comparators[0].value.id == "Operator"
            ):
                for st in node.body:
                    if (
                        isinstance(st, ast.Assign) and len(st.targets) == 1 and isinstance(st.targets[0], ast.Name)
                        and st.targets[0].id == "operator" and isinstance(st.value, ast.Constant) and isinstance(st.value.value, str)
                    ):
                        new_text.append((t.comparators[0].attr, st.value.value))
    parens = []
    link = getattr(HalfSpace, "_link_child", None)
    if link is not None:
        for node in ast.walk(ast.parse(textwrap.dedent(inspect.getsource(link)))):
            if (
                isinstance(node, ast.Call) and isinstance(node.func, ast.Name) and node.func.id == "PaddingNode"
                and len(node.args) == 1 and isinstance(node.args[0], ast.Constant) and isinstance(node.args[0].value, str)
            ):
                parens.append(node.args[0].value)
    def codes(t):
        return "[" + ", ".join(str(ord(ch)) for ch in t) + "]"

    nt = dict(new_text)
    ov = {o.name: o.value for o in Operator}
    body = "namespace MontePyVerif.Gen\n\n"
    body += "/-- geometry_operators.Operator: (name, value) -/\n"
    body += "def operatorValues : List (String × String) := [" + ", ".join(f"({lstr(o.name)}, {lstr(o.value)})" for o in Operator) + "]\n"
    body += "/-- the same values as code points (kernel-reducible) -/\n"
    body += f"def operatorUnionCodes : List Nat := {codes(ov.get('UNION', ''))}\n"
    body += f"def operatorComplementCodes : List Nat := {codes(ov.get('COMPLEMENT', ''))}\n"
    body += "/-- half_space.py:HalfSpace._ensure_has_nodes: the operator text of a new node, per operator -/\n"
    body += "def newOperatorText : List (String × String) := [" + ", ".join(f"({lstr(a)}, {lstr(b)})" for a, b in new_text) + "]\n"
    body += f"def newOprInterCodes : List Nat := {codes(nt.get('INTERSECTION', ''))}\n"
    body += f"def newOprUnionCodes : List Nat := {codes(nt.get('UNION', ''))}\n"
    body += f"def newOprComplCodes : List Nat := {codes(nt.get('COMPLEMENT', ''))}\n"
    body += "/-- half_space.py:HalfSpace._link_child: the tokens of new parentheses (start_pad, end_pad) -/\n"
    body += "def newParentheses : List String := [" + ", ".join(lstr(p) for p in parens) + "]\n"
    body += f"def newParenOpenCodes : List Nat := {codes(parens[0] if len(parens) > 0 else '')}\n"
    body += f"def newParenCloseCodes : List Nat := {codes(parens[1] if len(parens) > 1 else '')}\n"
    body += "\nend MontePyVerif.Gen\n"
    write("Geometry.lean", body)
