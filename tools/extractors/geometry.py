"""Translator plug-in for C02: the constants of the geometry code that the model and theorems consume.

* the values of `geometry_operators.Operator` (the symbols MontePy writes and looks for),
* the operator text a HalfSpace that was built in Python (no syntax node yet) gets for its new node, per operator,
* the parenthesis tokens put around a child that needs them.

The last two are OBSERVED (since round 7): probe HalfSpaces are built from scratch (`11 & -22`, `11 | -22`, `~cell 33`,
`~11`, `(11 | -22) & 44`), the working tree's `_ensure_has_nodes` is run on them (the step `_update_values` starts
with; `_update_values` itself when the tree has no method of that name) and the text around the leaves' numbers in
`node.format()` is recorded.  The first version read string constants from the AST of the two named methods
`HalfSpace._ensure_has_nodes` / `HalfSpace._link_child` and raised a no-failing-input-found alarm when a
behaviour-preserving rewrite moved them into helpers.  A fact that cannot be observed (a probe raises, the leaves'
numbers are not found in the text, two probes disagree) is emitted as the empty text with the reason in a comment:
the translator never raises, and only the theorems over the geometry model fail to build.
"""
import json
import warnings


def lstr(s):
    return json.dumps(s, ensure_ascii=True)


def observe_new_texts():
    """-> (operator texts [(Operator name, text)], parentheses [open, close] or [], notes [str])"""
    from montepy.surfaces.half_space import HalfSpace, UnitHalfSpace

    notes = []

    def leaf(n, side=True, is_cell=False):
        return UnitHalfSpace(n, side, is_cell)

    def text(hs):
        run = getattr(hs, "_ensure_has_nodes", None) or getattr(hs, "_update_values")
        run()
        return hs.node.format()

    def attempt(name, build):
        try:
            with warnings.catch_warnings():
                warnings.simplefilter("ignore")
                t = text(build())
            if not isinstance(t, str):
                raise TypeError(f"format() gave {type(t).__name__}")
            return t
        except Exception as e:  # noqa: BLE001  (an unknown fact, never a failure of the translator)
            notes.append(f"{name}: {type(e).__name__}: {e}"[:200])
            return None

    def between(name, t, first, second):
        """the text between the leaves `first` and `second` when t is first + text + second"""
        if t is None:
            return None
        if t.startswith(first) and t.endswith(second) and len(t) >= len(first) + len(second):
            return t[len(first): len(t) - len(second)]
        notes.append(f"{name}: {t!r} is not {first!r} ... {second!r}")
        return None

    oprs = []
    inter = between("INTERSECTION", attempt("INTERSECTION", lambda: leaf(11) & leaf(22, False)), "11", "-22")
    union = between("UNION", attempt("UNION", lambda: leaf(11) | leaf(22, False)), "11", "-22")
    compl = between("COMPLEMENT", attempt("COMPLEMENT", lambda: ~leaf(33, True, True)), "", "33")
    for name, val in (("INTERSECTION", inter), ("UNION", union), ("COMPLEMENT", compl)):
        if val is not None:
            oprs.append((name, val))
    parens = []
    # the complement of a surface half-space needs parentheses: compl + "(" + "11" + ")"
    t = attempt("parentheses", lambda: ~leaf(11))
    if t is not None and compl is not None:
        if t.startswith(compl) and t.count("11") == 1:
            o, c = t[len(compl):].split("11")
            parens = [o, c]
        else:
            notes.append(f"parentheses: {t!r} is not {compl!r} ( 11 )")
    # a union under an intersection needs them too; it has to tell the same
    t2 = attempt("parentheses2", lambda: (leaf(11) | leaf(22, False)) & leaf(44))
    if parens and t2 is not None and inter is not None and union is not None:
        want = parens[0] + "11" + union + "-22" + parens[1] + inter + "44"
        if t2 != want:
            notes.append(f"parentheses: probes disagree: {t2!r} against {want!r}")
            parens = []
    elif parens and t2 is None:
        parens = []
    return oprs, parens, notes


def generate(write):
    from montepy.geometry_operators import Operator

    try:
        new_text, parens, notes = observe_new_texts()
    except Exception as e:  # noqa: BLE001  (unknown facts; the theorems over them fail, the translator does not)
        new_text, parens, notes = [], [], [f"probes could not be built: {type(e).__name__}: {e}"[:200]]
    def codes(t):
        return "[" + ", ".join(str(ord(ch)) for ch in t) + "]"

    nt = dict(new_text)
    ov = {o.name: o.value for o in Operator}
    body = "namespace MontePyVerif.Gen\n\n"
    body += "/-- geometry_operators.Operator: (name, value) -/\n"
    body += "def operatorValues : List (String × String) := [" + ", ".join(f"({lstr(o.name)}, {lstr(o.value)})" for o in Operator) + "]\n"
    body += "/-- the same values as code points (kernel-reducible) -/\n"
    body += f"def operatorUnionCodes : List Nat := {codes(ov.get('UNION', ''))}\n"
    body += f"def operatorComplementCodes : List Nat := {codes(ov.get('COMPLEMENT', ''))}\n"
    body += "/-- half_space.py:HalfSpace._ensure_has_nodes: the operator text of a new node, per operator (observed on probes) -/\n"
    body += "def newOperatorText : List (String × String) := [" + ", ".join(f"({lstr(a)}, {lstr(b)})" for a, b in new_text) + "]\n"
    body += f"def newOprInterCodes : List Nat := {codes(nt.get('INTERSECTION', ''))}\n"
    body += f"def newOprUnionCodes : List Nat := {codes(nt.get('UNION', ''))}\n"
    body += f"def newOprComplCodes : List Nat := {codes(nt.get('COMPLEMENT', ''))}\n"
    body += "/-- half_space.py:HalfSpace._link_child: the tokens of new parentheses (start_pad, end_pad) (observed on probes) -/\n"
    body += "def newParentheses : List String := [" + ", ".join(lstr(p) for p in parens) + "]\n"
    body += f"def newParenOpenCodes : List Nat := {codes(parens[0] if len(parens) > 0 else '')}\n"
    body += f"def newParenCloseCodes : List Nat := {codes(parens[1] if len(parens) > 1 else '')}\n"
    for n in notes:
        body += "-- not observed: " + lstr(n) + "\n"
    body += "\nend MontePyVerif.Gen\n"
    write("Geometry.lean", body)
