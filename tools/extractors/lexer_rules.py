"""Translator plug-in: the regular expressions of MontePy's SLY lexers as terms of `MontePyVerif.Regex.Re`.

generate(write) emits Gen/LexRules.lean.  For each of the five lexer classes of `montepy/input_parser/tokens.py`
the MASTER regular expression SLY compiled (`Lexer._master_re.pattern`: the alternation of `(?P<TOKEN>pattern)` in
rule order) is parsed with CPython's own parser (`re._parser.parse(pattern, reflags)`), the top-level BRANCH is
split back into the rules (named group -> token), and every rule's parse tree is emitted as a Lean term.
Also emitted: `literals`, `ignore`, the action function of every token (`_token_funcs[name].__qualname__`),
`_KEYWORDS`, `_PARTICLES`, `_SURFACE_TYPES`, the `_EXPRESSIONS` shortcut patterns and `_NUCLIDE_INPUTS`.

The translation is exact or it raises: an sre opcode, flag, or construct that has no counterpart in
`Model/Regex.lean` is a `TranslationError` (the translator then fails and every check reports a machinery
failure) — nothing is approximated.
"""

import re

try:  # Python >= 3.11
    import re._parser as sre_parse
    import re._constants as sre_c
except ImportError:  # pragma: no cover
    import sre_parse
    import sre_constants as sre_c


class TranslationError(Exception):
    pass


ALLOWED_FLAGS = re.IGNORECASE | re.VERBOSE | re.UNICODE

CATS = {
    sre_c.CATEGORY_DIGIT: "Cat.digit",
    sre_c.CATEGORY_SPACE: "Cat.space",
    sre_c.CATEGORY_WORD: "Cat.word",
    sre_c.CATEGORY_NOT_DIGIT: "Cat.notDigit",
    sre_c.CATEGORY_NOT_SPACE: "Cat.notSpace",
    sre_c.CATEGORY_NOT_WORD: "Cat.notWord",
}


def lchar(o):
    if o >= 128:
        raise TranslationError(f"non-ASCII character {o:#x} in a pattern (the model's alphabet is ASCII)")
    ch = chr(o)
    if ch.isalnum() or ch in " !#$%&()*+,-./:;<=>?@[]^_{|}~":
        return f"'{ch}'"
    return f"(Char.ofNat {o})"


def lstr(s):
    out = ['"']
    for ch in s:
        o = ord(ch)
        if ch == '"':
            out.append('\\"')
        elif ch == "\\":
            out.append("\\\\")
        elif ch == "\n":
            out.append("\\n")
        elif ch == "\t":
            out.append("\\t")
        elif 32 <= o < 127:
            out.append(ch)
        else:
            out.append("\\u{%x}" % o)
    out.append('"')
    return "".join(out)


# ------------------------------------------------------------------ a small mirror of Re (for the nullable test)
def nullable(t):
    k = t[0]
    if k == "eps":
        return True
    if k in ("lit", "any", "set"):
        return False
    if k == "cat":
        return nullable(t[1]) and nullable(t[2])
    if k == "alt":
        return nullable(t[1]) or nullable(t[2])
    if k == "rep":
        return t[2] == 0 or nullable(t[1])
    if k in ("nla", "eol"):
        return True
    raise TranslationError(k)


def seq(items):
    if not items:
        return ("eps",)
    out = items[-1]
    for it in reversed(items[:-1]):
        out = ("cat", it, out)
    return out


def tr_set(av):
    neg = False
    items = []
    for i, (op, a) in enumerate(av):
        if op is sre_c.NEGATE:
            if i != 0:
                raise TranslationError("NEGATE not at the front of a set")
            neg = True
        elif op is sre_c.LITERAL:
            items.append(f"Item.ch {lchar(a)}")
        elif op is sre_c.RANGE:
            items.append(f"Item.range {lchar(a[0])} {lchar(a[1])}")
        elif op is sre_c.CATEGORY:
            if a not in CATS:
                raise TranslationError(f"category {a}")
            items.append(f"Item.cat {CATS[a]}")
        else:
            raise TranslationError(f"set member {op}")
    return ("set", neg, items)


def tr_seq(sub, top_match=False):
    """a SubPattern (sequence of (op, av)) -> tree.  top_match: the pattern is used with re.match at position 0,
    where a leading `^` is true by construction"""
    items = []
    for i, (op, av) in enumerate(sub):
        if op is sre_c.LITERAL:
            lchar(av)
            items.append(("lit", av))
        elif op is sre_c.NOT_LITERAL:
            items.append(("set", True, [f"Item.ch {lchar(av)}"]))
        elif op is sre_c.ANY:
            items.append(("any",))
        elif op is sre_c.IN:
            items.append(tr_set(av))
        elif op is sre_c.BRANCH:
            if av[0] is not None:
                raise TranslationError("BRANCH with a state")
            alts = [tr_seq(a) for a in av[1]]
            out = alts[-1]
            for a in reversed(alts[:-1]):
                out = ("alt", a, out)
            items.append(out)
        elif op is sre_c.MAX_REPEAT:
            lo, hi, body = av
            b = tr_seq(body)
            if nullable(b):
                raise TranslationError("a repetition whose body may match the empty string (sre's empty-iteration rule is not modelled)")
            items.append(("rep", b, int(lo), None if hi is sre_c.MAXREPEAT else int(hi)))
        elif op is sre_c.SUBPATTERN:
            group, add_flags, del_flags, p = av
            if add_flags or del_flags:
                raise TranslationError("scoped inline flags")
            items.append(tr_seq(p))
        elif op is sre_c.ASSERT_NOT:
            direction, p = av
            if direction != 1:
                raise TranslationError("look-behind")
            items.append(("nla", tr_seq(p)))
        elif op is sre_c.AT:
            if av is sre_c.AT_END:
                items.append(("eol",))
            elif av is sre_c.AT_BEGINNING and top_match and i == 0:
                continue
            else:
                raise TranslationError(f"anchor {av} at item {i}")
        else:
            raise TranslationError(f"sre opcode {op} is not translated")
    return seq(items)


def emit(t):
    k = t[0]
    if k == "eps":
        return "Re.eps"
    if k == "lit":
        return f"Re.lit {lchar(t[1])}"
    if k == "any":
        return "Re.any"
    if k == "set":
        return f"Re.set {'true' if t[1] else 'false'} [{', '.join(t[2])}]"
    if k == "cat":
        return f"Re.cat ({emit(t[1])}) ({emit(t[2])})"
    if k == "alt":
        return f"Re.alt ({emit(t[1])}) ({emit(t[2])})"
    if k == "rep":
        mx = "none" if t[3] is None else f"(some {t[3]})"
        return f"Re.rep ({emit(t[1])}) {t[2]} {mx}"
    if k == "nla":
        return f"Re.nla ({emit(t[1])})"
    if k == "eol":
        return "Re.eol"
    raise TranslationError(k)


def parse(pattern, flags):
    p = sre_parse.parse(pattern, flags)
    final = p.state.flags
    if final & ~ALLOWED_FLAGS:
        raise TranslationError(f"flags {final!r} of {pattern!r}: only IGNORECASE, VERBOSE (and the implicit UNICODE) are modelled")
    return p, bool(final & re.IGNORECASE)


def split_master(L):
    """[(token, tree)] in rule order, ic"""
    p, ic = parse(L._master_re.pattern, L.reflags)
    names = {gid: name for name, gid in p.state.groupdict.items()}
    if len(p) != 1 or p[0][0] is not sre_c.BRANCH:
        # a lexer with a single rule
        branches = [p]
    else:
        branches = p[0][1][1]
    out = []
    for b in branches:
        if len(b) != 1 or b[0][0] is not sre_c.SUBPATTERN or b[0][1][0] not in names:
            raise TranslationError("the master regular expression is not an alternation of named groups")
        gid, add_flags, del_flags, sub = b[0][1]
        if add_flags or del_flags:
            raise TranslationError("scoped inline flags")
        out.append((names[gid], tr_seq(sub)))
    rule_names = [n[7:] if n.startswith("ignore_") else n for n, _ in L._rules]
    if [n for n, _ in out] != rule_names:
        raise TranslationError(f"rule order {rule_names} != groups of the master regex {[n for n, _ in out]}")
    return out, ic


def lname(cls_name):
    return (cls_name[0].lower() + cls_name[1:]).replace("_", "")


def generate(write):
    from montepy.input_parser import tokens as T
    import sly.lex

    body = "import MontePyVerif.Model.Regex\n"
    body += "/-! The lexers of `montepy/input_parser/tokens.py`: every regular expression as CPython's `re._parser` reads it.\n"
    body += "    Emitted by `tools/extractors/lexer_rules.py`; consumed by `Model/Lexer.lean`, `Props/C12Lexer.lean`, `Driver/Lex.lean`. -/\n"
    body += "namespace MontePyVerif.Gen.LexRules\nopen MontePyVerif.Regex\n\n"
    pool = {}  # Lean term -> name
    defs = []

    def intern(tree, hint):
        term = emit(tree)
        if term not in pool:
            name = f"re{len(pool):02d}_{hint}"
            pool[term] = name
            defs.append(f"def {name} : Re :=\n  {term}\n")
        return pool[term]

    classes = [T.MCNP_Lexer, T.ParticleLexer, T.CellLexer, T.DataLexer, T.SurfaceLexer]
    cls_bodies = []
    for L in classes:
        n = lname(L.__name__)
        rules, ic = split_master(L)
        if L.regex_module is not re:
            raise TranslationError("regex_module is not re")
        if L.ignore or L._ignored_tokens:
            raise TranslationError("ignore / ignore_ rules are not modelled")
        if L._remapping:
            raise TranslationError("token remapping is not modelled")
        if L.error is not sly.lex.Lexer.error:
            raise TranslationError("a lexer defines its own error(): not modelled")
        for lit in L.literals:
            if len(lit) != 1:
                raise TranslationError("multi-character literal")
        rl = []
        src = dict(L._rules)
        for name, tree in rules:
            ref = intern(tree, name)
            rl.append(f"({lstr(name)}, {ref})")
        funcs = [f"({lstr(k)}, {lstr(v.__qualname__)})" for k, v in L._token_funcs.items() if k in dict(rules)]
        funcs.sort()
        b = f"/-- tokens.py:{L.__name__} — (token, regular expression) in the order of SLY's master regular expression -/\n"
        b += f"def {n}Rules : List (String × Re) := [\n  " + ",\n  ".join(rl) + "]\n"
        b += f"/-- re.IGNORECASE in `reflags` ({int(L.reflags)}) -/\n"
        b += f"def {n}Ic : Bool := {'true' if ic else 'false'}\n"
        b += f"def {n}Literals : List Char := [{', '.join(lchar(ord(c)) for c in sorted(L.literals))}]\n"
        b += f"def {n}Ignore : List Char := [{', '.join(lchar(ord(c)) for c in sorted(set(L.ignore)))}]\n"
        b += f"def {n}IgnoredTokens : List String := [{', '.join(lstr(c) for c in sorted(L._ignored_tokens))}]\n"
        b += f"/-- token -> the action function SLY calls on a match (`_token_funcs`, as `__qualname__`) -/\n"
        b += f"def {n}Funcs : List (String × String) := [\n  " + ",\n  ".join(funcs) + "]\n"
        b += f"def {n}Keywords : List String := [{', '.join(lstr(c) for c in sorted(L._KEYWORDS))}]\n"
        b += f"def {n}Particles : List String := [{', '.join(lstr(c) for c in sorted(getattr(L, '_PARTICLES', [])))}]\n"
        b += f"def {n}SurfaceTypes : List String := [{', '.join(lstr(c) for c in sorted(getattr(L, '_SURFACE_TYPES', [])))}]\n\n"
        cls_bodies.append(b)
    # _EXPRESSIONS: compiled patterns used with .match(value)
    ex = []
    for k, v in T.MCNP_Lexer._EXPRESSIONS.items():
        p, ic = parse(v.pattern, v.flags)
        ref = intern(tr_seq(p, top_match=True), "EXPR_" + k)
        ex.append(f"({lstr(k)}, {'true' if ic else 'false'}, {ref})")
    for L in classes[1:]:
        if L._EXPRESSIONS is not T.MCNP_Lexer._EXPRESSIONS:
            raise TranslationError("a subclass has its own _EXPRESSIONS")
    p, ic = parse(T._NUCLIDE_INPUTS.pattern, T._NUCLIDE_INPUTS.flags)
    nuc = intern(tr_seq(p, top_match=True), "NUCLIDE_INPUTS")
    body += "\n".join(defs) + "\n" + "".join(cls_bodies)
    body += "/-- tokens.py:MCNP_Lexer._EXPRESSIONS (dict order): (token, IGNORECASE, pattern used with `.match`) -/\n"
    body += "def shortcutExpressions : List (String × Bool × Re) := [\n  " + ",\n  ".join(ex) + "]\n\n"
    body += "/-- tokens.py:_NUCLIDE_INPUTS (used with `.match`) -/\n"
    body += f"def nuclideInputs : Re := {nuc}\ndef nuclideInputsIc : Bool := {'true' if ic else 'false'}\n"
    body += "\nend MontePyVerif.Gen.LexRules\n"
    write("LexRules.lean", body)
