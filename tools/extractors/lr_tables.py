"""Translator plug-in: SLY's FINAL LALR tables of every parser class MontePy uses -> Gen/LrTables.lean.

What is dumped (from the live class objects, never from a copy):
  `P._lrtable.lr_action`   state -> token -> t   (t > 0 shift to state t, t < 0 reduce by production -t, t == 0 accept):
                           exactly the dict `sly.yacc.Parser.parse` consults (`actions = self._lrtable.lr_action`)
  `P._lrtable.lr_goto`     state -> nonterminal -> state
  `P._lrtable.defaulted_states`  state -> t (states whose row holds one reduce only: parse() does not look at the token)
  `P._grammar.Productions` index, lhs, rhs  (index 0 is SLY's augmented  S' -> start)
  the class that defines the `error` hook and the number of productions that mention the `error` token

Encoding: symbols are Nat ids per parser class: 0 = `$end`, then the terminals (sorted), then the nonterminals
(`S'` first, the others sorted); `symbols` is the name table, `nTerm` the number of terminals.  Rows are listed by
state number (SLY numbers its states 0..n-1; asserted here).  A table cell is ONE Nat (`code * 1000 + symbol id`,
see `act_code`): lists of pairs of Int literals took Lean minutes to elaborate, flat Nat lists take seconds.
"""


def _classes():
    import importlib.util
    import os

    here = os.path.dirname(os.path.abspath(__file__))
    spec = importlib.util.spec_from_file_location("c12_tables", os.path.join(here, "c12_tables.py"))
    mod = importlib.util.module_from_spec(spec)
    spec.loader.exec_module(mod)
    return mod.parser_classes(), mod.lstr, mod.lname


def symbol_table(P):
    """(names, nTerm): the id of a symbol is its index in names"""
    g = P._grammar
    terms = ["$end"] + sorted(t for t in g.Terminals if t != "$end")
    nts = [g.Productions[0].name] + sorted(n for n in g.Nonterminals if n != g.Productions[0].name)
    assert not (set(terms) & set(nts)), "a symbol is both a terminal and a nonterminal"
    return terms + nts, len(terms)


def dump(P):
    """plain-Python form of the tables of one class (also used by tools/vlib/lrlib.py for the coverage counters)"""
    g = P._grammar
    lr = P._lrtable
    names, nterm = symbol_table(P)
    ident = {n: i for i, n in enumerate(names)}
    nstates = len(lr.lr_action)
    assert sorted(lr.lr_action) == list(range(nstates)), "SLY state numbers are not 0..n-1"
    assert all(0 <= s < nstates for s in lr.lr_goto), "goto row of an unknown state"
    action = []
    for s in range(nstates):
        row = lr.lr_action[s]
        action.append([(ident[tok], int(t)) for tok, t in sorted(row.items(), key=lambda kv: ident[kv[0]])])
    goto = []
    for s in range(nstates):
        row = lr.lr_goto.get(s, {})
        goto.append([(ident[nt], int(t)) for nt, t in sorted(row.items(), key=lambda kv: ident[kv[0]])])
    prods = []
    for i, p in enumerate(g.Productions):
        assert p.number == i and p.len == len(p.prod)
        prods.append((ident[p.name], [ident[x] for x in p.prod]))
    defaulted = sorted((int(s), int(t)) for s, t in lr.defaulted_states.items())
    # the (untrusted) hint of Lemmas/LR.lean: per state its accessing symbol and the sources of its in-edges;
    # `checkTables` validates it against the tables, nothing is believed because it was written here
    acc = [0] * nstates
    pred = [[] for _ in range(nstates)]
    for s in range(nstates):
        for k, t in action[s]:
            if t > 0:
                acc[t] = k
                if s not in pred[t]:
                    pred[t].append(s)
        for k, t in goto[s]:
            acc[t] = k
            if s not in pred[t]:
                pred[t].append(s)
    err_owner = next(c for c in P.__mro__ if "error" in c.__dict__)
    return {
        "name": P.__name__,
        "module": P.__module__,
        "symbols": names,
        "nTerm": nterm,
        "start": ident[g.Start],
        "prods": prods,
        "action": action,
        "goto": goto,
        "defaulted": defaulted,
        "acc": acc,
        "pred": pred,
        "errorHook": err_owner.__module__ + "." + err_owner.__qualname__,
        "errorProductions": sum(1 for p in g.Productions if "error" in p.prod),
        "srConflicts": len(lr.sr_conflicts),
        "rrConflicts": len(lr.rr_conflicts),
    }


def _nats(xs):
    return "[" + ", ".join(str(x) for x in xs) + "]"


BASE = 1000  # a table cell is ONE Nat: code * BASE + symbol id (decoded by Model/LRTables.lean)


def act_code(t):
    """t == 0 accept -> 0; reduce by p (t = -p) -> 2p; shift to s (t = s) -> 2s + 1"""
    return 0 if t == 0 else (2 * t + 1 if t > 0 else -2 * t)


def _rows(rows, code, indent="  "):
    out = []
    for row in rows:
        out.append(indent + _nats(code(v) * BASE + k for k, v in row))
    return "[\n" + ",\n".join(out) + "]"


def generate(write):
    classes, lstr, lname = _classes()
    body = "namespace MontePyVerif.Gen.LrTables\n\n"
    body += "/-- what the translator dumps of the LALR automaton of one SLY parser class (`Parser._lrtable`, `_grammar`).\n"
    body += f"    A cell of `action` is `code * {BASE} + token id` with code 0 = accept, 2p = reduce by production p,\n"
    body += f"    2s+1 = shift to state s; a cell of `goto` is `state * {BASE} + nonterminal id`; a production is\n"
    body += "    `lhs :: rhs`; rows are listed by state number; `defaulted` lists (state, production); `hintAcc`/`hintPred`\n"
    body += "    are the per-state accessing symbol and predecessor states: an UNTRUSTED hint that `LR.checkTables` validates. -/\n"
    body += "structure LrDump where\n  name : String\n  symbols : List String\n  nTerm : Nat\n  start : Nat\n"
    body += "  prods : List (List Nat)\n  action : List (List Nat)\n  goto : List (List Nat)\n"
    body += "  defaulted : List (Nat × Nat)\n  hintAcc : List Nat\n  hintPred : List (List Nat)\n  errorHook : String\n  errorProductions : Nat\n  srConflicts : Nat\n  rrConflicts : Nat\n\n"
    body += f"def cellBase : Nat := {BASE}\n\n"
    names = []
    for P in classes:
        d = dump(P)
        assert len(d["symbols"]) < BASE
        n = lname(P.__name__)
        names.append(n)
        syms = d["symbols"]
        lines = []
        for i in range(0, len(syms), 10):
            lines.append("  " + ", ".join(lstr(s) for s in syms[i : i + 10]))
        body += f"def {n}Symbols : List String := [\n" + ",\n".join(lines) + "]\n"
        body += f"def {n}Prods : List (List Nat) := [\n" + ",\n".join("  " + _nats([lhs] + rhs) for lhs, rhs in d["prods"]) + "]\n"
        body += f"def {n}Action : List (List Nat) := " + _rows(d["action"], act_code) + "\n"
        body += f"def {n}Goto : List (List Nat) := " + _rows(d["goto"], lambda s: s) + "\n"
        body += f"def {n}HintAcc : List Nat := " + _nats(d["acc"]) + "\n"
        body += f"def {n}HintPred : List (List Nat) := [\n" + ",\n".join("  " + _nats(r) for r in d["pred"]) + "]\n"
        body += f"/-- {d['module']}.{d['name']}: {len(d['action'])} states, {sum(len(r) for r in d['action'])} action cells, "
        body += f"{sum(len(r) for r in d['goto'])} goto cells, {len(d['prods'])} productions -/\n"
        body += f"def {n} : LrDump where\n"
        body += f"  name := {lstr(d['name'])}\n"
        body += f"  symbols := {n}Symbols\n"
        body += f"  nTerm := {d['nTerm']}\n"
        body += f"  start := {d['start']}\n"
        body += f"  prods := {n}Prods\n  action := {n}Action\n  goto := {n}Goto\n"
        body += "  defaulted := [" + ", ".join(f"({s}, {-t})" for s, t in d["defaulted"]) + "]\n"
        body += f"  hintAcc := {n}HintAcc\n  hintPred := {n}HintPred\n"
        body += f"  errorHook := {lstr(d['errorHook'])}\n"
        body += f"  errorProductions := {d['errorProductions']}\n"
        body += f"  srConflicts := {d['srConflicts']}\n"
        body += f"  rrConflicts := {d['rrConflicts']}\n\n"
    body += "/-- every dumped class, in the order of `c12_tables.parser_classes()` -/\n"
    body += "def all : List LrDump := [" + ", ".join(names) + "]\n"
    body += "\nend MontePyVerif.Gen.LrTables\n"
    write("LrTables.lean", body)
