"""Translator plug-in for C10: the character classes of the Python runtime that wrap_string_for_mcnp rests on
(str.isspace / str.strip, str.splitlines boundaries, textwrap's whitespace class and TextWrapper defaults).
They are measured on the interpreter MontePy runs on, not copied from documentation."""
import ast
import inspect
import textwrap


def wrapper_kwargs():
    """keyword arguments (constants only) of the textwrap.TextWrapper(...) call MontePy's wrapping code makes"""
    from montepy.mcnp_object import MCNP_Object

    out = {}
    for name in ("_wrap_line", "wrap_string_for_mcnp"):
        fn = getattr(MCNP_Object, name, None)
        if fn is None:
            continue
        tree = ast.parse(textwrap.dedent(inspect.getsource(fn)))
        for node in ast.walk(tree):
            if isinstance(node, ast.Call) and getattr(node.func, "attr", getattr(node.func, "id", "")) == "TextWrapper":
                for kw in node.keywords:
                    if isinstance(kw.value, ast.Constant):
                        out[kw.arg] = kw.value.value
    return out


def generate(write):
    space = [c for c in range(0x110000) if chr(c).isspace()]
    # a code point is a line boundary iff splitlines() cuts "a<c>b" in two
    breaks = [c for c in range(0x110000) if not (0xD800 <= c <= 0xDFFF) and len(("a" + chr(c) + "b").splitlines()) == 2]
    tw = sorted(ord(c) for c in textwrap._whitespace)
    w = textwrap.TextWrapper()
    body = "namespace MontePyVerif.Gen\n\n"
    body += "/-- code points c with chr(c).isspace() (what str.strip() removes) -/\n"
    body += "def pySpaceCodes : List Nat := [" + ", ".join(map(str, space)) + "]\n"
    body += "/-- code points at which str.splitlines() cuts (\"\\r\\n\" counts as one boundary) -/\n"
    body += "def pyLineBreakCodes : List Nat := [" + ", ".join(map(str, breaks)) + "]\n"
    body += "/-- textwrap._whitespace: the class of wordsep_simple_re and of _munge_whitespace -/\n"
    body += "def textwrapWhitespaceCodes : List Nat := [" + ", ".join(map(str, tw)) + "]\n"
    body += f"/-- TextWrapper defaults that wrap_string_for_mcnp does not override -/\n"
    body += f"def textwrapTabsize : Nat := {w.tabsize}\n"
    body += f"def textwrapExpandTabs : Bool := {'true' if w.expand_tabs else 'false'}\n"
    body += f"def textwrapReplaceWhitespace : Bool := {'true' if w.replace_whitespace else 'false'}\n"
    body += f"def textwrapBreakLongWords : Bool := {'true' if w.break_long_words else 'false'}\n"
    body += f"def textwrapMaxLinesIsNone : Bool := {'true' if w.max_lines is None else 'false'}\n"
    kw = wrapper_kwargs()
    defaults = textwrap.TextWrapper()
    for arg, lean in (("drop_whitespace", "wrapDropWhitespace"), ("break_on_hyphens", "wrapBreakOnHyphens"),
                      ("break_long_words", "wrapBreakLongWords"), ("expand_tabs", "wrapExpandTabs"),
                      ("replace_whitespace", "wrapReplaceWhitespace")):
        val = kw.get(arg, getattr(defaults, arg))
        body += f"/-- `{arg}` as MontePy's TextWrapper call sets it (or the default) -/\n"
        body += f"def {lean} : Bool := {'true' if val else 'false'}\n"
    body += "\nend MontePyVerif.Gen\n"
    write("PyText.lean", body)
