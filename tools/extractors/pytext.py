"""Translator plug-in for C10: the character classes of the Python runtime that wrap_string_for_mcnp rests on
(str.isspace / str.strip, str.splitlines boundaries, textwrap's whitespace class and TextWrapper defaults).
They are measured on the interpreter MontePy runs on, not copied from documentation."""
import ast
import inspect
import textwrap


def wrapper_kwargs():
    """the configuration of every textwrap.TextWrapper that MontePy's wrapping code builds, OBSERVED by running
    wrap_string_for_mcnp on over-long probe inputs with a recording subclass in place of textwrap.TextWrapper
    (since round 7; the first version read the keyword arguments of the call from the AST of two named methods
    and raised a no-failing-input-found alarm when a behaviour-preserving rewrite moved the call into a helper)."""
    import warnings

    import montepy.mcnp_object as mo

    seen = []
    orig = textwrap.TextWrapper

    class Recording(orig):
        def __init__(self, *a, **k):
            super().__init__(*a, **k)
            seen.append(self)

    textwrap.TextWrapper = Recording
    had = getattr(mo, "textwrap", None)
    try:
        if had is not None and getattr(had, "TextWrapper", None) is not Recording:
            had.TextWrapper = Recording
        with warnings.catch_warnings():
            warnings.simplefilter("ignore")
            for version in ((6, 2, 0), (6, 1, 0)):
                for probe in ("imp:n " + "1 " * 120, "1 0 -1 $ " + "comment words " * 20, "c " + "a comment line " * 20,
                              "m1 " + "1001.80c 0.5 " * 30 + "\n     " + "8016.80c 0.25 " * 30):
                    for first in (True, False):
                        try:
                            mo.MCNP_Object.wrap_string_for_mcnp(probe, version, first)
                        except Exception:
                            pass
    finally:
        textwrap.TextWrapper = orig
    out = {}
    for arg in ("drop_whitespace", "break_on_hyphens", "break_long_words", "expand_tabs", "replace_whitespace"):
        vals = {getattr(w, arg) for w in seen}
        if len(vals) == 1:
            out[arg] = vals.pop()
        elif len(vals) > 1:
            # wrappers that disagree: report the value the model does NOT assume, so that the proof re-opens
            out[arg] = {"drop_whitespace": True, "break_on_hyphens": True, "break_long_words": False,
                        "expand_tabs": False, "replace_whitespace": False}[arg]
    return out


def generate(write):
    space = [c for c in range(0x110000) if chr(c).isspace()]
    # a code point is a line boundary iff splitlines() cuts "a<c>b" in two
    breaks = [c for c in range(0x110000) if not (0xD800 <= c <= 0xDFFF) and len(("a" + chr(c) + "b").splitlines()) == 2]
    tw = sorted(ord(c) for c in textwrap._whitespace)
    w = textwrap.TextWrapper()
    body = "namespace MontePyVerif.Gen\n\n"
    body += "/-- code points c with chr(c).isspace() (what str.strip() removes) -/\n"
    body += "def pySpaceCodes : List Nat := [" + ", ".join(map(str, space)) + "]\n"
    body += "/-- code points at which str.splitlines() cuts (\"\\r\\n\" counts as one boundary) -/\n"
    body += "def pyLineBreakCodes : List Nat := [" + ", ".join(map(str, breaks)) + "]\n"
    body += "/-- textwrap._whitespace: the class of wordsep_simple_re and of _munge_whitespace -/\n"
    body += "def textwrapWhitespaceCodes : List Nat := [" + ", ".join(map(str, tw)) + "]\n"
    body += f"/-- TextWrapper defaults that wrap_string_for_mcnp does not override -/\n"
    body += f"def textwrapTabsize : Nat := {w.tabsize}\n"
    body += f"def textwrapExpandTabs : Bool := {'true' if w.expand_tabs else 'false'}\n"
    body += f"def textwrapReplaceWhitespace : Bool := {'true' if w.replace_whitespace else 'false'}\n"
    body += f"def textwrapBreakLongWords : Bool := {'true' if w.break_long_words else 'false'}\n"
    body += f"def textwrapMaxLinesIsNone : Bool := {'true' if w.max_lines is None else 'false'}\n"
    kw = wrapper_kwargs()
    defaults = textwrap.TextWrapper()
    for arg, lean in (("drop_whitespace", "wrapDropWhitespace"), ("break_on_hyphens", "wrapBreakOnHyphens"),
                      ("break_long_words", "wrapBreakLongWords"), ("expand_tabs", "wrapExpandTabs"),
                      ("replace_whitespace", "wrapReplaceWhitespace")):
        val = kw.get(arg, getattr(defaults, arg))
        body += f"/-- `{arg}` as MontePy's TextWrapper call sets it (or the default) -/\n"
        body += f"def {lean} : Bool := {'true' if val else 'false'}\n"
    body += "\nend MontePyVerif.Gen\n"
    write("PyText.lean", body)
