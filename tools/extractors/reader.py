"""Translator plug-in for the reader / read-card model (C20, C11): the facts of the source that the hand-written
model `Model/Reader.lean` builds in and that no other generated file carries.  `Props/C20.lean` consumes them
(`C20_tables`), so editing one of them in MontePy re-opens the proof.

* `BlockType` names and values (the model's `BlockType.value` / `ofValue`);
* the keywords the read parser needs (`read`, `file`) and the default of `read_input(replace=…)`.

Deliberately *not* extracted: the exception class hierarchy and the signature of `read_data` — the model's behaviour
does not depend on them, and a refactoring of either must not raise an alarm."""
import inspect


def generate(write):
    import montepy
    from montepy.input_parser.block_type import BlockType
    from montepy.input_parser.tokens import MCNP_Lexer

    def b(x):
        return "true" if x else "false"

    bts = ", ".join(f'("{m.name}", {m.value})' for m in BlockType)
    replace_default = inspect.signature(montepy.read_input).parameters["replace"].default
    body = "namespace MontePyVerif.Gen\n\n"
    body += "/-- `BlockType`: member name ↦ value, in definition order -/\n"
    body += f"def blockTypes : List (String × Nat) := [{bts}]\n"
    body += "/-- `read` and `file` are keywords of the lexer (the read parser's `KEYWORD` rule) -/\n"
    body += f"def readIsKeyword : Bool := {b('read' in MCNP_Lexer._KEYWORDS)}\n"
    body += f"def fileIsKeyword : Bool := {b('file' in MCNP_Lexer._KEYWORDS)}\n"
    body += "/-- default of `montepy.read_input(…, replace=…)`: the model covers `replace=True` only -/\n"
    body += f"def readInputReplaceDefault : Bool := {b(replace_default is True)}\n"
    body += "\nend MontePyVerif.Gen\n"
    write("Reader.lean", body)
