"""Translator plug-in for C08: the shortcut tables of the code (shortcuts.py enum, tokens.py _EXPRESSIONS)."""
import json


def generate(write):
    from montepy.input_parser.shortcuts import Shortcuts
    from montepy.input_parser.tokens import MCNP_Lexer

    body = "namespace MontePyVerif.Gen\n\n"
    body += "/-- `shortcuts.py: Shortcuts` (member name, value = the letters of the shortcut word) -/\n"
    body += "def shortcutLetters : List (String × String) := [" + ", ".join(
        f"({json.dumps(m.name)}, {json.dumps(m.value)})" for m in Shortcuts
    ) + "]\n"
    body += "/-- `tokens.py: MCNP_Lexer._EXPRESSIONS` (token type, regular expression source) -/\n"
    body += "def shortcutExpressions : List (String × String) := [" + ", ".join(
        f"({json.dumps(k)}, {json.dumps(v.pattern)})" for k, v in MCNP_Lexer._EXPRESSIONS.items()
    ) + "]\n"
    body += "\nend MontePyVerif.Gen\n"
    write("Shortcuts.lean", body)
