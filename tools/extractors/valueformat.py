"""Translator plug-in for C05: the tables of ValueNode that the model and the theorems consume.

Writes lean/MontePyVerif/Gen/ValueFormat.lean from the imported class (never from a copy):
the float/int default formatter entries not already in Gen/Constants.lean, ValueNode._MAX_PRECISION
(0 when the attribute does not exist, which re-opens every theorem that needs 17 digits) and the
source of the _SCIENTIFIC_FINDER regular expression.
"""
import json


def lchar(c):
    assert isinstance(c, str) and len(c) == 1 and 32 <= ord(c) < 127 and c not in "'\\", repr(c)
    return f"'{c}'"


def generate(write):
    from montepy.input_parser.syntax_node import ValueNode

    fm = ValueNode._FORMATTERS
    f, i = fm[float], fm[int]
    body = "namespace MontePyVerif.Gen\n\n"
    body += "/-- ValueNode._MAX_PRECISION: the most significant digits `_format_float` tries (0 = attribute missing) -/\n"
    body += f"def maxPrecision : Nat := {int(getattr(ValueNode, '_MAX_PRECISION', 0))}\n"
    body += "/-- ValueNode._FORMATTERS[float] -/\n"
    body += f"def floatDefaultSign : Char := {lchar(f['sign'])}\n"
    body += f"def floatDefaultDivider : String := {json.dumps(f['divider'])}\n"
    body += f"def floatDefaultExponentLength : Nat := {int(f['exponent_length'])}\n"
    body += f"def floatDefaultExponentZeroPad : Nat := {int(f['exponent_zero_pad'])}\n"
    body += f"def floatDefaultAsInt : Bool := {'true' if f['as_int'] else 'false'}\n"
    body += f"def floatDefaultIsScientific : Bool := {'true' if f['is_scientific'] else 'false'}\n"
    body += "/-- ValueNode._FORMATTERS[int] -/\n"
    body += f"def intDefaultSign : Char := {lchar(i['sign'])}\n"
    body += "/-- ValueNode._SCIENTIFIC_FINDER.pattern (re.VERBOSE), blanks and comments removed -/\n"
    import re

    pat = ValueNode._SCIENTIFIC_FINDER.pattern
    pat = "".join(re.sub(r"(?<!\\)#.*", "", line).strip() for line in pat.splitlines())
    pat = re.sub(r"\s+", "", pat)
    body += f"def scientificFinder : String := {json.dumps(pat)}\n"
    # MCNP_Object._generate_default_node: how a node made from a value (no token at all) spells that value.
    # The expression handed to ValueNode for a non-None default, as source text from the AST.
    import ast
    import inspect
    import textwrap

    from montepy.mcnp_object import MCNP_Object

    fn = ast.parse(textwrap.dedent(inspect.getsource(MCNP_Object._generate_default_node))).body[0]
    spellings = []
    for node in sorted((n for n in ast.walk(fn) if isinstance(n, ast.Return)), key=lambda n: n.lineno):
        if isinstance(node, ast.Return) and isinstance(node.value, ast.Call) and getattr(node.value.func, "id", "") == "ValueNode":
            spellings.append(ast.unparse(node.value.args[0]))
    body += "/-- MCNP_Object._generate_default_node: first argument of every `return ValueNode(...)`, in source order -/\n"
    body += f"def defaultNodeSpellings : List String := {json.dumps(spellings)}\n"
    body += "\nend MontePyVerif.Gen\n"
    write("ValueFormat.lean", body)
