"""Translator plug-in for C05: the tables of ValueNode that the model and the theorems consume.

Writes lean/MontePyVerif/Gen/ValueFormat.lean from the imported class (never from a copy):
the float/int default formatter entries not already in Gen/Constants.lean, ValueNode._MAX_PRECISION
(0 when the attribute does not exist, which re-opens every theorem that needs 17 digits) and the
source of the _SCIENTIFIC_FINDER regular expression.
"""
import json


def lchar(c):
    assert isinstance(c, str) and len(c) == 1 and 32 <= ord(c) < 127 and c not in "'\\", repr(c)
    return f"'{c}'"


def default_node_spellings():
    """How MCNP_Object._generate_default_node spells a value as the token of the node it builds, OBSERVED by calling
    it on probe values (since round 7; the first version read the first argument of every `return ValueNode(...)`
    from the function's AST and raised a no-failing-input-found alarm when the two returns became one).

    A probe that must be kept (None, a Jump) answers "default" when the token IS the probe; a value probe answers
    "str(default)" when the token is exactly Python's str of the value (repr for a float: the shortest decimal that
    reads back; the probes need 1, 2, 16 and 17 significant digits, both exponent signs and both notations);
    anything else answers with the token itself, an exception with its class.  Distinct answers in probe order."""
    from montepy.input_parser.mcnp_input import Jump
    from montepy.mcnp_object import MCNP_Object

    def token_of(value_type, v):
        node = MCNP_Object._generate_default_node(value_type, v)
        return node.token if hasattr(node, "token") else node._token

    out = []
    for v in (None, Jump()):
        try:
            tok = token_of(float, v)
            ans = "default" if tok is v else f"other:{type(v).__name__}->{tok!r}"
        except Exception as e:  # noqa: BLE001
            ans = "raises:" + type(e).__name__
        out.append(ans)
    probes = [(float, x) for x in (0.1, 2.5, 1e-5, 1e21, 1e22, 1.0 / 3.0, 0.1 + 0.2, 123456789.123, 5e-324, -2.0e-7, 1.0e16, 3.0)]
    probes += [(int, x) for x in (0, 7, -3, 10**20)] + [(float, 3), (str, "abc")]
    for ty, v in probes:
        try:
            tok = token_of(ty, v)
            if type(tok) is str and tok == str(v):
                ans = "str(default)"
            elif tok is v:
                ans = "default"
            else:
                ans = f"other:{v!r}->{tok!r}"
        except Exception as e:  # noqa: BLE001
            ans = f"raises:{type(e).__name__}:{v!r}"
        out.append(ans)
    return list(dict.fromkeys(out))


def generate(write):
    from montepy.input_parser.syntax_node import ValueNode

    fm = ValueNode._FORMATTERS
    f, i = fm[float], fm[int]
    body = "namespace MontePyVerif.Gen\n\n"
    body += "/-- ValueNode._MAX_PRECISION: the most significant digits `_format_float` tries (0 = attribute missing) -/\n"
    body += f"def maxPrecision : Nat := {int(getattr(ValueNode, '_MAX_PRECISION', 0))}\n"
    body += "/-- ValueNode._FORMATTERS[float] -/\n"
    body += f"def floatDefaultSign : Char := {lchar(f['sign'])}\n"
    body += f"def floatDefaultDivider : String := {json.dumps(f['divider'])}\n"
    body += f"def floatDefaultExponentLength : Nat := {int(f['exponent_length'])}\n"
    body += f"def floatDefaultExponentZeroPad : Nat := {int(f['exponent_zero_pad'])}\n"
    body += f"def floatDefaultAsInt : Bool := {'true' if f['as_int'] else 'false'}\n"
    body += f"def floatDefaultIsScientific : Bool := {'true' if f['is_scientific'] else 'false'}\n"
    body += "/-- ValueNode._FORMATTERS[int] -/\n"
    body += f"def intDefaultSign : Char := {lchar(i['sign'])}\n"
    body += "/-- ValueNode._SCIENTIFIC_FINDER.pattern (re.VERBOSE), blanks and comments removed -/\n"
    import re

    pat = ValueNode._SCIENTIFIC_FINDER.pattern
    pat = "".join(re.sub(r"(?<!\\)#.*", "", line).strip() for line in pat.splitlines())
    pat = re.sub(r"\s+", "", pat)
    body += f"def scientificFinder : String := {json.dumps(pat)}\n"
    body += "/-- MCNP_Object._generate_default_node OBSERVED on probe values: how the token of the node it builds relates\n"
    body += "    to the value handed in, first for None and a Jump, then for floats, ints and a string; distinct answers -/\n"
    body += f"def defaultNodeSpellings : List String := {json.dumps(default_node_spellings())}\n"
    body += "\nend MontePyVerif.Gen\n"
    write("ValueFormat.lean", body)
