"""Translator plug-in for C15: the tables of the writer, read from the working tree **by running it on a probe**.

Gen/WriteOrder.lean
  sequence    : what MCNP_Problem.write_to_file puts into the file, in order.  The probe is a small problem with a
                message block and cell-block importances; `format_for_mcnp_input` of every object is replaced by a
                function that returns one marker line naming its segment (message, title, cells, surfaces, dataInputs,
                modifiers = the Cells attributes of Cell._INPUTS_TO_PROPERTY that are not in data_inputs); the real
                write_to_file runs; the file is read back as markers and blank lines (`blank`).  Consecutive equal
                markers are one segment.
  recognised  : the probe was written and consisted of known markers and blank lines only, every segment present.
  openGuards  : exception classes MCNP_InputFile.open("w") raises for (existing file, overwrite=False) and for a
                directory, observed on a scratch directory.
  openEncoding: "ascii" if the handle refuses a non-ASCII character, else the name reported by the handle.
  exitOsCalls : the calls os.replace / os.rename / os.remove / os.unlink made while a write succeeds and while a
                write fails, observed by wrapping the functions of the os module (sorted, duplicates removed).

Because the tables are *observed*, a rewrite of the functions that keeps their behaviour regenerates the same
file (no proof is re-opened); a change of the order, of a guard or of the commit mechanism changes it.
"""
import os
import shutil
import tempfile
import warnings

PROBE = (
    "MESSAGE: probe\n\nprobe title\n1 0 -1 imp:n=1\n2 0 1 imp:n=0\n\n1 so 1\n\nmode n\nnps 10\n\n"
)
KNOWN = ["message", "title", "cells", "surfaces", "dataInputs", "modifiers"]


def _marker(name):
    def fmt(*a, **k):
        return [name]

    return fmt


def probe_sequence(montepy, d):
    src = os.path.join(d, "probe.imcnp")
    with open(src, "w") as fh:
        fh.write(PROBE)
    p = montepy.read_input(src)
    groups = {
        "message": [p.message] if p.message else [],
        "title": [p.title],
        "cells": list(p.cells),
        "surfaces": list(p.surfaces),
        "dataInputs": list(p.data_inputs),
        "modifiers": [
            getattr(p.cells, attr)
            for attr, _ in montepy.Cell._INPUTS_TO_PROPERTY.values()
            if getattr(p.cells, attr) not in p.data_inputs
        ],
    }
    for name, objs in groups.items():
        for o in objs:
            o.format_for_mcnp_input = _marker(name)
    out = os.path.join(d, "probe.out")
    p.write_to_file(out)
    with open(out) as fh:
        lines = fh.read().split("\n")
    if lines and lines[-1] == "":
        lines.pop()
    seq, ok = [], True
    for l in lines:
        s = "blank" if l.strip() == "" else l
        if s != "blank" and s not in KNOWN:
            ok = False
            continue
        if s == "blank" or not seq or seq[-1] != s:
            seq.append(s)
    if any(k not in seq for k in KNOWN):
        ok = False
    return seq, ok


def probe_guards(input_file, d):
    out = []
    existing = os.path.join(d, "existing")
    with open(existing, "w") as fh:
        fh.write("x\n")
    directory = os.path.join(d, "directory")
    os.makedirs(directory)
    for path in (existing, directory):
        try:
            with input_file.MCNP_InputFile(path, overwrite=False).open("w"):
                pass
        except Exception as e:  # noqa: BLE001
            out.append(type(e).__name__)
    return out


def probe_encoding(input_file, d):
    f = input_file.MCNP_InputFile(os.path.join(d, "enc"), overwrite=True)
    try:
        with f.open("w") as fh:
            fh.write("café\n")
    except UnicodeEncodeError:
        return "ascii"
    except Exception:  # noqa: BLE001
        return "unknown"
    return "not-ascii"


def probe_os_calls(input_file, d):
    calls = []
    saved = {}

    def wrap(name):
        real = getattr(os, name)

        def f(*a, **k):
            calls.append(name)
            return real(*a, **k)

        saved[name] = real
        setattr(os, name, f)

    for n in ("replace", "rename", "remove", "unlink"):
        wrap(n)
    try:
        with input_file.MCNP_InputFile(os.path.join(d, "ok"), overwrite=True).open("w") as fh:
            fh.write("x\n")
        try:
            with input_file.MCNP_InputFile(os.path.join(d, "bad"), overwrite=True).open("w") as fh:
                fh.write("x\n")
                raise RuntimeError("probe")
        except RuntimeError:
            pass
    finally:
        for n, real in saved.items():
            setattr(os, n, real)
    return sorted(set(calls))


def generate(write):
    import montepy
    from montepy.input_parser import input_file

    d = tempfile.mkdtemp(prefix="c15probe_")
    try:
        with warnings.catch_warnings():
            warnings.simplefilter("ignore")
            try:
                seq, ok = probe_sequence(montepy, d)
            except Exception:  # noqa: BLE001  the writer fails on a valid probe: nothing is recognised
                seq, ok = [], False
            guards = probe_guards(input_file, d)
            enc = probe_encoding(input_file, d)
            calls = probe_os_calls(input_file, d)
    finally:
        shutil.rmtree(d, ignore_errors=True)
    body = "namespace MontePyVerif.Gen.WriteOrder\n\n"
    body += "/-- what a statement of `write_to_file` puts into the file -/\n"
    body += "inductive Seg | message | title | cells | surfaces | dataInputs | modifiers | blank\n  deriving DecidableEq, Repr\n\n"
    body += "/-- mcnp_problem.py:MCNP_Problem.write_to_file — the order of the segments and blank lines in the file it\n    writes for the translator's probe problem (observed by running it) -/\n"
    body += "def sequence : List Seg := [" + ", ".join("." + s for s in seq) + "]\n\n"
    body += f"/-- the probe was written and consisted of the known segments and blank lines only -/\ndef recognised : Bool := {'true' if ok else 'false'}\n\n"
    body += "/-- input_file.py:MCNP_InputFile.open(\"w\") — classes raised for (existing file, overwrite=False) and for a directory -/\n"
    body += "def openGuards : List String := [" + ", ".join('"' + g + '"' for g in guards) + "]\n\n"
    body += "/-- input_file.py:MCNP_InputFile.__exit__ — os.replace/rename/remove/unlink calls seen on a successful and on a failing write -/\n"
    body += "def exitOsCalls : List String := [" + ", ".join('"' + g + '"' for g in calls) + "]\n\n"
    body += "/-- input_file.py:MCNP_InputFile.open — \"ascii\" iff the handle write_to_file gets refuses a non-ASCII character -/\n"
    body += f"def openEncoding : String := \"{enc}\"\n\n"
    body += "end MontePyVerif.Gen.WriteOrder\n"
    write("WriteOrder.lean", body)
