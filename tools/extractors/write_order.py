"""Translator plug-in for C15: the statement order of MCNP_Problem.write_to_file and the guards of
MCNP_InputFile.open, read from the AST of the working tree.

Gen/WriteOrder.lean
  sequence   : what write_to_file puts into the file, in order: one segment per entry of `objects_list`
               (+ `blank` where its `terminate` flag is True), then the statements that follow the loop
               (`modifiers` for the loop over Cells._run_children_format_for_mcnp, `blank` for fh.write("\\n")).
  openGuards : exception classes raised under `if "w" in mode` of MCNP_InputFile.open, in source order.
  openEncoding : default text encoding of the handle (a character outside it makes fh.write raise).
  commits    : the calls of the os module made by MCNP_InputFile.__exit__ / helper methods (e.g. replace, remove).

If the source no longer has the recognised shape the table is emitted as far as it could be read and
`recognised := false`; the theorems that consume the table then no longer build (a re-opened proof).
"""
import ast
import inspect
import textwrap

SEGS = {"message": "message", "title": "title", "cells": "cells", "surfaces": "surfaces", "data_inputs": "dataInputs"}


def _attr_of(node):
    """self.cells -> 'cells';  [self.title] -> 'title'"""
    if isinstance(node, ast.List) and len(node.elts) == 1:
        node = node.elts[0]
    if isinstance(node, ast.Attribute) and isinstance(node.value, ast.Name) and node.value.id == "self":
        return node.attr
    return None


def _is_blank_write(stmt):
    return (
        isinstance(stmt, ast.Expr)
        and isinstance(stmt.value, ast.Call)
        and isinstance(stmt.value.func, ast.Attribute)
        and stmt.value.func.attr == "write"
        and len(stmt.value.args) == 1
        and isinstance(stmt.value.args[0], ast.Constant)
        and stmt.value.args[0].value == "\n"
    )


def _mentions(node, name):
    return any(isinstance(n, ast.Attribute) and n.attr == name for n in ast.walk(node))


def _has_write(node):
    return any(
        isinstance(n, ast.Call) and isinstance(n.func, ast.Attribute) and n.func.attr == "write" for n in ast.walk(node)
    )


def write_sequence(fn):
    """(sequence, recognised).  Statements of the `with` body without an effect on the file (function
    definitions, the warning bookkeeping) are skipped; a statement that writes and is not understood
    clears `recognised`."""
    seq, ok = [], True
    withs = [n for n in ast.walk(fn) if isinstance(n, ast.With)]
    if not withs:
        return seq, False
    body = withs[0].body
    loop_seen = False
    modifiers_pending = False  # formatted into a variable, not written yet
    for stmt in body:
        if isinstance(stmt, ast.FunctionDef):
            continue
        if not loop_seen:
            if isinstance(stmt, ast.For) and _mentions(stmt, "format_for_mcnp_input"):
                loop_seen = True
                # `if terminate: fh.write("\n")` must be inside the loop over objects_list
                if not any(_is_blank_write(s) for n in ast.walk(stmt) if isinstance(n, ast.If) for s in n.body):
                    ok = False
                continue
            tuples = [
                n
                for n in ast.walk(stmt)
                if isinstance(n, ast.Tuple)
                and len(n.elts) == 2
                and isinstance(n.elts[1], ast.Constant)
                and isinstance(n.elts[1].value, bool)
            ]
            for t in sorted(tuples, key=lambda n: (n.lineno, n.col_offset)):
                a = _attr_of(t.elts[0])
                if a not in SEGS:
                    ok = False
                    continue
                seq.append(SEGS[a])
                if t.elts[1].value:
                    seq.append("blank")
            if _has_write(stmt):
                ok = False
            continue
        if _mentions(stmt, "_run_children_format_for_mcnp"):
            if isinstance(stmt, ast.For) and _has_write(stmt):
                seq.append("modifiers")
            elif isinstance(stmt, ast.Assign):
                modifiers_pending = True
            else:
                ok = False
        elif _is_blank_write(stmt):
            seq.append("blank")
        elif isinstance(stmt, ast.For) and _has_write(stmt) and modifiers_pending:
            seq.append("modifiers")
            modifiers_pending = False
        elif _has_write(stmt):
            ok = False
    if not loop_seen or modifiers_pending:
        ok = False
    return seq, ok


def open_guards(fn):
    out = []
    for n in ast.walk(fn):
        if isinstance(n, ast.If) and isinstance(n.test, ast.Compare) and isinstance(n.test.left, ast.Constant) and n.test.left.value == "w":
            for r in ast.walk(n):
                if isinstance(r, ast.Raise) and r.exc is not None:
                    f = r.exc.func if isinstance(r.exc, ast.Call) else r.exc
                    out.append((r.lineno, getattr(f, "id", getattr(f, "attr", "?"))))
    return [name for _, name in sorted(out)]


def os_calls(cls_node, names):
    out = []
    for fn in cls_node.body:
        if isinstance(fn, ast.FunctionDef) and fn.name in names:
            for n in ast.walk(fn):
                if isinstance(n, ast.Call) and isinstance(n.func, ast.Attribute) and isinstance(n.func.value, ast.Name) and n.func.value.id == "os":
                    out.append((n.lineno, n.func.attr))
    return [name for _, name in sorted(out)]


def generate(write):
    import montepy
    from montepy.input_parser import input_file

    fn = ast.parse(textwrap.dedent(inspect.getsource(montepy.MCNP_Problem.write_to_file))).body[0]
    seq, ok = write_sequence(fn)
    mod = ast.parse(inspect.getsource(input_file))
    cls = [n for n in mod.body if isinstance(n, ast.ClassDef) and n.name == "MCNP_InputFile"][0]
    opener = [n for n in cls.body if isinstance(n, ast.FunctionDef) and n.name == "open"][0]
    guards = open_guards(opener)
    commits = os_calls(cls, {"__exit__", "_discard_temporary"})
    body = "namespace MontePyVerif.Gen.WriteOrder\n\n"
    body += "/-- what a statement of `write_to_file` puts into the file -/\n"
    body += "inductive Seg | message | title | cells | surfaces | dataInputs | modifiers | blank\n  deriving DecidableEq, Repr\n\n"
    body += "/-- mcnp_problem.py:MCNP_Problem.write_to_file — `objects_list` (a `blank` where terminate=True), then the\n    statements after the loop, in source order -/\n"
    body += "def sequence : List Seg := [" + ", ".join("." + s for s in seq) + "]\n\n"
    body += f"/-- the body of the `with` block had the shape the translator knows -/\ndef recognised : Bool := {'true' if ok else 'false'}\n\n"
    body += "/-- input_file.py:MCNP_InputFile.open — classes raised under `if \"w\" in mode`, in source order -/\n"
    body += "def openGuards : List String := [" + ", ".join('"' + g + '"' for g in guards) + "]\n\n"
    body += "/-- input_file.py:MCNP_InputFile.__exit__ and _discard_temporary — calls into the os module, in source order -/\n"
    body += "def exitOsCalls : List String := [" + ", ".join('"' + g + '"' for g in commits) + "]\n\n"
    enc = inspect.signature(input_file.MCNP_InputFile.open).parameters["encoding"].default
    body += "/-- input_file.py:MCNP_InputFile.open — default of the `encoding` parameter (write_to_file does not pass one) -/\n"
    body += f"def openEncoding : String := \"{enc}\"\n\n"
    body += "end MontePyVerif.Gen.WriteOrder\n"
    write("WriteOrder.lean", body)
