"""Regenerates /verif/MANIFEST.json from the META dict of every tools/props/cXX.py (no montepy import needed)."""
import ast
import json
import os
import re

VERIF = os.path.dirname(os.path.dirname(os.path.abspath(__file__)))
PROPS = os.path.join(VERIF, "tools", "props")
BASELINE = "cd /repo && /venv/bin/python -m pytest -ra -q -p no:cacheprovider --timeout=900 --continue-on-collection-errors"


def meta_of(path):
    tree = ast.parse(open(path).read())
    for node in tree.body:
        if isinstance(node, ast.Assign) and any(getattr(t, "id", None) == "META" for t in node.targets):
            return ast.literal_eval(node.value)
    return None


def main():
    ids = [json.loads(l)["id"] for l in open(os.path.join(VERIF, "properties.jsonl"))]
    checks, na = [], []
    extra_na = {}
    na_path = os.path.join(VERIF, "tools", "not_applicable.json")
    if os.path.exists(na_path):
        extra_na = json.load(open(na_path))
    for pid in ids:
        path = os.path.join(PROPS, pid.lower() + ".py")
        meta = meta_of(path) if os.path.exists(path) else None
        if meta is None or pid in extra_na:
            na.append({"property_id": pid, "reason": extra_na.get(pid, "check not built yet (work in progress); no claim is made for this property in this commit")})
            continue
        checks.append(
            {
                "property_id": pid,
                "quick_cmd": f"./check {pid} --tier quick",
                "thorough_cmd": f"./check {pid} --tier thorough",
                "evidence_file": f"evidence/{pid}.json",
                "replay_cmd_template": f"./check {pid} --replay {{path}}",
                "engine": "lean4-proof+correspondence",
                "level_claimed": {
                    "category": "proof",
                    "text": meta.get("level_text", "Lean 4 theorems over an executable model of the anchored code, for all inputs/histories the property quantifies over; the model is tied to /repo on every run by the translator (Gen/*.lean) and by a differential correspondence check; the property's own oracle is evaluated on the real code for every explored case."),
                    "design_ref": "DESIGN.md section " + meta.get("design_ref", "6"),
                },
                "level_note": meta.get("level_note", "Trusted: Lean kernel + propext/Classical.choice/Quot.sound; the hand-written model and its correspondence harness; generator coverage (reported in evidence). See DESIGN.md 3.6."),
                "technique": meta.get("technique", "Lean 4 machine-checked proof over a model + differential correspondence"),
            }
        )
    manifest = {
        "version": 1,
        "setup_cmd": "cd lean && lake build && cd .. && /venv/bin/python tools/selfcheck.py",
        "hooks": {
            "guard": "MONTEPY_VERIF",
            "enable": "no source hook is needed: checks import MontePy from /repo's working tree in-process (serialisation, fault injection and fresh-interpreter runs are done from /verif)",
            "baseline_off_cmd": BASELINE,
            "source_commits": [],
            "add_only": True,
        },
        "engines": [
            {
                "name": "lean4-proof+correspondence",
                "path": "lean/ (Lean 4 project), tools/ (translator, harness, oracles), check",
                "serves_properties": [c["property_id"] for c in checks],
                "kind_free_text": "Lean 4.33 theorems over hand-written executable models (Model/*.lean) and an independent MCNP-rules spec (Spec/*.lean); translator tools/extract.py regenerates Gen/*.lean from the source on every run; Python harness drives the real code and the compiled model drivers over a JSON line protocol and diffs observations; property oracles judge the real code; signature-matched known findings.",
            }
        ],
        "checks": checks,
        "notes": "Every check: sync translator -> lake build + #print axioms audit -> correspondence model vs implementation -> oracle on the real code -> verdict. Exit 2 = machinery failure (never a verdict). See DESIGN.md.",
        "not_applicable": na,
    }
    with open(os.path.join(VERIF, "MANIFEST.json"), "w") as fh:
        json.dump(manifest, fh, indent=1)
    print(f"{len(checks)} checks, {len(na)} not claimed")


if __name__ == "__main__":
    main()
