"""Resolve the mechanical conflicts of merging a builder branch: lakefile (union of lean_exe blocks),
known_findings.json (union), regenerated root/manifest; remap 'fixed:' hashes to the commits on /repo main."""
import json, os, re, subprocess, sys
VERIF = os.path.dirname(os.path.dirname(os.path.abspath(__file__)))

def git(*a, cwd=VERIF):
    return subprocess.run(["git", *a], cwd=cwd, capture_output=True, text=True).stdout

def blocks(text):
    head, *rest = re.split(r"(?m)^(?=\[\[lean_exe\]\])", text)
    return head, rest

def merge_lakefile():
    p = "lean/lakefile.toml"
    ours, theirs = git("show", ":2:" + p), git("show", ":3:" + p)
    if not ours or not theirs:
        return
    head, a = blocks(ours)
    _, b = blocks(theirs)
    seen, out = set(), []
    for blk in a + b:
        name = re.search(r'name = "([^"]+)"', blk).group(1)
        if name not in seen:
            seen.add(name)
            out.append(blk.strip() + "\n")
    open(os.path.join(VERIF, p), "w").write(head.rstrip() + "\n\n" + "\n".join(out))
    git("add", p)

def merge_known():
    p = "known_findings.json"
    ours, theirs = git("show", ":2:" + p), git("show", ":3:" + p)
    if not ours or not theirs:
        return
    a, b = json.loads(ours), json.loads(theirs)
    ids = {f["id"] for f in a["findings"]}
    retired = set(a.get("retired_ids", [])) | set(b.get("retired_ids", []))
    a["retired_ids"] = sorted(retired)
    a["findings"] = [f for f in a["findings"] if f["id"] not in retired]
    a["findings"] += [f for f in b["findings"] if f["id"] not in ids and f["id"] not in retired]
    a["fixed"] += [l for l in b["fixed"] if l not in a["fixed"]]
    json.dump(a, open(os.path.join(VERIF, p), "w"), indent=1)
    git("add", p)

def remap_fixed():
    p = os.path.join(VERIF, "known_findings.json")
    d = json.load(open(p))
    main = {}
    for l in git("log", "--format=%h\t%s", "main", cwd="/repo").splitlines():
        h, s = l.split("\t", 1)
        main.setdefault(s, h)
    out = []
    for line in d["fixed"]:
        m = re.match(r"(fixed: property=\S+ )([0-9a-f]{7,40})( .*)", line)
        if m:
            subj = git("log", "-1", "--format=%s", m.group(2), cwd="/repo").strip()
            if subj in main and not main[subj].startswith(m.group(2)[:7]):
                line = m.group(1) + main[subj] + m.group(3)
        out.append(line)
    d["fixed"] = out
    json.dump(d, open(p, "w"), indent=1)

if __name__ == "__main__":
    merge_lakefile()
    merge_known()
    remap_fixed()
    subprocess.run(["python3", os.path.join(VERIF, "tools", "gen_root.py")])
    subprocess.run(["/venv/bin/python", os.path.join(VERIF, "tools", "gen_manifest.py")])
    git("add", "lean/MontePyVerif.lean", "MANIFEST.json", "known_findings.json")
    print(git("status", "--short"))
