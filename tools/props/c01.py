"""C01 — unedited read -> write denotes the same MCNP problem.

prove       : Props/C01Blocks.lean — the block-wise writer's output is read back by MCNP's rules as the same cards
              in the same blocks and order, and nothing behind a block terminator is read (unbounded);
              Props/SpecFile.lean — sanity theorems of the independent reader.
correspond  : unit U-write-order — Model/FileWrite.lean (writeLines ∘ assemble) vs the bytes of the real
              write_to_file, on the very lines the real objects format to; the model's CardOK predicate is
              evaluated on every written card (hypothesis of C01_blocks).
judge       : Spec.denote(original bytes) vs Spec.denote(bytes written by the real write_to_file).
"""

import json

from vlib import genprob, leanio, spec, wholefile
from vlib.core import chash
from vlib.par import pmap

META = {
    "property_id": "C01",
    "technique": "Lean 4 proof (writer/reader block round-trip, unbounded) + correspondence of the writer-order model + Spec oracle on real read->write",
    "design_ref": "6 C01",
}

THEOREMS = [
    "FileWrite.C01_blocks_general",
    "FileWrite.C01_blocks",
    "FileWrite.C01_write_file",
    "FileWrite.fold_card",
    "FileWrite.fold_block",
    "FileWrite.cardOKb_iff",
    "Spec.File.after_terminator_ignored",
    "Spec.File.stepLine_block",
    "Spec.File.comment_card_no_data",
    "Spec.File.expand_repeat",
    "Spec.File.expand_interp_length",
]

THEOREMS_WRAPPED = [
    "C01Wrapped.C01_wrapped_file",
]

# fixtures that are complete, well-formed problems (importance for every cell, no read cards, ASCII after cleaning)
GOOD_FIXTURES = None  # decided at run time: those MontePy reads and writes


def geometry_class(a, b):
    sa = [w for w in a.split() if w not in "()"]
    sb = [w for w in b.split() if w not in "()"]
    if sa == sb:
        return "parentheses-changed"
    if len(sa) != len(sb):
        return "token-lost-or-fused"
    return "token-changed"


def run_case(case):
    """-> dict(written, objects | error)"""
    import warnings

    warnings.simplefilter("ignore")
    limit = case["limit"]
    text = case["text"]
    res = {}
    with wholefile.Scratch() as sc:
        try:
            p = wholefile.read_text(text, limit, sc)
        except Exception as e:  # noqa: BLE001
            return {"stage": "read", "error": type(e).__name__, "msg": str(e)[:300]}
        try:
            res["objects"] = wholefile.object_lines(wholefile.read_text(text, limit, sc, "twin.imcnp"))
        except Exception as e:  # noqa: BLE001
            res["objects_error"] = type(e).__name__ + ": " + str(e)[:200]
        try:
            res["written"] = wholefile.write_text(p, sc)
        except Exception as e:  # noqa: BLE001
            return {"stage": "write", "error": type(e).__name__, "msg": str(e)[:300]}
    return res


def judge(case, res, dens):
    """dens = (denotation of original, denotation of written). -> list of (signature, what)"""
    out = []
    if dens is not None:
        ok, why = spec.well_formed(dens[0])
        if not ok:
            return [("skip", "not well-formed per G: " + why)]
    if "error" in res:
        if case["kind"] == "gen" or res["stage"] == "write":
            out.append(({"mechanism": "roundtrip", "class": res["stage"] + "-raised", "exception": res["error"]},
                        f"{res['stage']} raised {res['error']}: {res['msg'][:120]}"))
        return out
    a, b = dens
    seen = set()
    for cls, where, detail in spec.diff_problems(a, b, geometry_equal=spec.geometry_equal):
        sig = {"mechanism": "roundtrip", "class": cls}
        if cls == "cell-geometry":
            sig["how"] = geometry_class(detail[0], detail[1])
        elif cls in ("comment-c", "comment-dollar", "comment-block-head"):
            sig["how"] = "lost" if len(detail[1]) < len(detail[0]) else ("added" if len(detail[1]) > len(detail[0]) else "changed")
            # which kind of card owns the comment (narrow signatures: a loss elsewhere is a different violation)
            if where.startswith("data["):
                name = where.split(":", 1)[1].split()[0] if ":" in where else ""
                base = name.split(":")[0].lstrip("*").rstrip("0123456789")
                sig["card"] = "data:" + (base if base in spec.CELL_DATA else "other")
            else:
                sig["card"] = where.split("[")[0]
        elif cls in ("cell-param-missing",):
            sig["how"] = ("dropped " if detail[1] else "added ") + str(detail[0][0])
        elif cls == "data-entries":
            sig["how"] = where.split(":", 1)[1].split()[0].rstrip("0123456789") if ":" in where else ""
        key = json.dumps(sig, sort_keys=True)
        if key in seen:
            continue
        seen.add(key)
        out.append((sig, f"{cls} at {where}: {str(detail)[:200]}"))
    return out


def _dens(c, r):
    if "written" in r:
        return tuple(spec.denote_many([c["text"], r["written"]], c["limit"]))
    return (spec.denote_many([c["text"]], c["limit"])[0], None)


def model_request(case, res):
    o = res["objects"]
    return {"limit": case["limit"], "message": o["message"], "title": o["title"], "cells": o["cells"],
            "surfaces": o["surfaces"], "data": o["data"]}


# stored inputs that run first: minimised past failures (each is named in known_findings.json under "fixed")
CORPUS = [
    # eed8b67: a C comment between an entry and the repeat shortcut after it was written twice
    ("corpus-shortcut-comment", "shortcut comment\n1 0 -1\n2 0 1 -2\n3 0 2 -3\n4 0 3 -4\n5 0 4\n\n1 so 1\n2 so 2\n3 so 3\n4 so 4\n\n"
     "imp:n 1 1 1 1 0\nu 2j 37\nC fuel region\n       2r\nnps 10\n\n"),
    # seeded C01b: a lattice cell filled with a matrix of universes that is not symmetric under an index swap
    ("corpus-lattice-matrix", "lattice matrix\n1 0 -1 u=10 lat=1 fill=0:1 0:2 0:0 2 3 4 5 6 7 imp:n=1\n2 0 -2 u=2 imp:n=1\n3 0 -2 u=3 imp:n=1\n"
     "4 0 -2 u=4 imp:n=1\n5 0 -2 u=5 imp:n=1\n6 0 -2 u=6 imp:n=1\n7 0 -2 u=7 imp:n=1\n8 0 -3 fill=10 imp:n=1\n9 0 3 imp:n=0\n\n"
     "1 rpp -1 1 -1 1 -1 1\n2 so 5\n3 so 50\n\nmode n\n\n"),
    # d6a51a3: a tally segment input with both options (T and C) lost them, and the comment behind them
    ("corpus-fs-both-options", "fs both options\n1 0 -1 imp:n=1\n2 0 1 imp:n=0\n\n1 so 1\n2 so 2\n\nmode n\nf4:n 1\nfs4 -1 -2 T C $ total, cumulative\n"
     "f14:n 1\nfs14 -2 t c\nsd4 1 1 1 1\n\n"),
    # 3f161a1: the line break after a cell modifier's value was replaced by a blank
    ("corpus-modifier-line-break", "line break after vol\n837 0 (927 :     113 ) 8   113    113 -8   imp:n=2.0000     Imp:P=1 vol=31.0\n     U 20\n"
     "2 0 -8 imp:n,p=1 u=20\n\n8 so 1\n113 so 2\n927 so 3\n\nmode n p\n\n"),
]


def gen_cases(chk):
    cases = [{"kind": "gen", "name": n, "limit": lim, "text": t, "style": "plain"} for n, t in CORPUS for lim in (128, 80)]
    for name, text in wholefile.fixtures():
        for lim in (128, 80):
            cases.append({"kind": "fixture", "name": name, "limit": lim, "text": wholefile.ascii_clean(text)})
    rng = chk.rng("gen")
    n = chk.pick(300, 6000)
    for i in range(n):
        r = chk.rng("gen", i)
        # every fourth problem may hold lattice cells filled with a matrix of universes
        gp = genprob.generate(r, features=genprob.DEFAULT_FEATURES | {"lattice"}) if i % 4 == 1 else genprob.generate(r)
        style = "random" if i % 2 else "plain"
        limit = 80 if i % 3 == 0 else 128
        text = genprob.render(gp, r, limit=limit, style=style, crlf=(i % 11 == 0), final_blank=(i % 7 != 0))
        cases.append({"kind": "gen", "name": f"gen{i}", "limit": limit, "text": text, "style": style})
    return cases


def _has_read_card(text):
    return any(l.lstrip().lower().startswith("read ") for l in text.split("\n"))


def run(chk):
    chk.rule = (
        "cases: MontePy's own fixture files that are complete problems (read cards excluded: C20) and generated "
        "well-formed problems of the core grammar (vlib/genprob.py) in plain and random layouts, 80 and 128 columns, "
        "LF/CRLF, with/without final blank line. Non-trivial: the problem has >= 3 cards and at least one continuation "
        "line or comment; distinct by hash of the text."
    )
    chk.assumptions = [
        "the SLY lexer/LALR parser is not modelled: that the syntax trees are lossless is observed on the real trees (oracle), not proved",
        "Spec/File.lean is a faithful reading of MCNP's input rules (MCNP itself is not available)",
        "geometry is compared word for word after dropping explicit '+' signs, and when the words differ as Boolean functions (Spec/GeomEval.lean, all assignments, <= 14 atoms)",
    ]
    chk.trusted_base = [
        "Lean 4.33.0 kernel",
        "Spec/File.lean (independent MCNP-rules reader) and its sanity theorems",
        "Model/FileWrite.lean tied to write_to_file by the U-write-order correspondence of this run",
        "harness tools/props/c01.py, tools/vlib/wholefile.py, tools/vlib/spec.py",
    ]
    leanio.prove(chk, "MontePyVerif.Props.C01Blocks", THEOREMS, "MontePyVerif")
    # the composition with C10's wrapping theorem lives in a module of its own (it imports both)
    leanio.prove(chk, "MontePyVerif.Props.C01Wrapped", THEOREMS_WRAPPED, "MontePyVerif")
    if chk.thorough:
        leanio.leanchecker(chk, ["MontePyVerif.Props.C01Blocks"])
    drv = leanio.Driver(chk, "drv_c01")

    cases = [c for c in gen_cases(chk) if not _has_read_card(c["text"])]
    results = pmap(run_case, cases, chunksize=4)

    # fixtures that MontePy refuses to read are (deliberately) malformed test inputs: not in the quantifier
    usable = []
    for c, r in zip(cases, results):
        if c["kind"] == "fixture" and r.get("stage") == "read":
            chk.count("fixture-not-readable")
            continue
        usable.append((c, r))
    dens = {}
    for lim in (80, 128):
        ks = [k for k, (c, r) in enumerate(usable) if c["limit"] == lim]
        if not ks:
            continue
        orig = spec.denote_many([usable[k][0]["text"] for k in ks], lim)
        wk = [k for k in ks if "written" in usable[k][1]]
        writ = dict(zip(wk, spec.denote_many([usable[k][1]["written"] for k in wk], lim))) if wk else {}
        for k, o in zip(ks, orig):
            dens[k] = (o, writ.get(k))

    reqs, req_idx = [], []
    for k, (c, r) in enumerate(usable):
        if "objects" in r and "written" in r:
            reqs.append(model_request(c, r))
            req_idx.append(k)
    model = drv.batch(reqs) if drv.ok else None
    model_by = dict(zip(req_idx, model)) if model is not None else {}
    chk.units["U-write-order"] = {"cases": len(reqs)}

    for k, (c, r) in enumerate(usable):
        d = dens.get(k)
        ncards = (len(d[0]["cells"]) + len(d[0]["surfaces"]) + len(d[0]["data"])) if d else 0
        ok, why = spec.well_formed(d[0])
        if not ok:
            chk.count("not-in-quantifier:" + why.split("(")[0].strip()[:50])
            continue
        nontrivial = ncards >= 3 and ("\n     " in c["text"] or "$" in c["text"] or "\nc " in c["text"].lower())
        chk.note_case({"name": c["name"], "limit": c["limit"], "hash": chash(c["text"]), "first_lines": c["text"].split("\n")[:4]}, nontrivial)
        chk.count("kind:" + c["kind"])
        chk.count(f"limit:{c['limit']}")
        if c.get("style"):
            chk.count("style:" + c["style"])
        verdicts = judge(c, r, d)
        if verdicts and verdicts[0][0] == "skip":
            chk.count("not-in-quantifier:" + verdicts[0][1].split(":")[0])
            continue
        for sig, what in verdicts:
            # confirm (and shrink generated cases) before reporting
            r2 = run_case(c)
            d2 = _dens(c, r2)
            if sig not in [s for s, _ in judge(c, r2, d2)]:
                chk.count("flaky:violation-not-reproduced")
                continue
            text = c["text"]
            if c["kind"] == "gen" and len(chk.violations) < 6:

                def fails(t, sig=sig, c=c):
                    cc = dict(c, text=t)
                    rr = run_case(cc)
                    return sig in [s for s, _ in judge(cc, rr, _dens(cc, rr))]

                text = wholefile.shrink_text(text, fails, c["limit"])
            rr = run_case(dict(c, text=text))
            chk.violation(sig, what, {"name": c["name"], "limit": c["limit"], "text": text, "written": rr.get("written"), "error": rr.get("error")})
        if k in model_by:
            chk.traces_validated += 1
            m = model_by[k]
            written_lines = r["written"].split("\n")
            if written_lines and written_lines[-1] == "":
                written_lines = written_lines[:-1]
            if m.get("lines") != written_lines:
                chk.disagreements_checked += 1
                # find first differing line for the report
                ml = m.get("lines") or []
                j = next((i for i, (x, y) in enumerate(zip(ml, written_lines)) if x != y), min(len(ml), len(written_lines)))
                chk.broken_obligation(
                    "correspondence",
                    "U-write-order (Model/FileWrite.lean writeLines vs MCNP_Problem.write_to_file)",
                    {"first_difference_at_line": j, "model": ml[j : j + 3], "impl": written_lines[j : j + 3], "error": m.get("error")},
                    {"name": c["name"], "limit": c["limit"], "text": c["text"]},
                )
            else:
                # hypotheses of C01_blocks evaluated on what the real code wrote
                if m["bad_cards"] or not m["heads_ok"]:
                    chk.violation(
                        {"mechanism": "block-structure", "class": "card-breaks-block-structure"},
                        f"a written card violates CardOK (blank line inside, unindented continuation, comment-like first line or trailing &): {m['bad_cards'][:2]}",
                        {"name": c["name"], "limit": c["limit"], "text": c["text"], "bad_cards": m["bad_cards"]},
                    )
                if not m["phys_ok"]:
                    chk.violation(
                        {"mechanism": "block-structure", "class": "line-not-physical"},
                        f"a written line exceeds the column limit or contains a tab/CR: {m['not_phys'][:2]}",
                        {"name": c["name"], "limit": c["limit"], "text": c["text"], "lines": m["not_phys"][:5]},
                    )
                if m["ncards"] != m["spec_ncards"]:
                    chk.count("note:spec-card-count-differs-from-objects")


def replay(chk, payload):
    case = payload["case"]
    c = {"kind": "gen", "name": case.get("name", "replay"), "limit": case["limit"], "text": case["text"]}
    chk.rule = "replay of one stored case"
    r = run_case(c)
    d = _dens(c, r)
    chk.note_case({"name": c["name"]})
    for sig, what in judge(c, r, d):
        chk.violation(sig, what, {"name": c["name"], "limit": c["limit"], "text": c["text"], "written": r.get("written")})
    chk.add_obligation("replay", True)
