"""C02 — a cell's geometry keeps its Boolean meaning through read, edit and write.

prove       : lean/MontePyVerif/Props/C02.lean (printer correctness of the model of HalfSpace._update_values /
              GeometryTree.format against the Spec reader of MCNP geometry; meaning of the operators; histories)
correspond  : unit U-geometry — Model/Geometry.lean vs montepy.surfaces.half_space + cell_parser trees
              (parse: tree text and HalfSpace shape; print: token sequence of the written cell; switch: _update_node)
judge       : truth tables (Spec evaluator through the driver) of the text read, of cell.geometry (walk of the live
              HalfSpace objects) and of the text written; after operator edits the expected table is computed from
              the operands' tables
"""

import itertools
import json
import os

from vlib import geom, leanio
from vlib.core import VERIF, canon, MachineryError
from vlib.par import pmap, shrink_list

META = {
    "property_id": "C02",
    "technique": "Lean 4 proof: pretty-printer correctness of an executable model of HalfSpace._update_values/GeometryTree.format against an independent one-pass reader of MCNP geometry (structural induction, no size bound), operator and history theorems; differential correspondence model vs implementation; truth-table oracle on the real code",
    "design_ref": "6 C02",
}

THEOREMS = [
    "C02_spec_precedence",
    "C02_write_meaning",
    "C02_no_fusion",
    "C02_cell_write_meaning",
    "C02_read_meaning",
    "C02_update_ready",
    "C02_update_meaning",
    "C02_write_meaning_wf",
    "C02_no_fusion_wf",
    "C02_ready_wf",
    "C02_history_wf",
    "C02_cell_update",
    "C02_cell_history",
    "C02_ops_setOperator",
    "C02_setOperator_write",
    "C02_history_edits",
    "C02_history_every_write",
    "C02_editAt_meaning",
    "C02_levels_once",
    "C02_levels_fuel",
    "C02_ops_surface",
    "C02_ops_cell",
    "C02_ops_and",
    "C02_ops_or",
    "C02_ops_invert",
    "C02_ops_iand",
    "C02_ops_ior",
    "C02_history",
    "C02_history_write",
    "C02_parentheses_matter",
    "C02_new_nodes_ready",
]

CORPUS_DIR = os.path.join(VERIF, "corpus", "C02")
WORKERS = 8


# --------------------------------------------------------------------------- evaluation of one case
def denote_requests(case, impl):
    """Spec evaluations needed to judge `impl`: (tag, request)."""
    reqs = []
    vs = case["vars"]
    if case["origin"] == "parsed" and "tree" in impl:
        reqs.append(("read", {"op": "denote", "text": geom.abstract(case["text"], False), "vars": vs}))
    for i, st in enumerate(impl.get("steps", [])):
        if "text" in st:
            reqs.append((("write", i), {"op": "denote", "text": st["text"], "vars": vs}))
    return reqs


def model_request(case, impl):
    if case["origin"] == "parsed":
        init = {"parsed": impl["tree"]}
    else:
        init = {"scratch": geom.model_expr(case["init"])}
    ops = []
    for i, op in enumerate(case["ops"]):
        m = {"k": op["k"]}
        if op["k"] in ("setdiv", "setside"):
            break  # leaf edits are not modelled: the model follows the history up to here, the oracle judges all of it
        if op["k"] != "write":
            if i >= len(impl["steps"]):
                break  # the implementation stopped before this step
            if impl["steps"][i].get("noop"):
                ops.append({"k": "noop"})
                continue
            m["path"] = impl["steps"][i].get("path", "")
        if "xt" in op:
            if i < len(impl["steps"]) and "xtree" in impl["steps"][i]:
                m["xp"] = impl["steps"][i]["xtree"]
            else:
                break  # the implementation stopped before this step
        elif "x" in op:
            m["x"] = geom.model_expr(op["x"])
        if "o" in op:
            m["o"] = op["o"]
        ops.append(m)
    return {"op": "model", "init": init, "ctr": impl["ctr"], "ops": ops}


def last_edit(case, upto):
    k = "unedited"
    for op in case["ops"][:upto]:
        if op["k"] != "write":
            k = op["k"]
    return k


def judge(case, impl, den):
    """The property on the observations of the real code. `den`: tag -> Spec answer. Returns (signature, what) or None."""
    origin = case["origin"]
    if "rejected" in impl:
        return None  # acceptance of a sentence is property C12's; nothing was read
    exp = geom.expected_tables(case, impl)
    base = {"origin": origin}
    if origin == "parsed":
        r = den["read"]
        if not r.get("ok"):
            raise MachineryError(f"generator produced text the Spec does not read: {case['text']!r} {r}")
        if r["table"] != exp[0]:
            raise MachineryError(f"Spec reading of the generated text differs from the generator's AST: {case['text']!r}")
        if impl.get("init_table") != exp[0]:
            return dict(base, mechanism="geometry-parse", **{"class": "meaning-changed"}, op="read"), (
                f"text {case['text']!r} is read as {impl.get('init_str')}"
            )
    elif "raised" not in impl or impl.get("init_table") is not None:
        if impl.get("init_table") != exp[0]:
            return dict(base, mechanism="geometry-op", **{"class": "meaning-changed"}, op="build"), (
                f"operators built {impl.get('init_str')} for {canon(case['init'])}"
            )
    for i, op in enumerate(case["ops"]):
        if i >= len(impl["steps"]):
            return dict(base, mechanism="geometry-op" if op["k"] != "write" else "geometry-print", **{"class": "raised"}, op=op["k"]), (
                f"{op['k']} raised {impl.get('raised')}"
            )
        st = impl["steps"][i]
        want = exp[i + 1]
        if st.get("table") != want:
            return dict(base, mechanism="geometry-op", **{"class": "meaning-changed"}, op=op["k"]), (
                f"after {op['k']} cell.geometry is {st['str']}, which is not the region the operands define"
            )
        if op["k"] == "write":
            d = den[("write", i)]
            edit = last_edit(case, i)
            if not d.get("ok"):
                return dict(base, mechanism="geometry-print", **{"class": "unreadable"}, op=edit), (
                    f"{st['str']} is written {st['text']!r}, which MCNP cannot read ({d.get('why')})"
                )
            if d["table"] != want:
                nums = {t.lstrip("-#") for t in d["toks"] if t.lstrip("-#").isdigit()}
                known = {str(v[1]) for v in case["vars"]}
                cls = "fused-numerals" if not nums <= known else "meaning-changed"
                return dict(base, mechanism="geometry-print", **{"class": cls}, op=edit), (
                    f"{st['str']} is written {st['text']!r}, which denotes another region"
                )
    return None


def compare(case, impl, den, model):
    """Model vs implementation, at token level. Returns (unit, detail) or None."""
    if "rejected" in impl:
        return None
    if model is None or "error" in model:
        return "U-geometry (model driver)", {"model": model}
    if case["origin"] == "parsed":
        if model["parse_text"] != impl["tree_text"]:
            return "U-geometry-parse (GT.format vs GeometryTree.format)", {"impl": impl["tree_text"], "model": model["parse_text"]}
        if impl["tree_text"] != geom.abstract(case["text"], False):
            return "U-geometry-parse (tree text vs input text: CellParser tree not lossless)", {"impl": impl["tree_text"], "input": case["text"]}
    if model.get("wf") is not True:
        return "HS.WF (hypothesis of C02_write_meaning_wf / C02_history_wf / C02_cell_update) does not hold of a tree the parser or the operators built", {
            "input": case.get("text"), "operands": [op.get("xt") for op in case["ops"] if "xt" in op]}
    if model["init"] != impl["init_str"]:
        return "U-geometry-parse (parseInputNode vs HalfSpace.parse_input_node)" if case["origin"] == "parsed" else "U-geometry-ops", {
            "impl": impl["init_str"], "model": model["init"]}
    for i, op in enumerate(case["ops"]):
        if op["k"] in ("setdiv", "setside"):
            break  # not modelled from here on (leaf edit)
        if i >= len(impl["steps"]):
            return "U-geometry (implementation raised)", {"impl": impl.get("raised"), "step": i}
        if i >= len(model["steps"]):
            return "U-geometry (model stopped)", {"step": i}
        si, sm = impl["steps"][i], model["steps"][i]
        if si["str"] != sm["str"]:
            return "U-geometry-ops (operators vs HalfSpace.__and__/__or__/__invert__/__iand__/__ior__)", {
                "step": i, "op": op["k"], "impl": si["str"], "model": sm["str"]}
        if op["k"] == "write":
            if sm.get("ready") is not True:
                return "C02_update_ready (hypothesis `ready` of C02_write_meaning does not hold of the model's tree after updateValues)", {
                    "step": i, "model": sm["text"]}
            d = den[("write", i)]
            ti = d.get("toks") if d.get("ok") or "toks" in d else None
            # comments are compared by number of comment-carrying lines (a second "$" on a line is inside the first)
            if ti != sm["toks"] or si["text"].count("$") != geom.abstract(sm["text"], False).count("$"):
                return "U-geometry-print (updateValues/fmt vs HalfSpace._update_values/GeometryTree.format)", {
                    "step": i, "impl": si["text"], "model": sm["text"]}
    return None


def evaluate(drv, case):
    """Everything for one case, in this process (used for confirmation, shrinking and replay)."""
    impl = geom.run_impl(case)
    if "rejected" in impl:
        return impl, {}, None
    reqs = denote_requests(case, impl)
    batch = [r for _, r in reqs]
    if "ctr" in impl and ("tree" in impl or case["origin"] == "scratch"):
        batch.append(model_request(case, impl))
    out = drv.batch(batch) if drv.ok else None
    if out is None:
        return impl, {}, None
    den = {tag: o for (tag, _), o in zip(reqs, out)}
    model = out[len(reqs)] if len(out) > len(reqs) else None
    return impl, den, model


# --------------------------------------------------------------------------- shrinking
def sub_asts(a):
    if a["e"] in ("s", "c"):
        return
    yield a["a"]
    if "b" in a:
        yield a["b"]
    for k in ("a", "b"):
        if k in a:
            for s in sub_asts(a[k]):
                r = dict(a)
                r[k] = s
                yield r


def shrink_case(case, still_fails, rng_seed=0):
    import random

    def remake(init, ops):
        c = geom.make_case(case["origin"], init, ops, random.Random(rng_seed), plain=False)
        if case["origin"] == "parsed":
            c["text"] = geom.render(init, random.Random(rng_seed), 0, plain=False)
        return c

    best = case
    ops = shrink_list(case["ops"], lambda o: still_fails(dict(case, ops=o)))
    if still_fails(dict(case, ops=ops)):
        best = dict(case, ops=ops)
    for _ in range(30):
        improved = False
        for s in sub_asts(best["init"]):
            for plain in (True, False):
                c = geom.make_case(best["origin"], s, best["ops"], random.Random(rng_seed), plain=plain)
                if still_fails(c):
                    best = c
                    improved = True
                    break
            if improved:
                break
        if not improved:
            break
    if best["origin"] == "parsed":
        c = geom.make_case("parsed", best["init"], best["ops"], random.Random(rng_seed), plain=True)
        if still_fails(c):
            best = c
    return best


# --------------------------------------------------------------------------- switch unit (_update_node on one node)
PAD_ITEMS = [" ", "  ", "     ", "\n", ":", "#", " : ", " #", "&", {"c": 4}, {"c": 7}]


def switch_impl(case):
    import warnings

    warnings.filterwarnings("ignore")
    from vlib import mp
    from montepy.input_parser import syntax_node as sn
    from montepy.geometry_operators import Operator
    from montepy.surfaces.half_space import HalfSpace

    prob, _ = geom.fresh_problem()
    S = prob.surfaces

    def operand(parens, a, b):
        return (+S[a] | -S[b]) if parens else +S[a]

    hs = operand(case["lparens"], 1, 2) & operand(case["rparens"], 3, 4)
    hs._ensure_has_nodes()
    pad = sn.PaddingNode()
    for it in case["pad"]:
        if isinstance(it, dict):
            pad.nodes.append(sn.CommentNode("$" + "x" * (it["c"] - 1)))
        else:
            pad.nodes.append(it)
    hs.node.nodes["operator"] = pad
    op = {"inter": Operator.INTERSECTION, "union": Operator.UNION, "compl": Operator.COMPLEMENT}[case["hsop"]]
    hs._operator = op
    try:
        hs._update_node()
        out = hs.node.nodes["operator"]
        return {"text": geom.abstract(out.format(), False), "pad": geom.ser_pad(out)}
    except Exception as e:  # noqa: BLE001
        return {"raised": f"{type(e).__name__}: {e}"[:200]}


def gen_switch_cases(rng, n):
    cases = []
    for _ in range(n):
        pad = [rng.choice(PAD_ITEMS) for _ in range(rng.randint(0, 5))]
        # a comment node is always followed by a line end in a tree that was parsed; keep most cases like that
        fixed = []
        for it in pad:
            fixed.append(it)
            if isinstance(it, dict) and rng.random() < 0.8:
                fixed.append("\n")
        cases.append({"op": "switch", "pad": fixed, "hsop": rng.choice(["inter", "union", "compl"]),
                      "lparens": rng.random() < 0.3, "rparens": rng.random() < 0.3})
    return cases


# --------------------------------------------------------------------------- corpus
def load_corpus():
    cases = []
    if os.path.isdir(CORPUS_DIR):
        for f in sorted(os.listdir(CORPUS_DIR)):
            if f.endswith(".json"):
                with open(os.path.join(CORPUS_DIR, f)) as fh:
                    d = json.load(fh)
                for c in d.get("cases", [d.get("case")] if d.get("case") else []):
                    cases.append(c)
    return cases


def nontrivial(case):
    """a union below an intersection, or a complement of something that is not a cell, somewhere in the history"""

    def nt(a, under_and=False):
        e = a["e"]
        if e in ("s", "c"):
            return False
        if e == "not":
            return True
        if e == "par":
            return nt(a["a"], under_and)
        if e == "or" and under_and:
            return True
        return nt(a["a"], e == "and") or nt(a["b"], e == "and")

    if nt(case["init"]):
        return True
    kinds = [op["k"] for op in case["ops"] if op["k"] != "write"]
    if "setop" in kinds or "setdiv" in kinds or "setside" in kinds:
        return True
    return len(kinds) >= 1 and (len(set(k.replace("r", "").replace("i", "") for k in kinds)) > 1 or any(nt(op["x"]) for op in case["ops"] if "x" in op))


# --------------------------------------------------------------------------- the check
def process(chk, drv, cases, impls, outs_den, outs_model, unit):
    for case, impl, den, model in zip(cases, impls, outs_den, outs_model):
        chk.note_case({k: case[k] for k in ("origin", "init", "ops") if k in case} | ({"text": case["text"]} if "text" in case else {}),
                      nontrivial(case), sample_every=4000)
        chk.count("origin:" + case["origin"])
        chk.count("leaves:" + str(min(geom.nleaves(case["init"]), 12)))
        for op in case["ops"]:
            chk.count("op:" + op["k"])
        if "rejected" in impl:
            chk.count("rejected-by-montepy-parser:" + impl["rejected"])
            continue
        for st in impl.get("steps", []):
            if st.get("wrapped"):
                chk.count("write-re-wrapped-at-the-column-limit (judged before wrapping; C10)")
        if "text" in case:
            for mark, name in (("$", "dollar-comment"), ("\nc ", "c-comment"), ("&", "ampersand"), ("\n", "line-break"), (")(", "paren-adjacent")):
                if mark in case["text"]:
                    chk.count("layout:" + name)
        verdict = judge(case, impl, den)
        if verdict is not None:
            sig, what = verdict
            # every signature is confirmed (re-run in this process) and shrunk a few times only; further
            # occurrences of a signature that is already confirmed are only counted
            seen = chk.extra.setdefault("_sig_seen", {})
            seen[canon(sig)] = seen.get(canon(sig), 0) + 1
            if seen[canon(sig)] > 2:
                chk.count("violations-of-an-already-confirmed-signature")
                continue

            def fails(c, sig=sig):
                i2, d2, _ = evaluate(drv, c)
                try:
                    v = judge(c, i2, d2)
                except MachineryError:
                    return False
                return v is not None and v[0] == sig

            if not fails(case):
                chk.count("flaky:violation-not-reproduced")
                continue
            small = shrink_case(case, fails) if len(chk.violations) < 4 else case
            i2, d2, _ = evaluate(drv, small)
            v2 = judge(small, i2, d2)
            chk.violation(sig, v2[1] if v2 else what, {"case": small, "impl": i2})
            continue  # the state is corrupt: nothing else is compared for this case
        if model is not None and case["origin"] == "parsed" and "init_ready" in model:
            # C02_read_meaning is conditional on `ready` of the tree as read; it is not when a ")" of a nested right
            # operand is all that separates two operands ("2 (-5)-4": the code adds a blank there on write).
            # Those inputs are still judged by the truth-table oracle; the share is reported, never an alarm.
            chk.count("read-side theorem hypothesis (ready of the tree as read): " + ("holds" if model["init_ready"] else "does not hold"))
        if model is not None or drv.ok:
            chk.traces_validated += 1
            diff = compare(case, impl, den, model)
            if diff is not None:
                chk.disagreements_checked += 1
                name = diff[0]
                seen = chk.extra.setdefault("_sig_seen", {})
                seen[name] = seen.get(name, 0) + 1
                if seen[name] > 2:
                    chk.count("disagreements-of-an-already-confirmed-unit")
                    continue

                def differs(c, name=name):
                    i2, d2, m2 = evaluate(drv, c)
                    try:
                        if judge(c, i2, d2) is not None:
                            return False
                    except MachineryError:
                        return False
                    d = compare(c, i2, d2, m2)
                    return d is not None and d[0] == name

                if not differs(case):
                    chk.count("flaky:disagreement-not-reproduced")
                    continue
                small = shrink_case(case, differs) if len(chk.broken) < 3 else case
                i2, d2, m2 = evaluate(drv, small)
                d = compare(small, i2, d2, m2)
                chk.broken_obligation("correspondence", name, d[1] if d else diff[1], small)


def run_cases(chk, drv, cases, unit):
    impls = pmap(geom.run_impl, cases, workers=WORKERS)
    batch, index = [], []
    for ci, (case, impl) in enumerate(zip(cases, impls)):
        if "rejected" in impl:
            continue
        for tag, r in denote_requests(case, impl):
            index.append((ci, tag))
            batch.append(r)
        if "ctr" in impl and ("tree" in impl or case["origin"] == "scratch"):
            index.append((ci, "model"))
            batch.append(model_request(case, impl))
    outs = drv.batch(batch, timeout=7200) if drv.ok else None
    dens = [dict() for _ in cases]
    models = [None for _ in cases]
    if outs is not None:
        for (ci, tag), o in zip(index, outs):
            if tag == "model":
                models[ci] = o
            else:
                dens[ci][tag] = o
    chk.units[unit] = chk.units.get(unit, 0) + len(cases)
    process(chk, drv, cases, impls, dens, models, unit)


def run(chk):
    chk.rule = (
        "a case is a geometry AST (surfaces 1-9 with sense '', '+', '-', cell complements #91-#93, intersection, union, "
        "complement, redundant parentheses to depth 3) either rendered to MCNP text with random padding, $ and c comments, "
        "line breaks and & (origin parsed) or built with the Python operators (origin scratch), followed by up to 8 of "
        "&, |, ~, &=, |= (both operand orders), replacement (left/right/geometry setter) with fresh operands, the operator setter (4 % of the steps); 45 % of the edits address an inner HalfSpace (path from the root, chosen in the live tree at that moment); writes are interleaved at arbitrary positions and every written text is judged; always ending in a write. "
        "Non-trivial: a union below an intersection or a complement of a non-cell somewhere, or edits of two different kinds. "
        "Distinct = distinct canonical JSON."
    )
    chk.assumptions = [
        "the SLY lexer/LALR parser is not modelled: the model starts from the serialised CellParser tree (unit U-geometry-parse compares tree text and HalfSpace shape)",
        "leaf edits (divider / side setters, renumbering) are outside C02 (C04/C05); ValueNode.format of an edited leaf is not modelled",
        "one HalfSpace object is not shared between two trees (aliasing under in-place &=, |= is not modelled)",
        "the operator setter / del right (the __switch_operator symbol changes) are modelled for one node (unit U-switch), not inside histories",
        "shortcuts inside geometry are excluded (DESIGN 5.2)",
        "wrapping of long lines is property C10's: the geometry text is taken from the lines of Cell.format_for_mcnp_input((6,2,0)); when a line reaches the 128-column limit and wrap_string_for_mcnp re-breaks it (counted in the input distribution) the text handed to the wrapper is judged instead",
    ]
    chk.trusted_base = [
        "Lean 4.33.0 kernel",
        "Spec lean/MontePyVerif/Spec/Geometry.lean as a reading of the MCNP manual's cell-card rules",
        "hand-written model lean/MontePyVerif/Model/Geometry.lean, tied to the code by the U-geometry correspondence of this run",
        "harness tools/props/c02.py + tools/vlib/geom.py (serialises the live trees, abstracts comments to one character, calls Cell.format_for_mcnp_input)",
    ]
    leanio.prove(chk, "MontePyVerif.Props.C02", THEOREMS, "MontePyVerif.C02")
    drv = leanio.Driver(chk, "drv_c02")
    try:
        _run(chk, drv)
    finally:
        chk.extra.pop("_sig_seen", None)


def _run(chk, drv):
    # 1. corpus of minimised past failures
    corpus = load_corpus()
    run_cases(chk, drv, corpus, "corpus")

    # 2. exhaustive small space
    exh = []
    rng_e = chk.rng("exhaustive-layout")
    top = chk.pick(3, 4)
    for n in range(1, top + 1):
        lim = None if n <= 3 else 2
        for a in geom.enum_asts(n, lim, lim):
            exh.append(geom.make_case("scratch", geom.strip_par(a), [{"k": "write"}]))
            exh.append(geom.make_case("parsed", a, [{"k": "write"}], rng_e, plain=True))
    # the same AST stripped of parentheses occurs many times from scratch: keep one of each
    seen, uniq = set(), []
    for c in exh:
        h = canon([c["origin"], c.get("text"), c["init"] if c["origin"] == "scratch" else None])
        if h not in seen:
            seen.add(h)
            uniq.append(c)
    # write; edit the HalfSpace at every address; write
    rng_w = chk.rng("write-edit-write")
    for origin, a, ops in geom.gen_write_edit_write(chk.pick(4, 5), chk.pick(3, 4)):
        uniq.append(geom.make_case(origin, a, ops, rng_w, plain=True))
    chk.exhaustive = {
        "space": f"all geometry trees with <= {top} leaves over (intersection, union) x complement at any node x redundant parentheses at any node x (from scratch, parsed)"
        + ("" if top <= 3 else "; with 4 leaves at most 2 complements and at most 2 redundant parentheses"),
        "cases": len(uniq),
        "histories": "for every tree with <= 4 leaves over (intersection, union) x (from scratch, parsed): write; hs.operator = inter/union at every binary address; write - and with <= 3 leaves also without the first write, and write; |=, &=, ~, replace at every address; write",
    }
    run_cases(chk, drv, uniq, "exhaustive")

    # 3. random deeper trees and operator histories
    rng = chk.rng("random")
    cases = []
    for i in range(chk.pick(2000, 60000)):
        n = rng.choice([1, 2, 3, 4, 5, 6, 7, 8, 10, 12])
        origin = "parsed" if i % 2 == 0 else "scratch"
        a = geom.gen_ast(rng, n, par=(origin == "parsed"))
        if origin == "scratch":
            a = geom.strip_par(a)
        ops = geom.gen_ops(rng) if rng.random() < 0.75 else [{"k": "write"}]
        cases.append(geom.make_case(origin, a, ops, rng))
    run_cases(chk, drv, cases, "random")

    # 4. _update_node / __switch_operator on one node
    sw = gen_switch_cases(chk.rng("switch"), chk.pick(1500, 20000))
    si = pmap(switch_impl, sw, workers=WORKERS)
    sm = drv.batch(sw) if drv.ok else None
    chk.units["switch"] = len(sw)
    if sm is not None:
        for c, a, b in zip(sw, si, sm):
            chk.evaluations += 1
            chk.count("switch:" + c["hsop"])
            if a.get("pad") != b.get("pad"):
                a2 = switch_impl(c)
                if a2 != a:
                    chk.count("flaky:switch")
                    continue
                chk.disagreements_checked += 1
                chk.broken_obligation("correspondence", "U-switch (updateNode/switchOperator vs HalfSpace._update_node/__switch_operator)",
                                      {"impl": a, "model": b}, c)
            else:
                chk.traces_validated += 1


def replay(chk, payload):
    case = payload.get("case")
    if payload.get("verdict") == "no-failing-input-found":
        case = payload["no_longer_checks"][0]["case"]
    elif isinstance(case, dict) and "case" in case:
        case = case["case"]
    chk.rule = "replay of one stored case"
    drv = leanio.Driver(chk, "drv_c02")
    chk.add_obligation("replay", True)
    if case is None:
        raise MachineryError("replay file holds no case")
    if case.get("op") == "switch":
        a, b = switch_impl(case), drv.batch([case])[0]
        chk.evaluations += 1
        if a.get("pad") != b.get("pad"):
            chk.broken_obligation("correspondence", "U-switch", {"impl": a, "model": b}, case)
        return
    impl, den, model = evaluate(drv, case)
    chk.note_case(case)
    v = judge(case, impl, den)
    if v is not None:
        chk.violation(v[0], v[1], {"case": case, "impl": impl})
        return
    d = compare(case, impl, den, model)
    if d is not None:
        chk.broken_obligation("correspondence", d[0], d[1], case)
