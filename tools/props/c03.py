"""C03 — valid edits are accepted and written exactly, and nothing else changes.

prove       : lean/MontePyVerif/Props/C03.lean (refinement of the heap model of the setters to an abstract record of
              quantities, invariant by induction over edit histories)
correspond  : U-setter (Model/Edits.lean `applyEdit`/`α` vs the public setters, state read back through the API after every
              edit) and U-write (`written` vs the Spec reading of the file MontePy wrote)
judge       : Spec denotation of the written file  ==  Spec denotation of the unedited write with the edits applied abstractly
"""

import copy
import json
import os
import signal
from fractions import Fraction

from vlib import leanio, spec, genprob, wholefile
from vlib import c03_impl as ci
from vlib.core import canon, VERIF
from vlib.par import pmap, shrink_list

META = {
    "property_id": "C03",
    "technique": "Lean 4 proof: refinement of a heap-of-nodes model of the property setters to an abstract record of quantities "
    "(frame theorem from an injectivity invariant, preserved by every edit, lifted to histories by induction); differential "
    "correspondence model vs implementation; Spec oracle on the written file",
    "design_ref": "6 C03",
}

THEOREMS = [
    "C03_accepts",
    "C03_refines",
    "C03_frame",
    "C03_inv_preserved",
    "C03_history",
    "C03_importance",
    "C03_density",
    "C03_datablock_row",
    "C03_written",
    "C03_written_all",
    "C03_shared_write_refuted",
    "C03_universe_keeps_mark",
    "C03_claim_keeps_mark",
    "exec_refines",
    "plan_targets",
]

TINY = [
    """tiny cell-block problem
1 1 0.5 -1 imp:n,p=1
2 0 1 -2 imp:n,p=1 vol=3
3 2 -1.5 2 -6 imp:n=1 imp:p=0 u=1
4 0 -3 fill=1 imp:n,p=1
5 0 3 -4 5 imp:n,p=0 fill=1 (1) lat=1

1 pz 1
*2 cz 2
3 1 px 3
4 -5 py 1
5 -4 py 5
6 c/z 1 2 3
+7 p 1 0 0 4

m1 1001.80c 0.5 8016.80c 0.5
mt1 lwtr.23t
m2 92235.80c -1.0
tr1 0 0 1
tr2 0 0 1 1 0 0 0 1 0 0 0 1
mode n p
nps 100
""",
    """tiny data-block problem
1 1 0.5 -1
2 0 1 -2
3 1 -2.5 2

1 pz 1
2 cz 2

m1 1001.80c 1.0
mode n p
imp:n,p 1 1 0
vol 1 2 3
u 0 1 1
nps 100
""",
    # cells that carry the not-truncated mark (u=-n) when they are read, and more than one universe to move them to
    """tiny marked-universes problem (cell block)
1 1 0.5 -1 u=5 imp:n=1
2 1 0.5 -1 u=-6 imp:n=1 vol=2
3 0 1 -2 u=-7 imp:n=1
4 0 -3 fill=5 imp:n=1
5 0 3 -4 fill=6 imp:n=1
6 0 4 imp:n=0

1 so 1
2 so 2
3 so 10
4 so 20

m1 1001.80c 1.0
mode n
nps 100
""",
    """tiny marked-universes problem (data block)
1 1 0.5 -1
2 1 0.5 -1
3 0 1 -2
4 0 -3
5 0 3 -4
6 0 4

1 so 1
2 so 2
3 so 10
4 so 20

m1 1001.80c 1.0
mode n
imp:n 1 1 1 1 1 0
u 5 -6 -7 3j
fill 3j 5 6 j
nps 100
""",
]


# --------------------------------------------------------------------------- generator of valid edit scripts
# numbers that an earlier renumbering of the same script gave up (reset by gen_script): handing one of them to another
# object is a valid edit, and the one a stale number cache gets wrong (seeded C03a)
_FREED = []


def _free(rng, used, lo=1, hi=99):
    given_up = [n for n in _FREED if n not in used and lo <= n <= hi]
    if given_up and rng.random() < 0.4:
        return rng.choice(given_up)
    for _ in range(200):
        n = rng.randint(lo, hi)
        if n not in used:
            return n
    return max(used, default=0) + 1


def _sf(rng, positive=True):
    x = rng.choice([0.5, 1.0, 1.5, 2.0, 2.5, 3.0, 4.0, 7.25, 10.0, 12.5, 0.125, 100.0, 0.75])
    if not positive and rng.random() < 0.3:
        x = -x
    return x


ROTS = [
    [0.0, 1.0, 0.0, 1.0, 0.0, 0.0, 0.0, 0.0, 1.0],
    [1.0, 0.0, 0.0, 0.0, 0.0, 1.0, 0.0, 1.0, 0.0],
    [0.0, 0.0, 1.0, 0.0, 1.0, 0.0, 1.0, 0.0, 0.0],
    # direction cosines that need all their digits (30 and 20 degrees about z)
    [0.8660254037844387, -0.49999999999999994, 0.0, 0.49999999999999994, 0.8660254037844387, 0.0, 0.0, 0.0, 1.0],
    [0.9396926207859084, 0.3420201433256687, 0.0, -0.3420201433256687, 0.9396926207859084, 0.0, 0.0, 0.0, 1.0],
]

KINDS = [
    "cellNumber", "surfNumber", "matNumber", "trNumber", "uniNumber", "material", "atomDensity", "massDensity",
    "importance", "importance", "importanceAll", "volume", "delVolume", "lattice", "delLattice", "universe", "claim", "notTruncated",
    "fillUniverse", "fillTransform", "surfConstants", "location", "radius", "coordinates", "reflecting", "white",
    "surfTransform", "periodic", "fraction", "laws", "addThermal", "displacement", "rotation", "inDegrees", "mainToAux",
    "modeAdd", "modeRemove", "modeSet", "title",
]


def gen_edit(rng, p, kinds=None, hint=None, standalone=False):
    """valid edit(s) for the current state of the live problem p: a list of edits (composites), or None"""
    C, S, M, T, U = p.cells.objects, p.surfaces.objects, p.materials.objects, p.transforms.objects, p.universes.objects
    mode = sorted(ci.part_name(x) for x in p.mode.particles)

    def pick(cands):
        cands = list(cands)
        if not cands:
            return None
        if hint is not None and hint in cands and rng.random() < 0.8:
            return hint
        return rng.choice(cands)

    for _ in range(40):
        k = rng.choice(kinds or KINDS)
        if k == "cellNumber" and C:
            return [[k, pick(range(len(C))), ci.enc(_free(rng, {c.number for c in C}, 1, 999))]]
        if k == "surfNumber" and S:
            return [[k, pick(range(len(S))), ci.enc(_free(rng, {s.number for s in S}, 1, 999))]]
        if k == "matNumber" and M:
            return [[k, pick(range(len(M))), ci.enc(_free(rng, {m.number for m in M}))]]
        if k == "trNumber" and T:
            n = _free(rng, {t.number for t in T})
            return [[k, pick(range(len(T))), ci.enc(float(n) if rng.random() < 0.2 else n)]]
        if k == "uniNumber":
            # universes inside a matrix FILL are references the reference model does not follow (C04): not renumbered here
            in_matrix = set()
            for c in C:
                if c.fill.multiple_universes and c.fill.universes is not None:
                    in_matrix |= {id(u) for u in c.fill.universes.flatten()}
            i = pick(i for i, u in enumerate(U) if u.number != 0 and id(u) not in in_matrix)
            if i is not None:
                return [[k, i, ci.enc(_free(rng, {u.number for u in U}))]]
        if k == "material" and C:
            i = pick(range(len(C)))
            c = C[i]
            if c.material is not None and rng.random() < 0.4:
                return [[k, i, None], ["delDensity", i]]
            if M:
                m = rng.randrange(len(M))
                if c.material is not None and rng.random() < 0.25:
                    # the material is replaced in two steps (void in between); the density is not touched
                    return [[k, i, None], [k, i, m]]
                out = [[k, i, m]]
                if c.material is None:
                    den = [rng.choice(["atomDensity", "massDensity"]), i, ci.enc(_sf(rng))]
                    # either order is a valid way to fill a void cell: the state in between is never written
                    out = [den] + out if rng.random() < 0.4 else out + [den]
                return out
        if k in ("atomDensity", "massDensity"):
            i = pick(i for i, c in enumerate(C) if c.material is not None)
            if i is not None:
                v = _sf(rng)
                return [[k, i, ci.enc(int(v) if v == int(v) and rng.random() < 0.2 else v)]]
        if k == "importance" and C and mode:
            v = rng.choice([0.0, 1.0, 2.0, 4.0, 0.5, 8.0, 3])
            return [[k, pick(range(len(C))), rng.choice(mode), ci.enc(v)]]
        if k == "importanceAll" and C and mode:
            i = pick(range(len(C)))
            if all(ci.particle(a) in C[i].importance for a in mode):
                return [[k, i, ci.enc(rng.choice([0.0, 1.0, 2.0, 3.0, 5]))]]
        if k == "volume" and C:
            v = _sf(rng)
            return [[k, pick(range(len(C))), ci.enc(None if rng.random() < 0.05 else (int(v) if v == int(v) and rng.random() < 0.2 else v))]]
        if k == "delVolume" and C:
            return [[k, pick(range(len(C)))]]
        if k == "lattice" and C:
            return [[k, pick(range(len(C))), ci.enc(rng.choice([1, 2]))]]
        if k == "delLattice" and C:
            return [[k, pick(range(len(C)))]]
        if k == "universe" and C and U:
            # a move = a universe other than the one the cell is in (re-assigning the same one is drawn too, less often);
            # cells that carry the not-truncated mark (read as u=-n, or marked earlier in the script) are preferred, and a
            # cell in a universe may be marked first and moved second: the mark is a quantity of its own that the move
            # does not edit (the opposite order is what the kind "notTruncated" draws)
            marked = [i for i, c in enumerate(C) if c.not_truncated]
            i = pick(marked) if marked and rng.random() < 0.5 else pick(range(len(C)))
            other = [j for j, u in enumerate(U) if u is not C[i].universe]
            j = rng.choice(other) if other and rng.random() < 0.85 else rng.randrange(len(U))
            if not C[i].not_truncated and C[i].universe.number != 0 and rng.random() < 0.3:
                return [["notTruncated", i, True], [k, i, j]]
            return [[k, i, j]]
        if k == "claim" and C and U:
            # universe.py:Universe.claim with a list of cells (marked and unmarked ones, cells already in the universe too)
            j = rng.randrange(len(U))
            n = rng.randint(1, min(3, len(C)))
            first = pick(range(len(C)))
            cells = [first] + [i for i in rng.sample(range(len(C)), n) if i != first][: n - 1]
            return [[k, j, cells]]
        if k == "notTruncated" and C:
            i = pick(range(len(C)))
            b = rng.random() < 0.6
            if not (b and C[i].universe.number == 0):
                return [[k, i, b]]
        if k == "fillUniverse" and C:
            i = pick(i for i, c in enumerate(C) if not c.fill.multiple_universes)
            cand = [j for j, u in enumerate(U) if u.number != 0]
            if i is not None and (cand or C[i].fill.universe is not None):
                if C[i].fill.universe is not None and (rng.random() < 0.3 or not cand):
                    return [[k, i, None]]
                return [[k, i, rng.choice(cand)]]
        if k == "fillTransform" and T and not p.print_in_data_block["fill"]:
            i = pick(i for i, c in enumerate(C) if not c.fill.multiple_universes and c.fill.universe is not None)
            if i is not None:
                if C[i].fill.transform is not None and rng.random() < 0.3:
                    return [[k, i, None]]
                return [[k, i, rng.randrange(len(T))]]
        if k == "surfConstants":
            i = pick(i for i, s in enumerate(S) if ci.surf_kind(s) == "generic" and s._surface_constants)
            if i is not None:
                cs = list(S[i].surface_constants)
                for _ in range(rng.randint(1, 2)):
                    cs[rng.randrange(len(cs))] = _sf(rng, positive=False)
                return [[k, i, [ci.enc(float(x)) for x in cs]]]
        if k == "location":
            i = pick(i for i, s in enumerate(S) if ci.surf_kind(s) == "axisPlane")
            if i is not None:
                v = _sf(rng, positive=False)
                return [[k, i, ci.enc(int(v) if v == int(v) and rng.random() < 0.2 else v)]]
        if k == "radius":
            i = pick(i for i, s in enumerate(S) if ci.surf_kind(s) in ("cylOnAxis", "cylParAxis"))
            if i is not None:
                return [[k, i, ci.enc(_sf(rng))]]
        if k == "coordinates":
            i = pick(i for i, s in enumerate(S) if ci.surf_kind(s) == "cylParAxis")
            if i is not None:
                return [[k, i, ci.enc(_sf(rng, False)), ci.enc(_sf(rng, False))]]
        if k in ("reflecting", "white") and S:
            i = pick(range(len(S)))
            b = rng.random() < 0.5
            other = "white" if k == "reflecting" else "reflecting"
            other_on = S[i].is_white_boundary if k == "reflecting" else S[i].is_reflecting
            if b and other_on:
                return [[other, i, False], [k, i, True]]
            return [[k, i, b]]
        if k == "surfTransform" and S:
            i = pick(i for i, s in enumerate(S) if s.periodic_surface is None)
            if i is not None:
                if S[i].transform is not None and (rng.random() < 0.4 or not T):
                    return [[k, i, None]]
                if T:
                    return [[k, i, rng.randrange(len(T))]]
        if k == "periodic" and S:
            i = pick(i for i, s in enumerate(S) if s.transform is None and ci.surf_kind(s) == "axisPlane")
            if i is not None:
                if S[i].periodic_surface is not None and rng.random() < 0.4:
                    return [[k, i, None]]
                cand = [j for j, s in enumerate(S) if j != i and type(s) is type(S[i])]
                if cand:
                    return [[k, i, rng.choice(cand)]]
        if k == "fraction" and M:
            i = pick(range(len(M)))
            n = len(M[i].material_components)
            if n:
                return [[k, i, rng.randrange(n), ci.enc(rng.choice([0.25, 0.5, 0.125, 0.75, 1.0, 2]))]]
        if k == "laws":
            i = pick(i for i, m in enumerate(M) if m.thermal_scattering is not None)
            if i is not None:
                return [[k, i, rng.sample(genprob.LAWS, rng.randint(1, 2))]]
        if k == "addThermal":
            i = pick(i for i, m in enumerate(M) if m.thermal_scattering is None)
            if i is not None:
                return [[k, i, rng.choice(genprob.LAWS)]]
        if k == "displacement" and T:
            return [[k, pick(range(len(T))), [ci.rat(_sf(rng, False)) for _ in range(3)]]]
        if k == "rotation" and T:
            return [[k, pick(range(len(T))), [ci.rat(x) for x in rng.choice(ROTS)]]]
        if k == "inDegrees" and T:
            i = pick(i for i, t in enumerate(T) if len(t.rotation_matrix) == 0)
            if i is not None:
                return [[k, i, rng.random() < 0.5]]
        if k == "mainToAux" and T:
            # behind a partial rotation matrix (3, 5 or 6 entries) M cannot be written (known finding C03-F2): only generated alone
            i = pick(i for i, t in enumerate(T) if len(t.rotation_matrix) in (0, 9) or standalone)
            if i is not None:
                return [[k, i, rng.random() < 0.5]]
        if k == "modeAdd":
            cand = [a for a in ("n", "p", "e") if a not in mode]
            if cand:
                a = rng.choice(cand)
                return [[k, a]] + [["importance", i, a, ci.enc(rng.choice([1.0, 0.0, 2.0]))] for i in range(len(C))]
        if k == "modeRemove" and len(mode) > 1 and rng.random() < 0.5:
            return [[k, rng.choice(mode)]]
        if k == "modeSet" and rng.random() < 0.3:
            return [[k, rng.choice([mode, mode, ["n"], ["n", "p"]]) if all(
                all(ci.particle(a) in c.importance for c in C) for a in ("n", "p")) else mode]]
        if k == "title":
            return [[k, rng.choice(["edited title", "New Title 2", "x", "title with $ and &"])]]
    return None


def gen_script(rng, text, limit, n):
    """draws about n valid edits, applying each to a live problem as it goes"""
    import warnings

    warnings.simplefilter("ignore")
    with wholefile.Scratch() as sc:
        try:
            p = wholefile.read_text(text, limit, sc)
        except Exception:  # noqa: BLE001
            return None
        script = []
        del _FREED[:]
        while len(script) < n:
            hint, kinds = None, None
            if script and rng.random() < 0.25:
                prev = rng.choice(script)
                kinds = [prev[0]]
                hint = prev[1] if len(prev) > 1 and isinstance(prev[1], int) else None
            es = gen_edit(rng, p, kinds, hint)
            if es is None:
                break
            ok = True
            for e in es:
                if e[0] in ("cellNumber", "surfNumber", "matNumber", "trNumber", "uniNumber"):
                    coll = {"cellNumber": p.cells, "surfNumber": p.surfaces, "matNumber": p.materials,
                            "trNumber": p.transforms, "uniNumber": p.universes}[e[0]]
                    try:
                        _FREED.append(coll.objects[e[1]].number)
                    except Exception:  # noqa: BLE001
                        pass
                if ci.outcome(p, e) != "ok":
                    ok = False  # the real code rejected a valid edit: keep it in the script, the oracle will judge it
                script.append(e)
                if not ok:
                    break
            if not ok:
                break
        return script


# --------------------------------------------------------------------------- running one case on the real code
class _Hang(Exception):
    pass


def _alarm(*a):
    raise _Hang()


def run_impl(case):
    import warnings

    with warnings.catch_warnings():
        warnings.simplefilter("ignore")
        return _run_impl(case)


def _run_impl(case):
    text, limit, script = case["text"], case.get("limit", 128), case["script"]
    res = {"ok": False}
    old = signal.signal(signal.SIGALRM, _alarm)
    signal.setitimer(signal.ITIMER_REAL, 120.0)
    try:
        with wholefile.Scratch() as sc:
            try:
                p0 = wholefile.read_text(text, limit, sc)
                res["base"] = wholefile.write_text(p0, sc, "base.imcnp")
                p = wholefile.read_text(text, limit, sc)
            except Exception as e:  # noqa: BLE001
                res["skip"] = f"unedited read/write fails: {type(e).__name__}"
                return res
            try:
                res["ser"] = ci.serialise(p)
                q = res["ser"]["probes"]
            except Exception as e:  # noqa: BLE001
                res["ser"] = None
                res["ser_error"] = f"{type(e).__name__}: {e}"
                q, _ = ci.probes(p)
            res["probes"] = q
            res["A0"] = ci.abstract_state(p)
            res["alpha0"] = ci.observe(p, q)
            steps = []
            for e in script:
                out = ci.outcome(p, e)
                try:
                    alpha = ci.observe(p, q)
                except Exception as ex:  # noqa: BLE001
                    alpha = f"observe raised {type(ex).__name__}"
                steps.append({"out": out, "alpha": alpha})
            res["steps"] = steps
            try:
                res["written"] = wholefile.write_text(p, sc, "out.imcnp")
            except _Hang:
                raise
            except Exception as e:  # noqa: BLE001
                res["write_error"] = type(e).__name__
            res["ok"] = True
    except _Hang:
        res["skip"] = "hang"
    finally:
        signal.setitimer(signal.ITIMER_REAL, 0)
        signal.signal(signal.SIGALRM, old)
    return res


class Touched(set):
    def __init__(self):
        super().__init__()
        self.by = {}
        self.cur = None

    def add(self, k):
        super().add(k)
        self.by[k] = self.cur

    def update(self, ks):
        for k in ks:
            self.add(k)


def _context(key, t0_blocks, A0, t0=None):
    if key == ("data", "mode") and t0 is not None and not t0.get(("meta", "mode-card")):
        return "no-mode-card"
    if key[0] == "data" and key[1].startswith("tr") and A0 is not None:
        num = key[1][2:]
        k = A0["tr_number"].index(int(num)) if num.isdigit() and int(num) in A0["tr_number"] else None
        if k is not None and len(A0["rot"][k]) not in (0, 9):
            return "partial-rotation"
        return "transform-card"
    if key[0] == "cell" and len(key) == 4 and key[2] in spec.CELL_DATA:
        blocks = t0_blocks.get(key[2])
        where = "data-block" if blocks == "data" else ("cell-block" if blocks == "cell" else "not-given")
        return where
    return key[0]


def _placement(den):
    """per datum: where the unedited file gives it"""
    out = {}
    for (i, base, part), given in spec.per_cell_table(den).items():
        b = given[0][0]
        out[base] = b if out.get(base, b) == b else "both"
    return out


def judge(case, res, den_base, den_written):
    """first failure of C03's own statement on the real code's outputs, or None.  -> (signature, what)"""
    script = case["script"]
    A = copy.deepcopy(res["A0"])
    if len(den_base["cells"]) != len(A["cell_number"]) or len(den_base["surfaces"]) != len(A["surf_number"]):
        return None  # MCNP's rules and MontePy split the file into different cards: not a problem of G (C01/C11)
    t0 = ci.table(den_base)
    place = _placement(den_base)
    t_exp = dict(t0)
    A["fill_tail"] = {i: list(t0[("cell", i, "fill", None)][1:]) for i in range(len(A["cell_number"]))
                      if A["fill_tr"][i] is not None and A["fill_tr"][i] >= len(A["tr_number"]) and t0.get(("cell", i, "fill", None))}
    touched = Touched()
    for k, (e, st) in enumerate(zip(script, res["steps"])):
        if st["out"] != "ok":
            sig = {"mechanism": "edit", "class": "valid-edit-rejected", "quantity": ci.QUANTITY_OF_OP[e[0]], "error": st["out"]}
            return sig, f"valid edit {e} rejected with {st['out']}", k
        touched.cur = e[0]
        ci.abstract_apply(A, t_exp, e, touched)
    if "write_error" in res:
        sig = {"mechanism": "edit", "class": "write-raises", "error": res["write_error"]}
        return sig, f"write_to_file raised {res['write_error']} after the edits", len(script)
    # damage to the line structure first (its symptoms elsewhere are consequences): a card swallowed by its neighbour,
    # a value that landed in a comment
    if len(den_written["cells"]) != len(den_base["cells"]) or len(den_written["surfaces"]) != len(den_base["surfaces"]):
        sig = {"mechanism": "edit", "class": "cards-fused"}
        return sig, (f"the written file has {len(den_written['cells'])} cell and {len(den_written['surfaces'])} surface cards, the original "
                     f"{len(den_base['cells'])} and {len(den_base['surfaces'])}: an input was continued into its neighbour"), len(script)
    new_comments = _comments(den_written) - _comments(den_base)
    if new_comments:
        sig = {"mechanism": "edit", "class": "value-in-comment"}
        return sig, f"the written file has comment text the original does not have: {sorted(new_comments)[:3]} (a value was written behind a comment)", len(script)
    t1 = ci.table(den_written)
    keys = sorted(set(t_exp) | set(t1), key=str)
    # an input nobody asked for first: its words are missing elsewhere as a consequence
    keys = [k for k in keys if k[0] == "data" and k not in t0 and k not in t_exp] + keys
    for key in keys:
        a, b = t_exp.get(key), t1.get(key)
        if (key[0] == "cell" and key[-1] == "fillstar") or key[0] == "meta":
            continue
        if key[0] == "cell" and "imp" in key[2:4] and key[-1] not in A["mode"]:
            continue  # MCNP ignores the importance of a particle that is not in the mode: no part of the problem denoted
        if a is None and b is None:
            continue
        if a is not None and b is not None and ci.close(a, b):
            continue
        if key[0] == "data" and key not in t0 and key not in t_exp:
            first = script[0][0] if script else "-"
            sig = {"mechanism": "edit", "class": "spurious-card"}
            return sig, f"the written file has an input {key[1]!r} {_show(b)} that neither the original nor the edited reference has (a value appended behind the end of a line starts in column 1)", len(script)
        if key in touched:
            cls = "not-written" if (t0.get(key) is None and b is None) or (t0.get(key) is not None and b is not None and ci.close(t0[key], b)) else "wrong-value"
            q = ci.QUANTITY_OF_OP[touched.by[key]]
        else:
            cls = "frame-broken"
            q = ".".join(str(x) for x in key if isinstance(x, str))
        ctx = _context(key, place, A, t0)
        sig = {"mechanism": "edit", "class": cls, "quantity": q, "context": ctx}
        return sig, f"{key}: file says {_show(b)}, the edited reference says {_show(a)} (unedited: {_show(t0.get(key))})", len(script)
    return None


def _comments(den):
    out = set()
    for blk in ("cells", "surfaces", "data"):
        for c in den[blk]:
            out |= {x.strip() for x in c["ccomments"]} | {x.strip() for x in c["dollar"]}
    for h in ("head", "surf_head", "data_head"):
        out |= {x.strip() for x in den[h]}
    return out


def _show(x):
    if isinstance(x, Fraction):
        return str(float(x))
    if isinstance(x, (list, tuple)):
        return "[" + " ".join(_show(y) for y in x) + "]"
    return str(x)


# --------------------------------------------------------------------------- correspondence
def model_case(case, res):
    ser = res["ser"]
    return {k: ser[k] for k in ("nodes", "slots", "fields", "impKeys", "counts", "surfKind", "nconst", "probes", "wprobes")} | {"edits": [e for e in case["script"] if e[0] != "addThermal"]}


def _canon_list(xs):
    return [ci.canon_obs(x) for x in xs] if isinstance(xs, list) else xs


def compare_model(case, res, rm):
    """first difference between the model's prediction and the implementation, or None"""
    if "error" in rm:
        return f"driver error: {rm['error']}"
    if not rm["inv"]:
        return "Inv does not hold on the state constructed by the real code (slot/tree aliasing)"
    if _canon_list(rm["alpha0"]) != _canon_list(res["alpha0"]):
        return _first_diff("initial", res["probes"], rm["alpha0"], res["alpha0"])
    if any(e[0] == "addThermal" for e in case["script"]):
        return None
    for k, (st_i, st_m) in enumerate(zip(res["steps"], rm["steps"])):
        if st_i["out"] != st_m["out"]:
            return f"edit {k} {case['script'][k]}: implementation {st_i['out']}, model {st_m['out']}"
        if _canon_list(st_i["alpha"]) != _canon_list(st_m["alpha"]):
            return _first_diff(f"after edit {k} {case['script'][k]}", res["probes"], st_m["alpha"], st_i["alpha"])
    return None


def _first_diff(where, probes, model, impl):
    if not isinstance(impl, list):
        return f"{where}: {impl}"
    for q, a, b in zip(probes, model, impl):
        if ci.canon_obs(a) != ci.canon_obs(b):
            return f"{where}: quantity {q}: model {a}, implementation {b}"
    return f"{where}: lengths differ"


def written_of_table(t1, A, wprobes):
    """the file MontePy wrote, in the keys of the model's `written` table (None = not comparable)"""
    out = []

    def val(x):
        return "absent" if x is None else {"val": {"n": ci.rat(x)}}

    for k in wprobes:
        kind = k[0]
        if kind == "cellNumber":
            out.append(val(t1.get(("cell", k[1], "number"))))
        elif kind == "cellDensity":
            d = t1.get(("cell", k[1], "density"))
            out.append(val(None if d is None else abs(d)))
        elif kind in ("cellVol", "cellLat"):
            v = t1.get(("cell", k[1], "vol" if kind == "cellVol" else "lat", None))
            out.append(val(v[0] if v and isinstance(v[0], Fraction) else None))
        elif kind == "cellImp":
            v = t1.get(("cell", k[1], "imp", k[2]))
            out.append(val(v[0] if v and isinstance(v, list) else None))
        elif kind == "surfNumber":
            out.append(val(t1.get(("surf", k[1], "number"))))
        elif kind == "surfConst":
            c = t1.get(("surf", k[1], "constants"), [])
            out.append(val(c[k[2]] if k[2] < len(c) and isinstance(c[k[2]], Fraction) else None))
        elif kind == "w.cellMaterial":
            out.append(val(t1.get(("cell", k[1], "material"))))
        elif kind == "w.cellDensitySign":
            d = t1.get(("cell", k[1], "density"))
            m = t1.get(("cell", k[1], "material"))
            out.append("absent" if not m or d is None else {"flag": d < 0})
        elif kind == "w.cellU":
            v = t1.get(("cell", k[1], "u", None))
            out.append("absent" if not v else {"int": int(v[0])})
        elif kind == "w.cellFill":
            v = t1.get(("cell", k[1], "fill", None))
            out.append("absent" if not v or not isinstance(v[0], Fraction) else {"int": int(v[0])})
        elif kind == "w.cellFillTr":
            v = t1.get(("cell", k[1], "fill", None))
            if v and len(v) == 4 and v[1] == "(" and isinstance(v[2], Fraction):
                out.append(val(v[2]))
            elif v and len(v) > 1:
                out.append(None)  # an in-line transform: not in the model
            else:
                out.append("absent")
        elif kind == "w.surfModifier":
            m = t1.get(("surf", k[1], "modifier"))
            out.append({"text": m} if m else "absent")
        elif kind == "w.surfPointer":
            out.append(val(t1.get(("surf", k[1], "pointer"))))
        else:
            out.append(None)
    return out


def compare_written(res, rm, den_written, A_end):
    if len(den_written["cells"]) != len(res["A0"]["cell_number"]) or len(den_written["surfaces"]) != len(res["A0"]["surf_number"]):
        return None  # not a problem of G (see judge)
    t1 = ci.table(den_written)
    w = res["ser"]["wprobes"]
    impl = written_of_table(t1, A_end, w)
    last = res["steps"][-1]["alpha"] if res["steps"] and isinstance(res["steps"][-1]["alpha"], list) else res["alpha0"]
    mode = set((last[res["probes"].index(["mode"])].get("strs") or []))
    for k, a, b in zip(w, rm["written"], impl):
        if b is None:
            continue
        if k[0] == "cellImp" and k[2] not in mode:
            continue  # where (and whether) the importances of a particle outside the mode are printed is placement (C09)
        a = ci.canon_obs(a)
        if a == {"val": None}:
            a = "absent"
        # an importance tree of a particle that is not printed, a density of a void cell: the file has nothing
        b = ci.canon_obs(b)
        if a != b and not _num_close(a, b):
            return f"written table: {k}: model {a}, file {b}"
    return None


def _num_close(a, b):
    """the file holds decimal text, the model the exact double: equal within the library tolerance (C05 owns precision)"""
    try:
        x, y = Fraction(*a["val"]["n"]), Fraction(*b["val"]["n"])
    except (TypeError, KeyError):
        return False
    return spec.is_close(x, y)


# --------------------------------------------------------------------------- cases
def base_texts(chk, rng, n):
    out = [(t, 128) for t in TINY]
    for name, text in wholefile.fixtures():
        out.append((wholefile.ascii_clean(text), 128))
    for i in range(n):
        feats = {"transforms", "periodic", "boundary", "universes", "complements", "thermal", "data_placement", "shortcuts", "progressions",
                 "plain_params"}
        gp = genprob.generate(rng, features=feats)
        for c in gp["cells"]:
            # cells marked as not truncated when they are read: u=-n on the cell card or a negative entry of the U input
            if c["u"] is not None and rng.random() < 0.4:
                c["u"] = -c["u"]
        style = "plain" if rng.random() < 0.6 else "random"
        out.append((genprob.render(gp, rng, 128, style), 128))
    return out


def load_corpus():
    d = os.path.join(VERIF, "corpus", "C03")
    out = []
    for f in sorted(os.listdir(d)) if os.path.isdir(d) else []:
        if f.endswith(".json"):
            with open(os.path.join(d, f)) as fh:
                payload = json.load(fh)
            c = payload.get("case", payload)
            c = c.get("case", c)
            if "text" in c and "script" in c:
                out.append({"text": c["text"], "limit": c.get("limit", 128), "script": c["script"], "corpus": f})
    return out


def _gen_case(args):
    import random

    seed, text, limit, n = args
    rng = random.Random(seed)
    script = gen_script(rng, text, limit, n)
    if script is None:
        return None
    return {"text": text, "limit": limit, "script": script}


def _gen_alone(args):
    """a single edit of a kind that is only generated alone (triggers of known findings)"""
    import random
    import warnings

    warnings.simplefilter("ignore")
    seed, text, limit, kind = args
    rng = random.Random(seed)
    with wholefile.Scratch() as sc:
        try:
            p = wholefile.read_text(text, limit, sc)
        except Exception:  # noqa: BLE001
            return None
        es = gen_edit(rng, p, [kind], None, standalone=True)
    return None if es is None else {"text": text, "limit": limit, "script": es}


def _eval(case):
    """impl run + Spec denotations of the two files (in the worker)"""
    res = run_impl(case)
    return res


def _denote(res_list):
    files, idx = [], []
    for i, r in enumerate(res_list):
        if r.get("ok"):
            files.append(r["base"])
            idx.append((i, "den_base"))
            if "written" in r:
                files.append(r["written"])
                idx.append((i, "den_written"))
    dens = spec.denote_many(files, 128) if files else []
    for (i, k), d in zip(idx, dens):
        res_list[i][k] = d


def evaluate(case):
    """whole pipeline for one case in this process (used for confirmation, shrinking and replay)"""
    res = run_impl(case)
    _denote([res])
    if not res.get("ok"):
        return res, None
    v = judge(case, res, res["den_base"], res.get("den_written"))
    return res, v


def _nontrivial(case):
    return len(case["script"]) >= 1


def run(chk):
    chk.rule = (
        "a case is (problem text, script of valid API edits): problems are two tiny hand-written files, MontePy's own fixtures and "
        "generated problems of the core grammar (vlib/genprob, plain and random layouts, per-cell data in either block); scripts of "
        "1-12 valid edits are drawn against the live problem state (new numbers unused, short exactly representable values, 25 % "
        "re-edits of an already edited quantity, composites such as void -> material + density). A case is non-trivial if it has at "
        "least one edit; distinct = distinct canonical JSON."
    )
    chk.assumptions = [
        "matrix FILL and hidden (in-line) fill transforms are not edited; Transform vectors and thermal laws enter the model as flat values",
        "numbers set are short decimals (C05 owns precision); geometry edits (C02), renumbering of unmodelled references such as tallies (C04) and placement switches (C09) are not generated",
        "the nodes _update_values fills from pointees (mat_number, U=, FILL=, surface pointer/modifier) are modelled by the value assigned, not as heap nodes",
        "ValueNode.value's abs() on signed nodes is modelled as the identity (density/fraction validators reject negatives)",
    ]
    chk.trusted_base = [
        "Lean 4.33.0 kernel",
        "Spec/File.lean (independent MCNP-rules reader) as the judge of what a written file denotes",
        "hand-written model lean/MontePyVerif/Model/Edits.lean, tied to the code by the U-setter / U-write correspondence of this run (state serialised from the live objects)",
        "harness tools/props/c03.py + tools/vlib/c03_impl.py (calls the public setters and write_to_file in-process; abstract application of edits to the reference denotation)",
    ]
    leanio.prove(chk, "MontePyVerif.Props.C03", THEOREMS, "MontePyVerif.Edits")
    drv = leanio.Driver(chk, "drv_c03")

    rng = chk.rng("cases")
    nscripts = chk.pick(400, 6000)
    texts = base_texts(chk, chk.rng("problems"), chk.pick(60, 600))
    jobs = []
    for i in range(nscripts):
        r = rng.random()
        text, limit = texts[rng.randrange(len(TINY))] if r < 0.25 else texts[rng.randrange(len(texts))]
        jobs.append((rng.getrandbits(48), text, limit, rng.randint(1, 12)))
    corpus = load_corpus()
    gen = [c for c in pmap(_gen_case, jobs) if c is not None]
    gen += [c for c in pmap(_gen_alone, [(rng.getrandbits(48), t, l, k) for (t, l) in texts[: chk.pick(40, 200)]
                                         for k in ("mainToAux",)]) if c is not None]
    cases = corpus + gen + exhaustive_cases(chk)
    chk.units["U-setter"] = {"corpus": len(corpus), "random_scripts": len(gen), "exhaustive_single_edits": len(cases) - len(corpus) - len(gen)}
    chk.exhaustive = False

    results = pmap(_eval, cases, chunksize=4)
    _denote(results)
    mcases, midx = [], []
    for i, (c, r) in enumerate(zip(cases, results)):
        if r.get("ok") and r.get("ser"):
            mcases.append(model_case(c, r))
            midx.append(i)
    model = drv.batch(mcases) if mcases else []
    model_of = dict(zip(midx, model)) if model is not None else {}

    for i, (case, res) in enumerate(zip(cases, results)):
        chk.note_case({"text": case["text"][:60], "script": case["script"]}, _nontrivial(case), sample_every=500)
        for e in case["script"]:
            chk.count("edit:" + e[0])
        chk.count("script_len:%02d" % len(case["script"]))
        if not res.get("ok"):
            chk.count("skipped:" + res.get("skip", "?"))
            continue
        v = judge(case, res, res["den_base"], res.get("den_written"))
        if v is not None:
            # confirm in this process (a loaded machine must not produce a verdict)
            res2, v2 = evaluate(case)
            if v2 is None or v2[0] != v[0]:
                chk.count("flaky:violation-not-reproduced")
                v = None
            else:
                res = res2
        if v is not None:
            sig, what, upto = v
            chk.count("violation:" + sig["class"])
            mc, what = minimise(case, sig, what)
            chk.violation(full_signature(sig, mc), what, {"case": mc})
            continue
        chk.count("judged-ok")
        rm = model_of.get(i)
        if rm is None:
            if res.get("ser") is None:
                chk.count("model-skip:" + res.get("ser_error", "?")[:40])
            continue
        chk.traces_validated += 1
        d = compare_model(case, res, rm)
        unit = "U-setter (Model/Edits.lean applyEdit/α vs the public setters)"
        if d is None and "den_written" in res and not any(e[0] == "addThermal" for e in case["script"]):
            A = copy.deepcopy(res["A0"])
            d = compare_written(res, rm, res["den_written"], A)
            unit = "U-write (Model/Edits.lean written vs the file MontePy wrote, read by Spec)"
        if d is not None:
            chk.disagreements_checked += 1
            res2, _ = evaluate(case)
            if not res2.get("ok") or not res2.get("ser"):
                chk.count("flaky:disagreement-not-reproduced")
                continue
            rm2 = drv.batch([model_case(case, res2)])[0]
            d2 = compare_model(case, res2, rm2)
            if d2 is None and "den_written" in res2:
                d2 = compare_written(res2, rm2, res2["den_written"], None)
            if d2 is None:
                chk.count("flaky:disagreement-not-reproduced")
                continue
            chk.broken_obligation("correspondence", unit, d2, {"text": case["text"], "limit": case.get("limit", 128), "script": case["script"]})


def minimise(case, sig, what):
    def fails(script):
        c = dict(case, script=script)
        try:
            _, v = evaluate(c)
        except Exception:  # noqa: BLE001
            return False
        return v is not None and v[0] == sig

    script = shrink_list(case["script"], fails)
    best = {"text": case["text"], "limit": case.get("limit", 128), "script": script}
    _, v = evaluate(best)
    if v is not None and v[0] == sig:
        what = v[1]
    return best, what


def full_signature(sig, mc):
    """a write that raises is attributed to the first edit of the minimised script"""
    if sig["class"] == "write-raises" and mc["script"]:
        return dict(sig, quantity=ci.QUANTITY_OF_OP[mc["script"][0][0]])
    return sig


def exhaustive_cases(chk):
    """every edit kind once, alone, on both tiny problems, on every object it applies to (small sub-space, enumerated)"""
    import random

    out = []
    for text in TINY:
        with wholefile.Scratch() as sc:
            p = wholefile.read_text(text, 128, sc)
            n = {"c": len(p.cells), "s": len(p.surfaces)}
        for kind in sorted(set(KINDS)):
            for hint in range(max(n.values())):
                rng = random.Random(hash((kind, hint)) & 0xFFFF)
                with wholefile.Scratch() as sc:
                    p = wholefile.read_text(text, 128, sc)
                    es = gen_edit(rng, p, [kind], hint, standalone=True)
                if es is None:
                    continue
                out.append({"text": text, "limit": 128, "script": es})
        # every cell moved to every universe of the file (the marks the cells were read with are part of the state)
        with wholefile.Scratch() as sc:
            p = wholefile.read_text(text, 128, sc)
            moves = [(i, j) for i in range(len(p.cells)) for j in range(len(p.universes))]
        out += [{"text": text, "limit": 128, "script": [["universe", i, j]]} for i, j in moves]
    # distinct only
    seen, uniq = set(), []
    for c in out:
        k = canon(c)
        if k not in seen:
            seen.add(k)
            uniq.append(c)
    return uniq


def replay(chk, payload):
    case = payload.get("case", {})
    case = case.get("case", case)
    if payload.get("verdict") == "no-failing-input-found":
        case = payload["no_longer_checks"][0]["case"]
    chk.rule = "replay of one stored case"
    drv = leanio.Driver(chk, "drv_c03")
    res, v = evaluate(case)
    chk.note_case({"script": case["script"]})
    if not res.get("ok"):
        chk.add_obligation("replay", True, "case skipped: " + res.get("skip", ""))
        return
    if v is not None:
        chk.violation(full_signature(v[0], case), v[1], {"case": case})
    elif drv.ok and res.get("ser"):
        rm = drv.batch([model_case(case, res)])[0]
        d = compare_model(case, res, rm)
        if d is None and "den_written" in res:
            d = compare_written(res, rm, res["den_written"], None)
        if d is not None:
            chk.broken_obligation("correspondence", "U-setter/U-write", d, case)
    chk.add_obligation("replay", True)
