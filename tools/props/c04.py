"""C04 — renumbering keeps every modelled reference pointing at the same object.

prove       : lean/MontePyVerif/Props/C04.lean + Props/C04Core.lean (end to end from the file read to the file written; look-up is the inverse of "write the pointee's number" by C06's
              invariant; frame theorem; induction over renumbering histories; swap corollary)
correspond  : unit U-links — Model/Renumber.lean (link, setNumber, write) vs MontePy read / number setters /
              write_to_file; the written file is read by the Lean Spec (drv_spec) and compared number by number
judge       : reference graph of the written file (Spec) vs the graph of the original transported along the
              renumbering; own numbers; nothing else changed relative to the unedited write
histories   : number assignments, interleaved with reference-preserving operations that are not number assignments
              (c04lib.NEUTRAL: add_cell_children_to_problem, re-append, geometry edits that add a leaf); model
              Edit/stepE/runE, theorems C04_relink_frame / C04_wf_stepE / C04_history_neutral (Props/C04Neutral.lean);
              write_to_file calls in between (c04lib.WRITE): every file written is judged against the history up to it
              (c04lib.views); model Item/stepW/runW, theorem C04_history_writes
"""

import glob
import json
import os

from vlib import c04lib, genprob, leanio, spec
from vlib.core import VERIF, canon
from vlib.par import pmap, shrink_list

META = {
    "property_id": "C04",
    "technique": "Lean 4 proof: refinement of the written file to an object graph (look-up inverse by C06's invariant), induction over renumbering histories; differential correspondence model vs implementation through the Lean Spec reader",
    "design_ref": "6 C04",
}

THEOREMS = [
    "C04_end_to_end",
    "C04_link_establishes_wf",
    "C04_unedited_roundtrip",
    "C04_roundtrip_literal_partial",
    "C04_roundtrip_literal_refuted",
    "C04_wellFormedB_sound",
    "C04_resolve",
    "C04_resolve_universe",
    "C04_only",
    "C04_wf_step",
    "C04_history",
    "C04_history_universe",
    "C04_swap",
    "C04_link_wf",
    "C04_relink_frame",
    "C04_wf_stepE",
    "C04_history_neutral",
    "C04_history_writes",
]

FEATURES = {"transforms", "periodic", "boundary", "universes", "complements", "thermal", "data_placement", "shortcuts", "message"}

# one small problem with every one of the nine reference sites and shared targets
SMALL = """all nine sites
1 1 -1.0 -1 2 #3 imp:n=1 fill=5 (3)
2 0 1:-2 #1 imp:n=1 fill=6
3 2 -2.0 -3 imp:n=1 u=5
4 0 -3 1 imp:n=1 u=-6

1 3 pz 1
2 -4 pz 2
3 so 3
4 -2 pz 9

m1 1001.80c 1.0
mt1 lwtr.23t
m2 8016.80c 1.0
tr3 1 2 3
tr7 4 5 6
mode n
nps 100
"""

SMALL_DATA = """per-cell data in the data block
1 1 -1.0 -1 2 #3
2 0 1:-2 #1
3 2 -2.0 -3
4 0 -3 1
5 0 3 -2

1 pz 1
2 pz 2
3 so 3

m1 1001.80c 1.0
mt1 lwtr.23t
m2 8016.80c 1.0
mt2 grph.20t
imp:n 1 1 1 1 0
u 2j 5 -6
fill 5 6 2j 5
mode n
nps 100
"""

SMALL_LAT = """lattice fill
1 0 -1 2 imp:n=1 lat=1 fill=0:1 0:0 0:0 5 6
2 0 1:-2 imp:n=1 *fill=5 (1 2 3)
3 0 -3 imp:n=1 u=5 fill=7 (3)
4 0 -4 imp:n=1 u=6 fill=7
5 0 -4 imp:n=1 u=7

1 pz 1
2 pz 2
3 so 3
4 cz 1

tr3 1 2 3
mode n
nps 100
"""


# numbers of different kinds coincide everywhere: cell 5 / surface 5 / material 5 / transform 5 / universe 5 ...
SMALL_COINCIDE = """coinciding numbers
5 5 -1.0 -5 6 imp:n=1 fill=5 (5) trcl=5
6 6 -2.0 5 -6 #5 imp:n=1 fill=6 ( 6 )
7 0 -7 imp:n=1 fill=6 (5)
8 0 -5 imp:n=1 u=5
9 0 -6 imp:n=1 u=6
10 0 7 imp:n=0 lat=1 fill=0:1 0:0 0:0 5 6 (6)

5 5 pz 1
6 -7 pz 2
7 -6 pz 9

m5 1001.80c 1.0
mt5 lwtr.23t
m6 8016.80c 1.0
tr5 1 2 3
tr6 4 5 6
mode n
nps 100
"""


def _move_mt(text, rng):
    """MT cards may stand anywhere in the data block (plain layout: one card per line unless continued by 5 blanks)"""
    lines = text.split("\n")
    blanks = [i for i, l in enumerate(lines) if l.strip() == ""]
    if len(blanks) < 3:
        return text
    lo, hi = blanks[1] + 1, blanks[2]
    data = lines[lo:hi]
    mts = [i for i, l in enumerate(data) if l[:2].lower() == "mt" and (i + 1 == len(data) or data[i + 1][:1].strip())]
    for i in mts:
        if rng.random() < 0.6:
            continue
        card = data[i]
        rest = data[:i] + data[i + 1:]
        starts = [j for j, l in enumerate(rest) if l[:1].strip()] + [len(rest)]
        j = rng.choice(starts)
        data = rest[:j] + [card] + rest[j:]
    return "\n".join(lines[:lo] + data + lines[hi:])


def _corpus():
    out = []
    for f in sorted(glob.glob(os.path.join(VERIF, "corpus", "C04", "*.json"))):
        with open(f) as fh:
            d = json.load(fh)
        c = d.get("case", d)
        c = c.get("case", c)
        if "text" in c and "ops" in c:
            out.append(({"text": c["text"], "limit": c.get("limit", 128), "ops": c["ops"]}, "corpus:" + os.path.basename(f)))
    return out


def _exhaustive(text, nf0, depth, kinds):
    """all histories up to `depth` assignments inside one kind over (object x {numbers in use, one free, 0})"""
    nums = c04lib.own_numbers(nf0)
    for k in kinds:
        handles = list(nums["univ"]) if k == "univ" else list(range(len(nums[k])))
        alphabet = sorted(set(nums[k]))[:3] + [max(nums[k]) + 1, 0]
        single = [[k, h, n] for h in handles for n in alphabet]

        def rec(prefix, d):
            if prefix:
                yield prefix
            if d == 0:
                return
            for op in single:
                yield from rec(prefix + [op], d - 1)

        for ops in rec([], depth):
            yield {"text": text, "limit": 128, "ops": ops}


def _swap_then_neutral(text, nf0, rng):
    """every swap through a temporary inside one kind, then one operation that is not a number assignment, then the write"""
    nums = c04lib.own_numbers(nf0)
    ncell, nsurf = len(nf0["cells"]), len(nf0["surfs"])
    for k in ("surf", "tr", "mat", "cell", "univ"):
        handles = list(nums["univ"]) if k == "univ" else list(range(len(nums[k])))
        for ia in range(len(handles)):
            for ib in range(ia + 1, len(handles)):
                a, b = handles[ia], handles[ib]
                na, nb = nums[k][ia], nums[k][ib]
                swap = [[k, a, 9000 + na], [k, b, na], [k, a, nb]]
                tails = [["relink", 0, 0], ["reappend:" + (k if k in ("cell", "surf", "tr") else "surf"), 0, 0]]
                for _ in range(2):
                    s = rng.choice([a, b]) if k == "surf" else rng.randrange(nsurf)
                    tails.append([rng.choice(["geom+", "geom-"]), rng.randrange(ncell), s])
                for t in tails:
                    yield {"text": text, "limit": 128, "ops": swap + [t]}


def _judge_views(case, res, den0, denb, den1, mid_dens):
    """the oracle on EVERY file the history writes (c04lib.views): the files of the intermediate writes first, in order, each
    against the history up to it, then the last file against the whole history.  mid_dens[j] = (Spec reading of what the run
    without renumberings wrote at write j, Spec reading of the file written at write j or None)"""
    for vc, vr, tag in c04lib.views(case, res):
        if tag is None:
            return c04lib.judge(vc, vr, den0, denb, den1)
        if tag >= len(mid_dens):
            continue
        mb, m1 = mid_dens[tag]
        if c04lib.out_of_scope(vc, vr, den0, mb) is not None:
            continue
        v = c04lib.judge(vc, vr, den0, mb, m1)
        if v is not None:
            return v[0], f"file written by the intermediate write #{tag} (after {len(vc['ops'])} operations): " + v[1]
    return None


def _mid_texts(res):
    """[(text the run without renumberings wrote at write j, text written at write j or None)]"""
    return [(b["text"], m["text"]) for b, m in zip(res.get("base_mids", []), res.get("mids", []))]


def _across_writes(text, nf0):
    """on a small problem, for every kind and every ordered pair (a, b) of its objects, histories carried out across writes:
    a leaves its number, WRITE, a returns, b takes the number a just left (undo + hand-on);  a swap through a temporary with a
    write after each of its three assignments;  and a alone there, WRITE, and back"""
    nums = c04lib.own_numbers(nf0)
    w = [c04lib.WRITE, 0, 0]
    for k in ("mat", "surf", "tr", "cell", "univ"):
        handles = list(nums["univ"]) if k == "univ" else list(range(len(nums[k])))
        for ia in range(len(handles)):
            a, na = handles[ia], nums[k][ia]
            tmp = 9000 + na
            yield {"text": text, "limit": 128, "ops": [[k, a, tmp], w, [k, a, na]]}
            for ib in range(len(handles)):
                if ib == ia:
                    continue
                b, nb = handles[ib], nums[k][ib]
                yield {"text": text, "limit": 128, "ops": [[k, a, tmp], w, [k, a, na], [k, b, tmp]]}
                if ia < ib:
                    yield {"text": text, "limit": 128, "ops": [[k, a, tmp], w, [k, b, na], w, [k, a, nb]]}


def _one(case, den0=None):
    """run one case completely in this process: impl, Spec readings, verdict (used for confirmation, shrinking, replay)"""
    res = c04lib.run_impl(case)
    if res["read"] != "ok":
        return res, None, c04lib.judge_unwritable(case, res)
    texts = [case["text"], res["baseline"]] + ([res["written"]] if res["written"] is not None else [])
    mids = _mid_texts(res)
    flat = [t for pair in mids for t in pair if t is not None]
    alld = spec.denote_many(texts + flat, case["limit"])
    dens, rest = alld[:len(texts)], alld[len(texts):]
    mid_dens, k = [], 0
    for b, m in mids:
        db_ = rest[k]
        k += 1
        dm_ = None
        if m is not None:
            dm_ = rest[k]
            k += 1
        mid_dens.append((db_, dm_))
    res["_mid_dens"] = mid_dens
    den1 = dens[2] if len(dens) > 2 else None
    if c04lib.out_of_scope(case, res, dens[0], dens[1]) is not None:
        return res, dens, None
    return res, dens, _judge_views(case, res, dens[0], dens[1], den1, mid_dens)


def _model_request(case, nf0):
    return {"file": nf0, "ops": case["ops"]}


def _compare(case, res, den1, rm, mid_dens=()):
    """canonical difference between the model's prediction and the real code, or None"""
    # the files of the intermediate writes: the model's write of the state at that point
    if rm.get("link") == "ok":
        for j, ((_, dm), mf) in enumerate(zip(mid_dens, rm.get("mids", []))):
            if dm is None:
                continue
            try:
                a, b = c04lib.project(c04lib.extract(dm)[0]), c04lib.project(mf)
            except c04lib.NotInScope as e:
                return {"what": f"file of the intermediate write #{j} not addressable: {e}"}
            if a != b:
                key = next(k for k in a if a[k] != b[k])
                return {"what": f"numbers of the file written by the intermediate write #{j} differ at {key}", "impl": a[key], "model": b[key]}
    if rm.get("link") != "ok":
        return {"what": "model cannot link a file MontePy reads" + (" although it is WellFormed (contradicts C04_end_to_end)" if rm.get("wellFormed") else ""), "model": rm}
    if res["outs"] != rm["outs"]:
        return {"what": "setter outcomes differ", "impl": res["outs"], "model": rm["outs"]}
    api = res["numbers"]
    mn = rm["numbers"]
    for k in ("cell", "surf", "mat", "tr"):
        if api[k] != mn[k]:
            return {"what": f"{k} numbers differ", "impl": api[k], "model": mn[k]}
    if sorted(map(tuple, api["univ"])) != sorted(map(tuple, mn["univ"])):
        return {"what": "universe numbers differ", "impl": api["univ"], "model": mn["univ"]}
    if den1 is None:
        return None
    try:
        nf1, _ = c04lib.extract(den1)
    except c04lib.NotInScope as e:
        return {"what": f"written file not addressable: {e}"}
    a, b = c04lib.project(nf1), c04lib.project(rm["file"])
    if a != b:
        for key in a:
            if a[key] != b[key]:
                if isinstance(a[key], list) and len(a[key]) == len(b[key]):
                    for i, (x, y) in enumerate(zip(a[key], b[key])):
                        if x != y:
                            return {"what": f"written numbers differ at {key}[{i}]", "impl": x, "model": y}
                return {"what": f"written numbers differ at {key}", "impl": a[key], "model": b[key]}
    return None


def run(chk):
    chk.rule = (
        "a case is (problem text, renumbering history): texts are generated problems of the core grammar (genprob: transforms, "
        "periodic pairs, universes/fills incl. fill transforms, complements, MT cards, per-cell data in either block; plain and "
        "random layouts), MontePy's own fixtures, three hand-written problems with all nine reference sites, and the corpus; "
        "histories are single assignments, shifts, shift of everything, permutations through temporaries, swaps through a temporary, "
        "renumber-then-restore, rotations inside a kind, rejected assignments (number in use, 0, negative), one number migrating through "
        "all kinds, and 'coincide' (an object whose number is also carried by another kind is renumbered / swapped / rotated while the "
        "other kind keeps the number; every third generated problem draws the numbers of all kinds from one small pool), over "
        "cells, surfaces, materials, transforms and universes; and the same histories with operations that are not number assignments "
        "and take no reference away interleaved and (mostly) placed between the last renumbering and the write: "
        "problem.add_cell_children_to_problem(), the last member of problem.cells/surfaces/transforms removed and appended again, "
        "cell.geometry = cell.geometry & +surface / & -surface / & ~cell (the 'before' of such a case is the problem with these operations "
        "alone); on the four small problems every swap inside a kind followed by each kind of such operation; and histories with "
        "problem.write_to_file() calls in between (an object leaves its number, WRITE, returns to it; the number just left is handed on to another "
        "object of the kind; swaps / rotations / permutations in stages with a write after each stage; writes at random places of every other "
        "pattern; everything +1000, WRITE, and back): EVERY file written is judged against the history up to that write and compared with the "
        "model's write of the state at that point; on the four small problems every return / hand-on / staged swap across writes for every kind "
        "and (ordered) pair of objects. Non-trivial = at least one assignment was accepted and the problem "
        "has at least one modelled reference; distinct = distinct (text, history)."
    )
    chk.assumptions = [
        "universe 0 (the real world) is never renumbered: MontePy accepts it and then writes u=n on every top-level cell; the property's quantifier is read as excluding it",
        "references MontePy does not model (TRCL=n, tally bins, SDEF cel=) are outside the property",
        "the model's number cache starts empty after linking (under C06's invariant look-ups do not depend on the cache)",
        "the MT card of a material is associated with it by equality of numbers (MCNP's rule) before the model links it",
    ]
    chk.trusted_base = [
        "Lean 4.33.0 kernel",
        "Spec/File.lean (independent MCNP reader) as the judge of what a written file denotes",
        "hand-written model lean/MontePyVerif/Model/Renumber.lean + Model/Collection.lean, tied to the code by the U-links correspondence of this run",
        "harness tools/props/c04.py, tools/vlib/c04lib.py (calls montepy.read_input, the number setters and write_to_file in-process)",
    ]
    leanio.prove(chk, "MontePyVerif.Props.C04", THEOREMS, "MontePyVerif.Renumber")
    if chk.thorough:
        leanio.leanchecker(chk, ["MontePyVerif.Props.C04Core", "MontePyVerif.Props.C04Neutral", "MontePyVerif.Props.C04"])
    drv = leanio.Driver(chk, "drv_c04")

    # ------------------------------------------------------------------ texts
    texts = [("small:all-sites", SMALL, 128), ("small:data-block", SMALL_DATA, 128), ("small:lattice", SMALL_LAT, 128),
             ("small:coincide", SMALL_COINCIDE, 128)]
    from vlib.wholefile import fixtures, ascii_clean

    for name, t in fixtures():
        texts.append(("fixture:" + name, ascii_clean(t), 128))
    rng = chk.rng("problems")
    ngen = chk.pick(400, 2600)
    for i in range(ngen):
        feats = set(FEATURES)
        if i % 3 == 0:
            feats -= {"data_placement"}
        if i % 4 == 1:
            feats |= {"lattice"}
        if i % 3 == 2:
            # one small pool for the numbers of all kinds: fill=5 (5), `5 5 -1.0 -5 u=5`, matrix entry == transform number ...
            feats |= {"shared_numbers", "trcl"}
            if i % 2:
                feats |= {"lattice"}
        gp = genprob.generate(rng, features=feats)
        limit = 80 if i % 5 == 0 else 128
        style = "random" if i % 2 else "plain"
        text = genprob.render(gp, rng, limit, style)
        if style == "plain" and i % 3 != 1:
            text = _move_mt(text, rng)
        texts.append((f"gen:{i}", text, limit))
    dens0 = spec.denote_many([t for _, t, _ in texts if True], 128)
    # the column limit matters for the reading: re-read the 80-column ones with their limit
    idx80 = [i for i, (_, _, l) in enumerate(texts) if l == 80]
    for i, d in zip(idx80, spec.denote_many([texts[i][1] for i in idx80], 80)):
        dens0[i] = d

    # ------------------------------------------------------------------ cases
    cases, origin, case_den0 = [], [], []
    for c, name in _corpus():
        cases.append(c)
        origin.append(name)
        case_den0.append(None)
    ncorpus = len(cases)
    hr = chk.rng("histories")
    per_text = chk.pick(3, 4)
    hr2 = chk.rng("histories-neutral")
    per_neutral = chk.pick(2, 3)
    hr3 = chk.rng("histories-writes")
    per_writes = chk.pick(2, 3)
    nf_of = {}
    for ti, ((name, text, limit), d0) in enumerate(zip(texts, dens0)):
        try:
            nf0, mts0 = c04lib.extract(d0)
        except c04lib.NotInScope:
            chk.count("text:not-addressable")
            continue
        if not nf0["cells"] or not nf0["surfs"]:
            chk.count("text:empty-block")
            continue
        nf_of[ti] = nf0
        k = per_text * (4 if name.startswith("small:") else 1)
        for _ in range(k):
            ops, pattern = c04lib.gen_history(hr, nf0)
            if not ops:
                continue
            cases.append({"text": text, "limit": limit, "ops": ops})
            origin.append(name.split(":")[0] + ":" + pattern)
            case_den0.append(d0)
        # the same with reference-preserving operations that are not number assignments between the renumberings and the write
        for _ in range(per_neutral * (4 if name.startswith("small:") else 1)):
            ops, pattern = c04lib.gen_history_neutral(hr2, nf0)
            if not ops:
                continue
            cases.append({"text": text, "limit": limit, "ops": ops})
            origin.append(name.split(":")[0] + ":" + pattern)
            case_den0.append(d0)
        # renumbering histories with writes in between: every file written is judged
        for _ in range(per_writes * (4 if name.startswith("small:") else 1)):
            ops, pattern = c04lib.gen_history_writes(hr3, nf0)
            if not ops:
                continue
            cases.append({"text": text, "limit": limit, "ops": ops})
            origin.append(name.split(":")[0] + ":" + pattern.split(":")[0])
            case_den0.append(d0)
    nrandom = len(cases) - ncorpus
    exh = []
    for ti in (0, 1, 2, 3):
        if ti in nf_of:
            kinds = ["cell", "surf", "mat", "tr", "univ"]
            exh += list(_exhaustive(texts[ti][1], nf_of[ti], chk.pick(1, 2), [k for k in kinds if c04lib.own_numbers(nf_of[ti])[k]]))
    if not chk.thorough:
        # quick: all single assignments, and all pairs inside one kind for the all-sites problem's cells and universes
        exh += [c for c in _exhaustive(SMALL, nf_of[0], 2, ["univ", "tr"]) if len(c["ops"]) == 2]
        exh += [c for c in _exhaustive(SMALL_COINCIDE, nf_of[3], 2, ["univ", "tr"]) if len(c["ops"]) == 2]
    # every swap inside a kind on the small problems, followed by every kind of reference-preserving operation
    for ti in (0, 1, 2, 3):
        if ti in nf_of:
            exh += list(_swap_then_neutral(texts[ti][1], nf_of[ti], chk.rng(f"swap-neutral:{ti}")))
    # ... and every return / hand-on / staged swap across intermediate writes
    for ti in (0, 1, 2, 3):
        if ti in nf_of:
            exh += list(_across_writes(texts[ti][1], nf_of[ti]))
    for c in exh:
        cases.append(c)
        origin.append("exhaustive")
        case_den0.append(dens0[[t for _, t, _ in texts].index(c["text"])])
    chk.units["U-links"] = {"corpus": ncorpus, "random": nrandom, "exhaustive_small": len(exh), "texts": len(texts)}
    chk.exhaustive = False

    # ------------------------------------------------------------------ run: real code, Spec, model
    impl = pmap(c04lib.run_impl, cases, chunksize=4)
    need = []  # texts the Spec must read: per case baseline + written (+ original for corpus cases)
    slots = []
    for i, (c, r) in enumerate(zip(cases, impl)):
        if r["read"] != "ok":
            slots.append(None)
            continue
        s = {}
        for key, t in (("orig", c["text"] if case_den0[i] is None else None), ("base", r["baseline"]), ("written", r["written"])):
            if t is not None:
                s[key] = len(need)
                need.append((t, c["limit"]))
        s["mids"] = []
        for tb, tm in _mid_texts(r):
            pair = []
            for t in (tb, tm):
                pair.append(None if t is None else len(need))
                if t is not None:
                    need.append((t, c["limit"]))
            s["mids"].append(pair)
        slots.append(s)
    dens = [None] * len(need)
    for limit in (80, 128):
        ids = [i for i, (_, l) in enumerate(need) if l == limit]
        uniq = {}
        for i in ids:
            uniq.setdefault(need[i][0], []).append(i)
        for t, d in zip(uniq, spec.denote_many(list(uniq), limit)):
            for i in uniq[t]:
                dens[i] = d

    model_in, model_idx = [], []
    nf0s = {}
    for i, (c, r) in enumerate(zip(cases, impl)):
        if slots[i] is None:
            continue
        d0 = case_den0[i] if case_den0[i] is not None else dens[slots[i]["orig"]]
        try:
            nf0s[i] = c04lib.extract(d0)[0]
        except c04lib.NotInScope:
            continue
        model_in.append(_model_request(c, nf0s[i]))
        model_idx.append(i)
    model_out = drv.batch(model_in)
    model = dict(zip(model_idx, model_out)) if model_out is not None else {}

    # C04_end_to_end says: a file that is WellFormed (Spec/Refs.lean: wellFormedB) always links.  Files MontePy
    # refuses with a link error must therefore not be well-formed.
    seen_text = set()
    for i, (c, r) in enumerate(zip(cases, impl)):
        if r["read"] in ("BrokenObjectLinkError", "KeyError") and case_den0[i] is not None and c["text"] not in seen_text:
            seen_text.add(c["text"])
            try:
                nf = c04lib.extract(case_den0[i])[0]
            except c04lib.NotInScope:
                continue
            out = drv.batch([{"file": nf, "ops": []}])
            if out is not None:
                chk.count("link-refused:well-formed" if out[0].get("wellFormed") else "link-refused:not-well-formed")
                if out[0].get("wellFormed"):
                    chk.broken_obligation("correspondence", "U-links: MontePy refuses to link a file that satisfies WellFormed (C04_end_to_end: link succeeds)",
                                          {"read": r["read"]}, dict(c, ops=[]))

    for i, (c, r) in enumerate(zip(cases, impl)):
        chk.count("origin:" + origin[i])
        if r["read"] != "ok":
            chk.count("read:" + r["read"])
            chk.note_case({"text": c["text"], "ops": c["ops"]}, False)
            v = c04lib.judge_unwritable(c, r)
            if v is not None:
                r2, _, v = _one(c)  # confirm in this process
                if v is None:
                    chk.count("flaky:violation-not-reproduced")
                else:
                    mc = dict(c, ops=[])
                    if canon(v[0]) not in {x["key"] for x in chk.violations} and len(chk.violations) < 6:
                        mc = dict(mc, text=c04lib.shrink_text(c["text"], lambda t, v=v: (_one(dict(mc, text=t))[2] or (None,))[0] == v[0], budget=40))
                    chk.violation(v[0], v[1], {"case": mc, "error": r2.get("baseline_error")})
            continue
        d0 = case_den0[i] if case_den0[i] is not None else dens[slots[i]["orig"]]
        db = dens[slots[i]["base"]]
        d1 = dens[slots[i]["written"]] if "written" in slots[i] else None
        mid_dens = [(dens[a], None if b is None else dens[b]) for a, b in slots[i]["mids"]]
        why = c04lib.out_of_scope(c, r, d0, db)
        if why is not None:
            chk.count("skip:" + why)
            chk.note_case({"text": c["text"], "ops": c["ops"]}, False)
            continue
        accepted = sum(1 for op, o in zip(c["ops"], r["outs"]) if o == "ok" and c04lib.is_number_op(op))
        for (k, _, _), o in zip(c["ops"], r["outs"]):
            chk.count(f"op:{k}:{o}")
        if any(not c04lib.is_number_op(op) for op in c["ops"]):
            chk.count("history:with-reference-preserving-operations")
            seen_num = False
            for op in c["ops"]:
                seen_num = seen_num or c04lib.is_number_op(op)
                if seen_num and not c04lib.is_number_op(op):
                    chk.count("neutral-after-renumbering:" + op[0])
            # a write between two renumberings of the same kind (the file of that moment is judged, and whatever the write
            # leaves behind in the objects is in front of the next renumbering)
            ks = [op[0] for op in c["ops"]]
            if any(k == c04lib.WRITE and any(c04lib.is_number_op(o) for o in c["ops"][:j]) and any(c04lib.is_number_op(o) for o in c["ops"][j + 1:])
                   for j, k in enumerate(ks)):
                chk.count("history:write-between-renumberings")
        nsites = len(c04lib.sites(nf0s[i], [])) if i in nf0s else 0
        if i in nf0s:
            for name, _, _ in c04lib.sites(nf0s[i], []).values():
                chk.count("site:" + name)
            chk.count("site:mt-card", sum(1 for m in nf0s[i]["mats"] if m["mt"] is not None))
            chk.count("site:fill-matrix-entry", sum(len(x["fill"]) for x in nf0s[i]["cells"] if len(x["fill"]) > 1))
            # coincidences between independent number spaces (what a by-value search in the code would trip over)
            chk.count("coincide:fill-universe==fill-transform", sum(1 for x in nf0s[i]["cells"] if x["fillTr"] is not None and x["fillTr"] in x["fill"]))
            own = c04lib.own_numbers(nf0s[i])
            chk.count("coincide:numbers-shared-by-two-kinds", sum(1 for n in set().union(*map(set, own.values())) if sum(1 for k in own if n in own[k]) >= 2))
        chk.note_case({"text": c["text"], "ops": c["ops"]}, accepted > 0 and nsites > 0, sample_every=400)
        chk.count("written-files-judged", 1 + len(mid_dens))
        verdict = _judge_views(c, r, d0, db, d1, mid_dens)
        if verdict is not None:
            # confirm in this process before reporting (a loaded machine must not produce a verdict)
            r2, dens2, verdict = _one(c)
            if verdict is None:
                chk.count("flaky:violation-not-reproduced")
        if verdict is not None:
            sig, what = verdict
            chk.count("violation-origin:" + origin[i])
            # minimise the first case of every signature only (all cases fail when a reference site is broken)
            seen = canon(sig) in {v["key"] for v in chk.violations} or any(
                all(sig.get(k) == v for k, v in f["signature"].items()) for f in chk.known)
            mc = _shrink(c, sig) if (not seen and len(chk.violations) < 6) else c
            r3, _, v3 = _one(mc)
            chk.violation(sig, what if v3 is None else v3[1], {"case": mc, "written": r3.get("written"), "baseline": r3.get("baseline"), "outs": r3.get("outs"),
                                                                       "intermediate_files": [m["text"] for m in r3.get("mids", [])]})
            continue  # the state is corrupt: do not compare the rest of this case with the model
        if i in model:
            chk.traces_validated += 1
            # the hypothesis of C04_end_to_end, decided by the Lean Spec on this very file
            chk.count("hypothesis:well-formed" if model[i].get("wellFormed") else "hypothesis:NOT-well-formed")
            diff = _compare(c, r, d1, model[i], mid_dens)
            if diff is not None:
                chk.disagreements_checked += 1
                r2, dens2, _ = _one(c)
                d1b = dens2[2] if dens2 is not None and len(dens2) > 2 else None
                diff = _compare(c, r2, d1b, drv.batch([_model_request(c, nf0s[i])])[0], r2.get("_mid_dens", ())) if r2["read"] == "ok" else None
                if diff is None:
                    chk.count("flaky:disagreement-not-reproduced")
                    continue

                def differs(ops, c=c, i=i):
                    cc = dict(c, ops=ops)
                    rr, dd, _ = _one(cc)
                    if rr["read"] != "ok":
                        return False
                    return _compare(cc, rr, dd[2] if len(dd) > 2 else None, drv.batch([_model_request(cc, nf0s[i])])[0], rr.get("_mid_dens", ())) is not None

                ops = shrink_list(c["ops"], differs) if len(chk.broken) < 3 else c["ops"]
                mc = dict(c, ops=ops)
                chk.broken_obligation("correspondence", "U-links (Model/Renumber.lean vs MontePy read/number setters/write_to_file)", diff, mc)


def _shrink(case, sig):
    def fails_ops(ops):
        c = dict(case, ops=ops)
        _, _, v = _one(c)
        return v is not None and v[0] == sig

    ops = shrink_list(case["ops"], fails_ops)
    case = dict(case, ops=ops)

    def fails_text(text):
        c = dict(case, text=text)
        try:
            r, _, v = _one(c)
        except Exception:  # noqa: BLE001  (a mutilated text may be outside what the harness addresses)
            return False
        return r["read"] == "ok" and "no-such-object" not in r["outs"] and v is not None and v[0] == sig

    # dropping a card shifts object indices: only keep a drop if the same signature still fails
    return dict(case, text=c04lib.shrink_text(case["text"], fails_text, budget=40))


def replay(chk, payload):
    case = payload.get("case", payload)
    case = case.get("case", case)
    if payload.get("verdict") == "no-failing-input-found":
        case = payload["no_longer_checks"][0]["case"]
    chk.rule = "replay of one stored case"
    drv = leanio.Driver(chk, "drv_c04")
    r, dens, v = _one(case)
    chk.note_case({"text": case["text"], "ops": case["ops"]})
    if r["read"] != "ok":
        chk.count("read:" + r["read"])
        if v is not None:
            chk.violation(v[0], v[1], {"case": case, "error": r.get("baseline_error")})
    elif v is not None:
        chk.violation(v[0], v[1], {"case": case, "written": r.get("written"), "baseline": r.get("baseline"), "outs": r.get("outs")})
    elif drv.ok:
        try:
            nf0 = c04lib.extract(dens[0])[0]
            diff = _compare(case, r, dens[2] if len(dens) > 2 else None, drv.batch([_model_request(case, nf0)])[0], r.get("_mid_dens", ()))
            if diff is not None:
                chk.broken_obligation("correspondence", "U-links", diff, case)
        except c04lib.NotInScope:
            pass
    chk.add_obligation("replay", True)
